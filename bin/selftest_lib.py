"""Shared driver of bin/mutants and bin/refactors: applies each entry of <kind>/<CNN>.json as an
in-memory go/packages Overlay of the tree under test (no scratch copy on disk) and runs the
property's quick rules on it. Entries run in parallel (VERIF_JOBS, default 4)."""
import json, os, subprocess, sys, tempfile
from concurrent.futures import ThreadPoolExecutor

def run(kind):
    here = os.path.dirname(os.path.dirname(os.path.abspath(__file__)))
    repo = os.environ.get('VERIF_REPO', '/repo')
    prop = sys.argv[1]
    flt = sys.argv[2] if len(sys.argv) > 2 else ''
    path = os.path.join(here, kind, prop + '.json')
    if not os.path.exists(path):
        print(f"self-test {prop}: no {kind} file"); sys.exit(0)
    entries = [m for m in json.load(open(path)) if not flt or flt in m['name']]
    subprocess.run([os.path.join(here, 'bin', 'check'), 'list'], capture_output=True)  # rebuilds the checker if its sources changed
    lint = os.path.join(here, 'bin', 'murexlint')
    alarm = ('VIOLATION:', 'UNDECIDED:', 'ANCHOR-LOST:')
    keyof = lambda l: l.split(' at ')[0]
    baseline = set()
    if kind == 'refactors':
        bp = subprocess.run([lint, '-repo', repo, '-verif', here, '-noevidence', prop, 'quick'], capture_output=True, text=True)
        baseline = {keyof(l) for l in bp.stdout.splitlines() if l.startswith(alarm)}
    good, other, bad = ('caught', 'caught-other', 'MISSED') if kind == 'mutants' else ('FIRED', 'FIRED-other', 'silent')

    def one(m):
        ovs, tmps, srcs = [], [], {}
        for e in (m.get('edits') or [m]):  # several edits on one file apply one after the other to the same text
            src = srcs.get(e['file'])
            if src is None:
                try:
                    src = open(os.path.join(repo, e['file'])).read()
                except OSError as ex:
                    return (m['name'], 'skipped', str(ex))
            k = src.count(e['old'])
            if k == 0 or (k != 1 and not e.get('all')):
                return (m['name'], 'skipped', f"old text occurs {k}x in {e['file']}")
            srcs[e['file']] = src.replace(e['old'], e['new'])
        for f, src in srcs.items():
            t = tempfile.NamedTemporaryFile('w', suffix='.go', delete=False)
            t.write(src); t.close(); tmps.append(t.name); ovs.append(f"{f}={t.name}")
        try:
            p = subprocess.run([lint, '-repo', repo, '-verif', here, '-noevidence', '-overlay', ','.join(ovs), prop, 'quick'],
                               capture_output=True, text=True, timeout=int(os.environ.get('VERIF_SELFTEST_TIMEOUT', '1800')))
        except subprocess.TimeoutExpired:
            return (m['name'], 'error', 'checker timed out')
        finally:
            for t in tmps: os.unlink(t)
        fired = [l for l in p.stdout.splitlines() if l.startswith(alarm) and keyof(l) not in baseline]
        exp = m.get('expect', '')
        hit = [l for l in fired if exp in l]
        if p.returncode == 2:
            return (m['name'], 'error', (p.stderr.strip().splitlines() or ['?'])[-1][:200])
        if kind == 'refactors' and m.get('expect_fire') and fired:
            return (m['name'], 'documented', 'fires as documented (vacuity guard / out-of-scope rewrite): ' + fired[0][:160])
        if hit: return (m['name'], good, hit[0][:200])
        if fired: return (m['name'], other, fired[0][:200])
        return (m['name'], bad, exp)

    with ThreadPoolExecutor(max_workers=int(os.environ.get('VERIF_JOBS', '4'))) as ex:
        res = list(ex.map(one, entries))
    n = {k: sum(1 for r in res if r[1] == k) for k in (good, other, bad, 'skipped', 'error')}
    if any(r[1] == 'documented' for r in res): n['documented'] = sum(1 for r in res if r[1] == 'documented')
    for r in res: print(f"self-test {prop} {r[1]:12s} {r[0]}: {r[2]}")
    print(f"self-test {prop}: {n}")
    os.makedirs(os.path.join(here, 'reports'), exist_ok=True)
    out = f'{prop}-selftest.json' if kind == 'mutants' else f'{prop}-refactors.json'
    json.dump({'property': prop, 'results': res, 'summary': n}, open(os.path.join(here, 'reports', out), 'w'), indent=1)
