#!/usr/bin/env python3
"""refactor-silence test: behaviour-preserving rewrites must not add findings.
usage: equiv.py CNN  (reads mutants/CNN-equiv.json; compares fired keys with the baseline run)"""
import json, os, subprocess, sys, tempfile
here=os.path.dirname(os.path.abspath(__file__)); repo=os.environ.get('VERIF_REPO','/repo'); prop=sys.argv[1]
def run(ov):
    a=[os.path.join(here,'bin','murexlint'),'-repo',repo,'-verif',here,'-noevidence']
    if ov: a+=['-overlay',ov]
    p=subprocess.run(a+[prop,'quick'],capture_output=True,text=True)
    if p.returncode==2: return None,p.stderr.strip().splitlines()[-1]
    return set(l.split(' at ')[0] for l in p.stdout.splitlines() if l.startswith(('VIOLATION:','UNDECIDED:','ANCHOR-LOST:'))),''
base,_=run('')
bad=0
for m in json.load(open(os.path.join(here,'mutants',prop+'-equiv.json'))):
    src=open(os.path.join(repo,m['file'])).read()
    if src.count(m['old'])!=1: print('skipped',m['name'],src.count(m['old'])); continue
    t=tempfile.NamedTemporaryFile('w',suffix='.go',delete=False); t.write(src.replace(m['old'],m['new'])); t.close()
    got,err=run(f"{m['file']}={t.name}"); os.unlink(t.name)
    if got is None: print('error  ',m['name'],err); bad+=1
    elif got-base: print('FIRED  ',m['name'],sorted(got-base)); bad+=1
    else: print('silent ',m['name'])
sys.exit(1 if bad else 0)
