#!/usr/bin/env python3
"""Regenerates MANIFEST.json from manifest_src.json (claims) + properties.jsonl.
Every property without a claim must have a not_applicable reason in the source."""
import json, sys, os
here = os.path.dirname(os.path.dirname(os.path.abspath(__file__)))
src = json.load(open(os.path.join(here, 'manifest_src.json')))
props = [json.loads(l)['id'] for l in open(os.path.join(here, 'properties.jsonl'))]
checks = []
na = []
for pid in props:
    if pid in src['claims']:
        cl = src['claims'][pid]
        checks.append({
            "property_id": pid,
            "quick_cmd": f"bin/check {pid} quick",
            "thorough_cmd": f"bin/check {pid} thorough",
            "evidence_file": f"evidence/{pid}.json",
            "replay_cmd_template": f"bin/check {pid} quick --explain {{path}}",
            "engine": "murexlint",
            "level_claimed": {"category": "other", "text": cl['text'], "design_ref": cl.get('design_ref', f"DESIGN.md §4 {pid}")},
            "level_note": cl['note'],
            "technique": cl['technique'],
        })
    elif pid in src['not_applicable']:
        na.append({"property_id": pid, "reason": src['not_applicable'][pid]})
    else:
        sys.exit(f"{pid}: neither claimed nor not_applicable")
m = {
    "version": 1,
    "setup_cmd": "bin/setup",
    "hooks": {"guard": "verif", "enable": "none needed: nothing in /repo is executed by any check; the checker reads the working tree as it is", "baseline_off_cmd": src['baseline_off_cmd'], "source_commits": [], "add_only": True},
    "engines": [{"name": "murexlint", "path": "checker/", "serves_properties": [c['property_id'] for c in checks],
                 "kind_free_text": "repository-specific static analyser (go/packages + go/types + go/cfg + go/ssa from golang.org/x/tools v0.29.0): lockset, CFG path rules, table extraction, typed call-site rules, sign/bounds domain, typestate pairing, truth tables"}],
    "checks": checks,
    "notes": src['notes'],
    "not_applicable": na,
}
json.dump(m, open(os.path.join(here, 'MANIFEST.json'), 'w'), indent=1)
print(f"claims={len(checks)} not_applicable={len(na)}")
