package main

func init() {
	// highlighter half of C20 (rule R20b) lives in c20b.go
	c20bHook = func(c *Ctx, rule string) { c.c20bHighlighter(rule) }
}
