package main

// C31 — `test unit`: a unit test passes only if every assertion of its plan
// holds (lang/test_units.go, lang/test_units_stdio.go, lang/test_compare.go,
// builtins/core/test/unit.go).
//
// R31a  every field of UnitTestPlan is read in runTest or a helper it calls,
//       and what it is read for is either setting up the fork or guarding a
//       verdict.
// R31b  failing report <-> failing verdict pairing; the verdict variable is
//       never set back to true; PASSED is reported only under the verdict;
//       UnitTests.Run ANDs the results and maps them to ExitNum.
// R31c  stream pairing: an arm configured by a Stdout* field looks at stdout
//       data only, a Stderr* arm at stderr data only.
// R31d  polarity: the verdict is set to failed only where the comparison that
//       guards it says "differs" / "no match" / "error".
// R31e  the three data-shape helpers return PASSED only for the shape the plan
//       field that selects them names (slice / map / length >= n).

import (
	"go/ast"
	"go/token"
	"go/types"
	"sort"
	"strconv"
	"strings"

	"golang.org/x/tools/go/packages"
)

func init() {
	register("C31", "Decides (structurally, for runTest and its helpers): every UnitTestPlan field is read and used either to set up the function's fork or to guard a verdict; every report with a failing status (FAILED/ERROR or a non-PASSED helper status) is paired with verdict=false or `return false` in the same block; the verdict is assigned only `false` after initialisation, is what runTest returns, and PASSED is reported only under it; UnitTests.Run ANDs the per-test results, fails when no test exists and maps the verdict to ExitNum 0/1; Stdout*/Stderr* assertions look at their own stream; the verdict becomes false only on the `differs`/`no match`/`error` side of the comparison guarding it; testIsArray/testIsMap/testIsGreaterThanOrEqualTo return PASSED only for slices / maps / length >= n. Does NOT decide the value-level correctness of the comparisons (regex semantics, data-type unmarshalling) nor the pipe-test framework (Tests.Compare).", runC31)
}

const c31Lang = "lang"

var (
	c31PlanT   = mx(c31Lang) + ".UnitTestPlan"
	c31StatusT = mx(c31Lang) + ".TestStatus"
)

// c31Fn is one function with a verdict variable.
type c31Fn struct {
	fd      *ast.FuncDecl
	verdict types.Object // local bool (runTest) or *bool parameter (helpers)
	isPtr   bool
	plan    types.Object // the *UnitTestPlan parameter
}

func (c *Ctx) c31IsVerdictLHS(info *types.Info, f *c31Fn, e ast.Expr) bool {
	e = unparen(e)
	if f.isPtr {
		if st, ok := e.(*ast.StarExpr); ok {
			if id, ok := unparen(st.X).(*ast.Ident); ok {
				return info.ObjectOf(id) == f.verdict
			}
		}
		return false
	}
	id, ok := e.(*ast.Ident)
	return ok && info.ObjectOf(id) == f.verdict
}

// c31PlanFields: plan fields mentioned under n.
func c31PlanFields(info *types.Info, n ast.Node) []string {
	var out []string
	ast.Inspect(n, func(x ast.Node) bool {
		if se, ok := x.(*ast.SelectorExpr); ok {
			if v, owner := fieldOf(info, se); v != nil && owner == c31PlanT {
				out = append(out, v.Name())
			}
		}
		return true
	})
	return out
}

// c31IsConfig: the expression only looks at the plan and constants.
func c31IsConfig(info *types.Info, e ast.Expr, plan types.Object) bool {
	cfg, sawPlan := true, false
	ast.Inspect(e, func(n ast.Node) bool {
		switch x := n.(type) {
		case *ast.SelectorExpr:
			if v, owner := fieldOf(info, x); v != nil && owner == c31PlanT {
				sawPlan = true
				return false
			}
		case *ast.Ident:
			switch o := info.ObjectOf(x).(type) {
			case *types.Var:
				if o != plan {
					cfg = false
				}
			case *types.Func:
				cfg = false
			}
		}
		return true
	})
	return cfg && sawPlan
}

func runC31(c *Ctx) {
	c.Load(c31Lang, "builtins/core/test")
	pk := c.Pkg(c31Lang)
	if pk == nil {
		c.Lost("R31a", "pkg", "lang not loaded")
		return
	}
	info := pk.TypesInfo
	c.Rule("R31a", "field coverage: every field of lang.UnitTestPlan is read in runTest or a helper it calls with the plan, and each is used to set up a fork (argument of a call on / with a Fork) or appears in the conditions or arguments that govern a verdict")
	c.Rule("R31b", "pairing: every report whose status is FAILED/ERROR (or a helper's status outside the ==PASSED arm) shares its block with verdict=false or `return false`; the verdict variable is only ever assigned false, runTest returns it (other returns are constant false), PASSED is reported only where the verdict is known true; UnitTests.Run computes verdict = runTest(..) && verdict per matching test on that test's own fields, sets it false when no test matched, stores ExitNum 0 iff verdict and returns it; `test unit run` hands its own process to Run")
	c.Rule("R31c", "stream pairing: inside a statement configured by a Stdout* (Stderr*) plan field, only data read from the fork's Stdout (Stderr) is examined")
	c.Rule("R31d", "polarity: each verdict=false is governed (innermost non-configuration condition) by an equality that is false, an inequality that is true, a regexp Match that is false or an error that is non-nil — never by the side on which the assertion holds")
	c.Rule("R31e", "shape helpers: the helper selected by a *IsArray field returns PASSED only inside a type-switch case listing slice types, the *IsMap helper only for map types, the *GreaterThan helper only under length >= (or >) its comparison parameter; none returns PASSED on an error path")

	run, _ := c.MustFunc("R31a", c31Lang, "", "runTest")
	if run == nil {
		return
	}

	// ---------------------------------------------------------------- verdict functions
	planParam := func(fd *ast.FuncDecl) types.Object {
		for _, f := range fd.Type.Params.List {
			if namedPath(info.TypeOf(f.Type)) == c31PlanT {
				for _, n := range f.Names {
					return info.Defs[n]
				}
			}
		}
		return nil
	}
	declOf := map[types.Object]*ast.FuncDecl{}
	eachFunc(pk, func(fd *ast.FuncDecl) {
		if o := info.Defs[fd.Name]; o != nil {
			declOf[o] = fd
		}
	})
	var fns []*c31Fn
	seen := map[*ast.FuncDecl]bool{}
	// runTest: the verdict is the variable of its final return
	{
		f := &c31Fn{fd: run, plan: planParam(run)}
		if n := len(run.Body.List); n > 0 {
			if rs, ok := run.Body.List[n-1].(*ast.ReturnStmt); ok && len(rs.Results) == 1 {
				if id, ok := unparen(rs.Results[0]).(*ast.Ident); ok {
					if v, ok := info.ObjectOf(id).(*types.Var); ok && types.Identical(v.Type(), types.Typ[types.Bool]) {
						f.verdict = v
					}
				}
			}
		}
		viaTrue := false
		if f.verdict == nil {
			// `if !verdict { return false }; …; return true`: the verdict is the bool local
			// that starts as true and is only ever set to false; the final `return true`
			// must then sit where the verdict is known to be true
			if v := c31FindVerdict(info, run); v != nil {
				if n := len(run.Body.List); n > 0 {
					walkStack(run.Body, func(nd ast.Node, stack []ast.Node) bool {
						if nd != ast.Node(run.Body.List[n-1]) {
							return true
						}
						if rs, ok := nd.(*ast.ReturnStmt); ok && len(rs.Results) == 1 {
							if b, isC := constBool(info, rs.Results[0]); isC && b {
								for _, ft := range c31Facts(info, stack) {
									if id, ok := unparen(ft.E).(*ast.Ident); ok && info.ObjectOf(id) == v && ft.True {
										f.verdict, viaTrue = v, true
									}
								}
							}
						}
						return false
					})
				}
			}
		}
		if f.verdict == nil || f.plan == nil {
			c.Viol("R31b", "runTest:final-return", run.Pos(), "runTest does not end with `return <bool verdict variable>` (or has no *UnitTestPlan parameter): the accumulated verdict is not what the caller receives")
			return
		}
		if viaTrue {
			c.OK("R31b", "runTest:final-return", run.Body.List[len(run.Body.List)-1].Pos(), "runTest ends with `return true` where %s is known true (it returned false before otherwise)", f.verdict.Name())
		} else {
			c.OK("R31b", "runTest:final-return", run.Body.List[len(run.Body.List)-1].Pos(), "runTest ends with `return %s`", f.verdict.Name())
		}
		fns = append(fns, f)
		seen[run] = true
	}
	// helpers: functions of package lang with a *bool parameter, reached from a verdict function
	for i := 0; i < len(fns); i++ {
		for _, call := range calls(fns[i].fd.Body, true) {
			o := callee(info, call)
			fd := declOf[o]
			if fd == nil || seen[fd] {
				continue
			}
			var vp types.Object
			for _, f := range fd.Type.Params.List {
				if p, ok := info.TypeOf(f.Type).(*types.Pointer); ok && types.Identical(p.Elem(), types.Typ[types.Bool]) {
					for _, n := range f.Names {
						vp = info.Defs[n]
					}
				}
			}
			if vp == nil {
				continue
			}
			seen[fd] = true
			fns = append(fns, &c31Fn{fd: fd, verdict: vp, isPtr: true, plan: planParam(fd)})
		}
	}
	c.MinCount("R31b", "functions carrying the unit-test verdict", len(fns), 4)

	// functions that receive the plan (for R31a)
	planFns := map[*ast.FuncDecl]bool{run: true}
	for _, f := range fns {
		planFns[f.fd] = true
	}
	for fd := range seen {
		for _, call := range calls(fd.Body, true) {
			if cd := declOf[callee(info, call)]; cd != nil && planParam(cd) != nil {
				planFns[cd] = true
			}
		}
	}

	c.c31Coverage(pk, run, fns, planFns)
	for _, f := range fns {
		c.c31Pairing(pk, f)
		c.c31Polarity(pk, f)
	}
	c.c31Streams(pk, fns[0])
	c.c31Shapes(pk, fns[0], declOf)
	c.c31Run(pk, run)
}

// ---------------------------------------------------------------- R31a

func (c *Ctx) c31Coverage(pk *packages.Package, run *ast.FuncDecl, fns []*c31Fn, planFns map[*ast.FuncDecl]bool) {
	info := pk.TypesInfo
	var planNamed *types.Named
	if o := pk.Types.Scope().Lookup("UnitTestPlan"); o != nil {
		planNamed, _ = o.Type().(*types.Named)
	}
	st := structOf(planNamed)
	if st == nil {
		c.Lost("R31a", "type:UnitTestPlan", "lang.UnitTestPlan is not a struct")
		return
	}
	read := map[string]token.Pos{}
	for fd := range planFns {
		walkStack(fd.Body, func(n ast.Node, stack []ast.Node) bool {
			se, ok := n.(*ast.SelectorExpr)
			if !ok {
				return true
			}
			v, owner := fieldOf(info, se)
			if v == nil || owner != c31PlanT {
				return true
			}
			// a pure store is not a read
			if len(stack) >= 2 {
				if as, ok := stack[len(stack)-2].(*ast.AssignStmt); ok && as.Tok == token.ASSIGN {
					for _, l := range as.Lhs {
						if l == ast.Expr(se) {
							return true
						}
					}
				}
			}
			if _, ok := read[v.Name()]; !ok {
				read[v.Name()] = se.Pos()
			}
			return true
		})
	}
	// purpose: fork input or verdict guard
	input, verdict := map[string]bool{}, map[string]bool{}
	for _, f := range fns {
		forkVars := map[types.Object]bool{}
		ast.Inspect(f.fd.Body, func(n ast.Node) bool {
			if as, ok := n.(*ast.AssignStmt); ok && len(as.Rhs) == 1 && len(as.Lhs) == 1 {
				if call, ok := unparen(as.Rhs[0]).(*ast.CallExpr); ok {
					if o := callee(info, call); o != nil && objIs(o, mx(c31Lang), "Process", "Fork") {
						if id, ok := as.Lhs[0].(*ast.Ident); ok {
							forkVars[info.ObjectOf(id)] = true
						}
					}
				}
			}
			return true
		})
		isForkRooted := func(e ast.Expr) bool {
			id := rootIdent(e)
			return id != nil && forkVars[info.ObjectOf(id)]
		}
		walkStack(f.fd.Body, func(n ast.Node, stack []ast.Node) bool {
			switch x := n.(type) {
			case *ast.CallExpr:
				usesFork := false
				if se, ok := x.Fun.(*ast.SelectorExpr); ok && isForkRooted(se.X) {
					usesFork = true
				}
				passesVerdict := false
				for _, a := range x.Args {
					if id, ok := unparen(a).(*ast.Ident); ok && forkVars[info.ObjectOf(id)] {
						usesFork = true
					}
					if u, ok := unparen(a).(*ast.UnaryExpr); ok && u.Op == token.AND && c.c31IsVerdictLHS(info, f, u.X) && !f.isPtr {
						passesVerdict = true
					}
					if id, ok := unparen(a).(*ast.Ident); ok && f.isPtr && info.ObjectOf(id) == f.verdict {
						passesVerdict = true
					}
				}
				var fields []string
				for _, a := range x.Args {
					fields = append(fields, c31PlanFields(info, a)...)
				}
				for _, g := range guardsAt(info, stack) {
					if g.Cond != nil {
						fields = append(fields, c31PlanFields(info, g.Cond)...)
					}
				}
				for _, fl := range fields {
					if usesFork {
						input[fl] = true
					}
					if passesVerdict {
						verdict[fl] = true
					}
				}
			case *ast.AssignStmt:
				isV := false
				for _, l := range x.Lhs {
					if c.c31IsVerdictLHS(info, f, l) {
						isV = true
					}
				}
				if isV {
					for _, g := range guardsAt(info, stack) {
						if g.Cond != nil {
							for _, fl := range c31PlanFields(info, g.Cond) {
								verdict[fl] = true
							}
						}
					}
				}
				// fStdin = F_… chosen by a plan test and then passed to Fork: treat the
				// condition's fields as fork input when the assigned local reaches a Fork call
				for _, l := range x.Lhs {
					if id, ok := l.(*ast.Ident); ok {
						o := info.ObjectOf(id)
						reaches := false
						for _, call := range calls(f.fd.Body, false) {
							if co := callee(info, call); co != nil && objIs(co, mx(c31Lang), "Process", "Fork") && mentions(info, call, o) {
								reaches = true
							}
						}
						if reaches {
							for _, g := range guardsAt(info, stack) {
								if g.Cond != nil {
									for _, fl := range c31PlanFields(info, g.Cond) {
										input[fl] = true
									}
								}
							}
						}
					}
				}
			}
			return true
		})
	}
	n := 0
	for i := 0; i < st.NumFields(); i++ {
		f := st.Field(i)
		n++
		key := "field:" + f.Name()
		pos, ok := read[f.Name()]
		switch {
		case !ok:
			c.Viol("R31a", key, f.Pos(), "UnitTestPlan.%s is never read by runTest or its helpers: a plan can state this assertion/setting and the test passes without it ever being evaluated", f.Name())
		case !input[f.Name()] && !verdict[f.Name()]:
			c.Viol("R31a", key, pos, "UnitTestPlan.%s is read but neither feeds a fork nor governs a verdict: stating it in a plan cannot make a test fail", f.Name())
		case verdict[f.Name()]:
			c.OK("R31a", key, pos, "governs a verdict")
		default:
			c.OK("R31a", key, pos, "sets up the fork")
		}
	}
	c.MinCount("R31a", "fields of UnitTestPlan", n, 19)
}

// ---------------------------------------------------------------- R31b

// c31Status classifies the status argument of a report call:
// "fail" | "ok" | "var" and the argument.
func (c *Ctx) c31Status(info *types.Info, call *ast.CallExpr) (string, ast.Expr) {
	for _, a := range call.Args {
		if namedPath(info.TypeOf(a)) != c31StatusT {
			continue
		}
		if s, ok := constString(info, a); ok {
			failing := map[string]bool{}
			for _, nm := range []string{"TestFailed", "TestError"} {
				if k, ok := c.Pkg(c31Lang).Types.Scope().Lookup(nm).(*types.Const); ok {
					failing[strings.Trim(k.Val().ExactString(), `"`)] = true
				}
			}
			if failing[s] {
				return "fail", a
			}
			return "ok", a
		}
		return "var", a
	}
	return "", nil
}

func (c *Ctx) c31PassedConst() string {
	if k, ok := c.Pkg(c31Lang).Types.Scope().Lookup("TestPassed").(*types.Const); ok {
		return strings.Trim(k.Val().ExactString(), `"`)
	}
	return "\x00"
}

// c31StatusIsPassed: fact expression `x == TestPassed` (returns +1), `x != TestPassed` (-1), else 0.
func (c *Ctx) c31StatusCmp(info *types.Info, e ast.Expr) int {
	b, ok := unparen(e).(*ast.BinaryExpr)
	if !ok || (b.Op != token.EQL && b.Op != token.NEQ) {
		return 0
	}
	for _, side := range []ast.Expr{b.X, b.Y} {
		if s, ok := constString(info, side); ok && s == c.c31PassedConst() && namedPath(info.TypeOf(side)) == c31StatusT {
			if b.Op == token.EQL {
				return 1
			}
			return -1
		}
	}
	return 0
}

func (c *Ctx) c31Pairing(pk *packages.Package, f *c31Fn) {
	info := pk.TypesInfo
	fn := f.fd.Name.Name
	nRep, nFail := 0, 0
	counter := map[string]int{}
	walkStack(f.fd.Body, func(n ast.Node, stack []ast.Node) bool {
		call, ok := n.(*ast.CallExpr)
		if !ok {
			return true
		}
		kind, arg := c.c31Status(info, call)
		if kind == "" {
			return true
		}
		// the closure that forwards its own status parameter is not a report site
		if id, ok := unparen(arg).(*ast.Ident); ok {
			if v, ok := info.ObjectOf(id).(*types.Var); ok {
				for _, anc := range stack {
					if fl, ok := anc.(*ast.FuncLit); ok {
						for _, p := range fl.Type.Params.List {
							for _, nm := range p.Names {
								if info.Defs[nm] == v {
									return true
								}
							}
						}
					}
				}
			}
		}
		nRep++
		facts := c31Facts(info, stack)
		// innermost statement list
		var list []ast.Stmt
		for i := len(stack) - 2; i >= 0 && list == nil; i-- {
			switch b := stack[i].(type) {
			case *ast.BlockStmt:
				list = b.List
			case *ast.CaseClause:
				list = b.Body
			case *ast.CommClause:
				list = b.Body
			}
		}
		// a label for the key: the message helper called, else the governing plan field
		label := ""
		for _, a := range call.Args {
			if mc, ok := unparen(a).(*ast.CallExpr); ok {
				if o := callee(info, mc); o != nil && strings.HasPrefix(o.Name(), "tMsg") {
					label = o.Name()
					for _, ma := range mc.Args {
						if s, ok := constString(info, ma); ok && label == o.Name() {
							label += "(" + s + ")"
						}
					}
				}
			}
		}
		if label == "" {
			var fl []string
			for _, g := range guardsAt(info, stack) {
				if g.Cond != nil {
					fl = append(fl, c31PlanFields(info, g.Cond)...)
				}
			}
			if len(fl) > 0 {
				label = "status-of:" + fl[len(fl)-1]
			} else {
				label = "report"
			}
		}
		if kind == "var" {
			kind = "fail"
			for _, ft := range facts {
				if (c.c31StatusCmp(info, ft.E) == 1 && ft.True) || (c.c31StatusCmp(info, ft.E) == -1 && !ft.True) {
					if mentions(info, ft.E, info.ObjectOf(rootIdent(arg))) {
						kind = "ok"
					}
				}
			}
		}
		if strings.HasPrefix(label, "status-of:") {
			label += map[string]string{"fail": ":not-passed", "ok": ":passed"}[kind]
		}
		counter[label]++
		if counter[label] > 1 {
			label += "#" + itoa(counter[label])
		}
		key := fn + ":" + label
		if s, isC := constString(info, arg); isC && s == c.c31PassedConst() {
			under := false
			for _, ft := range facts {
				if id, ok := unparen(ft.E).(*ast.Ident); ok && info.ObjectOf(id) == f.verdict && ft.True && !f.isPtr {
					under = true
				}
			}
			if under {
				c.OK("R31b", key, call.Pos(), "PASSED is reported only where the verdict is true")
			} else {
				c.Viol("R31b", key, call.Pos(), "%s reports PASSED on a path where the verdict variable is not known to be true: a test with a failed assertion is shown (and counted) as passed", fn)
			}
			return true
		}
		if kind != "fail" {
			c.OK("R31b", key, call.Pos(), "informational report")
			return true
		}
		nFail++
		sets := false
		for _, s := range list {
			switch x := s.(type) {
			case *ast.AssignStmt:
				for i, l := range x.Lhs {
					if c.c31IsVerdictLHS(info, f, l) && i < len(x.Rhs) {
						if v, ok := constBool(info, x.Rhs[i]); ok && !v {
							sets = true
						}
					}
				}
			case *ast.ReturnStmt:
				if !f.isPtr && len(x.Results) == 1 && x.Pos() > call.Pos() {
					if v, ok := constBool(info, x.Results[0]); ok && !v {
						sets = true
					}
				}
			}
		}
		if sets {
			c.OK("R31b", key, call.Pos(), "failing report paired with verdict=false / return false")
		} else {
			c.Viol("R31b", key, call.Pos(), "%s reports a failing status (%s) but the block neither sets the verdict to false nor returns false: the assertion is reported as failed while the unit test as a whole still passes (exit number 0)", fn, c.src(arg))
		}
		return true
	})
	min := map[string]int{"runTest": 26, "utBlock": 4, "utReadAllOut": 2, "utReadAllErr": 2}[fn]
	c.MinCount("R31b", "report calls in "+fn, nRep, min)

	// the verdict is only ever assigned false
	nAsg := 0
	ast.Inspect(f.fd.Body, func(n ast.Node) bool {
		switch x := n.(type) {
		case *ast.AssignStmt:
			for i, l := range x.Lhs {
				if !c.c31IsVerdictLHS(info, f, l) {
					continue
				}
				if x.Tok == token.DEFINE && i < len(x.Rhs) && !f.isPtr {
					// `verdict := true` declares the verdict (checked under verdict-init)
					if id, isId := unparen(l).(*ast.Ident); isId && info.Defs[id] == f.verdict {
						if v, isC := constBool(info, x.Rhs[i]); isC && v {
							continue
						}
					}
				}
				nAsg++
				ok := false
				if x.Tok == token.ASSIGN && i < len(x.Rhs) {
					if v, isC := constBool(info, x.Rhs[i]); isC && !v {
						ok = true
					}
				}
				if !ok {
					c.Viol("R31b", fn+":verdict-reset", x.Pos(), "%s assigns %s to the verdict: an earlier failed assertion is forgotten and the test passes", fn, c.src(x))
				}
			}
		case *ast.UnaryExpr:
			// &passed handed to a callee that is not one of the verdict helpers is out of sight
		}
		return true
	})
	if nAsg > 0 {
		c.OK("R31b", fn+":verdict-assignments", f.fd.Pos(), "%d assignments to the verdict examined", nAsg)
	}
	if !f.isPtr {
		// declared true; every return is the verdict or constant false
		initTrue := false
		ast.Inspect(f.fd.Body, func(n ast.Node) bool {
			if vs, ok := n.(*ast.ValueSpec); ok {
				for i, nm := range vs.Names {
					if info.Defs[nm] == f.verdict && i < len(vs.Values) {
						if v, isC := constBool(info, vs.Values[i]); isC && v {
							initTrue = true
						}
					}
				}
			}
			if as, ok := n.(*ast.AssignStmt); ok && as.Tok == token.DEFINE {
				for i, l := range as.Lhs {
					if id, ok := l.(*ast.Ident); ok && info.Defs[id] == f.verdict && i < len(as.Rhs) {
						if v, isC := constBool(info, as.Rhs[i]); isC && v {
							initTrue = true
						}
					}
				}
			}
			return true
		})
		c.Check(initTrue, "R31b", fn+":verdict-init", f.fd.Pos(), "the verdict starts as true (a plan without assertions passes)")
		good, nRet := true, 0
		walkStack(f.fd.Body, func(n ast.Node, stack []ast.Node) bool {
			if _, ok := n.(*ast.FuncLit); ok {
				return false
			}
			rs, ok := n.(*ast.ReturnStmt)
			if !ok || len(rs.Results) != 1 {
				return true
			}
			nRet++
			if id, ok := unparen(rs.Results[0]).(*ast.Ident); ok && info.ObjectOf(id) == f.verdict {
				return true
			}
			if v, isC := constBool(info, rs.Results[0]); isC && !v {
				return true
			}
			// `return true` where the verdict is known to be true is `return verdict`
			if v, isC := constBool(info, rs.Results[0]); isC && v {
				for _, ft := range c31Facts(info, stack) {
					if id, ok := unparen(ft.E).(*ast.Ident); ok && info.ObjectOf(id) == f.verdict && ft.True {
						return true
					}
				}
			}
			good = false
			c.Viol("R31b", fn+":return-value", rs.Pos(), "%s returns %s instead of the verdict or false", fn, c.src(rs.Results[0]))
			return true
		})
		if good {
			c.OK("R31b", fn+":return-value", f.fd.Pos(), "%d returns: the verdict or constant false", nRet)
		}
	}
}

// ---------------------------------------------------------------- R31d

func (c *Ctx) c31Polarity(pk *packages.Package, f *c31Fn) {
	info := pk.TypesInfo
	fn := f.fd.Name.Name
	errT := types.Universe.Lookup("error").Type()
	counter := map[string]int{}
	n := 0
	walkStack(f.fd.Body, func(nd ast.Node, stack []ast.Node) bool {
		as, ok := nd.(*ast.AssignStmt)
		if !ok {
			return true
		}
		isV := false
		for i, l := range as.Lhs {
			if c.c31IsVerdictLHS(info, f, l) && i < len(as.Rhs) {
				if v, isC := constBool(info, as.Rhs[i]); isC && !v {
					isV = true
				}
			}
		}
		if !isV {
			return true
		}
		n++
		facts := c31Facts(info, stack)
		verdictOK, why, label := "", "", ""
		var at ast.Expr
		for i := len(facts) - 1; i >= 0 && verdictOK == ""; i-- {
			ft := facts[i]
			e := unparen(ft.E)
			if c31IsConfig(info, e, f.plan) {
				if label == "" {
					if fl := c31PlanFields(info, e); len(fl) > 0 {
						label = fl[0]
					}
				}
				continue
			}
			at = e
			switch x := e.(type) {
			case *ast.BinaryExpr:
				// len(b) > 0, len(b) >= 1, 0 < len(b) … say what len(b) != 0 says
				if lx, op, k, isCmp := cmpNorm(info, e); isCmp {
					if _, isLen := isBuiltinCall(info, lx, "len"); isLen {
						p := intPred(op, k)
						holds := func(v int64) bool { return p(v) == ft.True }
						switch {
						case samePredOnRange(holds, func(v int64) bool { return v != 0 }, 0, 4):
							verdictOK, why = "ok", "`"+c.src(e)+"` says the values differ"
						case samePredOnRange(holds, func(v int64) bool { return v == 0 }, 0, 4):
							verdictOK, why = "bad", "`"+c.src(e)+"` says actual and expected are EQUAL"
						}
						if verdictOK != "" {
							break
						}
					}
				}
				if x.Op != token.EQL && x.Op != token.NEQ {
					verdictOK, why = "undecided", "relational comparison "+c.src(e)
					break
				}
				equal := (x.Op == token.EQL) == ft.True
				// error test
				isNil := func(y ast.Expr) bool {
					id, ok := unparen(y).(*ast.Ident)
					if !ok {
						return false
					}
					_, isN := info.ObjectOf(id).(*types.Nil)
					return isN
				}
				if (isNil(x.X) && types.Identical(info.TypeOf(x.Y), errT)) || (isNil(x.Y) && types.Identical(info.TypeOf(x.X), errT)) {
					if !equal {
						verdictOK, why = "ok", "error is non-nil"
					} else {
						verdictOK, why = "bad", "the error is nil (the step succeeded)"
					}
					break
				}
				if !equal {
					verdictOK, why = "ok", "`"+c.src(e)+"` says the values differ"
				} else {
					verdictOK, why = "bad", "`"+c.src(e)+"` says actual and expected are EQUAL"
				}
			case *ast.CallExpr:
				if o := callee(info, x); o != nil && o.Pkg() != nil && o.Pkg().Path() == "regexp" && strings.HasPrefix(o.Name(), "Match") {
					if !ft.True {
						verdictOK, why = "ok", "regexp does not match"
					} else {
						verdictOK, why = "bad", "the regexp MATCHES"
					}
					break
				}
				verdictOK, why = "undecided", "call "+c.src(e)
			default:
				verdictOK, why = "undecided", "condition "+c.src(e)
			}
		}
		// key: outermost plan field on the path (else the governing expression) + kind of test
		label = ""
		for _, ft := range facts {
			if fl := c31PlanFields(info, ft.E); len(fl) > 0 && label == "" {
				label = fl[0]
			}
		}
		if label == "" && at != nil {
			label = c.src(at)
		}
		if label == "" {
			label = "unconditional"
		}
		switch {
		case strings.HasPrefix(why, "error"), strings.HasPrefix(why, "the error"):
			label += "/error"
		case strings.Contains(why, "regexp"):
			label += "/regexp"
		case verdictOK == "ok" || verdictOK == "bad":
			label += "/differs"
		}
		counter[label]++
		if counter[label] > 1 {
			label += "#" + itoa(counter[label])
		}
		key := fn + ":fail-on:" + label
		switch verdictOK {
		case "ok":
			c.OK("R31d", key, as.Pos(), "verdict=false where %s", why)
		case "bad":
			c.Viol("R31d", key, as.Pos(), "%s sets the verdict to failed on the path where %s: a function that satisfies this assertion fails its unit test (and, with the arms swapped, one that violates it passes)", fn, why)
		case "undecided":
			c.Undecided("R31d", key, as.Pos(), "verdict=false in %s is governed by %s, which is not an equality, a regexp match or an error test", fn, why)
		default:
			c.Viol("R31d", key, as.Pos(), "%s sets the verdict to failed under no condition on an observed value (only plan settings): every test configured this way fails regardless of what the function does", fn)
		}
		return true
	})
	min := map[string]int{"runTest": 12, "utBlock": 3, "utReadAllOut": 1, "utReadAllErr": 2}[fn]
	c.MinCount("R31d", "verdict=false sites in "+fn, n, min)
}

// ---------------------------------------------------------------- R31c

func (c *Ctx) c31Streams(pk *packages.Package, f *c31Fn) {
	info := pk.TypesInfo
	procT := mx(c31Lang) + ".Process"
	// locals holding data of a stream of the function's fork
	stream := map[types.Object]string{}
	sdefs := c29Defs(info, f.fd.Body)
	ast.Inspect(f.fd.Body, func(n ast.Node) bool {
		as, ok := n.(*ast.AssignStmt)
		if !ok || len(as.Rhs) != 1 {
			return true
		}
		call, ok := unparen(as.Rhs[0]).(*ast.CallExpr)
		if !ok {
			return true
		}
		se, ok := call.Fun.(*ast.SelectorExpr)
		if !ok {
			return true
		}
		recv := unparen(se.X)
		if d, ok := sdefs.single(info, recv); ok && d.idx < 0 { // out := fork.Stdout; out.ReadAll()
			recv = unparen(d.rhs)
		}
		which := ""
		if isField(info, recv, procT, "Stdout") {
			which = "Stdout"
		} else if isField(info, recv, procT, "Stderr") {
			which = "Stderr"
		}
		if which == "" {
			return true
		}
		if id, ok := as.Lhs[0].(*ast.Ident); ok && id.Name != "_" {
			// only the function-under-test's fork: pre/post block forks are read through helpers
			stream[info.ObjectOf(id)] = which
		}
		return true
	})
	nOut, nErr := 0, 0
	for _, w := range stream {
		if w == "Stdout" {
			nOut++
		} else {
			nErr++
		}
	}
	if nOut < 2 || nErr < 2 {
		c.Lost("R31c", "streams", "expected locals for the data and the data type of both streams in runTest (found %d stdout, %d stderr)", nOut, nErr)
		return
	}
	n := 0
	for _, s := range f.fd.Body.List {
		is, ok := s.(*ast.IfStmt)
		if !ok {
			continue
		}
		fields := c31PlanFields(info, is)
		want := ""
		mixed := false
		for _, fl := range fields {
			w := ""
			if strings.HasPrefix(fl, "Stdout") {
				w = "Stdout"
			} else if strings.HasPrefix(fl, "Stderr") {
				w = "Stderr"
			}
			if w == "" {
				continue
			}
			if want != "" && want != w {
				mixed = true
			}
			want = w
		}
		if want == "" {
			continue
		}
		// which stream data does the statement look at?
		used := map[string]token.Pos{}
		ast.Inspect(is, func(x ast.Node) bool {
			if id, ok := x.(*ast.Ident); ok {
				if w, ok := stream[info.ObjectOf(id)]; ok {
					if _, seen := used[w]; !seen {
						used[w] = id.Pos()
					}
				}
			}
			return true
		})
		if len(used) == 0 {
			continue // e.g. the Stdin set-up block
		}
		n++
		sort.Strings(fields)
		key := "arm:" + fields[0]
		for _, fl := range fields {
			if strings.HasPrefix(fl, want) {
				key = "arm:" + fl
				break
			}
		}
		other := map[string]string{"Stdout": "Stderr", "Stderr": "Stdout"}[want]
		switch {
		case mixed:
			c.Viol("R31c", key, is.Pos(), "one assertion statement of runTest is configured by both Stdout* and Stderr* plan fields (%v): one stream's expectation is checked against the other stream", fields)
		case used[other].IsValid():
			c.Viol("R31c", key, used[other], "the %s* assertion (%v) examines data read from the fork's %s: the assertion is evaluated against the wrong stream, so a function whose %s violates the plan can pass", want, fields, other, strings.ToLower(want))
		default:
			c.OK("R31c", key, is.Pos(), "%s* assertion looks at %s data only", want, strings.ToLower(want))
		}
	}
	c.MinCount("R31c", "stream assertion statements in runTest", n, 10)
}

// ---------------------------------------------------------------- R31e

func (c *Ctx) c31Shapes(pk *packages.Package, f *c31Fn, declOf map[types.Object]*ast.FuncDecl) {
	info := pk.TypesInfo
	// helper -> shape, from the plan field that guards the call
	type sel struct {
		fd    *ast.FuncDecl
		shape string
		cmpAt int // argument index that receives the plan's number
	}
	sels := map[*ast.FuncDecl]*sel{}
	walkStack(f.fd.Body, func(n ast.Node, stack []ast.Node) bool {
		call, ok := n.(*ast.CallExpr)
		if !ok {
			return true
		}
		fd := declOf[callee(info, call)]
		if fd == nil || fd.Type.Results == nil || len(fd.Type.Results.List) == 0 || namedPath(info.TypeOf(fd.Type.Results.List[0].Type)) != c31StatusT {
			return true
		}
		shape := ""
		for _, g := range guardsAt(info, stack) {
			if g.Cond == nil {
				continue
			}
			for _, fl := range c31PlanFields(info, g.Cond) {
				switch {
				case strings.HasSuffix(fl, "IsArray"):
					shape = "slice"
				case strings.HasSuffix(fl, "IsMap"):
					shape = "map"
				case strings.HasSuffix(fl, "GreaterThan"):
					shape = "length"
				}
			}
		}
		if shape == "" {
			return true
		}
		s := &sel{fd: fd, shape: shape, cmpAt: -1}
		for i, a := range call.Args {
			if len(c31PlanFields(info, a)) > 0 {
				s.cmpAt = i
			}
		}
		if old, ok := sels[fd]; ok && old.shape != shape {
			c.Viol("R31e", fd.Name.Name+":selected-by", call.Pos(), "%s is used for both a %s and a %s assertion", fd.Name.Name, old.shape, shape)
		}
		sels[fd] = s
		return true
	})
	c.MinCount("R31e", "shape helpers selected by plan fields", len(sels), 3)
	var order []*sel
	for _, s := range sels {
		order = append(order, s)
	}
	sort.Slice(order, func(i, j int) bool { return order[i].fd.Name.Name < order[j].fd.Name.Name })
	errT := types.Universe.Lookup("error").Type()
	for _, s := range order {
		fn := s.fd.Name.Name
		nPass := 0
		walkStack(s.fd.Body, func(n ast.Node, stack []ast.Node) bool {
			rs, ok := n.(*ast.ReturnStmt)
			if !ok || len(rs.Results) < 1 {
				return true
			}
			st, isC := constString(info, rs.Results[0])
			if !isC {
				c.Undecided("R31e", fn+":return-status", rs.Pos(), "%s returns a non-constant status %s", fn, c.src(rs.Results[0]))
				return true
			}
			if st != c.c31PassedConst() {
				return true
			}
			nPass++
			key := fn + ":passed"
			if nPass > 1 {
				key += "#" + itoa(nPass)
			}
			facts := c31Facts(info, stack)
			for _, ft := range facts {
				if b, ok := unparen(ft.E).(*ast.BinaryExpr); ok && (b.Op == token.NEQ) == ft.True && (b.Op == token.NEQ || b.Op == token.EQL) {
					if types.Identical(info.TypeOf(b.X), errT) || types.Identical(info.TypeOf(b.Y), errT) {
						c.Viol("R31e", key, rs.Pos(), "%s returns PASSED on a path where an error is non-nil", fn)
						return true
					}
				}
			}
			switch s.shape {
			case "slice", "map":
				var cc *ast.CaseClause
				for i := len(stack) - 1; i >= 0; i-- {
					if x, ok := stack[i].(*ast.CaseClause); ok && i >= 2 {
						if _, isTS := stack[i-2].(*ast.TypeSwitchStmt); isTS {
							cc = x
							break
						}
					}
				}
				var caseTypes []ast.Expr
				if cc != nil {
					caseTypes = cc.List
				} else if len(stack) >= 2 {
					// `switch v.(type) { case <shapes>: default: return FAILED }; return PASSED`:
					// the return is reached only through the typed arms of an earlier type
					// switch of the same block whose default arm leaves the function
					if blk, ok := stack[len(stack)-2].(*ast.BlockStmt); ok {
						for _, st := range blk.List {
							if st.Pos() >= rs.Pos() {
								break
							}
							ts, ok := st.(*ast.TypeSwitchStmt)
							if !ok {
								continue
							}
							var types_ []ast.Expr
							dfltLeaves := false
							for _, cl := range ts.Body.List {
								k := cl.(*ast.CaseClause)
								if k.List == nil {
									dfltLeaves = c31Leaves(info, k.Body)
									continue
								}
								if !c31Leaves(info, k.Body) { // break / fall out of the switch reaches the return
									types_ = append(types_, k.List...)
								}
							}
							if dfltLeaves && len(types_) > 0 {
								caseTypes = types_
							}
						}
					}
				}
				if len(caseTypes) == 0 {
					c.Viol("R31e", key, rs.Pos(), "%s returns PASSED outside a type-switch case (or in its default arm): values of any shape satisfy the %s assertion", fn, s.shape)
					return true
				}
				var bad []string
				for _, te := range caseTypes {
					t := info.TypeOf(te)
					if t == nil {
						bad = append(bad, c.src(te))
						continue
					}
					switch t.Underlying().(type) {
					case *types.Slice, *types.Array:
						if s.shape != "slice" {
							bad = append(bad, c.src(te))
						}
					case *types.Map:
						if s.shape != "map" {
							bad = append(bad, c.src(te))
						}
					default:
						bad = append(bad, c.src(te))
					}
				}
				if len(bad) == 0 {
					c.OK("R31e", key, rs.Pos(), "PASSED only for %d %s types", len(caseTypes), s.shape)
				} else {
					c.Viol("R31e", key, rs.Pos(), "%s (the %s assertion) returns PASSED for %v, which %s not %s types: output of the wrong shape satisfies the assertion", fn, s.shape, bad, map[bool]string{true: "is", false: "are"}[len(bad) == 1], s.shape)
				}
			case "length":
				// under  L >= P | L > P  (true)  or  L < P | L <= P (false), P the comparison parameter
				good, seen := false, false
				for _, ft := range facts {
					b, ok := unparen(ft.E).(*ast.BinaryExpr)
					if !ok {
						continue
					}
					px, py := c30ParamIndex(info, s.fd, b.X), c30ParamIndex(info, s.fd, b.Y)
					if (px < 0) == (py < 0) {
						continue
					}
					if s.cmpAt >= 0 && px != s.cmpAt && py != s.cmpAt {
						continue
					}
					seen = true
					op := b.Op
					if px >= 0 { // P OP L  ->  L flip(OP) P
						op = map[token.Token]token.Token{token.LSS: token.GTR, token.GTR: token.LSS, token.LEQ: token.GEQ, token.GEQ: token.LEQ}[op]
					}
					if !ft.True {
						op = map[token.Token]token.Token{token.LSS: token.GEQ, token.GEQ: token.LSS, token.GTR: token.LEQ, token.LEQ: token.GTR}[op]
					}
					if op == token.GEQ || op == token.GTR {
						good = true
					}
				}
				switch {
				case good:
					c.OK("R31e", key, rs.Pos(), "PASSED only when the length is >= (or >) the plan's number")
				case seen:
					c.Viol("R31e", key, rs.Pos(), "%s returns PASSED when the measured length is BELOW (or merely not above, in the wrong direction) the plan's number: output that is too short satisfies StdoutGreaterThan", fn)
				default:
					c.Viol("R31e", key, rs.Pos(), "%s returns PASSED without comparing the measured length with its comparison parameter", fn)
				}
			}
			return true
		})
		if nPass == 0 {
			c.Viol("R31e", fn+":passed", s.fd.Pos(), "%s never returns PASSED: every plan using this assertion fails", fn)
		}
	}
}

// ---------------------------------------------------------------- Run + builtin

func (c *Ctx) c31Run(pk *packages.Package, run *ast.FuncDecl) {
	info := pk.TypesInfo
	fd, _ := c.MustFunc("R31b", c31Lang, "UnitTests", "Run")
	if fd == nil {
		return
	}
	runObj := info.Defs[run.Name]
	// the verdict: the variable returned by the final return
	var v types.Object
	if n := len(fd.Body.List); n > 0 {
		if rs, ok := fd.Body.List[n-1].(*ast.ReturnStmt); ok && len(rs.Results) == 1 {
			if id, ok := unparen(rs.Results[0]).(*ast.Ident); ok {
				v = info.ObjectOf(id)
			}
		}
	}
	if v == nil {
		c.Viol("R31b", "Run:return", fd.Pos(), "UnitTests.Run does not end with `return <verdict variable>`")
		return
	}
	c.OK("R31b", "Run:return", fd.Pos(), "UnitTests.Run returns its verdict variable %s", v.Name())
	nAnd := 0
	runDefs := c29Defs(info, fd.Body)
	walkStack(fd.Body, func(n ast.Node, stack []ast.Node) bool {
		as, ok := n.(*ast.AssignStmt)
		if !ok {
			return true
		}
		for i, l := range as.Lhs {
			id, ok := l.(*ast.Ident)
			if !ok || info.ObjectOf(id) != v || i >= len(as.Rhs) {
				continue
			}
			rhs := unparen(as.Rhs[i])
			var call *ast.CallExpr
			if b, isC := constBool(info, rhs); isC {
				if b && as.Tok != token.DEFINE {
					c.Viol("R31b", "Run:verdict-reset", as.Pos(), "UnitTests.Run sets its verdict back to true: earlier failed tests are forgotten")
				}
				// `if !runTest(…) { verdict = false }` is verdict = runTest(…) && verdict
				if !b && as.Tok == token.ASSIGN {
					for _, ft := range c31Facts(info, stack) {
						e := unparen(ft.E)
						if d, ok := runDefs.single(info, e); ok && d.idx < 0 {
							e = unparen(d.rhs)
						}
						if cl, ok := e.(*ast.CallExpr); ok && callee(info, cl) == runObj && !ft.True {
							call = cl
						}
					}
				}
				if call == nil {
					continue
				}
			}
			// conjunction containing the verdict itself and a runTest call
			hasSelf, hasRun, onlyAnd := false, false, true
			if call != nil {
				hasSelf, hasRun = true, true
			} else {
				for _, cj := range conjuncts(rhs) {
					if cid, ok := unparen(cj).(*ast.Ident); ok && info.ObjectOf(cid) == v {
						hasSelf = true
						continue
					}
					cje := unparen(cj)
					if d, ok := runDefs.single(info, cje); ok && d.idx < 0 { // ok := runTest(…); verdict = verdict && ok
						cje = unparen(d.rhs)
					}
					if cl, ok := cje.(*ast.CallExpr); ok && callee(info, cl) == runObj {
						hasRun = true
						call = cl
						continue
					}
					onlyAnd = false
				}
			}
			nAnd++
			if hasSelf && hasRun && onlyAnd {
				c.OK("R31b", "Run:accumulate", as.Pos(), "verdict = runTest(…) && verdict")
			} else {
				c.Viol("R31b", "Run:accumulate", as.Pos(), "UnitTests.Run computes its verdict as %s, not as the conjunction of runTest(…) and the verdict so far: with several unit tests for one function an earlier failure is lost (or results are OR-ed)", c.src(rhs))
			}
			// the call is made only for tests registered for the requested function (or "*")
			if call != nil {
				sel := false
				polarity := ""
				for _, g := range guardsAt(info, stack) {
					if g.Cond == nil || g.Neg {
						continue
					}
					for _, cj := range conjuncts(g.Cond) {
						for _, dj := range disjuncts(cj) {
							b, ok := unparen(dj).(*ast.BinaryExpr)
							if !ok || (b.Op != token.EQL && b.Op != token.NEQ) {
								continue
							}
							for _, pr := range [][2]ast.Expr{{b.X, b.Y}, {b.Y, b.X}} {
								fv, owner := fieldOf(info, pr[0])
								if fv != nil && owner == mx(c31Lang)+".unitTest" && fv.Name() == "Function" && c30ParamIndex(info, fd, pr[1]) >= 0 {
									if b.Op == token.EQL {
										sel = true
									} else {
										polarity = c.src(dj)
									}
								}
							}
						}
					}
				}
				if sel {
					c.OK("R31b", "Run:selects-function", call.Pos(), "runTest runs for tests whose Function equals the requested function")
				} else {
					c.Viol("R31b", "Run:selects-function", call.Pos(), "UnitTests.Run does not restrict runTest to tests whose Function == the requested function (%s): the verdict of `test unit run f` is computed from other functions' tests", polarity)
				}
			}
			// runTest's plan / fileref / function come from the same element
			if call != nil {
				bases := map[string]bool{}
				var fields []string
				for _, a := range call.Args {
					if se, ok := unparen(a).(*ast.SelectorExpr); ok {
						if fv, owner := fieldOf(info, se); fv != nil && owner == mx(c31Lang)+".unitTest" {
							bases[c.src(se.X)] = true
							fields = append(fields, fv.Name())
						}
					}
				}
				sort.Strings(fields)
				if len(bases) == 1 && strings.Join(fields, ",") == "FileRef,Function,TestPlan" {
					c.OK("R31b", "Run:same-test", call.Pos(), "runTest receives FileRef, TestPlan and Function of one and the same registered test")
				} else {
					c.Viol("R31b", "Run:same-test", call.Pos(), "runTest(%v) does not take FileRef, TestPlan and Function from one registered test: a function is judged against another test's plan", srcs(c, call.Args))
				}
			}
		}
		return true
	})
	if nAnd == 0 {
		c.Viol("R31b", "Run:accumulate", fd.Pos(), "UnitTests.Run never folds a runTest result into its verdict")
	}
	// `if !exists { verdict = false }`
	foundMissing := false
	walkStack(fd.Body, func(n ast.Node, stack []ast.Node) bool {
		as, ok := n.(*ast.AssignStmt)
		if !ok || len(as.Lhs) != 1 || len(as.Rhs) != 1 {
			return true
		}
		id, ok := as.Lhs[0].(*ast.Ident)
		if !ok || info.ObjectOf(id) != v {
			return true
		}
		if b, isC := constBool(info, as.Rhs[0]); isC && !b {
			for _, ft := range c31Facts(info, stack) {
				if eid, ok := unparen(ft.E).(*ast.Ident); ok && !ft.True {
					// the flag is set to true next to the runTest call
					set := false
					ast.Inspect(fd.Body, func(m ast.Node) bool {
						if a2, ok := m.(*ast.AssignStmt); ok && len(a2.Lhs) == 1 && len(a2.Rhs) == 1 {
							if l, ok := a2.Lhs[0].(*ast.Ident); ok && info.ObjectOf(l) == info.ObjectOf(eid) {
								if b2, isC := constBool(info, a2.Rhs[0]); isC && b2 {
									set = true
								}
							}
						}
						return true
					})
					if set {
						foundMissing = true
					}
				}
			}
		}
		return true
	})
	if foundMissing {
		c.OK("R31b", "Run:no-test-exists", fd.Pos(), "when no registered test matched the function the verdict is set to false")
	} else {
		c.Viol("R31b", "Run:no-test-exists", fd.Pos(), "UnitTests.Run does not set its verdict to false when no registered test matched: `test unit run` of a function without tests passes")
	}
	// ExitNum mapping
	okZero, okOne := false, false
	bad := ""
	walkStack(fd.Body, func(n ast.Node, stack []ast.Node) bool {
		as, ok := n.(*ast.AssignStmt)
		if !ok || len(as.Lhs) != 1 || len(as.Rhs) != 1 || !isField(info, as.Lhs[0], mx(c31Lang)+".Process", "ExitNum") {
			return true
		}
		val, isC := constInt(info, as.Rhs[0])
		known := 0 // +1 verdict true, -1 false
		for _, ft := range c31Facts(info, stack) {
			if id, ok := unparen(ft.E).(*ast.Ident); ok && info.ObjectOf(id) == v {
				if ft.True {
					known = 1
				} else {
					known = -1
				}
			}
		}
		switch {
		case !isC || known == 0:
			bad = "ExitNum assignment " + c.src(as) + " is not a constant under a test of the verdict"
		case known == 1 && val == 0:
			okZero = true
		case known == -1 && val != 0:
			okOne = true
		default:
			bad = "ExitNum is set to " + strconv.Itoa(int(val)) + " where the verdict is " + map[int]string{1: "true", -1: "false"}[known]
		}
		return true
	})
	if bad == "" && okZero && okOne {
		c.OK("R31b", "Run:exit-number", fd.Pos(), "ExitNum is 0 iff the verdict is true")
	} else {
		if bad == "" {
			bad = "ExitNum is not set on both outcomes"
		}
		c.Viol("R31b", "Run:exit-number", fd.Pos(), "UnitTests.Run: %s — `test unit run` exits with the wrong status for a failed (or passed) test", bad)
	}

	// the builtin hands its own process to Run
	tpk := c.Pkg("builtins/core/test")
	if tpk == nil {
		c.Lost("R31b", "pkg:builtins/core/test", "builtin package not loaded")
		return
	}
	tinfo := tpk.TypesInfo
	n := 0
	eachFunc(tpk, func(bfd *ast.FuncDecl) {
		for _, call := range calls(bfd.Body, true) {
			o := callee(tinfo, call)
			if o == nil || !objIs(o, mx(c31Lang), "UnitTests", "Run") || len(call.Args) != 2 {
				continue
			}
			n++
			p0 := c30ParamIndex(tinfo, bfd, call.Args[0])
			c.Check(p0 == 0, "R31b", "builtin:"+bfd.Name.Name+":Run-process", call.Pos(), "%s passes its own *Process to UnitTests.Run, so the failing ExitNum lands on the `test` command itself", bfd.Name.Name)
		}
	})
	c.MinCount("R31b", "calls of UnitTests.Run from builtins/core/test", n, 1)
}

// c31FindVerdict: the only bool local of fd that is initialised to the constant
// true and assigned the constant false somewhere (nil when there is none or
// several).
func c31FindVerdict(info *types.Info, fd *ast.FuncDecl) types.Object {
	initTrue := map[types.Object]bool{}
	setFalse := map[types.Object]bool{}
	ast.Inspect(fd.Body, func(n ast.Node) bool {
		switch x := n.(type) {
		case *ast.ValueSpec:
			for i, nm := range x.Names {
				if i < len(x.Values) {
					if v, isC := constBool(info, x.Values[i]); isC && v {
						initTrue[info.Defs[nm]] = true
					}
				}
			}
		case *ast.AssignStmt:
			for i, l := range x.Lhs {
				id, ok := l.(*ast.Ident)
				if !ok || i >= len(x.Rhs) {
					continue
				}
				v, isC := constBool(info, x.Rhs[i])
				if !isC {
					continue
				}
				if x.Tok == token.DEFINE && v {
					initTrue[info.Defs[id]] = true
				}
				if x.Tok == token.ASSIGN && !v {
					setFalse[info.ObjectOf(id)] = true
				}
			}
		}
		return true
	})
	var found types.Object
	for o := range initTrue {
		if o == nil || !setFalse[o] {
			continue
		}
		if v, ok := o.(*types.Var); !ok || !types.Identical(v.Type(), types.Typ[types.Bool]) {
			continue
		}
		if found != nil {
			return nil
		}
		found = o
	}
	return found
}

// c31Facts: factsOf(guardsAt(…)) extended with the arms of tagged switches —
// `switch x { case K: … }` is `if x == K { … }` and its default arm is the
// negation of every case. The synthesised comparisons carry no type
// information themselves; their operands are the original (typed) nodes.
func c31Facts(info *types.Info, stack []ast.Node) []Fact {
	var out []Fact
	for _, g := range guardsAt(info, stack) {
		switch {
		case g.Cond != nil:
			out = append(out, factsOf([]Guard{g})...)
		case g.Tag != nil && g.Neg:
			for _, k := range g.Cases {
				out = append(out, Fact{&ast.BinaryExpr{X: g.Tag, Op: token.EQL, Y: k}, false})
			}
		case g.Tag != nil && len(g.Cases) == 1:
			out = append(out, Fact{&ast.BinaryExpr{X: g.Tag, Op: token.EQL, Y: g.Cases[0]}, true})
		}
	}
	return out
}

// c31Leaves: the statement list ends by leaving the function (return / panic);
// a `break` only leaves the switch and does not count.
func c31Leaves(info *types.Info, list []ast.Stmt) bool {
	if len(list) == 0 {
		return false
	}
	switch s := list[len(list)-1].(type) {
	case *ast.ReturnStmt:
		return true
	case *ast.ExprStmt:
		if call, ok := s.X.(*ast.CallExpr); ok {
			if id, ok := call.Fun.(*ast.Ident); ok && id.Name == "panic" {
				if _, isB := info.Uses[id].(*types.Builtin); isB {
					return true
				}
			}
		}
	case *ast.BlockStmt:
		return c31Leaves(info, s.List)
	}
	return false
}
