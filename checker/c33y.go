package main

import (
	"go/ast"
	"go/token"
	"go/types"
	"strings"
)

// R33g — a redirection is recorded in the slot it names. parseRedirection walks the
// `<…>` annotations of a command; each kind (stdout, `!` stderr, test_) has its own slot on
// the process and an "already given" test that rejects a second one. The test must read the
// slot that the arm then fills: if the stderr arm asks whether the STDOUT slot is empty,
// `cmd <out-pipe> <!err-pipe>` reports "specified stderr multiple times" and stderr is not
// redirected at all (and `<!a> <!b>` silently keeps the last). Each arm is fine on its own
// reading; only the pair (guard field, stored field) shows the slip.
func init() {
	extend("C33", func(c *Ctx) {
		c.Rule("R33g", "parseRedirection: every store to a NamedPipe* slot of the process is executed only under `<the same slot> == \"\"`, and no emptiness test of a different NamedPipe* slot guards it")
		fd, pk := c.MustFunc("R33g", "lang", "", "parseRedirection")
		if fd == nil {
			return
		}
		info := pk.TypesInfo
		slot := func(e ast.Expr) string {
			se, ok := unparen(e).(*ast.SelectorExpr)
			if !ok {
				return ""
			}
			v, ok := info.ObjectOf(se.Sel).(*types.Var)
			if !ok || !v.IsField() || !strings.HasPrefix(v.Name(), "NamedPipe") {
				return ""
			}
			if b, ok := v.Type().Underlying().(*types.Basic); !ok || b.Kind() != types.String {
				return ""
			}
			return v.Name()
		}
		// emptyTest: e is `<slot> == ""` / `"" == <slot>` / `len(<slot>) == 0` → slot name
		emptyTest := func(e ast.Expr) (string, bool) {
			b, ok := unparen(e).(*ast.BinaryExpr)
			if !ok || (b.Op != token.EQL && b.Op != token.NEQ) {
				return "", false
			}
			x, y := b.X, b.Y
			if s, ok := constString(info, x); ok && s == "" {
				x, y = y, x
			}
			if s, ok := constString(info, y); ok && s == "" {
				if n := slot(x); n != "" {
					return n, b.Op == token.EQL
				}
			}
			if v, ok := constInt(info, y); ok && v == 0 {
				if call, ok := isBuiltinCall(info, x, "len"); ok && len(call.Args) == 1 {
					if n := slot(call.Args[0]); n != "" {
						return n, b.Op == token.EQL
					}
				}
			}
			return "", false
		}
		n := 0
		walkStack(fd.Body, func(nd ast.Node, stack []ast.Node) bool {
			as, ok := nd.(*ast.AssignStmt)
			if !ok {
				return true
			}
			for _, l := range as.Lhs {
				name := slot(l)
				if name == "" {
					continue
				}
				n++
				own, foreign := false, ""
				for _, f := range factsOf(guardsAt(info, append(stack[:len(stack):len(stack)], nd))) {
					if s, eq := emptyTest(f.E); s != "" {
						isEmpty := eq == f.True
						if s == name && isEmpty {
							own = true
						}
						if s != name {
							foreign = s
						}
					}
				}
				c.Check(own && foreign == "", "R33g", "parseRedirection:"+name+":guard-reads-own-slot", as.Pos(), "the store to p.%s is made only when p.%s is still empty (own-slot test: %v; test of another slot: %q) — otherwise a redirection of one stream is rejected or overwritten because of another", name, name, own, foreign)
			}
			return true
		})
		c.MinCount("R33g", "redirection slots filled by parseRedirection", n, 3)
	})
}
