package main

import (
	"go/ast"
	"go/token"
	"go/types"
)

// R14j — the csv reader keeps every record. "No row … is silently dropped": in
// csv.unmarshal each record returned by the encoding/csv reader must be appended to
// the table; a `continue` (or a conditional append) in that loop is a filter — rows
// that look like headings, blanks, duplicates … vanish on the csv→x leg.
func init() {
	extend("C14", func(c *Ctx) {
		c.Rule("R14j", "csv.unmarshal: the loop around (*encoding/csv.Reader).Read appends the record it read to the table at the top level of the loop body (unconditionally) and contains no `continue`; it is left only by `break`/return")
		fd, pk := c.MustFunc("R14j", "builtins/types/csv", "", "unmarshal")
		if fd == nil {
			return
		}
		info := pk.TypesInfo
		n := 0
		ast.Inspect(fd.Body, func(nd ast.Node) bool {
			loop, ok := nd.(*ast.ForStmt)
			if !ok {
				return true
			}
			var rec types.Object
			for _, s := range loop.Body.List {
				as, ok := s.(*ast.AssignStmt)
				if !ok || len(as.Rhs) != 1 || len(as.Lhs) != 2 {
					continue
				}
				call, ok := unparen(as.Rhs[0]).(*ast.CallExpr)
				if !ok {
					continue
				}
				if fn, ok := callee(info, call).(*types.Func); ok && fn.Name() == "Read" && fn.Pkg() != nil && fn.Pkg().Path() == "encoding/csv" {
					if id, ok := as.Lhs[0].(*ast.Ident); ok {
						rec = info.ObjectOf(id)
					}
				}
			}
			if rec == nil {
				return true
			}
			n++
			appended := false
			defs := localDefs(info, loop.Body)
			// top level of the body, where `if <exit> { break/return } else { … }` counts as `if <exit> { … }; …`
			var top []ast.Stmt
			var flatten func(list []ast.Stmt)
			flatten = func(list []ast.Stmt) {
				for _, s := range list {
					top = append(top, s)
					if is, ok := s.(*ast.IfStmt); ok && is.Else != nil && terminates(info, is.Body.List) {
						if eb, ok := is.Else.(*ast.BlockStmt); ok {
							flatten(eb.List) // (a `continue` exit is counted separately below)
						}
					}
				}
			}
			flatten(loop.Body.List)
			for _, s := range top {
				as, ok := s.(*ast.AssignStmt)
				if !ok || len(as.Lhs) != 1 || len(as.Rhs) != 1 {
					continue
				}
				call, isApp := isBuiltinCall(info, as.Rhs[0], "append")
				if !isApp || len(call.Args) != 2 || call.Ellipsis != token.NoPos {
					continue
				}
				// the record itself or a single-definition local that is the record (`row := record`)
				if id, ok := defs.resolve1(info, call.Args[1]).(*ast.Ident); ok && info.ObjectOf(id) == rec && c.src(as.Lhs[0]) == c.src(call.Args[0]) {
					appended = true
				}
			}
			conts := 0
			ast.Inspect(loop.Body, func(x ast.Node) bool {
				switch b := x.(type) {
				case *ast.FuncLit:
					return false
				case *ast.ForStmt, *ast.RangeStmt:
					return false // a continue of an inner loop is not ours
				case *ast.BranchStmt:
					if b.Tok == token.CONTINUE {
						conts++
					}
				}
				return true
			})
			c.Check(appended && conts == 0, "R14j", "unmarshal:record-loop#"+itoa(n), loop.Pos(), "every record read is appended to the table unconditionally (top-level append of the record: %v, `continue` statements in the loop: %d) — otherwise rows are filtered out on the way from csv", appended, conts)
			return false
		})
		c.MinCount("R14j", "record loops in csv.unmarshal", n, 1)
	})
}
