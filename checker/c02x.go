package main

import (
	"go/ast"
	"go/token"
	"go/types"
)

// R02e — "never changes after that" also holds across cancellation: once a type
// was declared, a reader must get it, whether or not the stream's context has
// been cancelled (ForceClose, kill). The cancelled-context arm of GetDataType may
// therefore answer `*` only after it looked at the field and found it empty.
func init() {
	extend("C02", func(c *Ctx) {
		c.Rule("R02e", "GetDataType, cancelled-context arm: a return of the generic type `*` is reached only where the data type loaded from the field (a local whose every definition is the field, or the field itself) is known to be empty — a declared type is reported even after ForceClose / cancel")
		fd, pk := c.MustFunc("R02e", streamsPkg, "Stdin", "GetDataType")
		if fd == nil {
			return
		}
		info := pk.TypesInfo
		defs := localDefs(info, fd.Body)
		fromField := func(e ast.Expr) bool {
			if isField(info, e, stdinT, "dataType") {
				return true
			}
			id, ok := unparen(e).(*ast.Ident)
			if !ok {
				return false
			}
			o := info.ObjectOf(id)
			if _, isVar := o.(*types.Var); !isVar {
				return false
			}
			ds := defs[o]
			if len(ds) == 0 {
				return false
			}
			for _, d := range ds {
				if d == nil || !isField(info, d, stdinT, "dataType") {
					return false
				}
			}
			return true
		}
		n := 0
		walkStack(fd.Body, func(nd ast.Node, stack []ast.Node) bool {
			if _, ok := nd.(*ast.FuncLit); ok {
				return false
			}
			rs, ok := nd.(*ast.ReturnStmt)
			if !ok || len(rs.Results) != 1 || !inDoneArm(info, stack) {
				return true
			}
			if s, ok := constString(info, rs.Results[0]); !ok || s != "*" {
				return true
			}
			n++
			empty := false
			for _, f := range flagFacts(info, fd.Body, defs, factsOf(guardsAt(info, stack)), rs.Pos()) {
				if c.isEmptyTypeTest(info, f.E, f.True, fromField) {
					empty = true
				}
			}
			c.Check(empty, "R02e", "GetDataType:cancelled:generic#"+itoa(n), rs.Pos(), "`*` in the cancelled-context arm is returned only after the field was read and found empty — otherwise a pipe whose type was declared reports `*` once it is force-closed or its context is cancelled")
			return true
		})
		if n == 0 {
			c.OK("R02e", "GetDataType:cancelled:none", fd.Pos(), "no return of `*` inside a cancelled-context arm")
		}
	})
}

// flagFacts: a fact over a boolean local that is defined exactly once (`empty := dt == ""; if empty {…}`)
// also states its defining condition. It is only unfolded where the definition is known to have run
// earlier on the same pass with the same operands: the block holding the definition encloses the use,
// no loop or function-literal boundary lies between that block and the use, and no local read by the
// definition is assigned between the definition and the use.
func flagFacts(info *types.Info, body *ast.BlockStmt, defs defMap, facts []Fact, use token.Pos) []Fact {
	out := append([]Fact(nil), facts...)
	for i := 0; i < len(out) && i < 64; i++ {
		f := out[i]
		id, ok := unparen(f.E).(*ast.Ident)
		if !ok {
			continue
		}
		v, isVar := info.ObjectOf(id).(*types.Var)
		if !isVar || v.IsField() {
			continue
		}
		if b, isBasic := v.Type().Underlying().(*types.Basic); !isBasic || b.Info()&types.IsBoolean == 0 {
			continue
		}
		ds := defs[v]
		if len(ds) != 1 || ds[0] == nil || ds[0].End() >= use {
			continue
		}
		def := ds[0]
		path := pathTo(body, def)
		blk := -1
		for j := len(path) - 1; j >= 0; j-- {
			if _, isBlk := path[j].(*ast.BlockStmt); isBlk {
				blk = j
				break
			}
			if _, isCC := path[j].(*ast.CaseClause); isCC {
				blk = j
				break
			}
			if _, isCC := path[j].(*ast.CommClause); isCC {
				blk = j
				break
			}
		}
		if blk < 0 || !(path[blk].Pos() <= use && use < path[blk].End()) {
			continue
		}
		// nothing between the definition's block and the use may be a loop or a function literal
		boundary := false
		ast.Inspect(path[blk], func(n ast.Node) bool {
			if n == nil || boundary || !(n.Pos() <= use && use < n.End()) {
				return false
			}
			if n != path[blk] {
				switch n.(type) {
				case *ast.ForStmt, *ast.RangeStmt, *ast.FuncLit:
					boundary = true
				}
			}
			return true
		})
		if boundary {
			continue
		}
		stale := false
		ast.Inspect(def, func(n ast.Node) bool {
			x, isId := n.(*ast.Ident)
			if !isId {
				return true
			}
			o, isV := info.ObjectOf(x).(*types.Var)
			if !isV || o.IsField() {
				return true
			}
			if _, known := defs[o]; known {
				ast.Inspect(body, func(m ast.Node) bool {
					switch s := m.(type) {
					case *ast.AssignStmt:
						for _, l := range s.Lhs {
							if lid, isL := l.(*ast.Ident); isL && info.ObjectOf(lid) == o && s.Pos() > def.End() && s.Pos() < use {
								stale = true
							}
						}
					case *ast.IncDecStmt:
						if lid, isL := s.X.(*ast.Ident); isL && info.ObjectOf(lid) == o && s.Pos() > def.End() && s.Pos() < use {
							stale = true
						}
					case *ast.UnaryExpr:
						if lid, isL := unparen(s.X).(*ast.Ident); isL && s.Op == token.AND && info.ObjectOf(lid) == o {
							stale = true
						}
					}
					return !stale
				})
			}
			return !stale
		})
		if stale {
			continue
		}
		out = append(out, factsOf([]Guard{{Cond: def, Neg: !f.True}})...)
	}
	return out
}
