package main

import (
	"go/ast"
	"go/types"
)

// R02e — "never changes after that" also holds across cancellation: once a type
// was declared, a reader must get it, whether or not the stream's context has
// been cancelled (ForceClose, kill). The cancelled-context arm of GetDataType may
// therefore answer `*` only after it looked at the field and found it empty.
func init() {
	extend("C02", func(c *Ctx) {
		c.Rule("R02e", "GetDataType, cancelled-context arm: a return of the generic type `*` is reached only where the data type loaded from the field (a local whose every definition is the field, or the field itself) is known to be empty — a declared type is reported even after ForceClose / cancel")
		fd, pk := c.MustFunc("R02e", streamsPkg, "Stdin", "GetDataType")
		if fd == nil {
			return
		}
		info := pk.TypesInfo
		defs := localDefs(info, fd.Body)
		fromField := func(e ast.Expr) bool {
			if isField(info, e, stdinT, "dataType") {
				return true
			}
			id, ok := unparen(e).(*ast.Ident)
			if !ok {
				return false
			}
			o := info.ObjectOf(id)
			if _, isVar := o.(*types.Var); !isVar {
				return false
			}
			ds := defs[o]
			if len(ds) == 0 {
				return false
			}
			for _, d := range ds {
				if d == nil || !isField(info, d, stdinT, "dataType") {
					return false
				}
			}
			return true
		}
		n := 0
		walkStack(fd.Body, func(nd ast.Node, stack []ast.Node) bool {
			if _, ok := nd.(*ast.FuncLit); ok {
				return false
			}
			rs, ok := nd.(*ast.ReturnStmt)
			if !ok || len(rs.Results) != 1 || !inDoneArm(info, stack) {
				return true
			}
			if s, ok := constString(info, rs.Results[0]); !ok || s != "*" {
				return true
			}
			n++
			empty := false
			for _, f := range factsOf(guardsAt(info, stack)) {
				if c.isEmptyTypeTest(info, f.E, f.True, fromField) {
					empty = true
				}
			}
			c.Check(empty, "R02e", "GetDataType:cancelled:generic#"+itoa(n), rs.Pos(), "`*` in the cancelled-context arm is returned only after the field was read and found empty — otherwise a pipe whose type was declared reports `*` once it is force-closed or its context is cancelled")
			return true
		})
		if n == 0 {
			c.OK("R02e", "GetDataType:cancelled:none", fd.Pos(), "no return of `*` inside a cancelled-context arm")
		}
	})
}
