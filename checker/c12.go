package main

import (
	"go/ast"
	"go/token"
	"go/types"
	"sort"
	"strings"
)

func init() {
	register("C12", "Decides (structurally): (R12a) expressions.getVar hands out the stored object (Variables.GetValue, by reference) only for the immutable scalar types and every other value it returns is a string or a freshly unmarshalled copy; (R12b) the nested-assignment arm of Variables.Set alters the variable's own stored object along split[1:] and re-stores the whole altered document (string form re-marshalled) through v.set on every successful path, returning every error; (R12c) every descending arm of alter.loop recurses one level deeper on v[k] and stores the result back under the same k; (R12d) every leaf/typed-slice arm of alter.loop converts the new value to the existing leaf's Go type. Does NOT decide the values alter.loop computes, type coercion results, nor aliasing through other holders of a Go reference (MxInterface variables, $ENV/$GLOBAL/$MOD maps).", runC12)
}

var c12ScalarTypes = map[string]bool{"num": true, "int": true, "float": true, "bool": true, "null": true}

func runC12(c *Ctx) {
	c.Load("lang/expressions", "utils/alter")
	c12a(c)
	c12b(c)
	c12cd(c)
}

// ---------------------------------------------------------------- R12a

func c12a(c *Ctx) {
	c.Rule("R12a", "in expressions.(*ParserT).getVar every call of lang.(*Variables).GetValue (returns the stored Go object itself) is control-dependent on a test of Variables.GetDataType(<same name>) against constants ⊆ {num,int,float,bool,null}; every value getVar returns is a string, the result of lang.UnmarshalData (fresh copy), or such a scalar-guarded GetValue")
	fd, pk := c.MustFunc("R12a", "lang/expressions", "ParserT", "getVar")
	if fd == nil {
		return
	}
	info := pk.TypesInfo
	defs := localDefs(info, fd.Body)
	langP := mx("lang")
	guardedGet := map[*ast.CallExpr]bool{}
	nGet := 0
	walkStack(fd.Body, func(n ast.Node, stack []ast.Node) bool {
		call, ok := n.(*ast.CallExpr)
		if !ok || !callIs(info, call, langP, "Variables", "GetValue") {
			return true
		}
		nGet++
		key := "getVar:GetValue#" + itoa(nGet)
		if len(call.Args) != 1 {
			c.Undecided("R12a", key, call.Pos(), "unexpected arity")
			return true
		}
		recv := call.Fun.(*ast.SelectorExpr).X
		// same variable of the same table: compared after resolving single-definition locals
		// (`nameS = string(name)`, `vars := tree.p.Variables`), so spelling differences do not matter
		sameNameAndTable := func(dc *ast.CallExpr) bool {
			return c.sameExpr(defs.resolve1(info, dc.Args[0]), defs.resolve1(info, call.Args[0])) &&
				c.sameExpr(defs.resolve1(info, dc.Fun.(*ast.SelectorExpr).X), defs.resolve1(info, recv))
		}
		// is e the data type of the same variable?
		isTypeOfSame := func(e ast.Expr) bool {
			r := defs.resolve1(info, e)
			if id, ok := r.(*ast.Ident); ok {
				// multi-assign or several definitions: take all plain definitions
				ds := defs[info.ObjectOf(id)]
				okAll := len(ds) > 0
				for _, d := range ds {
					if d == nil {
						okAll = false
						continue
					}
					dc, ok := unparen(d).(*ast.CallExpr)
					if !ok || !callIs(info, dc, langP, "Variables", "GetDataType") || len(dc.Args) != 1 || !sameNameAndTable(dc) {
						okAll = false
					}
				}
				return okAll
			}
			dc, ok := r.(*ast.CallExpr)
			return ok && callIs(info, dc, langP, "Variables", "GetDataType") && len(dc.Args) == 1 && sameNameAndTable(dc)
		}
		var bad []string
		found := false
		for _, g := range guardsAt(info, stack) {
			if g.Tag != nil && !g.Neg && isTypeOfSame(g.Tag) {
				found = true
				for _, k := range g.Cases {
					s, ok := constString(info, k)
					if !ok {
						bad = append(bad, c.src(k)+" (not a constant)")
					} else if !c12ScalarTypes[s] {
						bad = append(bad, c.src(k)+"="+s)
					}
				}
				continue
			}
			if g.Cond != nil && !g.Neg {
				// if dt == K1 || dt == K2 ...   (every disjunct must be such a test)
				all := true
				var ks []string
				for _, d := range disjuncts(g.Cond) {
					b, ok := unparen(d).(*ast.BinaryExpr)
					if !ok || b.Op != token.EQL {
						all = false
						break
					}
					var k ast.Expr
					if isTypeOfSame(b.X) {
						k = b.Y
					} else if isTypeOfSame(b.Y) {
						k = b.X
					} else {
						all = false
						break
					}
					s, ok := constString(info, k)
					if !ok {
						all = false
						break
					}
					ks = append(ks, s)
				}
				if all && len(ks) > 0 {
					found = true
					for _, s := range ks {
						if !c12ScalarTypes[s] {
							bad = append(bad, s)
						}
					}
				}
			}
		}
		switch {
		case !found:
			c.Viol("R12a", key, call.Pos(), "getVar calls Variables.GetValue (hands out the stored object by reference) without a positive test of the variable's data type against the scalar types: for a structured variable `b = $a` would make $b and $a share one Go map/slice, so `$b.path = v` changes $a")
		case len(bad) > 0:
			c.Viol("R12a", key, call.Pos(), "getVar calls Variables.GetValue (by reference) under a data-type guard that admits non-scalar type(s) %s: a variable of that type is copied by reference, so nested assignment to one copy changes the other", strings.Join(bad, ", "))
		default:
			guardedGet[call] = true
			c.OK("R12a", key, call.Pos(), "GetValue only under data type ∈ {num,int,float,bool,null}")
		}
		return true
	})
	c.MinCount("R12a", "Variables.GetValue calls in getVar", nGet, 1)

	// provenance of every returned value (result 0)
	retObjs := map[types.Object]bool{}
	nRet := 0
	ast.Inspect(fd.Body, func(n ast.Node) bool {
		if _, ok := n.(*ast.FuncLit); ok {
			return false
		}
		rs, ok := n.(*ast.ReturnStmt)
		if !ok || len(rs.Results) == 0 {
			return true
		}
		nRet++
		r0 := unparen(rs.Results[0])
		if id, ok := r0.(*ast.Ident); ok {
			if id.Name == "nil" && info.ObjectOf(id) == types.Universe.Lookup("nil") {
				return true
			}
			if o := info.ObjectOf(id); o != nil {
				retObjs[o] = true
				return true
			}
		}
		c12Origin(c, info, "getVar:return-expr", r0, r0, 0, guardedGet)
		return true
	})
	c.MinCount("R12a", "return statements in getVar", nRet, 3)
	// `value = v` with v another local of getVar: v's own origins are what is returned
	isLocalVar := func(e ast.Expr) types.Object {
		id, ok := unparen(e).(*ast.Ident)
		if !ok {
			return nil
		}
		v, ok := info.ObjectOf(id).(*types.Var)
		if !ok || v.IsField() || isParam(info, fd, id) || v.Pos() < fd.Body.Pos() || v.Pos() > fd.Body.End() {
			return nil
		}
		return v
	}
	for changed := true; changed; {
		changed = false
		ast.Inspect(fd.Body, func(n ast.Node) bool {
			as, ok := n.(*ast.AssignStmt)
			if !ok || len(as.Rhs) != len(as.Lhs) {
				return true
			}
			for i, l := range as.Lhs {
				if id, ok := l.(*ast.Ident); ok && retObjs[info.ObjectOf(id)] {
					if o := isLocalVar(as.Rhs[i]); o != nil && !retObjs[o] {
						retObjs[o] = true
						changed = true
					}
				}
			}
			return true
		})
	}
	nAsg := 0
	seen := map[string]int{}
	ast.Inspect(fd.Body, func(n ast.Node) bool {
		as, ok := n.(*ast.AssignStmt)
		if !ok {
			return true
		}
		for i, l := range as.Lhs {
			id, ok := l.(*ast.Ident)
			if !ok || !retObjs[info.ObjectOf(id)] {
				continue
			}
			nAsg++
			var rhs ast.Expr
			idx := 0
			if len(as.Rhs) == len(as.Lhs) {
				rhs = as.Rhs[i]
			} else if len(as.Rhs) == 1 {
				rhs, idx = as.Rhs[0], i
			}
			name := "getVar:origin"
			seen[name]++
			if rhs != nil && len(as.Rhs) == len(as.Lhs) && isLocalVar(rhs) != nil && retObjs[isLocalVar(rhs)] {
				c.OK("R12a", name+"#"+itoa(seen[name]), as.Pos(), "copy of local %s whose own origins are checked", c.src(rhs))
				continue
			}
			c12Origin(c, info, name+"#"+itoa(seen[name]), rhs, as, idx, guardedGet)
		}
		return true
	})
	c.MinCount("R12a", "assignments to values returned by getVar", nAsg, 5)
}

// c12Origin classifies where a value returned by getVar comes from.
func c12Origin(c *Ctx, info *types.Info, key string, rhs ast.Expr, at ast.Node, idx int, guarded map[*ast.CallExpr]bool) {
	if rhs == nil {
		c.Undecided("R12a", key, at.Pos(), "unrecognised assignment form %s", c.src(at))
		return
	}
	rhs = unparen(rhs)
	langP := mx("lang")
	if call, ok := rhs.(*ast.CallExpr); ok {
		switch {
		case callIs(info, call, langP, "Variables", "GetValue"):
			if guarded[call] {
				c.OK("R12a", key, at.Pos(), "scalar-guarded GetValue")
			} else {
				c.Viol("R12a", key, at.Pos(), "getVar returns the object stored in the variable table (GetValue) for a type that is not restricted to scalars: copies alias the original")
			}
			return
		case callIs(info, call, langP, "", "UnmarshalData") || callIs(info, call, langP, "", "UnmarshalDataBuffered"):
			c.OK("R12a", key, at.Pos(), "fresh copy from %s", calleeName(info, call))
			return
		}
	}
	// static type of the idx-th result
	t := info.TypeOf(rhs)
	if tup, ok := t.(*types.Tuple); ok && idx < tup.Len() {
		t = tup.At(idx).Type()
	}
	if b, ok := t.Underlying().(*types.Basic); ok && b.Info()&(types.IsString|types.IsNumeric|types.IsBoolean) != 0 {
		c.OK("R12a", key, at.Pos(), "immutable %s value from %s", b.Name(), c.src(rhs))
		return
	}
	c.Undecided("R12a", key, at.Pos(), "getVar returns a value of unrecognised provenance (%s, static type %s): cannot tell whether it aliases the stored object", c.src(rhs), t)
}

// ---------------------------------------------------------------- R12b

func c12b(c *Ctx) {
	c.Rule("R12b", "in lang.(*Variables).Set the nested arm calls alter.Alter(ctx, <v.getValue(split[0])>, split[1:], value); its error is returned; and every return reached after a successful Alter is preceded, in straight line, by v.set(p, split[0], <Alter's result>, _, split[1:]) whose error is returned (the string form is re-marshalled from the altered object)")
	fd, pk := c.MustFunc("R12b", "lang", "Variables", "Set")
	if fd == nil {
		return
	}
	info := pk.TypesInfo
	nAlter := 0
	walkStack(fd.Body, func(n ast.Node, stack []ast.Node) bool {
		call, ok := n.(*ast.CallExpr)
		if !ok || !callIs(info, call, mx("utils/alter"), "", "Alter") {
			return true
		}
		nAlter++
		c12bSite(c, info, fd, call, stack)
		return true
	})
	c.MinCount("R12b", "alter.Alter calls in Variables.Set", nAlter, 1)
}

// c12AssignOf: the assignment statement `a, b := call` that has call as its sole RHS.
func c12AssignOf(stack []ast.Node, call *ast.CallExpr) *ast.AssignStmt {
	for i := len(stack) - 2; i >= 0; i-- {
		if as, ok := stack[i].(*ast.AssignStmt); ok && len(as.Rhs) == 1 && unparen(as.Rhs[0]) == ast.Expr(call) {
			return as
		}
	}
	return nil
}

func c12IsSplit(c *Ctx, info *types.Info, e ast.Expr, splitObj types.Object, from int64) bool {
	se, ok := unparen(e).(*ast.SliceExpr)
	if !ok || se.High != nil || se.Max != nil || se.Low == nil {
		return false
	}
	id, ok := unparen(se.X).(*ast.Ident)
	if !ok || info.ObjectOf(id) != splitObj {
		return false
	}
	v, ok := constInt(info, se.Low)
	return ok && v == from
}

func c12IsSplit0(info *types.Info, e ast.Expr, splitObj types.Object) bool {
	ix, ok := unparen(e).(*ast.IndexExpr)
	if !ok {
		return false
	}
	id, ok := unparen(ix.X).(*ast.Ident)
	if !ok || info.ObjectOf(id) != splitObj {
		return false
	}
	v, ok := constInt(info, ix.Index)
	return ok && v == 0
}

func c12bSite(c *Ctx, info *types.Info, fd *ast.FuncDecl, call *ast.CallExpr, stack []ast.Node) {
	langP := mx("lang")
	// single-definition locals (`name, nested := split[0], split[1:]`) stand for their definition
	fdefs := localDefs(info, fd.Body)
	res := func(e ast.Expr) ast.Expr { return fdefs.resolve1(info, e) }
	if len(call.Args) != 4 {
		c.Undecided("R12b", "Set:Alter:args", call.Pos(), "alter.Alter arity changed")
		return
	}
	as := c12AssignOf(stack, call)
	if as == nil || len(as.Lhs) != 2 {
		c.Viol("R12b", "Set:Alter:result", call.Pos(), "the result/error of alter.Alter is not bound (%s): the altered document or the failure is lost", c.src(call))
		return
	}
	resID, _ := as.Lhs[0].(*ast.Ident)
	errID, _ := as.Lhs[1].(*ast.Ident)
	if resID == nil || errID == nil || resID.Name == "_" || errID.Name == "_" {
		c.Viol("R12b", "Set:Alter:result", call.Pos(), "alter.Alter's result or error is discarded (%s)", c.src(as))
		return
	}
	resObj, errObj := info.ObjectOf(resID), info.ObjectOf(errID)
	c.OK("R12b", "Set:Alter:result", call.Pos(), "result and error of alter.Alter are bound")

	// the enclosing statement list
	var list []ast.Stmt
	for i := len(stack) - 1; i >= 0 && list == nil; i-- {
		switch b := stack[i].(type) {
		case *ast.BlockStmt:
			if topLevelIndex(b.List, as) >= 0 && isTopLevel(b.List, as) {
				list = b.List
			}
		case *ast.CaseClause:
			if isTopLevel(b.Body, as) {
				list = b.Body
			}
		}
	}
	if list == nil {
		c.Undecided("R12b", "Set:shape", as.Pos(), "alter.Alter is not a top-level statement of its block; the straight-line analysis does not apply")
		return
	}
	ai := topLevelIndex(list, as)

	// (1) the document altered is the variable's own stored object: arg1 is a
	// local whose reaching definition (nearest earlier top-level assignment in
	// the same list) is v.getValue(split[0]); path is split[1:]; new value is the
	// `value` parameter.
	var splitObj types.Object
	ast.Inspect(fd.Body, func(n ast.Node) bool {
		if a, ok := n.(*ast.AssignStmt); ok && len(a.Lhs) == 1 && len(a.Rhs) == 1 {
			if sc, ok := unparen(a.Rhs[0]).(*ast.CallExpr); ok {
				if o := callee(info, sc); o != nil && o.Pkg() != nil && o.Pkg().Path() == "strings" && o.Name() == "Split" && len(sc.Args) == 2 {
					if pid, ok := unparen(sc.Args[0]).(*ast.Ident); ok && len(fd.Type.Params.List) >= 2 && isParam(info, fd, pid) {
						if id, ok := a.Lhs[0].(*ast.Ident); ok {
							splitObj = info.ObjectOf(id)
						}
					}
				}
			}
		}
		return true
	})
	if splitObj == nil {
		c.Undecided("R12b", "Set:split", fd.Pos(), "cannot find `split := strings.Split(path, …)`")
		return
	}
	docOK := false
	if id, ok := unparen(call.Args[1]).(*ast.Ident); ok {
		o := info.ObjectOf(id)
		for i := ai - 1; i >= 0 && !docOK; i-- {
			a, ok := list[i].(*ast.AssignStmt)
			if !ok {
				continue
			}
			for _, l := range a.Lhs {
				if lid, ok := l.(*ast.Ident); ok && info.ObjectOf(lid) == o {
					if len(a.Rhs) == 1 {
						if gc, ok := unparen(a.Rhs[0]).(*ast.CallExpr); ok && callIs(info, gc, langP, "Variables", "getValue") &&
							len(gc.Args) == 1 && c12IsSplit0(info, res(gc.Args[0]), splitObj) && selPath(gc.Fun.(*ast.SelectorExpr).X) == recvVar(fd) {
							docOK = true
						}
					}
					i = -1
					break
				}
			}
		}
	}
	c.Check(docOK, "R12b", "Set:Alter:document", call.Args[1].Pos(), "the object handed to alter.Alter (%s) must be this table's stored value of split[0] (v.getValue(split[0])); otherwise the nested assignment edits some other document", c.src(call.Args[1]))
	c.Check(c12IsSplit(c, info, res(call.Args[2]), splitObj, 1), "R12b", "Set:Alter:path", call.Args[2].Pos(), "alter.Alter's path argument is %s; it must be split[1:] (the path below the variable name) or a different element than `$v.path` is changed", c.src(call.Args[2]))
	valOK := false
	if id, ok := unparen(call.Args[3]).(*ast.Ident); ok && isParam(info, fd, id) && types.Identical(info.TypeOf(id), types.Universe.Lookup("any").Type()) {
		valOK = true
	}
	c.Check(valOK, "R12b", "Set:Alter:value", call.Args[3].Pos(), "alter.Alter's new-value argument is %s; it must be Set's value parameter", c.src(call.Args[3]))

	// (2) locate the v.set call among the following top-level statements
	isSetCall := func(n ast.Node) *ast.CallExpr {
		var res *ast.CallExpr
		ast.Inspect(n, func(x ast.Node) bool {
			if _, ok := x.(*ast.FuncLit); ok {
				return false
			}
			if cl, ok := x.(*ast.CallExpr); ok && callIs(info, cl, langP, "Variables", "set") {
				res = cl
			}
			return res == nil
		})
		return res
	}
	setIdx := -1
	var setCall *ast.CallExpr
	for i := ai + 1; i < len(list); i++ {
		var probe ast.Node
		switch s := list[i].(type) {
		case *ast.AssignStmt, *ast.ExprStmt, *ast.ReturnStmt:
			probe = s
		case *ast.IfStmt:
			if s.Init != nil {
				probe = s.Init
			}
		}
		if probe != nil {
			if sc := isSetCall(probe); sc != nil {
				setIdx, setCall = i, sc
				break
			}
		}
	}
	// every return between Alter and the set (or all returns, if there is no
	// unconditional set) must be an error exit guarded by err != nil.
	isErrGuarded := func(rs *ast.ReturnStmt) bool {
		st := pathTo(fd.Body, rs)
		for _, f := range factsOf(guardsAt(info, st)) {
			b, ok := unparen(f.E).(*ast.BinaryExpr)
			if !ok {
				continue
			}
			var other ast.Expr
			if id, ok := unparen(b.X).(*ast.Ident); ok && info.ObjectOf(id) == errObj {
				other = b.Y
			} else if id, ok := unparen(b.Y).(*ast.Ident); ok && info.ObjectOf(id) == errObj {
				other = b.X
			}
			if other == nil {
				continue
			}
			if id, ok := unparen(other).(*ast.Ident); !ok || id.Name != "nil" {
				continue
			}
			if (b.Op == token.NEQ && f.True) || (b.Op == token.EQL && !f.True) {
				return true
			}
		}
		return false
	}
	returnsNonNil := func(rs *ast.ReturnStmt) bool {
		if len(rs.Results) != 1 {
			return false
		}
		r := unparen(rs.Results[0])
		if id, ok := r.(*ast.Ident); ok {
			return id.Name != "nil" && info.ObjectOf(id) == errObj
		}
		_, isCall := r.(*ast.CallExpr)
		return isCall
	}
	end := len(list)
	if setIdx >= 0 {
		end = setIdx
	}
	nEarly, nBad := 0, 0
	for i := ai + 1; i < end; i++ {
		ast.Inspect(list[i], func(n ast.Node) bool {
			if _, ok := n.(*ast.FuncLit); ok {
				return false
			}
			rs, ok := n.(*ast.ReturnStmt)
			if !ok {
				return true
			}
			nEarly++
			if !(isErrGuarded(rs) && returnsNonNil(rs)) {
				nBad++
				c.Viol("R12b", "Set:return-without-set", rs.Pos(), "Variables.Set returns (%s) after alter.Alter changed the stored object in place but before v.set re-stored it: the variable's string form (what `$v`/`out $v` and copies read) is stale, so `$v.path` does not read back the assigned value", c.src(rs))
			}
			return true
		})
	}
	// the failure of Alter must leave through an error return before the set
	errExit := false
	for i := ai + 1; i < end; i++ {
		if is, ok := list[i].(*ast.IfStmt); ok && is.Else == nil && terminates(info, is.Body.List) {
			for _, s := range is.Body.List {
				if rs, ok := s.(*ast.ReturnStmt); ok && isErrGuarded(rs) && returnsNonNil(rs) {
					errExit = true
				}
			}
		}
	}
	c.Check(errExit, "R12b", "Set:Alter:error", as.Pos(), "a failing alter.Alter must make Set return that error before anything is stored (err != nil ⇒ return non-nil)")
	if setIdx < 0 {
		c.Viol("R12b", "Set:set-after-Alter", as.Pos(), "no unconditional v.set(…) follows alter.Alter in the nested arm of Variables.Set: the altered object is never re-stored / re-marshalled, `$v` keeps printing the old document")
		return
	}
	if nBad == 0 {
		c.OK("R12b", "Set:return-without-set", as.Pos(), "%d early return(s) between Alter and v.set, all error exits", nEarly)
	}
	// arguments of the set call
	ok0 := len(setCall.Args) == 5
	if !ok0 {
		c.Undecided("R12b", "Set:set:args", setCall.Pos(), "v.set arity changed")
		return
	}
	c.Check(selPath(setCall.Fun.(*ast.SelectorExpr).X) == recvVar(fd), "R12b", "Set:set:receiver", setCall.Pos(), "v.set must be called on Set's own receiver (same variable table the document came from)")
	c.Check(c12IsSplit0(info, res(setCall.Args[1]), splitObj), "R12b", "Set:set:name", setCall.Args[1].Pos(), "v.set stores under %s; it must be split[0], the variable that was altered", c.src(setCall.Args[1]))
	isRes := false
	if id, ok := unparen(setCall.Args[2]).(*ast.Ident); ok && info.ObjectOf(id) == resObj {
		isRes = true
	}
	c.Check(isRes, "R12b", "Set:set:value", setCall.Args[2].Pos(), "v.set stores %s; it must store the whole document returned by alter.Alter (storing anything else drops every other path of `$v`)", c.src(setCall.Args[2]))
	c.Check(c12IsSplit(c, info, res(setCall.Args[4]), splitObj, 1), "R12b", "Set:set:changePath", setCall.Args[4].Pos(), "v.set's changePath is %s; it must be split[1:] ($ENV/$GLOBAL/$MOD and MxInterface variables are updated by that path)", c.src(setCall.Args[4]))
	// the set's error must be returned
	setErrReturned := false
	switch s := list[setIdx].(type) {
	case *ast.ReturnStmt:
		setErrReturned = true
	case *ast.IfStmt:
		setErrReturned = terminates(info, s.Body.List)
	case *ast.AssignStmt:
		// err = v.set(...) ; if err != nil { return … }
		if len(s.Lhs) == 1 {
			if id, ok := s.Lhs[0].(*ast.Ident); ok && id.Name != "_" {
				eo := info.ObjectOf(id)
				for i := setIdx + 1; i < len(list); i++ {
					switch t := list[i].(type) {
					case *ast.IfStmt:
						if mentions(info, t.Cond, eo) && terminates(info, t.Body.List) {
							setErrReturned = true
						}
					case *ast.ReturnStmt:
						if len(t.Results) == 1 && mentions(info, t.Results[0], eo) {
							setErrReturned = true
						}
					}
					if setErrReturned {
						break
					}
				}
			}
		}
	}
	c.Check(setErrReturned, "R12b", "Set:set:error", list[setIdx].Pos(), "the error of v.set after a nested assignment must be returned (a failed re-marshal would otherwise be reported as success)")
}

// ---------------------------------------------------------------- R12c / R12d

// c12GoTypeOfConst maps a murex scalar type name to the Go type ConvertGoType yields.
var c12GoTypeOfConst = map[string]string{"str": "string", "int": "int", "float": "float64", "num": "float64", "bool": "bool"}

func c12cd(c *Ctx) {
	c.Rule("R12c", "every arm of alter.loop that descends (calls loop recursively) passes v[k], depth i+1 and the unchanged path/new/action, and every store into the container in that arm uses the same index k (other elements are never written)")
	c.Rule("R12d", "every arm of alter.loop whose static element/leaf type is string/int/float64/bool converts the new value with types.ConvertGoType(*new, K) where K's Go type is that element type (existing leaf type is kept)")
	fd, pk := c.MustFunc("R12c", "utils/alter", "", "loop")
	if fd == nil {
		return
	}
	info := pk.TypesInfo
	self := info.Defs[fd.Name]
	var params []types.Object
	for _, f := range fd.Type.Params.List {
		for _, n := range f.Names {
			params = append(params, info.Defs[n])
		}
	}
	if len(params) != 6 {
		c.Undecided("R12c", "loop:signature", fd.Pos(), "alter.loop no longer has 6 parameters")
		return
	}
	var retObj types.Object
	if fd.Type.Results != nil && len(fd.Type.Results.List) > 0 && len(fd.Type.Results.List[0].Names) > 0 {
		retObj = info.Defs[fd.Type.Results.List[0].Names[0]]
	}
	if retObj == nil {
		c.Undecided("R12c", "loop:named-result", fd.Pos(), "alter.loop no longer has a named first result; the store-returns-container check does not apply")
	}
	isParamN := func(e ast.Expr, n int) bool {
		id, ok := unparen(e).(*ast.Ident)
		return ok && info.ObjectOf(id) == params[n]
	}
	nDesc, nLeaf := 0, 0
	ast.Inspect(fd.Body, func(n ast.Node) bool {
		ts, ok := n.(*ast.TypeSwitchStmt)
		if !ok {
			return true
		}
		for _, s := range ts.Body.List {
			cc := s.(*ast.CaseClause)
			if len(cc.List) == 0 {
				continue
			}
			bound := info.Implicits[cc]
			var rec *ast.CallExpr
			for _, cl := range calls(cc, false) {
				if callee(info, cl) == self {
					rec = cl
				}
			}
			var tnames []string
			for _, te := range cc.List {
				if t := info.TypeOf(te); t != nil {
					tnames = append(tnames, types.TypeString(t, func(*types.Package) string { return "" }))
				} else {
					tnames = append(tnames, c.src(te))
				}
			}
			sort.Strings(tnames)
			tkey := strings.Join(tnames, "|")
			if rec != nil {
				nDesc++
				key := "loop:descend:" + tkey
				if len(rec.Args) != 6 || bound == nil || len(cc.List) != 1 {
					c.Undecided("R12c", key, cc.Pos(), "descending arm of unrecognised shape")
					continue
				}
				var problems []string
				// single-definition locals of the arm (`child := v[k]`, `key := path[i]`, `val := *new`) stand for their definition
				adefs := localDefs(info, cc)
				ares := func(e ast.Expr) ast.Expr { return adefs.resolve1(info, e) }
				ix, ok := ares(rec.Args[1]).(*ast.IndexExpr)
				if !ok {
					problems = append(problems, "recursion is not on an element v[k] ("+c.src(rec.Args[1])+")")
				} else if id, ok := unparen(ix.X).(*ast.Ident); !ok || info.ObjectOf(id) != bound {
					problems = append(problems, "recursion indexes "+c.src(ix.X)+", not the container matched by this case")
				}
				depthOK := false
				if b, ok := ares(rec.Args[2]).(*ast.BinaryExpr); ok && b.Op == token.ADD {
					if v, ok := constInt(info, b.Y); ok && v == 1 && isParamN(b.X, 2) {
						depthOK = true
					}
					if v, ok := constInt(info, b.X); ok && v == 1 && isParamN(b.Y, 2) {
						depthOK = true
					}
				}
				if !depthOK {
					problems = append(problems, "depth argument is "+c.src(rec.Args[2])+", not i+1")
				}
				if !isParamN(rec.Args[3], 3) || !isParamN(rec.Args[4], 4) || !isParamN(rec.Args[5], 5) {
					problems = append(problems, "path/new/action are not forwarded unchanged")
				}
				nStore := 0
				if ix != nil {
					ast.Inspect(cc, func(m ast.Node) bool {
						as, ok := m.(*ast.AssignStmt)
						if !ok {
							return true
						}
						for _, l := range as.Lhs {
							lx, ok := unparen(l).(*ast.IndexExpr)
							if !ok {
								continue
							}
							if id, ok := unparen(lx.X).(*ast.Ident); !ok || info.ObjectOf(id) != bound {
								continue
							}
							nStore++
							if !c.sameExpr(ares(lx.Index), ares(ix.Index)) {
								problems = append(problems, "store "+c.src(as)+" writes index "+c.src(lx.Index)+" but the arm descended into index "+c.src(ix.Index))
							}
						}
						return true
					})
					// the index expression must not be reassigned inside the arm
					ast.Inspect(ix.Index, func(m ast.Node) bool {
						if id, ok := m.(*ast.Ident); ok {
							o := info.ObjectOf(id)
							ast.Inspect(cc, func(k ast.Node) bool {
								switch s := k.(type) {
								case *ast.AssignStmt:
									if s.Tok == token.DEFINE && s.Pos() < rec.Pos() {
										return true
									}
									for _, l := range s.Lhs {
										if lid, ok := l.(*ast.Ident); ok && info.ObjectOf(lid) == o && s.Pos() > rec.Pos() {
											problems = append(problems, "index variable "+id.Name+" is reassigned after the recursion")
										}
									}
								case *ast.IncDecStmt:
									if lid, ok := s.X.(*ast.Ident); ok && info.ObjectOf(lid) == o {
										problems = append(problems, "index variable "+id.Name+" is modified in the arm")
									}
								}
								return true
							})
						}
						return true
					})
				}
				if nStore == 0 {
					problems = append(problems, "the altered child is never stored back into the container")
				}
				// every branch that stores into the container must hand the
				// container back as the arm's result: the caller one level up
				// stores whatever is returned into ITS slot for this container.
				if ix != nil && retObj != nil {
					missing := 0
					walkStack(cc, func(m ast.Node, st []ast.Node) bool {
						as, ok := m.(*ast.AssignStmt)
						if !ok {
							return true
						}
						isStore := false
						for _, l := range as.Lhs {
							if lx, ok := unparen(l).(*ast.IndexExpr); ok {
								if id, ok := unparen(lx.X).(*ast.Ident); ok && info.ObjectOf(id) == bound {
									isStore = true
								}
							}
						}
						if !isStore {
							return true
						}
						// innermost enclosing statement list
						var list []ast.Stmt
						for i := len(st) - 2; i >= 0 && list == nil; i-- {
							switch b := st[i].(type) {
							case *ast.BlockStmt:
								list = b.List
							case *ast.CaseClause:
								list = b.Body
							}
						}
						// the LAST store to the result in this straight-line list is `ret = <container>`
						// (before or after the element store: the two statements are independent when the
						// element stored is not the result itself)
						found := false
						for _, s := range list {
							a2, ok := s.(*ast.AssignStmt)
							if !ok {
								continue
							}
							for li, lh := range a2.Lhs {
								l, lok := lh.(*ast.Ident)
								if !lok || info.ObjectOf(l) != retObj {
									continue
								}
								found = false
								if len(a2.Lhs) == len(a2.Rhs) {
									if r, rok := unparen(a2.Rhs[li]).(*ast.Ident); rok && info.ObjectOf(r) == bound {
										// a `ret = v` placed before `v[k] = ret` would store the container into itself
										if a2.Pos() > as.Pos() || !mentions(info, as.Rhs[0], retObj) {
											found = true
										}
									}
								}
							}
						}
						if !found {
							missing++
							c.Viol("R12c", "loop:store-returns-container:"+tkey, as.Pos(), "alter.loop arm `case %s`: the branch that stores %s does not set the result to the container (ret = v); the function then returns (nil, nil) and the caller one level up stores nil over this whole container — or, at the top level, Variables.Set stores nil as the whole variable. Failing input: `v = %%{a: {k: 1}, z: 2}; $v.a.b.c = 5` leaves {\"a\":null,\"z\":2}; `$v.q.r = 5` wipes $v", tkey, c.src(as))
						}
						return true
					})
					if missing == 0 {
						c.OK("R12c", "loop:store-returns-container:"+tkey, cc.Pos(), "every storing branch returns the container")
					}
				}
				if len(problems) > 0 {
					c.Viol("R12c", key, cc.Pos(), "alter.loop arm `case %s`: %s — a nested assignment would modify a different element than the addressed one, or leave it unchanged", tkey, strings.Join(problems, "; "))
				} else {
					c.OK("R12c", key, cc.Pos(), "descends into v[%s] at depth i+1 and stores back under the same index (%d stores)", c.src(ix.Index), nStore)
				}
			}
			// R12d: element type of the arm
			if len(cc.List) != 1 {
				errArm := false
				if n := len(cc.Body); n > 0 {
					if rs, ok := cc.Body[n-1].(*ast.ReturnStmt); ok && len(rs.Results) == 2 {
						if id, ok := unparen(rs.Results[1]).(*ast.Ident); !ok || id.Name != "nil" {
							errArm = true // the arm rejects the assignment with an error
						}
					}
				}
				if rec == nil && !errArm {
					for _, te := range cc.List {
						if b, ok := info.TypeOf(te).(*types.Basic); ok && (b.Kind() == types.String || b.Kind() == types.Int || b.Kind() == types.Float64 || b.Kind() == types.Bool) {
							nLeaf++
							c.Viol("R12d", "loop:leaf:"+b.Name(), cc.Pos(), "alter.loop handles an existing %s leaf in a case shared with other types (%s): it cannot convert the new value to the leaf's type, so `$v.path = x` changes the type of an existing leaf", b.Name(), tkey)
						}
					}
				}
				continue
			}
			t := info.TypeOf(cc.List[0])
			if t == nil {
				continue
			}
			var elem types.Type
			kind := "leaf"
			switch u := t.Underlying().(type) {
			case *types.Basic:
				if rec == nil {
					elem = u
				}
			case *types.Slice:
				if rec != nil {
					elem, kind = u.Elem(), "elem"
				}
			case *types.Map:
				if rec != nil {
					elem, kind = u.Elem(), "elem"
				}
			}
			if elem == nil {
				continue
			}
			eb, ok := elem.Underlying().(*types.Basic)
			if !ok || (eb.Kind() != types.String && eb.Kind() != types.Int && eb.Kind() != types.Float64 && eb.Kind() != types.Bool) {
				continue
			}
			nLeaf++
			key := "loop:" + kind + ":" + tkey
			var conv *ast.CallExpr
			for _, cl := range calls(cc, false) {
				if callIs(info, cl, mx("lang/types"), "", "ConvertGoType") && len(cl.Args) == 2 {
					conv = cl
				}
			}
			if conv == nil {
				c.Viol("R12d", key, cc.Pos(), "alter.loop arm `case %s` stores the new value without types.ConvertGoType: `$v.path = x` on an existing %s leaf would change the leaf's type instead of converting x", tkey, eb.Name())
				continue
			}
			k, ok := constString(info, conv.Args[1])
			fromNew := false
			if st, ok := localDefs(info, cc).resolve1(info, conv.Args[0]).(*ast.StarExpr); ok && isParamN(st.X, 4) {
				fromNew = true
			}
			switch {
			case !ok:
				c.Undecided("R12d", key, conv.Pos(), "conversion target %s is not a constant", c.src(conv.Args[1]))
			case c12GoTypeOfConst[k] != eb.Name():
				c.Viol("R12d", key, conv.Pos(), "alter.loop arm `case %s` converts the new value to murex type %q (Go %s) but the existing element is a Go %s: the assignment panics/fails or changes the leaf type", tkey, k, c12GoTypeOfConst[k], eb.Name())
			case !fromNew:
				c.Viol("R12d", key, conv.Pos(), "alter.loop arm `case %s` converts %s, not the new value *new", tkey, c.src(conv.Args[0]))
			default:
				c.OK("R12d", key, conv.Pos(), "new value converted to %q (Go %s) for existing %s element", k, c12GoTypeOfConst[k], eb.Name())
			}
		}
		return true
	})
	c.MinCount("R12c", "descending arms of alter.loop", nDesc, 8)
	c.MinCount("R12d", "typed leaf/element arms of alter.loop", nLeaf, 9)
}
