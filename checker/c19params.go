package main

import (
	"go/ast"
	"go/token"
	"go/types"
)

// R19i — parameter accessors never index an empty parameter. lang/parameters is the
// helper layer every builtin reads its arguments through (Block, Byte, …); the
// strings it holds are whatever the user typed, including "". A constant or
// len-relative index into such a string must be dominated by a test that excludes
// every length for which the index is out of range; otherwise the builtin panics.
func init() {
	extend("C19", func(c *Ctx) {
		c.Rule("R19i", "lang/parameters: every index `s[k]` / `s[len(s)-k]` (k constant) into a string taken from the parameter list is control-dependent on guards (if/else arms, earlier terminating ifs, earlier cases of a tagless switch) that exclude every length ≤ k (resp. < k): evaluated on lengths 0..k+1 from the comparisons over len(s) (and s == \"\") among the guards")
		n := c.constIndexGuarded("R19i", "lang/parameters", "", nil)
		c.MinCount("R19i", "constant / len-relative indices into parameter strings", n, 2)
	})
}

// constIndexGuarded checks every constant / len-relative index into a string (and, with sliceOwner set,
// into a slice held in a field of that struct type) of package pkgRel; accept filters the functions (nil = all).
func (c *Ctx) constIndexGuarded(rule, pkgRel string, sliceOwner string, accept func(fd *ast.FuncDecl) bool) int {
	pk := c.Pkg(pkgRel)
	if pk == nil {
		c.Lost(rule, "pkg:"+pkgRel, "package not loaded")
		return 0
	}
	info := pk.TypesInfo
	n := 0
	{
		eachFunc(pk, func(fd *ast.FuncDecl) {
			if fd.Body == nil || (accept != nil && !accept(fd)) {
				return
			}
			defs := localDefs(info, fd.Body)
			// subject: a local that is defined once stands for its definition (`cmd := st.command; cmd[0]`),
			// so that a test on the one and an index into the other are recognised as the same slice
			subjOf := func(e ast.Expr) string { return c.src(defs.resolve1(info, e)) }
			// lenOf: e is len(<subject>) — directly or through a local defined once (`n := len(st.command)`)
			lenOf := func(e ast.Expr, subj string) bool {
				call, isLen := isBuiltinCall(info, defs.resolve1(info, e), "len")
				return isLen && len(call.Args) == 1 && subjOf(call.Args[0]) == subj
			}
			walkStack(fd.Body, func(nd ast.Node, stack []ast.Node) bool {
				ix, ok := nd.(*ast.IndexExpr)
				if !ok {
					return true
				}
				ixX := defs.resolve1(info, ix.X)
				tv, ok := info.Types[ixX]
				if !ok {
					return true
				}
				isStr := false
				if b, isB := tv.Type.Underlying().(*types.Basic); isB && b.Info()&types.IsString != 0 {
					isStr = true
				}
				if !isStr {
					_, isSlice := tv.Type.Underlying().(*types.Slice)
					se, isField := unparen(ixX).(*ast.SelectorExpr)
					if sliceOwner == "" || !isSlice || !isField {
						return true
					}
					// the field must belong to the named struct type
					sel := info.Selections[se]
					if sel == nil || sel.Kind() != types.FieldVal || namedName(sel.Recv()) != sliceOwner {
						return true
					}
				}
				subj := subjOf(ix.X)
				// need: the smallest length for which the index is valid
				need := int64(-1)
				if k, isC := constInt(info, ix.Index); isC {
					need = k + 1
				} else if be, isBE := unparen(ix.Index).(*ast.BinaryExpr); isBE && be.Op == token.SUB {
					if lenOf(be.X, subj) {
						if k, isC := constInt(info, be.Y); isC && k >= 1 {
							need = k
						}
					}
				}
				if need < 0 {
					return true // variable index: E5 (R19a) owns user-derived indices
				}
				n++
				key := funcKey(pkgRel, fd) + ":" + subj + "[" + c.src(ix.Index) + "]#" + itoa(n)
				// lengths still possible under the guards
				possible := map[int64]bool{}
				for v := int64(0); v <= need+1; v++ {
					possible[v] = true
				}
				gs := guardsAt(info, stack)
				// an index inside the condition of a tagless-switch case is evaluated only after every
				// earlier case of that switch was false
				for i := 0; i+1 < len(stack); i++ {
					cc, ok := stack[i].(*ast.CaseClause)
					if !ok || i < 2 {
						continue
					}
					inCond := false
					for _, e := range cc.List {
						if ast.Node(e) == stack[i+1] {
							inCond = true
						}
					}
					sw, isSw := stack[i-2].(*ast.SwitchStmt)
					if !inCond || !isSw || sw.Tag != nil {
						continue
					}
					for _, st := range sw.Body.List {
						prev := st.(*ast.CaseClause)
						if prev == cc {
							break
						}
						for _, e := range prev.List {
							gs = append(gs, Guard{Cond: e, Neg: true})
						}
					}
				}
				// short-circuit operands: in `a && b` b is evaluated only when a held, in `a || b` only when it did not
				for i := 0; i+1 < len(stack); i++ {
					if be, ok := stack[i].(*ast.BinaryExpr); ok && ast.Node(be.Y) == stack[i+1] {
						switch be.Op {
						case token.LAND:
							gs = append(gs, Guard{Cond: be.X})
						case token.LOR:
							gs = append(gs, Guard{Cond: be.X, Neg: true})
						}
					}
				}
				// arm of `switch len(s) { case 0: … case 1: … }`: the length is one of the arm's values
				// (default arm: none of the listed ones); void when the arm can be entered by fallthrough
				for _, g := range gs {
					if g.Tag == nil || len(g.Cases) == 0 || !lenOf(g.Tag, subj) {
						continue
					}
					vals, allConst := map[int64]bool{}, true
					for _, cs := range g.Cases {
						if k, isC := constInt(info, cs); isC {
							vals[k] = true
						} else {
							allConst = false
						}
					}
					entered := false
					for _, a := range stack {
						sw, isSw := a.(*ast.SwitchStmt)
						if !isSw || sw.Tag != g.Tag {
							continue
						}
						for ci, cl := range sw.Body.List {
							if ci == 0 || !(cl.Pos() <= nd.Pos() && nd.End() <= cl.End()) {
								continue
							}
							prev := sw.Body.List[ci-1].(*ast.CaseClause)
							if k := len(prev.Body); k > 0 {
								if br, isBr := prev.Body[k-1].(*ast.BranchStmt); isBr && br.Tok == token.FALLTHROUGH {
									entered = true
								}
							}
						}
					}
					if !allConst || entered {
						continue
					}
					for v := range possible {
						if vals[v] == g.Neg {
							delete(possible, v)
						}
					}
				}
				// (flagFacts, c02x.go: a boolean local defined once — `empty := len(s) == 0` — states its definition)
				for _, ft := range flagFacts(info, fd.Body, defs, factsOf(gs), ix.Pos()) {
					// len(s) OP k
					if x, op, k, ok := cmpNorm(info, ft.E); ok {
						if lenOf(x, subj) {
							p := intPred(op, k)
							for v := range possible {
								if p(v) != ft.True {
									delete(possible, v)
								}
							}
						}
						continue
					}
					// s == "" / s != ""
					if be, isBE := unparen(ft.E).(*ast.BinaryExpr); isBE && (be.Op == token.EQL || be.Op == token.NEQ) {
						l, r := be.X, be.Y
						if s, isS := constString(info, l); isS && s == "" {
							l, r = r, l
						}
						if s, isS := constString(info, r); isS && s == "" && subjOf(l) == subj {
							empty := (be.Op == token.EQL) == ft.True
							for v := range possible {
								if (v == 0) != empty {
									delete(possible, v)
								}
							}
						}
					}
				}
				bad := int64(-1)
				for v := range possible {
					if v < need && (bad < 0 || v < bad) {
						bad = v
					}
				}
				if bad >= 0 {
					c.Viol(rule, key, ix.Pos(), "%s indexes %s[%s] where a parameter of length %d is still possible (no dominating length test excludes it): an empty or short argument panics inside the builtin that called %s", fd.Name.Name, subj, c.src(ix.Index), bad, fd.Name.Name)
				} else {
					c.OK(rule, key, ix.Pos(), "lengths below %d are excluded by the guards", need)
				}
				return true
			})
		})
	}
	return n
}
