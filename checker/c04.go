package main

import (
	"fmt"
	"go/ast"
	"go/constant"
	"go/token"
	"go/types"
	"sort"
	"strings"
)

func init() {
	register("C04", "Decides structural necessary conditions of the normal-mode && / || / ; semantics: the block parser's token→property table (which separator sets NEW_CHAIN / LOGIC_AND / LOGIC_OR / METHOD, never METHOD together with a logic flag), the property accessors, compile()'s copy of the flags into the process, the truth table of runModeNormal's skip predicate and what its arms do (skipped command inherits the previous exit number, chain skipping), that a command is started only after its own operator flag was read since the previous start (all paths), and that the block's exit number is the last command's. Does NOT decide the exit numbers of the commands themselves.", runC04)
}

const fnPkg = "lang/expressions/functions"

// indexExprOf: e is x[i], &x[i], or a single-definition local bound to one of those.
func (d defMap) indexExprOf(info *types.Info, e ast.Expr) *ast.IndexExpr {
	for k := 0; k < 3; k++ {
		e = unparen(e)
		if u, ok := e.(*ast.UnaryExpr); ok && u.Op == token.AND {
			e = unparen(u.X)
		}
		if ix, ok := e.(*ast.IndexExpr); ok {
			return ix
		}
		if _, isId := e.(*ast.Ident); !isId {
			return nil
		}
		r := d.resolve1(info, e)
		if r == e {
			return nil
		}
		e = r
	}
	return nil
}

// evalPropExpr evaluates a side-effect-free expression over the receiver (value recv), integer
// constants and single-definition locals: returns (value, isBool, known).
func evalPropExpr(info *types.Info, defs defMap, e ast.Expr, recvObj types.Object, recv int64) (int64, bool, bool) {
	e = stripConv(info, e)
	if v, ok := constInt(info, e); ok {
		return v, false, true
	}
	switch x := e.(type) {
	case *ast.Ident:
		if info.ObjectOf(x) == recvObj {
			return recv, false, true
		}
		if r := defs.resolve1(info, x); r != ast.Expr(x) {
			return evalPropExpr(info, defs, r, recvObj, recv)
		}
	case *ast.UnaryExpr:
		if x.Op == token.NOT {
			v, isB, ok := evalPropExpr(info, defs, x.X, recvObj, recv)
			if ok && isB {
				return 1 - v, true, true
			}
		}
	case *ast.BinaryExpr:
		a, aB, ok1 := evalPropExpr(info, defs, x.X, recvObj, recv)
		b, bB, ok2 := evalPropExpr(info, defs, x.Y, recvObj, recv)
		if !ok1 || !ok2 || aB != bB {
			return 0, false, false
		}
		b2i := func(t bool) int64 {
			if t {
				return 1
			}
			return 0
		}
		if aB {
			switch x.Op {
			case token.LAND:
				return b2i(a != 0 && b != 0), true, true
			case token.LOR:
				return b2i(a != 0 || b != 0), true, true
			case token.EQL:
				return b2i(a == b), true, true
			case token.NEQ:
				return b2i(a != b), true, true
			}
			return 0, false, false
		}
		switch x.Op {
		case token.AND:
			return a & b, false, true
		case token.OR:
			return a | b, false, true
		case token.AND_NOT:
			return a &^ b, false, true
		case token.XOR:
			return a ^ b, false, true
		case token.EQL, token.NEQ, token.LSS, token.LEQ, token.GTR, token.GEQ:
			return b2i(intPred(x.Op, b)(a)), true, true
		}
	}
	return 0, false, false
}

func propConsts(c *Ctx) map[string]int64 {
	out := map[string]int64{}
	pk := c.Pkg(fnPkg)
	if pk == nil {
		return out
	}
	for n, v := range enumConsts(pk.Types, "Property") {
		if i, ok := constant.Int64Val(v); ok {
			out[n] = i
		}
	}
	return out
}

func runC04(c *Ctx) {
	c.Load("lang", "lang/expressions", fnPkg)
	lpk := c.Pkg("lang")
	linfo := lpk.TypesInfo
	P := propConsts(c)
	for _, n := range []string{"P_NEW_CHAIN", "P_METHOD", "P_FOLLOW_ON", "P_PIPE_OUT", "P_PIPE_ERR", "P_LOGIC_AND", "P_LOGIC_OR"} {
		if _, ok := P[n]; !ok {
			c.Lost("R04a", "const:"+n, "functions.%s not found", n)
		}
	}

	c.Rule("R04a", "token→property table of BlockT.ParseBlock: `&&`→next{NEW_CHAIN,FOLLOW_ON,LOGIC_AND}, `||`→next{NEW_CHAIN,FOLLOW_ON,LOGIC_OR}, `;` and newline→next{NEW_CHAIN}, `|` `->` `=>` `?` → this{PIPE_*} next{FOLLOW_ON,METHOD}; no arm combines METHOD with a logic flag; append() stores nextProperty|this and then sets nextProperty=next; the accessors test their own bit")
	c.checkParseBlockTable(P)

	c.Rule("R04b", "compile copies Properties.LogicAnd()→OperatorLogicAnd, LogicOr()→OperatorLogicOr, Method()→IsMethod for the same tree index (not crossed)")
	if fd, _ := c.MustFunc("R04b", "lang", "", "compile"); fd != nil {
		want := map[string]string{"OperatorLogicAnd": "LogicAnd", "OperatorLogicOr": "LogicOr", "IsMethod": "Method"}
		got := map[string]string{}
		pos := map[string]token.Pos{}
		cdefs := localDefs(linfo, fd.Body)
		ast.Inspect(fd.Body, func(n ast.Node) bool {
			as, ok := n.(*ast.AssignStmt)
			if !ok || len(as.Lhs) != 1 || len(as.Rhs) != 1 {
				return true
			}
			se, ok := as.Lhs[0].(*ast.SelectorExpr)
			if !ok {
				return true
			}
			if _, w := want[se.Sel.Name]; !w {
				return true
			}
			// procs[i] — or a pointer local `proc := &procs[i]`
			lix := cdefs.indexExprOf(linfo, se.X)
			if lix == nil {
				return true
			}
			call, ok := unparen(as.Rhs[0]).(*ast.CallExpr)
			if !ok {
				got[se.Sel.Name] = "?" + c.src(as.Rhs[0])
				pos[se.Sel.Name] = as.Pos()
				return true
			}
			o := callee(linfo, call)
			name := ""
			if o != nil && o.Pkg() != nil && o.Pkg().Path() == mx(fnPkg) {
				name = o.Name()
			}
			// same index on both sides: procs[i] ... (*tree)[i].Properties.X()
			same := false
			if fs, ok := call.Fun.(*ast.SelectorExpr); ok {
				// (*tree)[i].Properties — directly, or through `props := (*tree)[i].Properties` / `node := &(*tree)[i]`
				if ps, ok := cdefs.resolve1(linfo, fs.X).(*ast.SelectorExpr); ok && ps.Sel.Name == "Properties" {
					if rix := cdefs.indexExprOf(linfo, ps.X); rix != nil && c.sameExpr(rix.Index, lix.Index) {
						same = true
					}
				}
			}
			if !same {
				name += "(different index)"
			}
			got[se.Sel.Name] = name
			pos[se.Sel.Name] = as.Pos()
			return true
		})
		for f, w := range want {
			p := pos[f]
			if p == token.NoPos {
				p = fd.Pos()
			}
			c.Check(got[f] == w, "R04b", "compile:"+f, p, "procs[i].%s = (*tree)[i].Properties.%s() (got %q)", f, w, got[f])
		}
	}

	c.Rule("R04c", "truth table of runModeNormal's skip predicate over A=procs[i].OperatorLogicAnd, O=procs[i].OperatorLogicOr, F=(procs[prev].ExitNum != 0), S=skipPipeline equals (A∧F)∨(O∧¬F)∨(S∧(A∨O)); the true arm marks the process terminated, copies procs[prev].ExitNum into procs[i].ExitNum and sets skipPipeline=true; the false arm sets it false; prev == i-1")
	if fd, _ := c.MustFunc("R04c", "lang", "", "runModeNormal"); fd != nil {
		c.checkNormalPredicate(linfo, fd, "")
	}

	c.Rule("R04d", "the block's exit number is procs[len-1].ExitNum, read after waitProcess(procs[len-1])")
	c.checkNormalExit(linfo, "R04d")

	c.Rule("R04e", "E2c path rule (examined-before-start): on every path between two process starts in runModeNormal, the started process's own OperatorLogicAnd/Or flag was read (or it is a method, or it was just marked skipped)")
	if fd, _ := c.MustFunc("R04e", "lang", "", "runModeNormal"); fd != nil {
		c.exploreScheduler("lang", fd, linfo, "R04e", "", "", false)
	}
	// executeProcess must not run a process that was marked terminated (skipped)
	c.Rule("R04f", "a process marked terminated by the scheduler is not executed: executeProcess tests HasTerminated() before doing anything else and leaves through destroyProcess")
	if fd, _ := c.MustFunc("R04f", "lang", "", "executeProcess"); fd != nil {
		ok := false
		var pos token.Pos = fd.Pos()
		edefs := localDefs(linfo, fd.Body)
		// anything that starts the process's work before the test voids it
		startsWork := func(n ast.Node) bool {
			found := false
			for _, call := range calls(n, false) {
				if nm := calleeName(linfo, call); strings.HasSuffix(nm, "ParseStatementParameters") || strings.Contains(nm, "Execute") {
					found = true
				}
			}
			return found
		}
		for _, s := range fd.Body.List {
			is, isIf := s.(*ast.IfStmt)
			if !isIf || !terminates(linfo, is.Body.List) || is.Else != nil {
				// other early exits (cancelled …) and set-up statements may precede the test
				if _, isDefer := s.(*ast.DeferStmt); !isDefer && startsWork(s) {
					break
				}
				continue
			}
			has := false
			for _, d := range disjuncts(is.Cond) {
				// p.HasTerminated(), possibly read into a local just before
				if call, isC := edefs.resolve1(linfo, d).(*ast.CallExpr); isC {
					if se, isS := call.Fun.(*ast.SelectorExpr); isS && se.Sel.Name == "HasTerminated" {
						if id, isI := se.X.(*ast.Ident); isI && isParam(linfo, fd, id) {
							has = true
						}
					}
				}
			}
			if has {
				ok = true
				pos = is.Pos()
				break
			}
			if startsWork(is.Cond) {
				break
			}
		}
		c.Check(ok, "R04f", "executeProcess:skip-terminated", pos, "executeProcess returns at once for a process already marked terminated (a skipped && / || command must not run)")
	}

	if c.Tier == "thorough" {
		c.schedJSVariant(func(c2 *Ctx, info2 *types.Info) {
			if fd, _ := c2.FuncDecl("lang", "", "runModeNormal"); fd != nil {
				c.exploreSchedulerFrom(c2, "js:", fd, info2, "R04e", "", "", false)
				before := len(c2.Obls)
				c2.checkNormalPredicate(info2, fd, "js:")
				c.Obls = append(c.Obls, c2.Obls[before:]...)
			}
		})
	}
}

// checkParseBlockTable extracts every blk.append call of ParseBlock with its
// arm and compares with the property's table.
func (c *Ctx) checkParseBlockTable(P map[string]int64) {
	fd, pk := c.MustFunc("R04a", "lang/expressions", "BlockT", "ParseBlock")
	if fd == nil {
		return
	}
	info := pk.TypesInfo
	decomp := func(v int64) string {
		var names []string
		for n, b := range P {
			if v&b != 0 {
				names = append(names, strings.TrimPrefix(n, "P_"))
			}
		}
		sort.Strings(names)
		if len(names) == 0 {
			return "0"
		}
		return strings.Join(names, "|")
	}
	type row struct {
		arm        string
		this, next int64
		pos        token.Pos
		okc        bool
	}
	var rows []row
	pdefs := localDefs(info, fd.Body)
	walkStack(fd.Body, func(n ast.Node, stack []ast.Node) bool {
		call, ok := n.(*ast.CallExpr)
		if !ok || !callIs(info, call, mx("lang/expressions"), "BlockT", "append") || len(call.Args) != 3 {
			return true
		}
		// arm: case rune of the enclosing `switch r` + nested nextChar()==X guard
		arm := "end-of-input"
		for i, s := range stack {
			cc, ok := s.(*ast.CaseClause)
			if !ok || i < 2 {
				continue
			}
			sw, ok := stack[i-2].(*ast.SwitchStmt)
			if !ok {
				continue
			}
			if sw.Tag != nil && len(cc.List) > 0 {
				if v, ok := constInt(info, cc.List[0]); ok && arm == "end-of-input" {
					arm = fmt.Sprintf("%q", rune(v))
				}
			}
		}
		for _, f := range factsOf(guardsAt(info, stack)) {
			// nextChar() == 'x' in either operand order, == or !=, the call possibly read into a local first
			if b, ok := unparen(f.E).(*ast.BinaryExpr); ok && (b.Op == token.EQL || b.Op == token.NEQ) {
				for _, pair := range [][2]ast.Expr{{b.X, b.Y}, {b.Y, b.X}} {
					cl, ok := pdefs.resolve1(info, pair[0]).(*ast.CallExpr)
					if !ok {
						continue
					}
					if se, ok := cl.Fun.(*ast.SelectorExpr); ok && se.Sel.Name == "nextChar" {
						if v, ok := constInt(info, pair[1]); ok {
							if (b.Op == token.EQL) == f.True {
								arm += fmt.Sprintf("+%q", rune(v))
							} else {
								arm += fmt.Sprintf("+not%q", rune(v))
							}
							break
						}
					}
				}
			}
		}
		this, ok1 := constInt(info, call.Args[1])
		next, ok2 := constInt(info, call.Args[2])
		rows = append(rows, row{arm, this, next, call.Pos(), ok1 && ok2})
		return true
	})
	want := map[string][2]int64{
		`'\n'`:         {0, P["P_NEW_CHAIN"]},
		`';'`:          {0, P["P_NEW_CHAIN"]},
		`'&'+'&'`:      {0, P["P_NEW_CHAIN"] | P["P_FOLLOW_ON"] | P["P_LOGIC_AND"]},
		`'|'+'|'`:      {0, P["P_NEW_CHAIN"] | P["P_FOLLOW_ON"] | P["P_LOGIC_OR"]},
		`'|'+not'|'`:   {P["P_PIPE_OUT"], P["P_FOLLOW_ON"] | P["P_METHOD"]},
		`'-'+'>'`:      {P["P_PIPE_OUT"], P["P_FOLLOW_ON"] | P["P_METHOD"]},
		`'?'`:          {P["P_PIPE_ERR"], P["P_FOLLOW_ON"] | P["P_METHOD"]},
		`'='+'>'`:      {P["P_PIPE_OUT"], P["P_FOLLOW_ON"] | P["P_METHOD"]},
		`end-of-input`: {0, 0},
	}
	seen := map[string]int{}
	logic := P["P_LOGIC_AND"] | P["P_LOGIC_OR"]
	for _, r := range rows {
		seen[r.arm]++
		key := "arm:" + r.arm
		if seen[r.arm] > 1 {
			key += fmt.Sprintf("#%d", seen[r.arm])
		}
		if !r.okc {
			c.Undecided("R04a", key, r.pos, "blk.append called with non-constant property arguments")
			continue
		}
		if (r.this|r.next)&P["P_METHOD"] != 0 && (r.this|r.next)&logic != 0 {
			c.Viol("R04a", key+":method+logic", r.pos, "arm %s marks the next command as a METHOD and with a logic operator: schedulers assume a method never carries &&/||", r.arm)
		}
		w, known := want[r.arm]
		if !known {
			// other arms (>> |> ~> etc.): must not set logic flags or NEW_CHAIN|FOLLOW_ON wrongly — only obligation: no logic flags
			c.Check((r.this|r.next)&logic == 0, "R04a", key, r.pos, "arm %s passes this={%s} next={%s}; it must not set a logic flag", r.arm, decomp(r.this), decomp(r.next))
			continue
		}
		c.Check(r.this == w[0] && r.next == w[1], "R04a", key, r.pos, "arm %s passes this={%s} next={%s}, table says this={%s} next={%s}", r.arm, decomp(r.this), decomp(r.next), decomp(w[0]), decomp(w[1]))
	}
	for arm := range want {
		if seen[arm] == 0 {
			c.Lost("R04a", "arm:"+arm, "no blk.append call found for separator %s in ParseBlock", arm)
		}
	}
	c.MinCount("R04a", "blk.append calls in ParseBlock", len(rows), 10)

	// append(): Properties: blk.nextProperty | this ; blk.nextProperty = next
	if afd, _ := c.MustFunc("R04a", "lang/expressions", "BlockT", "append"); afd != nil {
		var thisObj, nextObj types.Object
		if afd.Type.Params != nil {
			var ps []types.Object
			for _, f := range afd.Type.Params.List {
				for _, n := range f.Names {
					ps = append(ps, info.Defs[n])
				}
			}
			if len(ps) == 3 {
				thisObj, nextObj = ps[1], ps[2]
			}
		}
		nProps, okProps := 0, 0
		adefs := localDefs(info, afd.Body)
		ast.Inspect(afd.Body, func(n ast.Node) bool {
			kv, ok := n.(*ast.KeyValueExpr)
			if !ok {
				return true
			}
			if id, ok := kv.Key.(*ast.Ident); !ok || id.Name != "Properties" {
				return true
			}
			nProps++
			b, ok := adefs.resolve1(info, kv.Value).(*ast.BinaryExpr)
			if ok && b.Op == token.OR {
				x, y := unparen(b.X), unparen(b.Y)
				isNP := func(e ast.Expr) bool {
					se, ok := e.(*ast.SelectorExpr)
					return ok && se.Sel.Name == "nextProperty"
				}
				isThis := func(e ast.Expr) bool {
					id, ok := e.(*ast.Ident)
					return ok && info.ObjectOf(id) == thisObj
				}
				if (isNP(x) && isThis(y)) || (isNP(y) && isThis(x)) {
					okProps++
				}
			}
			return true
		})
		c.Check(nProps >= 2 && okProps == nProps, "R04a", "append:Properties", afd.Pos(), "every FunctionT appended gets Properties = blk.nextProperty | this (%d of %d)", okProps, nProps)
		// last statement before return nil: blk.nextProperty = next
		okNext := false
		for _, s := range afd.Body.List {
			if as, ok := s.(*ast.AssignStmt); ok && len(as.Lhs) == 1 && len(as.Rhs) == 1 {
				if se, ok := as.Lhs[0].(*ast.SelectorExpr); ok && se.Sel.Name == "nextProperty" {
					if id, ok := unparen(as.Rhs[0]).(*ast.Ident); ok && info.ObjectOf(id) == nextObj {
						okNext = true
					}
				}
			}
		}
		c.Check(okNext, "R04a", "append:nextProperty", afd.Pos(), "append ends by storing blk.nextProperty = next at its top level (unconditionally on the non-error paths)")
	}
	// accessors
	if fpk := c.Pkg(fnPkg); fpk != nil {
		finfo := fpk.TypesInfo
		acc := map[string]string{"NewChain": "P_NEW_CHAIN", "Method": "P_METHOD", "FollowOnFn": "P_FOLLOW_ON", "PipeOut": "P_PIPE_OUT", "PipeErr": "P_PIPE_ERR", "LogicAnd": "P_LOGIC_AND", "LogicOr": "P_LOGIC_OR"}
		for m, k := range acc {
			fd, _ := c.MustFunc("R04a", fnPkg, "Property", m)
			if fd == nil {
				continue
			}
			// semantic: the returned expression, evaluated for every combination of the seven bits,
			// is true exactly when the accessor's own bit is set (prop&BIT != 0, == BIT, > 0, operands
			// in any order, through a local)
			ok := false
			var recvObj types.Object
			if fd.Recv != nil && len(fd.Recv.List) == 1 && len(fd.Recv.List[0].Names) == 1 {
				recvObj = finfo.Defs[fd.Recv.List[0].Names[0]]
			}
			if n := len(fd.Body.List); n >= 1 && recvObj != nil {
				if rs, isR := fd.Body.List[n-1].(*ast.ReturnStmt); isR && len(rs.Results) == 1 {
					fdefs := localDefs(finfo, fd.Body)
					noOther := true
					for _, st := range fd.Body.List[:n-1] {
						switch st.(type) {
						case *ast.AssignStmt, *ast.DeclStmt:
						default:
							noOther = false
						}
					}
					var all int64
					for _, b := range P {
						all |= b
					}
					agrees := noOther
					for v := int64(0); v <= all && agrees; v++ {
						if v&^all != 0 {
							continue
						}
						got, isB, known := evalPropExpr(finfo, fdefs, rs.Results[0], recvObj, v)
						if !known || !isB || (got != 0) != (v&P[k] != 0) {
							agrees = false
						}
					}
					ok = agrees
				}
			}
			c.Check(ok, "R04a", "accessor:"+m, fd.Pos(), "Property.%s() tests bit %s", m, k)
		}
	}
	// bits distinct
	bits := map[int64]string{}
	for n, v := range P {
		if o, dup := bits[v]; dup {
			c.Viol("R04a", "const:distinct:"+n, token.NoPos, "%s and %s share the value %d", n, o, v)
		}
		bits[v] = n
		c.Check(v != 0 && v&(v-1) == 0, "R04a", "const:bit:"+n, token.NoPos, "%s is a single bit (%d)", n, v)
	}
}

// checkNormalPredicate: truth table + arm effects of runModeNormal.
// normalPredRule: rule id under which checkNormalPredicate records (C21 reuses it as R21e).
var normalPredRule = "R04c"

func (c *Ctx) checkNormalPredicate(info *types.Info, fd *ast.FuncDecl, prefix string) {
	ex := &schedExplorer{c: c, info: info, fd: fd}
	if fd.Type.Params != nil && len(fd.Type.Params.List) > 0 {
		ex.procs = info.Defs[fd.Type.Params.List[0].Names[0]]
	}
	defs := localDefs(info, fd.Body)
	// loop variable
	var loopVar types.Object
	var loop ast.Stmt
	var loopBody *ast.BlockStmt
	for _, s := range fd.Body.List {
		switch ls := s.(type) {
		case *ast.RangeStmt: // for i := range *procs
			if id, ok := ls.Key.(*ast.Ident); ok && ex.isProcs(ls.X) && ls.Value == nil {
				loop, loopBody, loopVar = ls, ls.Body, info.ObjectOf(id)
			}
		case *ast.ForStmt: // for i := 0; i < len(*procs); i++
			init, ok1 := ls.Init.(*ast.AssignStmt)
			post, ok2 := ls.Post.(*ast.IncDecStmt)
			if !ok1 || !ok2 || ls.Cond == nil || len(init.Lhs) != 1 || len(init.Rhs) != 1 || post.Tok != token.INC {
				continue
			}
			id, ok := init.Lhs[0].(*ast.Ident)
			if v, isC := constInt(info, init.Rhs[0]); !ok || !isC || v != 0 {
				continue
			}
			o := info.ObjectOf(id)
			if pid, ok := unparen(post.X).(*ast.Ident); !ok || info.ObjectOf(pid) != o {
				continue
			}
			// condition equivalent to i < len(*procs)
			okCond := false
			if b, ok := unparen(ls.Cond).(*ast.BinaryExpr); ok {
				x, y, op := unparen(b.X), unparen(b.Y), b.Op
				if _, isLen := isBuiltinCall(info, x, "len"); isLen {
					x, y = y, x
					op = map[token.Token]token.Token{token.GTR: token.LSS, token.LSS: token.GTR, token.NEQ: token.NEQ}[op]
				}
				if xi, ok := x.(*ast.Ident); ok && info.ObjectOf(xi) == o && (op == token.LSS || op == token.NEQ) {
					if call, isLen := isBuiltinCall(info, y, "len"); isLen && len(call.Args) == 1 && ex.isProcs(call.Args[0]) {
						okCond = true
					}
				}
			}
			// and i is not assigned in the body
			if okCond && len(defs[o]) == 2 { // the init and the post statement
				loop, loopBody, loopVar = ls, ls.Body, o
			}
		}
	}
	if loop == nil || loopVar == nil {
		c.Undecided(normalPredRule, prefix+"runModeNormal:loop", fd.Pos(), "no `for i := range *procs` / `for i := 0; i < len(*procs); i++` loop (recognised idioms)")
		return
	}
	// index classification: "cur" if expr resolves to i, "prev" if i-1
	// offsetOf: e denotes <loop index> + k on every path (constants folded; a local is followed
	// through ALL its definitions, which must agree: `prev = i - 1`, `prev := -1 + i`)
	var offsetOf func(e ast.Expr, depth int) (int64, bool)
	offsetOf = func(e ast.Expr, depth int) (int64, bool) {
		e = unparen(e)
		if depth > 4 {
			return 0, false
		}
		switch x := e.(type) {
		case *ast.Ident:
			o := info.ObjectOf(x)
			if o == loopVar {
				return 0, true
			}
			ds := defs[o]
			if len(ds) == 0 {
				return 0, false
			}
			var k int64
			for i, d := range ds {
				if d == nil {
					return 0, false
				}
				v, ok := offsetOf(d, depth+1)
				if !ok || (i > 0 && v != k) {
					return 0, false
				}
				k = v
			}
			return k, true
		case *ast.BinaryExpr:
			if x.Op != token.ADD && x.Op != token.SUB {
				return 0, false
			}
			if v, isC := constInt(info, x.Y); isC {
				if k, ok := offsetOf(x.X, depth+1); ok {
					if x.Op == token.ADD {
						return k + v, true
					}
					return k - v, true
				}
			}
			if v, isC := constInt(info, x.X); isC && x.Op == token.ADD {
				if k, ok := offsetOf(x.Y, depth+1); ok {
					return k + v, true
				}
			}
		}
		return 0, false
	}
	classify := func(e ast.Expr) string {
		if k, ok := offsetOf(e, 0); ok {
			switch k {
			case 0:
				return "cur"
			case -1:
				return "prev"
			}
		}
		return ""
	}
	procFieldOf := func(e ast.Expr) (which, field string) {
		se, ok := unparen(e).(*ast.SelectorExpr)
		if !ok {
			return "", ""
		}
		ix := defs.indexExprOf(info, se.X) // (*procs)[k] or a pointer local `before := &(*procs)[k]`
		if ix == nil || !ex.isProcs(ix.X) {
			return "", ""
		}
		return classify(ix.Index), se.Sel.Name
	}
	// expandBool substitutes single-definition boolean locals by their definitions
	// (and, or := …; failed := procs[prev].ExitNum != 0) so that the predicate is judged
	// over the same atoms however it is spelled.
	var expandBool func(e ast.Expr, depth int) ast.Expr
	expandBool = func(e ast.Expr, depth int) ast.Expr {
		e = unparen(e)
		if depth > 6 {
			return e
		}
		switch x := e.(type) {
		case *ast.Ident:
			if o := info.ObjectOf(x); o != nil && o.Parent() != types.Universe {
				if ds := defs[o]; len(ds) == 1 && ds[0] != nil {
					if _, isConst := constBool(info, ds[0]); !isConst {
						return &ast.ParenExpr{X: expandBool(ds[0], depth+1)}
					}
				}
			}
		case *ast.UnaryExpr:
			if x.Op == token.NOT {
				return &ast.UnaryExpr{OpPos: x.OpPos, Op: x.Op, X: expandBool(x.X, depth+1)}
			}
		case *ast.BinaryExpr:
			if x.Op == token.LAND || x.Op == token.LOR {
				return &ast.BinaryExpr{X: expandBool(x.X, depth+1), OpPos: x.OpPos, Op: x.Op, Y: expandBool(x.Y, depth+1)}
			}
		}
		return e
	}
	var skipVar types.Object
	atom := func(e ast.Expr) (string, bool, bool) {
		e = unparen(e)
		if w, f := procFieldOf(e); w == "cur" && f == "OperatorLogicAnd" {
			return "A", false, true
		} else if w == "cur" && f == "OperatorLogicOr" {
			return "O", false, true
		}
		if x, op, k, ok := cmpNorm(info, e); ok {
			if w, f := procFieldOf(x); w == "prev" && f == "ExitNum" {
				// failed := ExitNum != 0 ; exit numbers are >= 0 in murex but compare on [-2,3]
				p := intPred(op, k)
				if samePredOnRange(p, func(v int64) bool { return v != 0 }, -2, 3) {
					return "F", false, true
				}
				if samePredOnRange(p, func(v int64) bool { return v == 0 }, -2, 3) {
					return "F", true, true
				}
			}
		}
		if id, ok := e.(*ast.Ident); ok {
			if o := info.ObjectOf(id); o != nil {
				if b, ok := o.Type().Underlying().(*types.Basic); ok && b.Kind() == types.Bool && o.Parent() != types.Universe {
					if skipVar == nil || skipVar == o {
						skipVar = o
						return "S", false, true
					}
				}
			}
		}
		return "", false, false
	}
	// find the if statement whose condition mentions OperatorLogicAnd of cur
	var pred *ast.IfStmt
	ast.Inspect(loopBody, func(n ast.Node) bool {
		if is, ok := n.(*ast.IfStmt); ok && pred == nil {
			found := false
			ast.Inspect(expandBool(is.Cond, 0), func(m ast.Node) bool {
				if e, ok := m.(ast.Expr); ok {
					if w, f := procFieldOf(e); w == "cur" && (f == "OperatorLogicAnd" || f == "OperatorLogicOr") {
						found = true
					}
				}
				return true
			})
			if found {
				pred = is
			}
		}
		return true
	})
	if pred == nil {
		c.Viol(normalPredRule, prefix+"runModeNormal:predicate", loop.Pos(), "no branch in runModeNormal tests the current process's &&/|| flags")
		return
	}
	atoms := []string{"A", "O", "F", "S"}
	tt, unk := truthTable(expandBool(pred.Cond, 0), atoms, atom)
	if len(unk) > 0 {
		c.Undecided(normalPredRule, prefix+"runModeNormal:predicate", pred.Cond.Pos(), "leaf %q of the skip predicate is not one of: procs[i].OperatorLogicAnd, procs[i].OperatorLogicOr, a test of procs[i-1].ExitNum that is equivalent to `!= 0` / `== 0` on all integers (negative exit numbers — `return -2`, the and/or builtins — are failures in normal mode), the skipPipeline flag", unk[0])
		return
	}
	bad := ""
	for m, got := range tt {
		A, O, F, S := m&1 != 0, m&2 != 0, m&4 != 0, m&8 != 0
		want := (A && F) || (O && !F) || (S && (A || O))
		if got != want {
			bad = fmt.Sprintf("A(&&)=%v O(||)=%v prevFailed=%v skipping=%v: skip=%v, documented=%v", A, O, F, S, got, want)
		}
	}
	c.Check(bad == "", normalPredRule, prefix+"runModeNormal:predicate", pred.Cond.Pos(), "skip predicate truth table (16 rows) equals (A∧F)∨(O∧¬F)∨(S∧(A∨O)) %s", bad)

	// arms
	setsTerm, copiesExit, setsSkipT, setsSkipF := false, false, false, false
	for _, s := range pred.Body.List {
		switch x := s.(type) {
		case *ast.ExprStmt:
			if call, ok := x.X.(*ast.CallExpr); ok {
				if se, ok := call.Fun.(*ast.SelectorExpr); ok && se.Sel.Name == "SetTerminatedState" && len(call.Args) == 1 {
					if ix, ok := unparen(se.X).(*ast.IndexExpr); ok && ex.isProcs(ix.X) && classify(ix.Index) == "cur" {
						if b, ok := constBool(info, call.Args[0]); ok && b {
							setsTerm = true
						}
					}
				}
			}
		case *ast.AssignStmt:
			if len(x.Lhs) == 1 && len(x.Rhs) == 1 {
				if w, f := procFieldOf(x.Lhs[0]); w == "cur" && f == "ExitNum" {
					if w2, f2 := procFieldOf(x.Rhs[0]); w2 == "prev" && f2 == "ExitNum" {
						copiesExit = true
					}
				}
				if w, f := procFieldOf(x.Lhs[0]); w == "cur" && f == "hasTerminatedV" {
					if b, ok := constBool(info, x.Rhs[0]); ok && b {
						setsTerm = true
					}
				}
				if id, ok := x.Lhs[0].(*ast.Ident); ok && skipVar != nil && info.ObjectOf(id) == skipVar {
					if b, ok := constBool(info, x.Rhs[0]); ok && b {
						setsSkipT = true
					}
				}
			}
		}
	}
	if el, ok := pred.Else.(*ast.BlockStmt); ok {
		for _, s := range el.List {
			if x, ok := s.(*ast.AssignStmt); ok && len(x.Lhs) == 1 && len(x.Rhs) == 1 {
				if id, ok := x.Lhs[0].(*ast.Ident); ok && skipVar != nil && info.ObjectOf(id) == skipVar {
					if b, ok := constBool(info, x.Rhs[0]); ok && !b {
						setsSkipF = true
					}
				}
			}
		}
	}
	c.Check(setsTerm, normalPredRule, prefix+"runModeNormal:skip-arm:terminated", pred.Body.Pos(), "the skip arm marks procs[i] terminated (so executeProcess does not run it)")
	c.Check(copiesExit, normalPredRule, prefix+"runModeNormal:skip-arm:exitnum", pred.Body.Pos(), "the skip arm sets procs[i].ExitNum = procs[i-1].ExitNum (a skipped command takes the exit number of the command before it)")
	c.Check(setsSkipT, normalPredRule, prefix+"runModeNormal:skip-arm:flag", pred.Body.Pos(), "the skip arm sets the chain-skipping flag")
	c.Check(setsSkipF, normalPredRule, prefix+"runModeNormal:run-arm:flag", pred.Pos(), "the run arm clears the chain-skipping flag (a `;` or a command that runs ends the skipped chain)")
	// skipVar is assigned nowhere else
	if skipVar != nil {
		// stores = assignments; declaring the flag with its zero value (`skipPipeline := false`,
		// `var skipPipeline = false`) is the same as `var skipPipeline bool`
		n := 0
		ast.Inspect(fd.Body, func(x ast.Node) bool {
			switch y := x.(type) {
			case *ast.AssignStmt:
				for i, l := range y.Lhs {
					id, ok := l.(*ast.Ident)
					if !ok || info.ObjectOf(id) != skipVar {
						continue
					}
					if y.Tok == token.DEFINE && len(y.Lhs) == len(y.Rhs) {
						if b, isC := constBool(info, y.Rhs[i]); isC && !b {
							continue
						}
					}
					n++
				}
			case *ast.ValueSpec:
				for i, id := range y.Names {
					if info.ObjectOf(id) != skipVar || i >= len(y.Values) {
						continue
					}
					if b, isC := constBool(info, y.Values[i]); !isC || b {
						n++
					}
				}
			}
			return true
		})
		c.Check(n == 2, normalPredRule, prefix+"runModeNormal:flag-stores", pred.Pos(), "the chain-skipping flag is stored only in the two arms (%d stores)", n)
	}
	// the predicate is evaluated only for i > 0 and after the wait
	okGuard := false
	st := pathTo(fd.Body, pred)
	for _, f := range factsOf(guardsAt(info, st)) {
		if x, op, k, ok := cmpNorm(info, f.E); ok {
			if id, ok := x.(*ast.Ident); ok && info.ObjectOf(id) == loopVar {
				p := intPred(op, k)
				if !f.True {
					q := p
					p = func(v int64) bool { return !q(v) }
				}
				if samePredOnRange(p, func(v int64) bool { return v > 0 }, 0, 4) {
					okGuard = true
				}
			}
		}
	}
	c.Check(okGuard, normalPredRule, prefix+"runModeNormal:first-always-runs", pred.Pos(), "the predicate is evaluated exactly for i>0 (the first command of a block always runs; every later command is examined)")
}
