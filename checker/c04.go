package main

import (
	"fmt"
	"go/ast"
	"go/constant"
	"go/token"
	"go/types"
	"sort"
	"strings"
)

func init() {
	register("C04", "Decides structural necessary conditions of the normal-mode && / || / ; semantics: the block parser's token→property table (which separator sets NEW_CHAIN / LOGIC_AND / LOGIC_OR / METHOD, never METHOD together with a logic flag), the property accessors, compile()'s copy of the flags into the process, the truth table of runModeNormal's skip predicate and what its arms do (skipped command inherits the previous exit number, chain skipping), that a command is started only after its own operator flag was read since the previous start (all paths), and that the block's exit number is the last command's. Does NOT decide the exit numbers of the commands themselves.", runC04)
}

const fnPkg = "lang/expressions/functions"

func propConsts(c *Ctx) map[string]int64 {
	out := map[string]int64{}
	pk := c.Pkg(fnPkg)
	if pk == nil {
		return out
	}
	for n, v := range enumConsts(pk.Types, "Property") {
		if i, ok := constant.Int64Val(v); ok {
			out[n] = i
		}
	}
	return out
}

func runC04(c *Ctx) {
	c.Load("lang", "lang/expressions", fnPkg)
	lpk := c.Pkg("lang")
	linfo := lpk.TypesInfo
	P := propConsts(c)
	for _, n := range []string{"P_NEW_CHAIN", "P_METHOD", "P_FOLLOW_ON", "P_PIPE_OUT", "P_PIPE_ERR", "P_LOGIC_AND", "P_LOGIC_OR"} {
		if _, ok := P[n]; !ok {
			c.Lost("R04a", "const:"+n, "functions.%s not found", n)
		}
	}

	c.Rule("R04a", "token→property table of BlockT.ParseBlock: `&&`→next{NEW_CHAIN,FOLLOW_ON,LOGIC_AND}, `||`→next{NEW_CHAIN,FOLLOW_ON,LOGIC_OR}, `;` and newline→next{NEW_CHAIN}, `|` `->` `=>` `?` → this{PIPE_*} next{FOLLOW_ON,METHOD}; no arm combines METHOD with a logic flag; append() stores nextProperty|this and then sets nextProperty=next; the accessors test their own bit")
	c.checkParseBlockTable(P)

	c.Rule("R04b", "compile copies Properties.LogicAnd()→OperatorLogicAnd, LogicOr()→OperatorLogicOr, Method()→IsMethod for the same tree index (not crossed)")
	if fd, _ := c.MustFunc("R04b", "lang", "", "compile"); fd != nil {
		want := map[string]string{"OperatorLogicAnd": "LogicAnd", "OperatorLogicOr": "LogicOr", "IsMethod": "Method"}
		got := map[string]string{}
		pos := map[string]token.Pos{}
		ast.Inspect(fd.Body, func(n ast.Node) bool {
			as, ok := n.(*ast.AssignStmt)
			if !ok || len(as.Lhs) != 1 || len(as.Rhs) != 1 {
				return true
			}
			se, ok := as.Lhs[0].(*ast.SelectorExpr)
			if !ok {
				return true
			}
			if _, w := want[se.Sel.Name]; !w {
				return true
			}
			lix, ok := unparen(se.X).(*ast.IndexExpr)
			if !ok {
				return true
			}
			call, ok := unparen(as.Rhs[0]).(*ast.CallExpr)
			if !ok {
				got[se.Sel.Name] = "?" + c.src(as.Rhs[0])
				pos[se.Sel.Name] = as.Pos()
				return true
			}
			o := callee(linfo, call)
			name := ""
			if o != nil && o.Pkg() != nil && o.Pkg().Path() == mx(fnPkg) {
				name = o.Name()
			}
			// same index on both sides: procs[i] ... (*tree)[i].Properties.X()
			same := false
			if fs, ok := call.Fun.(*ast.SelectorExpr); ok {
				if ps, ok := unparen(fs.X).(*ast.SelectorExpr); ok && ps.Sel.Name == "Properties" {
					if rix, ok := unparen(ps.X).(*ast.IndexExpr); ok && c.sameExpr(rix.Index, lix.Index) {
						same = true
					}
				}
			}
			if !same {
				name += "(different index)"
			}
			got[se.Sel.Name] = name
			pos[se.Sel.Name] = as.Pos()
			return true
		})
		for f, w := range want {
			p := pos[f]
			if p == token.NoPos {
				p = fd.Pos()
			}
			c.Check(got[f] == w, "R04b", "compile:"+f, p, "procs[i].%s = (*tree)[i].Properties.%s() (got %q)", f, w, got[f])
		}
	}

	c.Rule("R04c", "truth table of runModeNormal's skip predicate over A=procs[i].OperatorLogicAnd, O=procs[i].OperatorLogicOr, F=(procs[prev].ExitNum != 0), S=skipPipeline equals (A∧F)∨(O∧¬F)∨(S∧(A∨O)); the true arm marks the process terminated, copies procs[prev].ExitNum into procs[i].ExitNum and sets skipPipeline=true; the false arm sets it false; prev == i-1")
	if fd, _ := c.MustFunc("R04c", "lang", "", "runModeNormal"); fd != nil {
		c.checkNormalPredicate(linfo, fd, "")
	}

	c.Rule("R04d", "the block's exit number is procs[len-1].ExitNum, read after waitProcess(procs[len-1])")
	c.checkNormalExit(linfo, "R04d")

	c.Rule("R04e", "E2c path rule (examined-before-start): on every path between two process starts in runModeNormal, the started process's own OperatorLogicAnd/Or flag was read (or it is a method, or it was just marked skipped)")
	if fd, _ := c.MustFunc("R04e", "lang", "", "runModeNormal"); fd != nil {
		c.exploreScheduler("lang", fd, linfo, "R04e", "", "", false)
	}
	// executeProcess must not run a process that was marked terminated (skipped)
	c.Rule("R04f", "a process marked terminated by the scheduler is not executed: executeProcess tests HasTerminated() before doing anything else and leaves through destroyProcess")
	if fd, _ := c.MustFunc("R04f", "lang", "", "executeProcess"); fd != nil {
		ok := false
		var pos token.Pos = fd.Pos()
		for _, s := range fd.Body.List {
			is, isIf := s.(*ast.IfStmt)
			if !isIf {
				// anything before the test that starts the process's work voids it
				if es, isE := s.(*ast.ExprStmt); isE {
					if call, isC := es.X.(*ast.CallExpr); isC {
						if n := calleeName(linfo, call); strings.HasSuffix(n, "ParseStatementParameters") || strings.Contains(n, "Execute") {
							break
						}
					}
				}
				continue
			}
			has := false
			for _, d := range disjuncts(is.Cond) {
				if call, isC := unparen(d).(*ast.CallExpr); isC {
					if se, isS := call.Fun.(*ast.SelectorExpr); isS && se.Sel.Name == "HasTerminated" {
						if id, isI := se.X.(*ast.Ident); isI && isParam(linfo, fd, id) {
							has = true
						}
					}
				}
			}
			if has && terminates(linfo, is.Body.List) {
				ok = true
				pos = is.Pos()
			}
			break
		}
		c.Check(ok, "R04f", "executeProcess:skip-terminated", pos, "executeProcess returns at once for a process already marked terminated (a skipped && / || command must not run)")
	}

	if c.Tier == "thorough" {
		c.schedJSVariant(func(c2 *Ctx, info2 *types.Info) {
			if fd, _ := c2.FuncDecl("lang", "", "runModeNormal"); fd != nil {
				c.exploreSchedulerFrom(c2, "js:", fd, info2, "R04e", "", "", false)
				before := len(c2.Obls)
				c2.checkNormalPredicate(info2, fd, "js:")
				c.Obls = append(c.Obls, c2.Obls[before:]...)
			}
		})
	}
}

// checkParseBlockTable extracts every blk.append call of ParseBlock with its
// arm and compares with the property's table.
func (c *Ctx) checkParseBlockTable(P map[string]int64) {
	fd, pk := c.MustFunc("R04a", "lang/expressions", "BlockT", "ParseBlock")
	if fd == nil {
		return
	}
	info := pk.TypesInfo
	decomp := func(v int64) string {
		var names []string
		for n, b := range P {
			if v&b != 0 {
				names = append(names, strings.TrimPrefix(n, "P_"))
			}
		}
		sort.Strings(names)
		if len(names) == 0 {
			return "0"
		}
		return strings.Join(names, "|")
	}
	type row struct {
		arm        string
		this, next int64
		pos        token.Pos
		okc        bool
	}
	var rows []row
	walkStack(fd.Body, func(n ast.Node, stack []ast.Node) bool {
		call, ok := n.(*ast.CallExpr)
		if !ok || !callIs(info, call, mx("lang/expressions"), "BlockT", "append") || len(call.Args) != 3 {
			return true
		}
		// arm: case rune of the enclosing `switch r` + nested nextChar()==X guard
		arm := "end-of-input"
		for i, s := range stack {
			cc, ok := s.(*ast.CaseClause)
			if !ok || i < 2 {
				continue
			}
			sw, ok := stack[i-2].(*ast.SwitchStmt)
			if !ok {
				continue
			}
			if sw.Tag != nil && len(cc.List) > 0 {
				if v, ok := constInt(info, cc.List[0]); ok && arm == "end-of-input" {
					arm = fmt.Sprintf("%q", rune(v))
				}
			}
		}
		for _, f := range factsOf(guardsAt(info, stack)) {
			if b, ok := unparen(f.E).(*ast.BinaryExpr); ok && b.Op == token.EQL {
				if cl, ok := unparen(b.X).(*ast.CallExpr); ok {
					if se, ok := cl.Fun.(*ast.SelectorExpr); ok && se.Sel.Name == "nextChar" {
						if v, ok := constInt(info, b.Y); ok {
							if f.True {
								arm += fmt.Sprintf("+%q", rune(v))
							} else {
								arm += fmt.Sprintf("+not%q", rune(v))
							}
						}
					}
				}
			}
		}
		this, ok1 := constInt(info, call.Args[1])
		next, ok2 := constInt(info, call.Args[2])
		rows = append(rows, row{arm, this, next, call.Pos(), ok1 && ok2})
		return true
	})
	want := map[string][2]int64{
		`'\n'`:         {0, P["P_NEW_CHAIN"]},
		`';'`:          {0, P["P_NEW_CHAIN"]},
		`'&'+'&'`:      {0, P["P_NEW_CHAIN"] | P["P_FOLLOW_ON"] | P["P_LOGIC_AND"]},
		`'|'+'|'`:      {0, P["P_NEW_CHAIN"] | P["P_FOLLOW_ON"] | P["P_LOGIC_OR"]},
		`'|'+not'|'`:   {P["P_PIPE_OUT"], P["P_FOLLOW_ON"] | P["P_METHOD"]},
		`'-'+'>'`:      {P["P_PIPE_OUT"], P["P_FOLLOW_ON"] | P["P_METHOD"]},
		`'?'`:          {P["P_PIPE_ERR"], P["P_FOLLOW_ON"] | P["P_METHOD"]},
		`'='+'>'`:      {P["P_PIPE_OUT"], P["P_FOLLOW_ON"] | P["P_METHOD"]},
		`end-of-input`: {0, 0},
	}
	seen := map[string]int{}
	logic := P["P_LOGIC_AND"] | P["P_LOGIC_OR"]
	for _, r := range rows {
		seen[r.arm]++
		key := "arm:" + r.arm
		if seen[r.arm] > 1 {
			key += fmt.Sprintf("#%d", seen[r.arm])
		}
		if !r.okc {
			c.Undecided("R04a", key, r.pos, "blk.append called with non-constant property arguments")
			continue
		}
		if (r.this|r.next)&P["P_METHOD"] != 0 && (r.this|r.next)&logic != 0 {
			c.Viol("R04a", key+":method+logic", r.pos, "arm %s marks the next command as a METHOD and with a logic operator: schedulers assume a method never carries &&/||", r.arm)
		}
		w, known := want[r.arm]
		if !known {
			// other arms (>> |> ~> etc.): must not set logic flags or NEW_CHAIN|FOLLOW_ON wrongly — only obligation: no logic flags
			c.Check((r.this|r.next)&logic == 0, "R04a", key, r.pos, "arm %s passes this={%s} next={%s}; it must not set a logic flag", r.arm, decomp(r.this), decomp(r.next))
			continue
		}
		c.Check(r.this == w[0] && r.next == w[1], "R04a", key, r.pos, "arm %s passes this={%s} next={%s}, table says this={%s} next={%s}", r.arm, decomp(r.this), decomp(r.next), decomp(w[0]), decomp(w[1]))
	}
	for arm := range want {
		if seen[arm] == 0 {
			c.Lost("R04a", "arm:"+arm, "no blk.append call found for separator %s in ParseBlock", arm)
		}
	}
	c.MinCount("R04a", "blk.append calls in ParseBlock", len(rows), 10)

	// append(): Properties: blk.nextProperty | this ; blk.nextProperty = next
	if afd, _ := c.MustFunc("R04a", "lang/expressions", "BlockT", "append"); afd != nil {
		var thisObj, nextObj types.Object
		if afd.Type.Params != nil {
			var ps []types.Object
			for _, f := range afd.Type.Params.List {
				for _, n := range f.Names {
					ps = append(ps, info.Defs[n])
				}
			}
			if len(ps) == 3 {
				thisObj, nextObj = ps[1], ps[2]
			}
		}
		nProps, okProps := 0, 0
		ast.Inspect(afd.Body, func(n ast.Node) bool {
			kv, ok := n.(*ast.KeyValueExpr)
			if !ok {
				return true
			}
			if id, ok := kv.Key.(*ast.Ident); !ok || id.Name != "Properties" {
				return true
			}
			nProps++
			b, ok := unparen(kv.Value).(*ast.BinaryExpr)
			if ok && b.Op == token.OR {
				x, y := unparen(b.X), unparen(b.Y)
				isNP := func(e ast.Expr) bool {
					se, ok := e.(*ast.SelectorExpr)
					return ok && se.Sel.Name == "nextProperty"
				}
				isThis := func(e ast.Expr) bool {
					id, ok := e.(*ast.Ident)
					return ok && info.ObjectOf(id) == thisObj
				}
				if (isNP(x) && isThis(y)) || (isNP(y) && isThis(x)) {
					okProps++
				}
			}
			return true
		})
		c.Check(nProps >= 2 && okProps == nProps, "R04a", "append:Properties", afd.Pos(), "every FunctionT appended gets Properties = blk.nextProperty | this (%d of %d)", okProps, nProps)
		// last statement before return nil: blk.nextProperty = next
		okNext := false
		for _, s := range afd.Body.List {
			if as, ok := s.(*ast.AssignStmt); ok && len(as.Lhs) == 1 && len(as.Rhs) == 1 {
				if se, ok := as.Lhs[0].(*ast.SelectorExpr); ok && se.Sel.Name == "nextProperty" {
					if id, ok := unparen(as.Rhs[0]).(*ast.Ident); ok && info.ObjectOf(id) == nextObj {
						okNext = true
					}
				}
			}
		}
		c.Check(okNext, "R04a", "append:nextProperty", afd.Pos(), "append ends by storing blk.nextProperty = next at its top level (unconditionally on the non-error paths)")
	}
	// accessors
	if fpk := c.Pkg(fnPkg); fpk != nil {
		finfo := fpk.TypesInfo
		acc := map[string]string{"NewChain": "P_NEW_CHAIN", "Method": "P_METHOD", "FollowOnFn": "P_FOLLOW_ON", "PipeOut": "P_PIPE_OUT", "PipeErr": "P_PIPE_ERR", "LogicAnd": "P_LOGIC_AND", "LogicOr": "P_LOGIC_OR"}
		for m, k := range acc {
			fd, _ := c.MustFunc("R04a", fnPkg, "Property", m)
			if fd == nil {
				continue
			}
			ok := false
			if len(fd.Body.List) == 1 {
				if rs, isR := fd.Body.List[0].(*ast.ReturnStmt); isR && len(rs.Results) == 1 {
					if b, isB := unparen(rs.Results[0]).(*ast.BinaryExpr); isB && b.Op == token.NEQ {
						if and, isA := unparen(b.X).(*ast.BinaryExpr); isA && and.Op == token.AND {
							z, zok := constInt(finfo, b.Y)
							v, vok := constInt(finfo, and.Y)
							if !vok {
								v, vok = constInt(finfo, and.X)
							}
							ok = zok && z == 0 && vok && v == P[k]
						}
					}
				}
			}
			c.Check(ok, "R04a", "accessor:"+m, fd.Pos(), "Property.%s() tests bit %s", m, k)
		}
	}
	// bits distinct
	bits := map[int64]string{}
	for n, v := range P {
		if o, dup := bits[v]; dup {
			c.Viol("R04a", "const:distinct:"+n, token.NoPos, "%s and %s share the value %d", n, o, v)
		}
		bits[v] = n
		c.Check(v != 0 && v&(v-1) == 0, "R04a", "const:bit:"+n, token.NoPos, "%s is a single bit (%d)", n, v)
	}
}

// checkNormalPredicate: truth table + arm effects of runModeNormal.
func (c *Ctx) checkNormalPredicate(info *types.Info, fd *ast.FuncDecl, prefix string) {
	ex := &schedExplorer{c: c, info: info, fd: fd}
	if fd.Type.Params != nil && len(fd.Type.Params.List) > 0 {
		ex.procs = info.Defs[fd.Type.Params.List[0].Names[0]]
	}
	defs := localDefs(info, fd.Body)
	// loop variable
	var loopVar types.Object
	var loop *ast.RangeStmt
	for _, s := range fd.Body.List {
		if rs, ok := s.(*ast.RangeStmt); ok {
			loop = rs
			if id, ok := rs.Key.(*ast.Ident); ok {
				loopVar = info.ObjectOf(id)
			}
		}
	}
	if loop == nil || loopVar == nil {
		c.Undecided("R04c", prefix+"runModeNormal:loop", fd.Pos(), "no `for i := range *procs` loop (recognised idiom)")
		return
	}
	// index classification: "cur" if expr resolves to i, "prev" if i-1
	classify := func(e ast.Expr) string {
		e = unparen(e)
		if id, ok := e.(*ast.Ident); ok {
			if info.ObjectOf(id) == loopVar {
				return "cur"
			}
			// single-definition local: prev = i - 1
			ds := defs[info.ObjectOf(id)]
			ok2 := len(ds) > 0
			for _, d := range ds {
				if d == nil {
					ok2 = false
					continue
				}
				if b, isB := unparen(d).(*ast.BinaryExpr); !isB || b.Op != token.SUB {
					ok2 = false
				} else if x, isI := unparen(b.X).(*ast.Ident); !isI || info.ObjectOf(x) != loopVar {
					ok2 = false
				} else if v, isC := constInt(info, b.Y); !isC || v != 1 {
					ok2 = false
				}
			}
			if ok2 {
				return "prev"
			}
		}
		if b, isB := e.(*ast.BinaryExpr); isB && b.Op == token.SUB {
			if x, isI := unparen(b.X).(*ast.Ident); isI && info.ObjectOf(x) == loopVar {
				if v, isC := constInt(info, b.Y); isC && v == 1 {
					return "prev"
				}
			}
		}
		return ""
	}
	procFieldOf := func(e ast.Expr) (which, field string) {
		se, ok := unparen(e).(*ast.SelectorExpr)
		if !ok {
			return "", ""
		}
		x := unparen(se.X)
		ix, ok := x.(*ast.IndexExpr)
		if !ok || !ex.isProcs(ix.X) {
			return "", ""
		}
		return classify(ix.Index), se.Sel.Name
	}
	var skipVar types.Object
	atom := func(e ast.Expr) (string, bool, bool) {
		e = unparen(e)
		if w, f := procFieldOf(e); w == "cur" && f == "OperatorLogicAnd" {
			return "A", false, true
		} else if w == "cur" && f == "OperatorLogicOr" {
			return "O", false, true
		}
		if x, op, k, ok := cmpNorm(info, e); ok {
			if w, f := procFieldOf(x); w == "prev" && f == "ExitNum" {
				// failed := ExitNum != 0 ; exit numbers are >= 0 in murex but compare on [-2,3]
				p := intPred(op, k)
				if samePredOnRange(p, func(v int64) bool { return v != 0 }, -2, 3) {
					return "F", false, true
				}
				if samePredOnRange(p, func(v int64) bool { return v == 0 }, -2, 3) {
					return "F", true, true
				}
			}
		}
		if id, ok := e.(*ast.Ident); ok {
			if o := info.ObjectOf(id); o != nil {
				if b, ok := o.Type().Underlying().(*types.Basic); ok && b.Kind() == types.Bool && o.Parent() != types.Universe {
					if skipVar == nil || skipVar == o {
						skipVar = o
						return "S", false, true
					}
				}
			}
		}
		return "", false, false
	}
	// find the if statement whose condition mentions OperatorLogicAnd of cur
	var pred *ast.IfStmt
	ast.Inspect(loop.Body, func(n ast.Node) bool {
		if is, ok := n.(*ast.IfStmt); ok && pred == nil {
			found := false
			ast.Inspect(is.Cond, func(m ast.Node) bool {
				if e, ok := m.(ast.Expr); ok {
					if w, f := procFieldOf(e); w == "cur" && (f == "OperatorLogicAnd" || f == "OperatorLogicOr") {
						found = true
					}
				}
				return true
			})
			if found {
				pred = is
			}
		}
		return true
	})
	if pred == nil {
		c.Viol("R04c", prefix+"runModeNormal:predicate", loop.Pos(), "no branch in runModeNormal tests the current process's &&/|| flags")
		return
	}
	atoms := []string{"A", "O", "F", "S"}
	tt, unk := truthTable(pred.Cond, atoms, atom)
	if len(unk) > 0 {
		c.Undecided("R04c", prefix+"runModeNormal:predicate", pred.Cond.Pos(), "leaf %q of the skip predicate is not one of: procs[i].OperatorLogicAnd, procs[i].OperatorLogicOr, a test of procs[i-1].ExitNum that is equivalent to `!= 0` / `== 0` on all integers (negative exit numbers — `return -2`, the and/or builtins — are failures in normal mode), the skipPipeline flag", unk[0])
		return
	}
	bad := ""
	for m, got := range tt {
		A, O, F, S := m&1 != 0, m&2 != 0, m&4 != 0, m&8 != 0
		want := (A && F) || (O && !F) || (S && (A || O))
		if got != want {
			bad = fmt.Sprintf("A(&&)=%v O(||)=%v prevFailed=%v skipping=%v: skip=%v, documented=%v", A, O, F, S, got, want)
		}
	}
	c.Check(bad == "", "R04c", prefix+"runModeNormal:predicate", pred.Cond.Pos(), "skip predicate truth table (16 rows) equals (A∧F)∨(O∧¬F)∨(S∧(A∨O)) %s", bad)

	// arms
	setsTerm, copiesExit, setsSkipT, setsSkipF := false, false, false, false
	for _, s := range pred.Body.List {
		switch x := s.(type) {
		case *ast.ExprStmt:
			if call, ok := x.X.(*ast.CallExpr); ok {
				if se, ok := call.Fun.(*ast.SelectorExpr); ok && se.Sel.Name == "SetTerminatedState" && len(call.Args) == 1 {
					if ix, ok := unparen(se.X).(*ast.IndexExpr); ok && ex.isProcs(ix.X) && classify(ix.Index) == "cur" {
						if b, ok := constBool(info, call.Args[0]); ok && b {
							setsTerm = true
						}
					}
				}
			}
		case *ast.AssignStmt:
			if len(x.Lhs) == 1 && len(x.Rhs) == 1 {
				if w, f := procFieldOf(x.Lhs[0]); w == "cur" && f == "ExitNum" {
					if w2, f2 := procFieldOf(x.Rhs[0]); w2 == "prev" && f2 == "ExitNum" {
						copiesExit = true
					}
				}
				if w, f := procFieldOf(x.Lhs[0]); w == "cur" && f == "hasTerminatedV" {
					if b, ok := constBool(info, x.Rhs[0]); ok && b {
						setsTerm = true
					}
				}
				if id, ok := x.Lhs[0].(*ast.Ident); ok && skipVar != nil && info.ObjectOf(id) == skipVar {
					if b, ok := constBool(info, x.Rhs[0]); ok && b {
						setsSkipT = true
					}
				}
			}
		}
	}
	if el, ok := pred.Else.(*ast.BlockStmt); ok {
		for _, s := range el.List {
			if x, ok := s.(*ast.AssignStmt); ok && len(x.Lhs) == 1 && len(x.Rhs) == 1 {
				if id, ok := x.Lhs[0].(*ast.Ident); ok && skipVar != nil && info.ObjectOf(id) == skipVar {
					if b, ok := constBool(info, x.Rhs[0]); ok && !b {
						setsSkipF = true
					}
				}
			}
		}
	}
	c.Check(setsTerm, "R04c", prefix+"runModeNormal:skip-arm:terminated", pred.Body.Pos(), "the skip arm marks procs[i] terminated (so executeProcess does not run it)")
	c.Check(copiesExit, "R04c", prefix+"runModeNormal:skip-arm:exitnum", pred.Body.Pos(), "the skip arm sets procs[i].ExitNum = procs[i-1].ExitNum (a skipped command takes the exit number of the command before it)")
	c.Check(setsSkipT, "R04c", prefix+"runModeNormal:skip-arm:flag", pred.Body.Pos(), "the skip arm sets the chain-skipping flag")
	c.Check(setsSkipF, "R04c", prefix+"runModeNormal:run-arm:flag", pred.Pos(), "the run arm clears the chain-skipping flag (a `;` or a command that runs ends the skipped chain)")
	// skipVar is assigned nowhere else
	if skipVar != nil {
		n := len(defs[skipVar])
		c.Check(n == 2, "R04c", prefix+"runModeNormal:flag-stores", pred.Pos(), "the chain-skipping flag is stored only in the two arms (%d stores)", n)
	}
	// the predicate is evaluated only for i > 0 and after the wait
	okGuard := false
	st := pathTo(fd.Body, pred)
	for _, f := range factsOf(guardsAt(info, st)) {
		if x, op, k, ok := cmpNorm(info, f.E); ok {
			if id, ok := x.(*ast.Ident); ok && info.ObjectOf(id) == loopVar {
				p := intPred(op, k)
				if !f.True {
					q := p
					p = func(v int64) bool { return !q(v) }
				}
				if samePredOnRange(p, func(v int64) bool { return v > 0 }, 0, 4) {
					okGuard = true
				}
			}
		}
	}
	c.Check(okGuard, "R04c", prefix+"runModeNormal:first-always-runs", pred.Pos(), "the predicate is evaluated exactly for i>0 (the first command of a block always runs; every later command is examined)")
}
