package main

import (
	"go/ast"
	"go/token"
	"go/types"
)

// R17d — the filter's array writers are closed. Array writers of the structured
// types (json, yaml, …) only emit their elements when Close is called; a function
// of the range filter that obtains a writer with WriteArray and can return success
// without closing it hands on an empty stream: `[-2..]` on a JSON array prints
// nothing, while line-based types (which write through) still work.
func init() {
	extend("C17", func(c *Ctx) {
		c.Rule("R17d", "builtins/core/ranges: in every function that obtains an ArrayWriter (aw, err := <stream>.WriteArray(…)), each return after that point is `…, aw.Close()`, an error known to be non-nil (guard `x != nil`) or an error constructor — no success return leaves the writer unclosed (a deferred Close also counts)")
		pk := c.Pkg(c17Ranges)
		if pk == nil {
			c.Lost("R17d", "pkg:"+c17Ranges, "package not loaded")
			return
		}
		info := pk.TypesInfo
		n := 0
		eachFunc(pk, func(fd *ast.FuncDecl) {
			if fd.Body == nil {
				return
			}
			var aw types.Object
			var awPos token.Pos
			ast.Inspect(fd.Body, func(nd ast.Node) bool {
				as, ok := nd.(*ast.AssignStmt)
				if !ok || len(as.Rhs) != 1 || len(as.Lhs) < 1 {
					return true
				}
				call, ok := unparen(as.Rhs[0]).(*ast.CallExpr)
				if !ok {
					return true
				}
				if fn, ok := callee(info, call).(*types.Func); ok && fn.Name() == "WriteArray" {
					if id, ok := as.Lhs[0].(*ast.Ident); ok && aw == nil {
						aw, awPos = info.ObjectOf(id), as.End()
					}
				}
				return true
			})
			if aw == nil {
				return
			}
			isClose := func(e ast.Expr) bool {
				call, ok := unparen(e).(*ast.CallExpr)
				if !ok {
					return false
				}
				se, ok := unparen(call.Fun).(*ast.SelectorExpr)
				if !ok || se.Sel.Name != "Close" {
					return false
				}
				id, ok := unparen(se.X).(*ast.Ident)
				return ok && info.ObjectOf(id) == aw
			}
			deferred := false
			ast.Inspect(fd.Body, func(nd ast.Node) bool {
				if d, ok := nd.(*ast.DeferStmt); ok && isClose(d.Call) {
					deferred = true
				}
				return true
			})
			k := 0
			walkStack(fd.Body, func(nd ast.Node, stack []ast.Node) bool {
				if _, ok := nd.(*ast.FuncLit); ok {
					return false
				}
				rs, ok := nd.(*ast.ReturnStmt)
				if !ok || rs.Pos() < awPos || len(rs.Results) == 0 {
					return true
				}
				n++
				k++
				key := funcKey(c17Ranges, fd) + ":return#" + itoa(k)
				last := unparen(rs.Results[len(rs.Results)-1])
				// `err = aw.Close(); return …, err` / `closeErr := aw.Close(); return …, closeErr`: the returned
				// identifier is assigned the writer's Close() by the statement right before the return
				viaLocal := false
				if id, ok := last.(*ast.Ident); ok && len(stack) >= 2 {
					var list []ast.Stmt
					switch b := stack[len(stack)-2].(type) {
					case *ast.BlockStmt:
						list = b.List
					case *ast.CaseClause:
						list = b.Body
					}
					for i, s := range list {
						if ast.Node(s) != ast.Node(rs) || i == 0 {
							continue
						}
						if as, ok := list[i-1].(*ast.AssignStmt); ok && len(as.Lhs) == len(as.Rhs) && (as.Tok == token.ASSIGN || as.Tok == token.DEFINE) {
							for j, l := range as.Lhs {
								if li, ok := l.(*ast.Ident); ok && info.ObjectOf(li) == info.ObjectOf(id) && isClose(as.Rhs[j]) {
									viaLocal = true
								}
							}
						}
					}
				}
				switch {
				case deferred:
					c.OK("R17d", key, rs.Pos(), "the writer's Close is deferred")
				case viaLocal:
					c.OK("R17d", key, rs.Pos(), "returns the result of the writer's Close() called right before")
				case isClose(last):
					c.OK("R17d", key, rs.Pos(), "returns the writer's Close()")
				default:
					good := false
					if call, ok := last.(*ast.CallExpr); ok {
						if fn, ok := callee(info, call).(*types.Func); ok && fn.Pkg() != nil && (fn.Pkg().Path() == "fmt" || fn.Pkg().Path() == "errors") {
							good = true
						}
					}
					if id, ok := last.(*ast.Ident); ok && !isNilIdent(info, id) {
						for _, ft := range factsOf(guardsAt(info, stack)) {
							be, ok := unparen(ft.E).(*ast.BinaryExpr)
							if !ok || !((be.Op == token.NEQ && ft.True) || (be.Op == token.EQL && !ft.True)) {
								continue
							}
							x, y := unparen(be.X), unparen(be.Y)
							if isNilIdent(info, x) {
								x, y = y, x
							}
							if xi, ok := x.(*ast.Ident); ok && isNilIdent(info, y) && info.ObjectOf(xi) == info.ObjectOf(id) {
								good = true
							}
						}
					}
					c.Check(good, "R17d", key, rs.Pos(), "return %s after the array writer was obtained is an error return (the only way out without aw.Close()): a success return that skips Close leaves a buffering writer's elements unwritten", c.src(last))
				}
				return true
			})
		})
		c.MinCount("R17d", "returns behind an obtained ArrayWriter in builtins/core/ranges", n, 2)
	})
}
