package main

// Small semantic matchers used by several rules.

import (
	"go/ast"
	"go/token"
	"go/types"
	"strings"
)

// isField: e denotes field `field` of named struct type typePath ("pkgpath.T").
func isField(info *types.Info, e ast.Expr, typePath, field string) bool {
	v, owner := fieldOf(info, e)
	return v != nil && owner == typePath && v.Name() == field
}

// localDefs collects, for every local variable object of a function body, the
// expressions assigned to it (declaration or assignment). An entry of nil
// means "assigned something that is not a plain expression" (multi-value call,
// range, inc/dec, address taken...).
type defMap map[types.Object][]ast.Expr

func localDefs(info *types.Info, body ast.Node) defMap {
	m := defMap{}
	ast.Inspect(body, func(n ast.Node) bool {
		switch s := n.(type) {
		case *ast.AssignStmt:
			for i, l := range s.Lhs {
				id, ok := l.(*ast.Ident)
				if !ok {
					continue
				}
				o := info.ObjectOf(id)
				if o == nil {
					continue
				}
				if s.Tok != token.ASSIGN && s.Tok != token.DEFINE {
					m[o] = append(m[o], nil)
				} else if len(s.Lhs) == len(s.Rhs) {
					m[o] = append(m[o], s.Rhs[i])
				} else {
					m[o] = append(m[o], nil)
				}
			}
		case *ast.ValueSpec:
			for i, id := range s.Names {
				o := info.ObjectOf(id)
				if o == nil {
					continue
				}
				if len(s.Values) == len(s.Names) {
					m[o] = append(m[o], s.Values[i])
				} else if len(s.Values) > 0 {
					m[o] = append(m[o], nil)
				}
			}
		case *ast.IncDecStmt:
			if id, ok := s.X.(*ast.Ident); ok {
				if o := info.ObjectOf(id); o != nil {
					m[o] = append(m[o], nil)
				}
			}
		case *ast.RangeStmt:
			for _, e := range []ast.Expr{s.Key, s.Value} {
				if id, ok := e.(*ast.Ident); ok {
					if o := info.ObjectOf(id); o != nil {
						m[o] = append(m[o], nil)
					}
				}
			}
		case *ast.UnaryExpr:
			if s.Op == token.AND {
				if id, ok := unparen(s.X).(*ast.Ident); ok {
					if o := info.ObjectOf(id); o != nil {
						m[o] = append(m[o], nil)
					}
				}
			}
		}
		return true
	})
	return m
}

// resolve1: if e is a local identifier with exactly one definition in defs,
// returns that definition (recursively, bounded); otherwise e.
func (d defMap) resolve1(info *types.Info, e ast.Expr) ast.Expr {
	for i := 0; i < 4; i++ {
		id, ok := unparen(e).(*ast.Ident)
		if !ok {
			return unparen(e)
		}
		o := info.ObjectOf(id)
		ds := d[o]
		if len(ds) != 1 || ds[0] == nil {
			return id
		}
		e = ds[0]
	}
	return unparen(e)
}

// isBuiltinCall: call of the named builtin (len, cap, append, copy, make...).
func isBuiltinCall(info *types.Info, e ast.Expr, name string) (*ast.CallExpr, bool) {
	call, ok := unparen(e).(*ast.CallExpr)
	if !ok {
		return nil, false
	}
	id, ok := call.Fun.(*ast.Ident)
	if !ok || id.Name != name {
		return nil, false
	}
	if _, ok := info.Uses[id].(*types.Builtin); !ok {
		return nil, false
	}
	return call, true
}

// isEmptySliceExpr: make([]T,0), []T{}, nil, x[:0]
func isEmptySliceExpr(info *types.Info, e ast.Expr) bool {
	e = unparen(e)
	if id, ok := e.(*ast.Ident); ok && id.Name == "nil" {
		return true
	}
	if cl, ok := e.(*ast.CompositeLit); ok && len(cl.Elts) == 0 {
		return true
	}
	if call, ok := isBuiltinCall(info, e, "make"); ok && len(call.Args) >= 2 {
		if v, ok := constInt(info, call.Args[1]); ok && v == 0 {
			return true
		}
	}
	if se, ok := e.(*ast.SliceExpr); ok && se.Low == nil && se.High != nil {
		if v, ok := constInt(info, se.High); ok && v == 0 {
			return true
		}
	}
	return false
}

// stripConv removes a single type conversion T(x) (e.g. uint64(i)).
func stripConv(info *types.Info, e ast.Expr) ast.Expr {
	e = unparen(e)
	if call, ok := e.(*ast.CallExpr); ok && len(call.Args) == 1 {
		if tv, ok := info.Types[call.Fun]; ok && tv.IsType() {
			return unparen(call.Args[0])
		}
	}
	return e
}

// isPkgObj: identifier or selector resolving to package-level object pkg.name
func isPkgObj(info *types.Info, e ast.Expr, pkgPath, name string) bool {
	var id *ast.Ident
	switch x := unparen(e).(type) {
	case *ast.Ident:
		id = x
	case *ast.SelectorExpr:
		id = x.Sel
	default:
		return false
	}
	o := info.ObjectOf(id)
	return o != nil && o.Pkg() != nil && o.Pkg().Path() == pkgPath && o.Name() == name && o.Parent() == o.Pkg().Scope()
}

// mentions: expression contains an identifier resolving to obj.
func mentions(info *types.Info, e ast.Node, obj types.Object) bool {
	found := false
	ast.Inspect(e, func(n ast.Node) bool {
		if id, ok := n.(*ast.Ident); ok && info.ObjectOf(id) == obj {
			found = true
		}
		return !found
	})
	return found
}

// truth-table evaluation (E8): evaluate a boolean expression under an
// assignment of atoms. atom() maps a leaf expression to (atom name, negated, ok).
type atomFn func(e ast.Expr) (name string, neg bool, ok bool)

func evalBool(e ast.Expr, atom atomFn, env map[string]bool, unknown *[]string) bool {
	e = unparen(e)
	if name, neg, ok := atom(e); ok {
		return env[name] != neg
	}
	switch x := e.(type) {
	case *ast.UnaryExpr:
		if x.Op == token.NOT {
			return !evalBool(x.X, atom, env, unknown)
		}
	case *ast.BinaryExpr:
		switch x.Op {
		case token.LAND:
			return evalBool(x.X, atom, env, unknown) && evalBool(x.Y, atom, env, unknown)
		case token.LOR:
			return evalBool(x.X, atom, env, unknown) || evalBool(x.Y, atom, env, unknown)
		}
	case *ast.Ident:
		if x.Name == "true" {
			return true
		}
		if x.Name == "false" {
			return false
		}
	}
	*unknown = append(*unknown, strings.TrimSpace(types.ExprString(e)))
	return false
}

// truthTable enumerates all assignments of atoms and returns rows
// (bitmask of atom values -> result), plus unknown leaves.
func truthTable(e ast.Expr, atoms []string, atom atomFn) (map[int]bool, []string) {
	out := map[int]bool{}
	var unk []string
	for m := 0; m < 1<<len(atoms); m++ {
		env := map[string]bool{}
		for i, a := range atoms {
			env[a] = m&(1<<i) != 0
		}
		out[m] = evalBool(e, atom, env, &unk)
	}
	return out, unk
}

// cmpNorm normalises a comparison `a OP b` against an integer constant:
// returns (other operand, op, const, true) with the constant on the right.
func cmpNorm(info *types.Info, e ast.Expr) (ast.Expr, token.Token, int64, bool) {
	b, ok := unparen(e).(*ast.BinaryExpr)
	if !ok {
		return nil, 0, 0, false
	}
	flip := map[token.Token]token.Token{token.LSS: token.GTR, token.GTR: token.LSS, token.LEQ: token.GEQ, token.GEQ: token.LEQ, token.EQL: token.EQL, token.NEQ: token.NEQ}
	if _, ok := flip[b.Op]; !ok {
		return nil, 0, 0, false
	}
	if v, ok := constInt(info, b.Y); ok {
		return unparen(b.X), b.Op, v, true
	}
	if v, ok := constInt(info, b.X); ok {
		return unparen(b.Y), flip[b.Op], v, true
	}
	return nil, 0, 0, false
}

// intPredicate describes `x OP k` as a set membership over the integers around k:
// it returns whether the predicate holds for a given x.
func intPred(op token.Token, k int64) func(x int64) bool {
	return func(x int64) bool {
		switch op {
		case token.LSS:
			return x < k
		case token.LEQ:
			return x <= k
		case token.GTR:
			return x > k
		case token.GEQ:
			return x >= k
		case token.EQL:
			return x == k
		case token.NEQ:
			return x != k
		}
		return false
	}
}

// samePredOnRange: two integer predicates agree on every x in [lo,hi].
func samePredOnRange(p, q func(int64) bool, lo, hi int64) bool {
	for x := lo; x <= hi; x++ {
		if p(x) != q(x) {
			return false
		}
	}
	return true
}

// topLevelIndex: index of the statement in list that contains node n (or -1).
func topLevelIndex(list []ast.Stmt, n ast.Node) int {
	for i, s := range list {
		if s.Pos() <= n.Pos() && n.End() <= s.End() {
			return i
		}
	}
	return -1
}

// pathTo returns the ancestor stack from root down to target (inclusive).
func pathTo(root, target ast.Node) []ast.Node {
	var res []ast.Node
	walkStack(root, func(n ast.Node, stack []ast.Node) bool {
		if res != nil {
			return false
		}
		if n == target {
			res = append([]ast.Node(nil), stack...)
			return false
		}
		return true
	})
	return res
}

// enclosingCommDone: the stack passes through a select CommClause receiving
// from <base>.ctx.Done() / anything.Done().
func inDoneArm(info *types.Info, stack []ast.Node) bool {
	for _, n := range stack {
		cc, ok := n.(*ast.CommClause)
		if !ok || cc.Comm == nil {
			continue
		}
		isDone := false
		ast.Inspect(cc.Comm, func(x ast.Node) bool {
			if call, ok := x.(*ast.CallExpr); ok {
				if o := callee(info, call); o != nil && o.Name() == "Done" {
					isDone = true
				}
			}
			return true
		})
		if isDone {
			return true
		}
	}
	return false
}
