package main

import (
	"go/ast"
	"go/constant"
	"go/token"
	"go/types"
)

func init() {
	extend("C14", func(c *Ctx) {
		// ---- R14h
		c.Rule("R14h", "jsonl reader mode is monotone: in jsonlines.unmarshal every store, inside the line loop, to the boolean that selects between table mode and struct mode is the constant true or `flag || …` — a store that can turn it off again sends later lines to the other accumulator and the function returns only one of the two, so elements read before the flip are dropped")
		if fd, pk := c.MustFunc("R14h", "builtins/types/jsonlines", "", "unmarshal"); fd != nil {
			info := pk.TypesInfo
			// the flag(s): a bool local that, alone or negated, is the whole condition of a top-level
			// `if` or of a case of a top-level tagless switch (`if flag { return A }; return B`,
			// `if !flag { return B }`, `switch { case flag: … }`, `if flag { result = A }`)
			flags := map[types.Object]bool{}
			var flagName string
			flagOf := func(e ast.Expr) {
				e = unparen(e)
				for {
					u, ok := e.(*ast.UnaryExpr)
					if !ok || u.Op != token.NOT {
						break
					}
					e = unparen(u.X)
				}
				if id, ok := e.(*ast.Ident); ok {
					if v, ok := info.ObjectOf(id).(*types.Var); ok && !v.IsField() && v.Pkg() != nil && v.Parent() != v.Pkg().Scope() && types.Identical(v.Type().Underlying(), types.Typ[types.Bool]) {
						if !flags[v] && flagName != "" {
							flagName += "/"
						}
						if !flags[v] {
							flagName += v.Name()
						}
						flags[v] = true
					}
				}
			}
			for _, s := range fd.Body.List {
				switch x := s.(type) {
				case *ast.IfStmt:
					flagOf(x.Cond)
				case *ast.SwitchStmt:
					if x.Tag == nil {
						for _, cl := range x.Body.List {
							for _, e := range cl.(*ast.CaseClause).List {
								flagOf(e)
							}
						}
					}
				}
			}
			if len(flags) == 0 {
				c.Undecided("R14h", "unmarshal:mode-flag", fd.Pos(), "no `if <bool> { … }` / `switch { case <bool>: … }` selecting the result at the end of jsonlines.unmarshal")
			} else {
				n := 0
				walkStack(fd.Body, func(nd ast.Node, stack []ast.Node) bool {
					as, ok := nd.(*ast.AssignStmt)
					if !ok {
						return true
					}
					inLoop := false
					for _, a := range stack {
						switch a.(type) {
						case *ast.ForStmt, *ast.RangeStmt:
							inLoop = true
						}
					}
					for i, l := range as.Lhs {
						id, ok := unparen(l).(*ast.Ident)
						if !ok || !flags[info.ObjectOf(id)] || !inLoop || len(as.Rhs) != len(as.Lhs) {
							continue
						}
						flag := info.ObjectOf(id)
						n++
						r := unparen(as.Rhs[i])
						good := false
						if tv := info.Types[r]; tv.Value != nil && tv.Value.ExactString() == "true" {
							good = true
						}
						if be, ok := r.(*ast.BinaryExpr); ok && be.Op == token.LOR {
							for _, side := range []ast.Expr{be.X, be.Y} {
								if sid, ok := unparen(side).(*ast.Ident); ok && info.ObjectOf(sid) == flag {
									good = true
								}
							}
						}
						if !good {
							// `if !flag { flag = … }`: the store only happens while the flag is still off
							for _, ft := range factsOf(guardsAt(info, stack)) {
								if fid, ok := unparen(ft.E).(*ast.Ident); ok && info.ObjectOf(fid) == flag && !ft.True {
									good = true
								}
							}
						}
						c.Check(good, "R14h", "unmarshal:mode-store#"+itoa(n), as.Pos(), "store to the mode flag `%s` keeps it on once set (true or `%s || …`) — otherwise an array line after a non-array line switches back to table mode and the elements collected so far are lost", c.src(as), flagName)
					}
					return true
				})
				c.MinCount("R14h", "stores to the jsonl mode flag inside the line loop", n, 2)
			}
		}

		// ---- R14i
		c.Rule("R14i", "csv writer changes cells only for untyped text: in csv.marshal the boolean guarding the statements that trim or drop a row's first cell is assigned only `false` or an expression that (truth table over its atoms) is false whenever the input type is neither generic nor str — structured input (json → csv) keeps an empty or indented first cell")
		if fd, pk := c.MustFunc("R14i", "builtins/types/csv", "", "marshal"); fd != nil {
			info := pk.TypesInfo
			// the guard: if <B> { … v[i] = v[i][1:] … }
			var B types.Object
			var guardPos token.Pos
			walkStack(fd.Body, func(nd ast.Node, stack []ast.Node) bool {
				as, ok := nd.(*ast.AssignStmt)
				if !ok || len(as.Lhs) != 1 || len(as.Rhs) != 1 {
					return true
				}
				sl, ok := unparen(as.Rhs[0]).(*ast.SliceExpr)
				if !ok || sl.Low == nil || c.src(sl.X) != c.src(as.Lhs[0]) {
					return true
				}
				for i := len(stack) - 1; i >= 0; i-- {
					if ifs, ok := stack[i].(*ast.IfStmt); ok {
						if id, ok := unparen(ifs.Cond).(*ast.Ident); ok {
							if v, ok := info.ObjectOf(id).(*types.Var); ok && types.Identical(v.Type(), types.Typ[types.Bool]) {
								B, guardPos = v, ifs.Pos()
							}
						}
					}
				}
				return true
			})
			if B == nil {
				c.OK("R14i", "marshal:no-cell-drop", fd.Pos(), "csv.marshal contains no `row = row[k:]` under a boolean guard: no cell is dropped")
			} else {
				// the data-type names by VALUE (types.Generic, a local `const untyped = types.Generic`, "*")
				typeVal := map[string]string{}
				if tp := c.Pkg("lang/types"); tp != nil {
					for _, nm := range []string{"Generic", "String"} {
						if k, ok := tp.Types.Scope().Lookup(nm).(*types.Const); ok && k.Val().Kind() == constant.String {
							typeVal[nm] = constant.StringVal(k.Val())
						}
					}
				}
				isTypeConst := func(e ast.Expr, name string) bool {
					want, known := typeVal[name]
					if !known {
						return isPkgObj(info, e, mx("lang/types"), name)
					}
					got, ok := constString(info, e)
					return ok && got == want
				}
				var inputObj types.Object
				atom := func(e ast.Expr) (string, bool, bool) {
					be, ok := unparen(e).(*ast.BinaryExpr)
					if !ok || (be.Op != token.EQL && be.Op != token.NEQ) {
						if _, isTA := unparen(e).(*ast.TypeAssertExpr); isTA {
							return "cfg:" + c.src(e), false, true
						}
						if id, isID := unparen(e).(*ast.Ident); isID && id.Name != "true" && id.Name != "false" {
							return "var:" + id.Name, false, true
						}
						return "", false, false
					}
					x, y := unparen(be.X), unparen(be.Y)
					for _, nm := range []string{"Generic", "String"} {
						var other ast.Expr
						if isTypeConst(y, nm) {
							other = x
						} else if isTypeConst(x, nm) {
							other = y
						}
						if other == nil {
							continue
						}
						if id, ok := other.(*ast.Ident); ok {
							if inputObj == nil {
								inputObj = info.ObjectOf(id)
							}
							if info.ObjectOf(id) == inputObj {
								return nm, be.Op == token.NEQ, true
							}
						}
					}
					return "", false, false
				}
				// atomRHS: on the right-hand side of a store the guard itself (`B = B && x`: the new value
				// is on only if the old one was) and any other boolean leaf (`len(v) != 0`) are free atoms
				atomRHS := func(e ast.Expr) (string, bool, bool) {
					if nm, neg, ok := atom(e); ok {
						if id, isID := unparen(e).(*ast.Ident); isID && info.ObjectOf(id) == B {
							return "prev", false, true
						}
						return nm, neg, ok
					}
					switch y := unparen(e).(type) {
					case *ast.UnaryExpr:
						if y.Op == token.NOT {
							return "", false, false
						}
					case *ast.BinaryExpr:
						if y.Op == token.LAND || y.Op == token.LOR {
							return "", false, false
						}
					}
					if tv, ok := info.Types[unparen(e)]; ok && tv.Type != nil && tv.Value == nil {
						if b, isB := tv.Type.Underlying().(*types.Basic); isB && b.Info()&types.IsBoolean != 0 {
							return "expr:" + c.src(e), false, true
						}
					}
					return "", false, false
				}
				defs := localDefs(info, fd.Body)
				// expand: replace single-definition boolean locals by their definition
				var expand func(e ast.Expr, depth int) ast.Expr
				expand = func(e ast.Expr, depth int) ast.Expr {
					e = unparen(e)
					if depth > 6 {
						return e
					}
					switch x := e.(type) {
					case *ast.Ident:
						if v, ok := info.ObjectOf(x).(*types.Var); ok && v != B && types.Identical(v.Type(), types.Typ[types.Bool]) {
							if ds := defs[v]; len(ds) == 1 && ds[0] != nil {
								return expand(ds[0], depth+1)
							}
						}
					case *ast.UnaryExpr:
						return &ast.UnaryExpr{OpPos: x.OpPos, Op: x.Op, X: expand(x.X, depth+1)}
					case *ast.BinaryExpr:
						if x.Op == token.LAND || x.Op == token.LOR {
							return &ast.BinaryExpr{X: expand(x.X, depth+1), OpPos: x.OpPos, Op: x.Op, Y: expand(x.Y, depth+1)}
						}
					}
					return e
				}
				n := 0
				walkStack(fd.Body, func(nd ast.Node, stack []ast.Node) bool {
					var lhs []ast.Expr
					var rhs []ast.Expr
					switch s := nd.(type) {
					case *ast.AssignStmt:
						lhs, rhs = s.Lhs, s.Rhs
					default:
						return true
					}
					// the store happens only under its guards: the effective value is guards ∧ rhs
					var guardTerms []ast.Expr
					var modelOK func(e ast.Expr) bool
					gs := guardsAt(info, stack)
					var facts []Fact
					for _, g := range gs {
						if g.Tag == nil || len(g.Cases) == 0 {
							continue
						}
						// arm of a tagged switch: tag == c1 || tag == c2 … (default arm: none of them);
						// void when the arm can be entered by fallthrough
						entered := false
						for _, a := range stack {
							sw, ok := a.(*ast.SwitchStmt)
							if !ok || sw.Tag != g.Tag {
								continue
							}
							for ci, cl := range sw.Body.List {
								if ci == 0 || !(cl.Pos() <= nd.Pos() && nd.End() <= cl.End()) {
									continue
								}
								prev := sw.Body.List[ci-1].(*ast.CaseClause)
								if k := len(prev.Body); k > 0 {
									if br, isBr := prev.Body[k-1].(*ast.BranchStmt); isBr && br.Tok == token.FALLTHROUGH {
										entered = true
									}
								}
							}
						}
						if entered {
							continue
						}
						var dis ast.Expr
						for _, cs := range g.Cases {
							eq := &ast.BinaryExpr{X: g.Tag, Op: token.EQL, Y: cs}
							if dis == nil {
								dis = eq
							} else {
								dis = &ast.BinaryExpr{X: dis, Op: token.LOR, Y: eq}
							}
						}
						facts = append(facts, Fact{E: dis, True: !g.Neg})
					}
					facts = append(facts, factsOf(gs)...)
					// a later `if g { B = … }` in the same statement list, with nothing that mentions B in
					// between, overrides this store whenever g holds: its value survives only under !g
					if as, isAs := nd.(*ast.AssignStmt); isAs && len(stack) >= 2 {
						var list []ast.Stmt
						switch blk := stack[len(stack)-2].(type) {
						case *ast.BlockStmt:
							list = blk.List
						case *ast.CaseClause:
							list = blk.Body
						}
						if idx := topLevelIndex(list, as); idx >= 0 && list[idx] == ast.Stmt(as) {
							for _, nx := range list[idx+1:] {
								if !mentions(info, nx, B) {
									continue
								}
								ifs, ok := nx.(*ast.IfStmt)
								if !ok || ifs.Init != nil || ifs.Else != nil || len(ifs.Body.List) != 1 || mentions(info, ifs.Cond, B) {
									break
								}
								ov, ok := ifs.Body.List[0].(*ast.AssignStmt)
								if !ok || ov.Tok != token.ASSIGN || len(ov.Lhs) != 1 || len(ov.Rhs) != 1 {
									break
								}
								if oid, ok := unparen(ov.Lhs[0]).(*ast.Ident); !ok || info.ObjectOf(oid) != B {
									break
								}
								facts = append(facts, Fact{E: ifs.Cond, True: false})
							}
						}
					}
					for _, ft := range facts {
						modelOK = func(e ast.Expr) bool {
							e = unparen(e)
							if _, _, ok := atom(e); ok {
								return true
							}
							switch y := e.(type) {
							case *ast.UnaryExpr:
								return y.Op == token.NOT && modelOK(y.X)
							case *ast.BinaryExpr:
								return (y.Op == token.LAND || y.Op == token.LOR) && modelOK(y.X) && modelOK(y.Y)
							}
							return false
						}
						modelled := modelOK(expand(ft.E, 0))
						if !modelled {
							continue // dropping a conjunct only makes the condition weaker (never hides a violation)
						}
						t := expand(ft.E, 0)
						if !ft.True {
							t = &ast.UnaryExpr{Op: token.NOT, X: t}
						}
						guardTerms = append(guardTerms, t)
					}
					for i, l := range lhs {
						id, ok := unparen(l).(*ast.Ident)
						if !ok || info.ObjectOf(id) != B || len(rhs) != len(lhs) {
							continue
						}
						n++
						key := "marshal:" + B.Name() + "-store#" + itoa(n)
						e := expand(rhs[i], 0)
						for _, g := range guardTerms {
							e = &ast.BinaryExpr{X: g, Op: token.LAND, Y: e}
						}
						// collect atoms
						seen := map[string]bool{}
						var atoms []string
						var collect func(x ast.Expr)
						collect = func(x ast.Expr) {
							x = unparen(x)
							if nm, _, ok := atomRHS(x); ok {
								if !seen[nm] {
									seen[nm] = true
									atoms = append(atoms, nm)
								}
								return
							}
							switch y := x.(type) {
							case *ast.UnaryExpr:
								collect(y.X)
							case *ast.BinaryExpr:
								collect(y.X)
								collect(y.Y)
							}
						}
						collect(e)
						if len(atoms) > 8 {
							c.Undecided("R14i", key, rhs[i].Pos(), "too many atoms in %s", c.src(rhs[i]))
							continue
						}
						tt, unk := truthTable(e, atoms, atomRHS)
						if len(unk) > 0 {
							c.Undecided("R14i", key, rhs[i].Pos(), "store %s = %s contains a leaf outside the model: %v", B.Name(), c.src(rhs[i]), unk)
							continue
						}
						bad := ""
						for m, v := range tt {
							g, s, prev := false, false, false
							for ai, a := range atoms {
								if m&(1<<ai) != 0 {
									if a == "Generic" {
										g = true
									}
									if a == "String" {
										s = true
									}
									if a == "prev" {
										prev = true
									}
								}
							}
							if v && !g && !s && !prev {
								bad = "true for an input type that is neither generic nor str"
							}
						}
						if bad != "" {
							c.Viol("R14i", key, rhs[i].Pos(), "%s = %s can be %s: the first cell of every row of a structured table is trimmed, and dropped when empty (guard at %s) — rows shift left", B.Name(), c.src(rhs[i]), bad, c.pos(guardPos))
						} else {
							c.OK("R14i", key, rhs[i].Pos(), "%s = %s is false unless the input type is generic or str", B.Name(), c.src(rhs[i]))
						}
					}
					return true
				})
				c.MinCount("R14i", "stores to the cell-dropping guard of csv.marshal", n, 2)
			}
		}
	})
}
