package main

import (
	"go/ast"
	"go/token"
	"go/types"
	"strings"
)

func init() {
	register("C25", "Decides structural necessary conditions of config scoping: Process.Fork gives a function call its own child config (p.Config.Copy()) and every other fork the caller's config unless F_NEW_CONFIG; a child config always parents to the session config, never to another child, and copies no values; Config.Set forwards to the session config exactly when one exists and the option is undefined-there-or-global (truth table), otherwise stores locally; reads consult the local override first only in a child; `default` re-sets the declared default through the same Set routing in the calling scope; all accesses to the tables hold the mutex. Does NOT decide dynamic (scripted) getters/setters or the values themselves.", runC25)
}

var configT = mx("config") + ".Config"

func runC25(c *Ctx) {
	c.Load("lang", "config", "builtins/core/config")
	lpk := c.Pkg("lang")
	linfo := lpk.TypesInfo
	cpk := c.Pkg("config")
	info := cpk.TypesInfo

	c.Rule("R25c", "E1 lockset: Config.{properties,values,fileRefSet} are accessed only with Config.mutex held (write lock for stores); constructors exempt")
	n := c.runLockset("R25c", LockSpec{Pkg: "config", Type: "Config", Mutex: "mutex", Fields: []string{"properties", "values", "fileRefSet"}})
	c.MinCount("R25c", "guarded accesses to Config tables", n, 40)

	c.Rule("R25a", "Process.Fork: the F_FUNCTION arm stores p.Config.Copy() into fork.Config; the other arms store p.Config, or p.Config.Copy() under F_NEW_CONFIG")
	if fd, _ := c.MustFunc("R25a", "lang", "Process", "Fork"); fd != nil {
		rv := recvVar(fd)
		isCopy := func(rhs ast.Expr) bool {
			call, ok := unparen(rhs).(*ast.CallExpr)
			if !ok || !callIs(linfo, call, mx("config"), "Config", "Copy") {
				return false
			}
			se := call.Fun.(*ast.SelectorExpr)
			return selPath(se.X) == rv+".Config"
		}
		// F_FUNCTION arm: classify copy as "fresh", parent as "parent"
		// but the non-function arm may legitimately copy under F_NEW_CONFIG: classify with guard
		var fnIf *ast.IfStmt
		for _, s := range fd.Body.List {
			if is, ok := s.(*ast.IfStmt); ok && strings.Contains(c.src(is.Cond), "F_FUNCTION") {
				fnIf = is
			}
		}
		if fnIf == nil {
			c.Lost("R25a", "Fork:F_FUNCTION-branch", "no F_FUNCTION branch")
		} else {
			nFn, okFn := 0, true
			ast.Inspect(fnIf.Body, func(nd ast.Node) bool {
				if as, ok := nd.(*ast.AssignStmt); ok && len(as.Lhs) == 1 && len(as.Rhs) == 1 {
					if se, ok := as.Lhs[0].(*ast.SelectorExpr); ok && se.Sel.Name == "Config" && selPath(se.X) == "fork" {
						nFn++
						if !isCopy(as.Rhs[0]) {
							okFn = false
						}
					}
				}
				return true
			})
			c.Check(nFn == 1 && okFn && topLevelHas(fnIf.Body.List, "fork", "Config"), "R25a", "Fork:F_FUNCTION-arm:Config", fnIf.Body.Pos(), "the function arm stores fork.Config = p.Config.Copy() unconditionally (a function call gets its own child config)")
			// other arm
			el, _ := fnIf.Else.(*ast.BlockStmt)
			nO, okO := 0, el != nil
			if el != nil {
				walkStack(el, func(nd ast.Node, stack []ast.Node) bool {
					as, ok := nd.(*ast.AssignStmt)
					if !ok || len(as.Lhs) != 1 || len(as.Rhs) != 1 {
						return true
					}
					se, ok := as.Lhs[0].(*ast.SelectorExpr)
					if !ok || se.Sel.Name != "Config" || selPath(se.X) != "fork" {
						return true
					}
					nO++
					newCfg := 0 // +1 guard says F_NEW_CONFIG set, -1 clear
					for _, f := range factsOf(guardsAt(linfo, stack)) {
						if strings.Contains(c.src(f.E), "F_NEW_CONFIG") {
							b, isB := unparen(f.E).(*ast.BinaryExpr)
							set := f.True
							if isB && b.Op == token.EQL {
								set = !set
							}
							if set {
								newCfg = 1
							} else {
								newCfg = -1
							}
						}
					}
					switch {
					case isCopy(as.Rhs[0]) && newCfg == 1:
					case c.src(as.Rhs[0]) == rv+".Config" && newCfg == -1:
					default:
						okO = false
					}
					return true
				})
			}
			c.Check(okO && nO == 2, "R25a", "Fork:other-arms:Config", fnIf.Pos(), "the non-function arms store p.Config.Copy() exactly under F_NEW_CONFIG and p.Config otherwise (%d stores)", nO)
		}
	}

	c.Rule("R25d", "Config.Copy returns newConfiguration(g) with g = conf.global when non-nil, else conf itself; newConfiguration copies no values and stores its argument as the parent")
	if fd, _ := c.MustFunc("R25d", "config", "Config", "Copy"); fd != nil {
		rv := recvVar(fd)
		nRet, ok := 0, true
		walkStack(fd.Body, func(nd ast.Node, stack []ast.Node) bool {
			rs, isR := nd.(*ast.ReturnStmt)
			if !isR || len(rs.Results) != 1 {
				return true
			}
			nRet++
			call, isC := unparen(rs.Results[0]).(*ast.CallExpr)
			if !isC || !callIs(info, call, mx("config"), "", "newConfiguration") || len(call.Args) != 1 {
				ok = false
				return true
			}
			arg := c.src(call.Args[0])
			globalNil := 0
			for _, f := range factsOf(guardsAt(info, stack)) {
				if b, isB := unparen(f.E).(*ast.BinaryExpr); isB && isField(info, b.X, configT, "global") {
					if nn, isN := unparen(b.Y).(*ast.Ident); isN && nn.Name == "nil" {
						if (b.Op == token.EQL) == f.True {
							globalNil = 1
						} else {
							globalNil = -1
						}
					}
				}
			}
			switch {
			case arg == rv && globalNil == 1:
			case arg == rv+".global" && globalNil == -1:
			default:
				ok = false
			}
			return true
		})
		c.Check(ok && nRet == 2, "R25d", "Copy:parents-to-session", fd.Pos(), "Copy parents the child to the session config (conf.global if the receiver is itself a child, else the receiver): a nested call does not inherit its caller's local overrides")
	}
	if fd, _ := c.MustFunc("R25d", "config", "", "newConfiguration"); fd != nil {
		okParent, copies := false, false
		var param types.Object
		if fd.Type.Params != nil && len(fd.Type.Params.List) == 1 {
			param = info.Defs[fd.Type.Params.List[0].Names[0]]
		}
		ast.Inspect(fd.Body, func(nd ast.Node) bool {
			if as, ok := nd.(*ast.AssignStmt); ok && len(as.Lhs) == 1 && len(as.Rhs) == 1 {
				if isField(info, as.Lhs[0], configT, "global") {
					if id, ok := unparen(as.Rhs[0]).(*ast.Ident); ok && info.ObjectOf(id) == param {
						okParent = true
					}
				}
				for _, f := range []string{"values", "properties", "fileRefSet"} {
					if isField(info, as.Lhs[0], configT, f) {
						if _, ok := isBuiltinCall(info, as.Rhs[0], "make"); !ok {
							copies = true
						}
					}
				}
			}
			if _, ok := nd.(*ast.RangeStmt); ok {
				copies = true
			}
			return true
		})
		c.Check(okParent && !copies, "R25d", "newConfiguration:empty-child", fd.Pos(), "a child config starts empty (fresh maps, no loop copying values) with global = its argument")
	}

	c.Rule("R25b", "routing: Config.Set forwards to conf.global ⇔ conf.global != nil ∧ (¬exists ∨ global) (truth table over the two results of global.ExistsAndGlobal); the local store writes values[app][key] and fileRefSet[app][key] under the lock; GetFileRef returns a local override first only when conf.global != nil and falls back to conf.global when the option is not defined locally; ExistsAndGlobal computes global = exists ∧ Properties.Global; Default re-sets through conf.Set (the calling scope), not through the session config")
	if fd, _ := c.MustFunc("R25b", "config", "Config", "Set"); fd != nil {
		c.checkConfigSetRouting(info, fd)
	}
	if fd, _ := c.MustFunc("R25b", "config", "Config", "GetFileRef"); fd != nil {
		// first statement after RLock: if conf.global != nil && values... { return local }
		okFirst, okFallback := false, false
		walkStack(fd.Body, func(nd ast.Node, stack []ast.Node) bool {
			is, ok := nd.(*ast.IfStmt)
			if !ok {
				return true
			}
			cs := conjuncts(is.Cond)
			hasGlobal, hasValue := false, false
			for _, e := range cs {
				if b, isB := unparen(e).(*ast.BinaryExpr); isB && b.Op == token.NEQ {
					if isField(info, b.X, configT, "global") {
						hasGlobal = true
					}
					if strings.Contains(c.src(b.X), ".values[") {
						hasValue = true
					}
				}
			}
			if hasGlobal && hasValue && topLevelIndex(fd.Body.List, is) >= 0 && terminates(info, is.Body.List) {
				// returns conf.values[app][key]
				ast.Inspect(is.Body, func(x ast.Node) bool {
					if as, isA := x.(*ast.AssignStmt); isA && len(as.Rhs) == 1 && strings.Contains(c.src(as.Rhs[0]), ".values[") {
						okFirst = true
					}
					return true
				})
			}
			return true
		})
		for _, call := range calls(fd.Body, false) {
			if callIs(info, call, mx("config"), "Config", "GetFileRef") {
				if se, ok := call.Fun.(*ast.SelectorExpr); ok && isField(info, se.X, configT, "global") {
					okFallback = true
				}
			}
		}
		c.Check(okFirst, "R25b", "GetFileRef:local-override-first", fd.Pos(), "a child config answers from its own values first (only when conf.global != nil and a local value exists)")
		c.Check(okFallback, "R25b", "GetFileRef:fallback-to-session", fd.Pos(), "when the option is not defined locally the read falls back to conf.global.GetFileRef")
	}
	if fd, _ := c.MustFunc("R25b", "config", "Config", "ExistsAndGlobal"); fd != nil {
		okG := false
		res := resultNames(fd)
		ast.Inspect(fd.Body, func(nd ast.Node) bool {
			if as, ok := nd.(*ast.AssignStmt); ok && len(as.Lhs) == 1 && len(as.Rhs) == 1 && len(res) == 2 {
				if id, ok := as.Lhs[0].(*ast.Ident); ok && id.Name == res[1] {
					cs := conjuncts(as.Rhs[0])
					hasE, hasG := false, false
					for _, e := range cs {
						if x, ok := unparen(e).(*ast.Ident); ok && x.Name == res[0] {
							hasE = true
						}
						if se, ok := unparen(e).(*ast.SelectorExpr); ok && se.Sel.Name == "Global" {
							hasG = true
						}
					}
					okG = hasE && hasG && len(cs) == 2
				}
			}
			return true
		})
		c.Check(okG, "R25b", "ExistsAndGlobal:global", fd.Pos(), "global = exists ∧ properties[app][key].Global")
	}
	if fd, _ := c.MustFunc("R25b", "config", "Config", "Default"); fd != nil {
		rv := recvVar(fd)
		ok := false
		for _, s := range fd.Body.List {
			if rs, isR := s.(*ast.ReturnStmt); isR && len(rs.Results) == 1 {
				if call, isC := unparen(rs.Results[0]).(*ast.CallExpr); isC && callIs(info, call, mx("config"), "Config", "Set") {
					if se := call.Fun.(*ast.SelectorExpr); selPath(se.X) == rv {
						ok = true
					}
				}
			}
		}
		readsDefault := false
		ast.Inspect(fd.Body, func(nd ast.Node) bool {
			if se, isS := nd.(*ast.SelectorExpr); isS && se.Sel.Name == "Default" {
				if _, isF := info.Selections[se]; isF {
					readsDefault = true
				}
			}
			return true
		})
		c.Check(ok && readsDefault, "R25b", "Default:resets-in-calling-scope", fd.Pos(), "Default reads Properties.Default and re-sets it through the receiver's own Set (so the calling scope's routing applies)")
		// every return is either an error or the Set call: no path ends without storing the declared default
		okAll := true
		var badPos = fd.Pos()
		ast.Inspect(fd.Body, func(nd ast.Node) bool {
			if _, isLit := nd.(*ast.FuncLit); isLit {
				return false
			}
			rs, isR := nd.(*ast.ReturnStmt)
			if !isR || len(rs.Results) != 1 {
				return true
			}
			r := unparen(rs.Results[0])
			if call, isC := r.(*ast.CallExpr); isC {
				if callIs(info, call, mx("config"), "Config", "Set") {
					if se := call.Fun.(*ast.SelectorExpr); selPath(se.X) == rv {
						return true
					}
				}
				if o := callee(info, call); o != nil && o.Pkg() != nil && (o.Pkg().Path() == "fmt" || o.Pkg().Path() == "errors") {
					return true
				}
			}
			okAll = false
			badPos = rs.Pos()
			return true
		})
		c.Check(okAll, "R25b", "Default:every-success-path-sets", badPos, "every return of Default is an error or `conf.Set(app, key, <declared default>, …)`: a path that merely forgets the local override would expose the session value instead of the declared default")
	}
	// builtin: config default → p.Config.Default ; config set → p.Config.Set
	if bp := c.Pkg("builtins/core/config"); bp != nil {
		binfo := bp.TypesInfo
		nSet, nDef, bad := 0, 0, ""
		eachFunc(bp, func(fd *ast.FuncDecl) {
			for _, call := range calls(fd.Body, true) {
				o := callee(binfo, call)
				if o == nil || o.Pkg() == nil || o.Pkg().Path() != mx("config") {
					continue
				}
				se, ok := call.Fun.(*ast.SelectorExpr)
				if !ok {
					continue
				}
				switch o.Name() {
				case "Set":
					nSet++
					if c.src(se.X) != "p.Config" {
						bad = c.src(call)
					}
				case "Default":
					nDef++
					if c.src(se.X) != "p.Config" {
						bad = c.src(call)
					}
				}
			}
		})
		c.Check(nSet >= 1 && nDef >= 1 && bad == "", "R25b", "builtin:config-set/default-use-caller-scope", token.NoPos, "the `config` builtin sets and defaults through p.Config, the calling process's scope (%d Set, %d Default) %s", nSet, nDef, bad)
	}
}

func topLevelHas(list []ast.Stmt, base, field string) bool {
	for _, s := range list {
		if as, ok := s.(*ast.AssignStmt); ok && len(as.Lhs) == 1 {
			if se, ok := as.Lhs[0].(*ast.SelectorExpr); ok && se.Sel.Name == field && selPath(se.X) == base {
				return true
			}
		}
	}
	return false
}

func (c *Ctx) checkConfigSetRouting(info *types.Info, fd *ast.FuncDecl) {
	rv := recvVar(fd)
	// find: if conf.global != nil { exists, global := conf.global.ExistsAndGlobal(app,key); if <pred> { return conf.global.Set(...) } }
	var outer *ast.IfStmt
	for _, s := range fd.Body.List {
		if is, ok := s.(*ast.IfStmt); ok {
			if b, ok := unparen(is.Cond).(*ast.BinaryExpr); ok && b.Op == token.NEQ && isField(info, b.X, configT, "global") {
				outer = is
				break
			}
		}
		// anything that locks before the routing voids it
		if es, ok := s.(*ast.ExprStmt); ok {
			if call, ok := es.X.(*ast.CallExpr); ok {
				if _, op := mutexOp(info, call); op != "" {
					break
				}
			}
		}
	}
	if outer == nil {
		c.Viol("R25b", "Set:routing", fd.Pos(), "Config.Set does not start with the `conf.global != nil` routing test: a child would never forward global/undefined options to the session config")
		return
	}
	var existsObj, globalObj types.Object
	var inner *ast.IfStmt
	for _, s := range outer.Body.List {
		if as, ok := s.(*ast.AssignStmt); ok && len(as.Lhs) == 2 && len(as.Rhs) == 1 {
			if call, ok := as.Rhs[0].(*ast.CallExpr); ok && callIs(info, call, mx("config"), "Config", "ExistsAndGlobal") {
				if se := call.Fun.(*ast.SelectorExpr); isField(info, se.X, configT, "global") {
					if a, ok := as.Lhs[0].(*ast.Ident); ok {
						existsObj = info.ObjectOf(a)
					}
					if b, ok := as.Lhs[1].(*ast.Ident); ok {
						globalObj = info.ObjectOf(b)
					}
				}
			}
		}
		if is, ok := s.(*ast.IfStmt); ok {
			inner = is
		}
	}
	if existsObj == nil || globalObj == nil || inner == nil {
		c.Undecided("R25b", "Set:routing", outer.Pos(), "routing block does not have the form `exists, global := conf.global.ExistsAndGlobal(app, key); if <pred> { return conf.global.Set(...) }`")
		return
	}
	atom := func(e ast.Expr) (string, bool, bool) {
		if id, ok := unparen(e).(*ast.Ident); ok {
			switch info.ObjectOf(id) {
			case existsObj:
				return "E", false, true
			case globalObj:
				return "G", false, true
			}
		}
		return "", false, false
	}
	tt, unk := truthTable(inner.Cond, []string{"E", "G"}, atom)
	if len(unk) > 0 {
		c.Undecided("R25b", "Set:routing", inner.Cond.Pos(), "leaf %q of the routing predicate is not one of the two results of ExistsAndGlobal", unk[0])
		return
	}
	bad := ""
	for m, got := range tt {
		E, G := m&1 != 0, m&2 != 0
		if want := !E || G; got != want {
			bad = "exists=" + boolStr(E) + " global=" + boolStr(G) + ": forwards=" + boolStr(got)
		}
	}
	// the arm returns conf.global.Set(app,key,value,fileRef) with the same parameters
	fwd := false
	if len(inner.Body.List) == 1 {
		if rs, ok := inner.Body.List[0].(*ast.ReturnStmt); ok && len(rs.Results) == 1 {
			if call, ok := unparen(rs.Results[0]).(*ast.CallExpr); ok && callIs(info, call, mx("config"), "Config", "Set") {
				if se := call.Fun.(*ast.SelectorExpr); isField(info, se.X, configT, "global") && selPath(se.X) == rv+".global" {
					fwd = len(call.Args) == 4
					for i, a := range call.Args {
						id, ok := unparen(a).(*ast.Ident)
						if !ok || !isParam(info, fd, id) {
							fwd = false
						} else if i < len(flatParams(fd)) && id.Name != flatParams(fd)[i] {
							fwd = false
						}
					}
				}
			}
		}
	}
	c.Check(bad == "" && fwd, "R25b", "Set:routing", inner.Cond.Pos(), "a child forwards to the session config exactly when the option is undefined there or global (truth table ok=%v %s) and passes its own arguments on (%v)", bad == "", bad, fwd)
	// local store: values[app][key] = value and fileRefSet[app][key] = fileRef in the default arm
	okVal, okRef := false, false
	ast.Inspect(fd.Body, func(nd ast.Node) bool {
		if as, ok := nd.(*ast.AssignStmt); ok && len(as.Lhs) == 1 && len(as.Rhs) == 1 {
			l := c.src(as.Lhs[0])
			r, isId := unparen(as.Rhs[0]).(*ast.Ident)
			ps := flatParams(fd)
			if isId && len(ps) == 4 {
				if l == rv+".values["+ps[0]+"]["+ps[1]+"]" && r.Name == ps[2] {
					okVal = true
				}
				if l == rv+".fileRefSet["+ps[0]+"]["+ps[1]+"]" && r.Name == ps[3] {
					okRef = true
				}
			}
		}
		return true
	})
	c.Check(okVal && okRef, "R25b", "Set:local-store", fd.Pos(), "the local arm stores values[app][key] = value (%v) and fileRefSet[app][key] = fileRef (%v) in the receiver", okVal, okRef)
}

func boolStr(b bool) string {
	if b {
		return "T"
	}
	return "F"
}

func flatParams(fd *ast.FuncDecl) []string {
	var out []string
	if fd.Type.Params == nil {
		return nil
	}
	for _, f := range fd.Type.Params.List {
		for _, n := range f.Names {
			out = append(out, n.Name)
		}
	}
	return out
}
