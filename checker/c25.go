package main

import (
	"go/ast"
	"go/token"
	"go/types"
)

func init() {
	register("C25", "Decides structural necessary conditions of config scoping: Process.Fork gives a function call its own child config (p.Config.Copy()) and every other fork the caller's config unless F_NEW_CONFIG; a child config always parents to the session config, never to another child, and copies no values; Config.Set forwards to the session config exactly when one exists and the option is undefined-there-or-global (truth table), otherwise stores locally; reads consult the local override first only in a child; `default` re-sets the declared default through the same Set routing in the calling scope; all accesses to the tables hold the mutex. Does NOT decide dynamic (scripted) getters/setters or the values themselves.", runC25)
}

var configT = mx("config") + ".Config"

func runC25(c *Ctx) {
	c.Load("lang", "config", "builtins/core/config")
	lpk := c.Pkg("lang")
	linfo := lpk.TypesInfo
	cpk := c.Pkg("config")
	info := cpk.TypesInfo

	c.Rule("R25c", "E1 lockset: Config.{properties,values,fileRefSet} are accessed only with Config.mutex held (write lock for stores); constructors exempt")
	n := c.runLockset("R25c", LockSpec{Pkg: "config", Type: "Config", Mutex: "mutex", Fields: []string{"properties", "values", "fileRefSet"}})
	c.MinCount("R25c", "guarded accesses to Config tables", n, 40)

	c.Rule("R25a", "Process.Fork: the F_FUNCTION arm stores p.Config.Copy() into fork.Config; the other arms store p.Config, or p.Config.Copy() under F_NEW_CONFIG")
	if fd, _ := c.MustFunc("R25a", "lang", "Process", "Fork"); fd != nil {
		rv := recvVar(fd)
		classify := func(rhs ast.Expr) string {
			rhs = unparen(rhs)
			if call, ok := rhs.(*ast.CallExpr); ok && callIs(linfo, call, mx("config"), "Config", "Copy") {
				if se := call.Fun.(*ast.SelectorExpr); selPath(se.X) == rv+".Config" {
					return "copy"
				}
			}
			if se, ok := rhs.(*ast.SelectorExpr); ok && se.Sel.Name == "Config" && selPath(se.X) == rv {
				return "parent"
			}
			return "other:" + c.src(rhs)
		}
		// the F_FUNCTION branch, the fork variable and the paths through each arm are found semantically (shared
		// with R11a): every path through the function arm must end with the child copy; on every path through the
		// other arms the last store is the copy exactly when the path took the F_NEW_CONFIG-set side of a test of
		// that bit, and the parent's config when it took the clear side.
		if fb := c.forkFunctionBranch(linfo, fd, "R25a"); fb != nil {
			okFn := true
			pathsFn := fb.storePaths(fb.fnArm, "Config", classify)
			for _, p := range pathsFn {
				if p.last() != "copy" {
					okFn = false
				}
			}
			c.Check(okFn && len(pathsFn) > 0, "R25a", "Fork:F_FUNCTION-arm:Config", fb.fnArm.Pos(), "the function arm stores fork.Config = p.Config.Copy() unconditionally (a function call gets its own child config)")
			bit := c.forkFlagConsts()["F_NEW_CONFIG"]
			okO, bad := true, ""
			pathsO := fb.storePaths(fb.otherArm, "Config", classify)
			for _, p := range pathsO {
				newCfg := 0 // +1 the path knows F_NEW_CONFIG set, -1 clear
				for _, f := range p.facts {
					if pol, ok := flagBitTest(linfo, fb.defs, f.E, bit); ok {
						if pol == f.True {
							newCfg = 1
						} else {
							newCfg = -1
						}
					}
				}
				switch {
				case p.last() == "copy" && newCfg == 1:
				case p.last() == "parent" && newCfg == -1:
				default:
					okO = false
					bad = p.last()
				}
			}
			c.Check(okO && len(pathsO) > 0 && !fb.laterStore(fd, "Config"), "R25a", "Fork:other-arms:Config", fb.fnIf.Pos(), "the non-function arms store p.Config.Copy() exactly under F_NEW_CONFIG and p.Config otherwise (%d paths) %s", len(pathsO), bad)
		}
	}

	c.Rule("R25d", "Config.Copy returns newConfiguration(g) with g = conf.global when non-nil, else conf itself; newConfiguration copies no values and stores its argument as the parent")
	if fd, _ := c.MustFunc("R25d", "config", "Config", "Copy"); fd != nil {
		defs := localDefs(info, fd.Body)
		isSession := func(e ast.Expr) bool { return isRecvGlobal(info, fd, defs, e) }
		isSelf := func(e ast.Expr) bool { return isRecvIdent(info, fd, defs.resolve1(info, e)) }
		nRet, ok := 0, true
		walkStack(fd.Body, func(nd ast.Node, stack []ast.Node) bool {
			rs, isR := nd.(*ast.ReturnStmt)
			if !isR || len(rs.Results) != 1 {
				return true
			}
			nRet++
			call, isC := unparen(rs.Results[0]).(*ast.CallExpr)
			if !isC || !callIs(info, call, mx("config"), "", "newConfiguration") || len(call.Args) != 1 {
				ok = false
				return true
			}
			globalNil := 0 // what the guards of this return know about conf.global (nil on either side, through a local)
			for _, f := range factsOf(guardsAt(info, stack)) {
				if x, isNil, isT := nilTestFact(info, f); isT && isSession(x) {
					if isNil {
						globalNil = 1
					} else {
						globalNil = -1
					}
				}
			}
			arg := call.Args[0]
			switch {
			case sessionOrSelfLocal(info, fd, arg, isSession, isSelf):
				// g := conf.global; if g == nil { g = conf }; newConfiguration(g)
			case isSelf(arg) && globalNil == 1:
			case isSession(arg) && globalNil == -1:
			default:
				ok = false
			}
			return true
		})
		c.Check(ok && nRet >= 1, "R25d", "Copy:parents-to-session", fd.Pos(), "Copy parents the child to the session config (conf.global if the receiver is itself a child, else the receiver): a nested call does not inherit its caller's local overrides")
	}
	if fd, _ := c.MustFunc("R25d", "config", "", "newConfiguration"); fd != nil {
		okParent, copies := false, false
		var param types.Object
		if fd.Type.Params != nil && len(fd.Type.Params.List) == 1 {
			param = info.Defs[fd.Type.Params.List[0].Names[0]]
		}
		// a field initialisation: `conf.f = v` or the element `f: v` of a Config composite literal
		initField := func(field string, v ast.Expr) {
			switch field {
			case "global":
				if id, ok := unparen(v).(*ast.Ident); ok && info.ObjectOf(id) == param {
					okParent = true
				}
			case "values", "properties", "fileRefSet":
				if _, ok := isBuiltinCall(info, v, "make"); !ok {
					copies = true
				}
			}
		}
		ast.Inspect(fd.Body, func(nd ast.Node) bool {
			if as, ok := nd.(*ast.AssignStmt); ok && len(as.Lhs) == 1 && len(as.Rhs) == 1 {
				if fv, owner := fieldOf(info, as.Lhs[0]); fv != nil && owner == configT {
					initField(fv.Name(), as.Rhs[0])
				}
			}
			if lit, ok := nd.(*ast.CompositeLit); ok && namedPath(info.TypeOf(lit)) == configT {
				for _, el := range lit.Elts {
					if kv, ok := el.(*ast.KeyValueExpr); ok {
						if id, ok := kv.Key.(*ast.Ident); ok {
							initField(id.Name, kv.Value)
						}
					} else {
						copies = true // positional literal: not decided
					}
				}
			}
			if _, ok := nd.(*ast.RangeStmt); ok {
				copies = true
			}
			return true
		})
		c.Check(okParent && !copies, "R25d", "newConfiguration:empty-child", fd.Pos(), "a child config starts empty (fresh maps, no loop copying values) with global = its argument")
	}

	c.Rule("R25b", "routing: Config.Set forwards to conf.global ⇔ conf.global != nil ∧ (¬exists ∨ global) (truth table over the two results of global.ExistsAndGlobal); the local store writes values[app][key] and fileRefSet[app][key] under the lock; GetFileRef returns a local override first only when conf.global != nil and falls back to conf.global when the option is not defined locally; ExistsAndGlobal computes global = exists ∧ Properties.Global; Default re-sets through conf.Set (the calling scope), not through the session config")
	if fd, _ := c.MustFunc("R25b", "config", "Config", "Set"); fd != nil {
		c.checkConfigSetRouting(info, fd)
	}
	if fd, _ := c.MustFunc("R25b", "config", "Config", "GetFileRef"); fd != nil {
		// a return whose guards know `conf.global != nil` and `conf.values[…]… != nil` (one condition or nested
		// ifs, nil on either side) and whose enclosing arm reads the value from conf.values
		okFirst, okFallback := false, false
		defs := localDefs(info, fd.Body)
		readsValues := func(n ast.Node) bool {
			found := false
			ast.Inspect(n, func(x ast.Node) bool {
				if ix, ok := x.(*ast.IndexExpr); ok && isField(info, ix.X, configT, "values") && selPath(ix.X) == recvVar(fd)+".values" {
					found = true
				}
				return true
			})
			return found
		}
		walkStack(fd.Body, func(nd ast.Node, stack []ast.Node) bool {
			if _, ok := nd.(*ast.ReturnStmt); !ok {
				return true
			}
			hasGlobal, hasValue := false, false
			for _, f := range factsOf(guardsAt(info, stack)) {
				if x, isNil, ok := nilTestFact(info, f); ok && !isNil {
					if isRecvGlobal(info, fd, defs, x) {
						hasGlobal = true
					}
					if readsValues(x) {
						hasValue = true
					}
				}
			}
			if !hasGlobal || !hasValue {
				return true
			}
			// the innermost enclosing if-arm loads the answer from conf.values
			for i := len(stack) - 1; i >= 0; i-- {
				if blk, ok := stack[i].(*ast.BlockStmt); ok && i > 0 {
					if _, isIf := stack[i-1].(*ast.IfStmt); isIf {
						ast.Inspect(blk, func(x ast.Node) bool {
							if as, isA := x.(*ast.AssignStmt); isA && len(as.Rhs) == 1 && readsValues(as.Rhs[0]) {
								okFirst = true
							}
							return true
						})
						break
					}
				}
			}
			return true
		})
		for _, call := range calls(fd.Body, false) {
			if callIs(info, call, mx("config"), "Config", "GetFileRef") {
				if se, ok := call.Fun.(*ast.SelectorExpr); ok && isRecvGlobal(info, fd, defs, se.X) {
					okFallback = true
				}
			}
		}
		c.Check(okFirst, "R25b", "GetFileRef:local-override-first", fd.Pos(), "a child config answers from its own values first (only when conf.global != nil and a local value exists)")
		c.Check(okFallback, "R25b", "GetFileRef:fallback-to-session", fd.Pos(), "when the option is not defined locally the read falls back to conf.global.GetFileRef")
	}
	if fd, _ := c.MustFunc("R25b", "config", "Config", "ExistsAndGlobal"); fd != nil {
		// the two results as objects: named results, or the identifiers of the (single form of) return statement
		var existsObj, globalObj types.Object
		if fd.Type.Results != nil {
			var ids []*ast.Ident
			for _, f := range fd.Type.Results.List {
				ids = append(ids, f.Names...)
			}
			if len(ids) == 2 {
				existsObj, globalObj = info.Defs[ids[0]], info.Defs[ids[1]]
			}
		}
		if existsObj == nil {
			ast.Inspect(fd.Body, func(nd ast.Node) bool {
				if rs, ok := nd.(*ast.ReturnStmt); ok && len(rs.Results) == 2 {
					a, okA := unparen(rs.Results[0]).(*ast.Ident)
					b, okB := unparen(rs.Results[1]).(*ast.Ident)
					if okA && okB {
						existsObj, globalObj = info.ObjectOf(a), info.ObjectOf(b)
					}
				}
				return true
			})
		}
		isExists := func(e ast.Expr) bool {
			id, ok := unparen(e).(*ast.Ident)
			return ok && existsObj != nil && info.ObjectOf(id) == existsObj
		}
		isGlobalFlag := func(e ast.Expr) bool {
			return isField(info, e, mx("config")+".Properties", "Global")
		}
		// every assignment to the `global` result is `exists && <…>.Global` (either order), or `<…>.Global` under
		// a guard that knows `exists`
		nAs, okG := 0, true
		walkStack(fd.Body, func(nd ast.Node, stack []ast.Node) bool {
			as, ok := nd.(*ast.AssignStmt)
			if !ok || len(as.Lhs) != len(as.Rhs) {
				return true
			}
			for k, l := range as.Lhs {
				id, isId := l.(*ast.Ident)
				if !isId || globalObj == nil || info.ObjectOf(id) != globalObj {
					continue
				}
				nAs++
				cs := conjuncts(as.Rhs[k])
				hasE, hasG := false, false
				for _, e := range cs {
					hasE = hasE || isExists(e)
					hasG = hasG || isGlobalFlag(e)
				}
				guarded := false
				for _, f := range factsOf(guardsAt(info, stack)) {
					if f.True && isExists(f.E) {
						guarded = true
					}
				}
				switch {
				case hasE && hasG && len(cs) == 2:
				case hasG && len(cs) == 1 && guarded:
				default:
					okG = false
				}
			}
			return true
		})
		c.Check(okG && nAs >= 1, "R25b", "ExistsAndGlobal:global", fd.Pos(), "global = exists ∧ properties[app][key].Global")
	}
	if fd, _ := c.MustFunc("R25b", "config", "Config", "Default"); fd != nil {
		rv := recvVar(fd)
		ok := false
		ast.Inspect(fd.Body, func(nd ast.Node) bool {
			if _, isLit := nd.(*ast.FuncLit); isLit {
				return false
			}
			if rs, isR := nd.(*ast.ReturnStmt); isR && len(rs.Results) == 1 {
				if call, isC := unparen(rs.Results[0]).(*ast.CallExpr); isC && callIs(info, call, mx("config"), "Config", "Set") {
					if se := call.Fun.(*ast.SelectorExpr); selPath(se.X) == rv {
						ok = true
					}
				}
			}
			return true
		})
		readsDefault := false
		ast.Inspect(fd.Body, func(nd ast.Node) bool {
			if se, isS := nd.(*ast.SelectorExpr); isS && se.Sel.Name == "Default" {
				if _, isF := info.Selections[se]; isF {
					readsDefault = true
				}
			}
			return true
		})
		c.Check(ok && readsDefault, "R25b", "Default:resets-in-calling-scope", fd.Pos(), "Default reads Properties.Default and re-sets it through the receiver's own Set (so the calling scope's routing applies)")
		// every return is either an error or the Set call: no path ends without storing the declared default
		okAll := true
		var badPos = fd.Pos()
		ast.Inspect(fd.Body, func(nd ast.Node) bool {
			if _, isLit := nd.(*ast.FuncLit); isLit {
				return false
			}
			rs, isR := nd.(*ast.ReturnStmt)
			if !isR || len(rs.Results) != 1 {
				return true
			}
			r := unparen(rs.Results[0])
			if call, isC := r.(*ast.CallExpr); isC {
				if callIs(info, call, mx("config"), "Config", "Set") {
					if se := call.Fun.(*ast.SelectorExpr); selPath(se.X) == rv {
						return true
					}
				}
				if o := callee(info, call); o != nil && o.Pkg() != nil && (o.Pkg().Path() == "fmt" || o.Pkg().Path() == "errors") {
					return true
				}
			}
			okAll = false
			badPos = rs.Pos()
			return true
		})
		c.Check(okAll, "R25b", "Default:every-success-path-sets", badPos, "every return of Default is an error or `conf.Set(app, key, <declared default>, …)`: a path that merely forgets the local override would expose the session value instead of the declared default")
	}
	// builtin: config default → p.Config.Default ; config set → p.Config.Set
	if bp := c.Pkg("builtins/core/config"); bp != nil {
		binfo := bp.TypesInfo
		nSet, nDef, bad := 0, 0, ""
		eachFunc(bp, func(fd *ast.FuncDecl) {
			defs := localDefs(binfo, fd.Body)
			// the calling process's config: <*lang.Process parameter>.Config, possibly through a single-definition local
			isCallerConfig := func(e ast.Expr) bool {
				se, ok := defs.resolve1(binfo, e).(*ast.SelectorExpr)
				if !ok || !isField(binfo, se, mx("lang")+".Process", "Config") {
					return false
				}
				id, ok := unparen(se.X).(*ast.Ident)
				return ok && isParam(binfo, fd, id)
			}
			for _, call := range calls(fd.Body, true) {
				o := callee(binfo, call)
				if o == nil || o.Pkg() == nil || o.Pkg().Path() != mx("config") {
					continue
				}
				se, ok := call.Fun.(*ast.SelectorExpr)
				if !ok {
					continue
				}
				switch o.Name() {
				case "Set":
					nSet++
					if !isCallerConfig(se.X) {
						bad = c.src(call)
					}
				case "Default":
					nDef++
					if !isCallerConfig(se.X) {
						bad = c.src(call)
					}
				}
			}
		})
		c.Check(nSet >= 1 && nDef >= 1 && bad == "", "R25b", "builtin:config-set/default-use-caller-scope", token.NoPos, "the `config` builtin sets and defaults through p.Config, the calling process's scope (%d Set, %d Default) %s", nSet, nDef, bad)
	}
}

func topLevelHas(list []ast.Stmt, base, field string) bool {
	for _, s := range list {
		if as, ok := s.(*ast.AssignStmt); ok && len(as.Lhs) == 1 {
			if se, ok := as.Lhs[0].(*ast.SelectorExpr); ok && se.Sel.Name == field && selPath(se.X) == base {
				return true
			}
		}
	}
	return false
}

func (c *Ctx) checkConfigSetRouting(info *types.Info, fd *ast.FuncDecl) {
	rv := recvVar(fd)
	// find: if conf.global != nil { exists, global := conf.global.ExistsAndGlobal(app,key); if <pred> { return conf.global.Set(...) } }
	var outer *ast.IfStmt
	defs := localDefs(info, fd.Body)
	isSession := func(e ast.Expr) bool { return isRecvGlobal(info, fd, defs, e) }
	for _, s := range fd.Body.List {
		if is, ok := s.(*ast.IfStmt); ok {
			// `conf.global != nil`, nil on either side, possibly on a local defined as conf.global (if-init or before)
			for _, f := range factsOf([]Guard{{Cond: is.Cond}}) {
				if x, isNil, ok := nilTestFact(info, f); ok && !isNil && isSession(x) {
					outer = is
				}
			}
			if outer != nil && len(conjuncts(is.Cond)) == 1 {
				break
			}
			outer = nil
		}
		// anything that locks before the routing voids it
		if es, ok := s.(*ast.ExprStmt); ok {
			if call, ok := es.X.(*ast.CallExpr); ok {
				if _, op := mutexOp(info, call); op != "" {
					break
				}
			}
		}
	}
	if outer == nil {
		c.Viol("R25b", "Set:routing", fd.Pos(), "Config.Set does not start with the `conf.global != nil` routing test: a child would never forward global/undefined options to the session config")
		return
	}
	var existsObj, globalObj types.Object
	var inner *ast.IfStmt
	stmts := append([]ast.Stmt(nil), outer.Body.List...)
	for _, s := range outer.Body.List {
		if is, ok := s.(*ast.IfStmt); ok && is.Init != nil {
			stmts = append(stmts, is.Init) // `if exists, global := conf.global.ExistsAndGlobal(app, key); <pred> {`
		}
	}
	for _, s := range stmts {
		if as, ok := s.(*ast.AssignStmt); ok && len(as.Lhs) == 2 && len(as.Rhs) == 1 {
			if call, ok := as.Rhs[0].(*ast.CallExpr); ok && callIs(info, call, mx("config"), "Config", "ExistsAndGlobal") {
				if se := call.Fun.(*ast.SelectorExpr); isSession(se.X) {
					if a, ok := as.Lhs[0].(*ast.Ident); ok {
						existsObj = info.ObjectOf(a)
					}
					if b, ok := as.Lhs[1].(*ast.Ident); ok {
						globalObj = info.ObjectOf(b)
					}
				}
			}
		}
		if is, ok := s.(*ast.IfStmt); ok {
			inner = is
		}
	}
	if existsObj == nil || globalObj == nil || inner == nil {
		c.Undecided("R25b", "Set:routing", outer.Pos(), "routing block does not have the form `exists, global := conf.global.ExistsAndGlobal(app, key); if <pred> { return conf.global.Set(...) }`")
		return
	}
	atom := func(e ast.Expr) (string, bool, bool) {
		if id, ok := unparen(e).(*ast.Ident); ok {
			switch info.ObjectOf(id) {
			case existsObj:
				return "E", false, true
			case globalObj:
				return "G", false, true
			}
		}
		return "", false, false
	}
	tt, unk := truthTable(inner.Cond, []string{"E", "G"}, atom)
	if len(unk) > 0 {
		c.Undecided("R25b", "Set:routing", inner.Cond.Pos(), "leaf %q of the routing predicate is not one of the two results of ExistsAndGlobal", unk[0])
		return
	}
	bad := ""
	for m, got := range tt {
		E, G := m&1 != 0, m&2 != 0
		if want := !E || G; got != want {
			bad = "exists=" + boolStr(E) + " global=" + boolStr(G) + ": forwards=" + boolStr(got)
		}
	}
	// the arm returns conf.global.Set(app,key,value,fileRef) with the same parameters
	fwd := false
	if len(inner.Body.List) == 1 {
		if rs, ok := inner.Body.List[0].(*ast.ReturnStmt); ok && len(rs.Results) == 1 {
			if call, ok := unparen(rs.Results[0]).(*ast.CallExpr); ok && callIs(info, call, mx("config"), "Config", "Set") {
				if se := call.Fun.(*ast.SelectorExpr); isSession(se.X) {
					fwd = len(call.Args) == 4
					for i, a := range call.Args {
						id, ok := unparen(a).(*ast.Ident)
						if !ok || !isParam(info, fd, id) {
							fwd = false
						} else if i < len(flatParams(fd)) && id.Name != flatParams(fd)[i] {
							fwd = false
						}
					}
				}
			}
		}
	}
	c.Check(bad == "" && fwd, "R25b", "Set:routing", inner.Cond.Pos(), "a child forwards to the session config exactly when the option is undefined there or global (truth table ok=%v %s) and passes its own arguments on (%v)", bad == "", bad, fwd)
	// local store: values[app][key] = value and fileRefSet[app][key] = fileRef in the default arm
	okVal, okRef := false, false
	ast.Inspect(fd.Body, func(nd ast.Node) bool {
		if as, ok := nd.(*ast.AssignStmt); ok && len(as.Lhs) == len(as.Rhs) {
			// single or tuple assignment (`values[a][k], fileRefSet[a][k] = value, fileRef`)
			for i := range as.Lhs {
				l := c.src(as.Lhs[i])
				r, isId := unparen(as.Rhs[i]).(*ast.Ident)
				ps := flatParams(fd)
				if isId && len(ps) == 4 {
					if l == rv+".values["+ps[0]+"]["+ps[1]+"]" && r.Name == ps[2] {
						okVal = true
					}
					if l == rv+".fileRefSet["+ps[0]+"]["+ps[1]+"]" && r.Name == ps[3] {
						okRef = true
					}
				}
			}
		}
		return true
	})
	c.Check(okVal && okRef, "R25b", "Set:local-store", fd.Pos(), "the local arm stores values[app][key] = value (%v) and fileRefSet[app][key] = fileRef (%v) in the receiver", okVal, okRef)
}

func boolStr(b bool) string {
	if b {
		return "T"
	}
	return "F"
}

func flatParams(fd *ast.FuncDecl) []string {
	var out []string
	if fd.Type.Params == nil {
		return nil
	}
	for _, f := range fd.Type.Params.List {
		for _, n := range f.Names {
			out = append(out, n.Name)
		}
	}
	return out
}

// isRecvIdent: e is the receiver variable of fd.
func isRecvIdent(info *types.Info, fd *ast.FuncDecl, e ast.Expr) bool {
	id, ok := unparen(e).(*ast.Ident)
	if !ok || fd.Recv == nil || len(fd.Recv.List) != 1 || len(fd.Recv.List[0].Names) != 1 {
		return false
	}
	return info.ObjectOf(id) != nil && info.ObjectOf(id) == info.Defs[fd.Recv.List[0].Names[0]]
}

// isRecvGlobal: e denotes <receiver>.global of a *config.Config method — written out, or a single-definition
// local that was initialised with it (`session := conf.global`).
func isRecvGlobal(info *types.Info, fd *ast.FuncDecl, defs defMap, e ast.Expr) bool {
	se, ok := defs.resolve1(info, e).(*ast.SelectorExpr)
	return ok && isField(info, se, configT, "global") && isRecvIdent(info, fd, se.X)
}

// sessionOrSelfLocal: e is a local g with exactly the two definitions `g := conf.global` and, guarded by
// `g == nil`, `g = conf` — the session config when the receiver is a child, else the receiver itself (the idiom
// Config.Default uses).
func sessionOrSelfLocal(info *types.Info, fd *ast.FuncDecl, e ast.Expr, isSession, isSelf func(ast.Expr) bool) bool {
	id, ok := unparen(e).(*ast.Ident)
	if !ok {
		return false
	}
	o := info.ObjectOf(id)
	if o == nil || isRecvIdent(info, fd, id) {
		return false
	}
	nDef, okInit, okSelf := 0, false, false
	walkStack(fd.Body, func(nd ast.Node, stack []ast.Node) bool {
		switch x := nd.(type) {
		case *ast.UnaryExpr:
			if a, isA := unparen(x.X).(*ast.Ident); isA && x.Op == token.AND && info.ObjectOf(a) == o {
				nDef += 10 // address taken: not decided
			}
		case *ast.AssignStmt:
			if len(x.Lhs) != len(x.Rhs) {
				for _, l := range x.Lhs {
					if a, isA := l.(*ast.Ident); isA && info.ObjectOf(a) == o {
						nDef += 10
					}
				}
				return true
			}
			for k, l := range x.Lhs {
				a, isA := l.(*ast.Ident)
				if !isA || info.ObjectOf(a) != o {
					continue
				}
				nDef++
				if x.Tok == token.DEFINE && isSession(x.Rhs[k]) && nDef == 1 {
					okInit = true
					continue
				}
				if isSelf(x.Rhs[k]) {
					for _, f := range factsOf(guardsAt(info, stack)) {
						if t, isNil, isT := nilTestFact(info, f); isT && isNil {
							if tid, isId := unparen(t).(*ast.Ident); isId && info.ObjectOf(tid) == o {
								okSelf = true
							}
						}
					}
				}
			}
		}
		return true
	})
	return nDef == 2 && okInit && okSelf
}
