package main

// C30 — the cache never returns stale or foreign values
// (utils/cache/*.go, utils/cache/cachedb/*.go).
//
// R30a  token-level SQL: the statements the db layer executes are extracted
//       from the call sites (constant-evaluated fmt.Sprintf formats), parsed,
//       and compared with the roles the Write call gives to the columns.
// R30b  role flow: which parameter is the namespace (table name / map of
//       namespaces) and which the key (bound placeholder / map of items), in
//       every layer, and that the wrappers forward them unswapped.
// R30c  in-memory layer: inert today; if a store ever reaches the caller the
//       hand-out must be under "ttl is in the future".
// R30d  schema: key column unique and of TEXT/BLOB affinity, value column too.
// R30e  a namespace that was never initialised: the lookup of the namespace
//       map is checked before the *internalCacheT is used.

import (
	"go/ast"
	"go/token"
	"go/types"
	"sort"
	"strings"

	"golang.org/x/tools/go/packages"
)

func init() {
	register("C30", "Decides (structurally, default build with cachedb): the SQL executed by cachedb.Read selects exactly the value column of the row whose key column equals the bound key parameter and whose ttl column is in the future in the unit (seconds) Write stores; Write is an upsert binding (key param, JSON of value param, ttl.Unix()) to the columns in order; Trim deletes only rows Read would not return; Clear deletes all rows; the key column is unique and, like the value column, of TEXT/BLOB affinity (so distinct Go strings are distinct keys and JSON text is stored verbatim); table name <- namespace parameter and placeholder <- key parameter in every statement, and the package-level wrappers forward (namespace, key) unswapped to both layers; the in-memory layer is inert (its store hits the parameter copy) or else hands out only unexpired items; every use of the namespace map entry is preceded by an existence check. Does NOT decide wall-clock behaviour, sqlite itself, the no_cachedb build, or races on the namespace map.", runC30)
}

const (
	c30Cache = "utils/cache"
	c30DB    = "utils/cache/cachedb"
)

// ---------------------------------------------------------------- SQL

type c30tok struct {
	kind string // word | str | op | punct | ph
	val  string // words upper-cased; str = content without quotes
}

func c30Lex(s string) ([]c30tok, string) {
	var out []c30tok
	i := 0
	isWord := func(b byte) bool {
		return b == '_' || b >= '0' && b <= '9' || b >= 'a' && b <= 'z' || b >= 'A' && b <= 'Z'
	}
	for i < len(s) {
		b := s[i]
		switch {
		case b == ' ' || b == '\t' || b == '\n' || b == '\r':
			i++
		case isWord(b):
			j := i
			for j < len(s) && isWord(s[j]) {
				j++
			}
			out = append(out, c30tok{"word", strings.ToUpper(s[i:j])})
			i = j
		case b == '\'' || b == '"' || b == '`':
			j := strings.IndexByte(s[i+1:], b)
			if j < 0 {
				return nil, "unterminated quote"
			}
			out = append(out, c30tok{"str", s[i+1 : i+1+j]})
			i += j + 2
		case b == '?':
			out = append(out, c30tok{"ph", "?"})
			i++
		case strings.IndexByte("<>=!", b) >= 0:
			j := i
			for j < len(s) && strings.IndexByte("<>=!", s[j]) >= 0 {
				j++
			}
			out = append(out, c30tok{"op", s[i:j]})
			i = j
		case strings.IndexByte("(),;*", b) >= 0:
			out = append(out, c30tok{"punct", string(b)})
			i++
		default:
			return nil, "unexpected character " + string(b)
		}
	}
	return out, ""
}

type c30col struct {
	name        string
	typ         []string // declared type words
	constraints []string // remaining words
}

type c30stmt struct {
	verb     string // SELECT INSERT DELETE CREATE
	table    string
	sel      []string   // SELECT list (upper-case names or "*")
	cols     []string   // INSERT column list
	nValues  int        // INSERT: number of placeholders in VALUES
	upsert   bool       // INSERT OR REPLACE / REPLACE
	where    [][]c30tok // conjuncts
	hasOr    bool
	hasWhere bool
	defs     []c30col
	nPH      int
	err      string
}

// c30Parse parses the small SQL subset the cache uses.
func c30Parse(sql string) c30stmt {
	var st c30stmt
	toks, e := c30Lex(sql)
	if e != "" {
		st.err = e
		return st
	}
	for _, t := range toks {
		if t.kind == "ph" {
			st.nPH++
		}
	}
	// strip trailing ;
	for len(toks) > 0 && toks[len(toks)-1].kind == "punct" && toks[len(toks)-1].val == ";" {
		toks = toks[:len(toks)-1]
	}
	p := 0
	peek := func() c30tok {
		if p < len(toks) {
			return toks[p]
		}
		return c30tok{}
	}
	word := func(w string) bool {
		if t := peek(); t.kind == "word" && t.val == w {
			p++
			return true
		}
		return false
	}
	punct := func(w string) bool {
		if t := peek(); t.kind == "punct" && t.val == w {
			p++
			return true
		}
		return false
	}
	tableName := func() bool {
		t := peek()
		if t.kind == "str" || t.kind == "word" {
			st.table = t.val
			p++
			return true
		}
		st.err = "table name expected"
		return false
	}
	parseWhere := func() {
		if !word("WHERE") {
			if p < len(toks) {
				st.err = "unexpected token " + toks[p].val
			}
			return
		}
		st.hasWhere = true
		var cur []c30tok
		depth := 0
		for ; p < len(toks); p++ {
			t := toks[p]
			if t.kind == "punct" && t.val == "(" {
				depth++
			}
			if t.kind == "punct" && t.val == ")" {
				depth--
			}
			if depth == 0 && t.kind == "word" && t.val == "AND" {
				st.where = append(st.where, cur)
				cur = nil
				continue
			}
			if t.kind == "word" && (t.val == "OR" || t.val == "NOT") {
				st.hasOr = true
			}
			cur = append(cur, t)
		}
		st.where = append(st.where, cur)
	}
	switch {
	case word("SELECT"):
		st.verb = "SELECT"
		for p < len(toks) && !(peek().kind == "word" && peek().val == "FROM") {
			t := peek()
			if t.kind == "word" || (t.kind == "punct" && t.val == "*") {
				st.sel = append(st.sel, t.val)
			} else if !(t.kind == "punct" && t.val == ",") {
				st.err = "unsupported select list"
			}
			p++
		}
		if !word("FROM") || !tableName() {
			if st.err == "" {
				st.err = "FROM expected"
			}
			return st
		}
		parseWhere()
	case word("DELETE"):
		st.verb = "DELETE"
		if !word("FROM") || !tableName() {
			if st.err == "" {
				st.err = "FROM expected"
			}
			return st
		}
		parseWhere()
	case word("INSERT"), word("REPLACE"):
		st.verb = "INSERT"
		if toks[0].val == "REPLACE" {
			st.upsert = true
		}
		if word("OR") {
			if word("REPLACE") {
				st.upsert = true
			} else {
				p++ // OR IGNORE / ABORT / ...
			}
		}
		if !word("INTO") || !tableName() || !punct("(") {
			if st.err == "" {
				st.err = "INSERT INTO <table> ( expected"
			}
			return st
		}
		for p < len(toks) && !punct(")") {
			if t := peek(); t.kind == "word" {
				st.cols = append(st.cols, t.val)
			}
			p++
		}
		if !word("VALUES") || !punct("(") {
			st.err = "VALUES ( expected"
			return st
		}
		for p < len(toks) && !punct(")") {
			t := peek()
			switch {
			case t.kind == "ph":
				st.nValues++
			case t.kind == "punct" && t.val == ",":
			default:
				st.err = "non-placeholder in VALUES"
			}
			p++
		}
		if p < len(toks) {
			st.err = "unsupported INSERT suffix (" + toks[p].val + "…)"
		}
	case word("CREATE"):
		st.verb = "CREATE"
		if !word("TABLE") {
			st.err = "CREATE TABLE expected"
			return st
		}
		if word("IF") {
			word("NOT")
			word("EXISTS")
		}
		if !tableName() || !punct("(") {
			if st.err == "" {
				st.err = "( expected"
			}
			return st
		}
		var cur []c30tok
		flush := func() {
			if len(cur) == 0 {
				return
			}
			col := c30col{name: cur[0].val}
			kw := map[string]bool{"PRIMARY": true, "KEY": true, "UNIQUE": true, "NOT": true, "NULL": true, "DEFAULT": true, "CHECK": true, "REFERENCES": true, "COLLATE": true, "CONSTRAINT": true, "GENERATED": true, "AS": true}
			i := 1
			for ; i < len(cur) && cur[i].kind == "word" && !kw[cur[i].val]; i++ {
				col.typ = append(col.typ, cur[i].val)
			}
			for ; i < len(cur); i++ {
				col.constraints = append(col.constraints, cur[i].val)
			}
			st.defs = append(st.defs, col)
			cur = nil
		}
		depth := 0
		for ; p < len(toks); p++ {
			t := toks[p]
			if t.kind == "punct" && t.val == "(" {
				depth++
			}
			if t.kind == "punct" && t.val == ")" {
				if depth == 0 {
					break
				}
				depth--
			}
			if depth == 0 && t.kind == "punct" && t.val == "," {
				flush()
				continue
			}
			cur = append(cur, t)
		}
		flush()
	default:
		st.err = "unsupported statement"
	}
	return st
}

// c30Affinity implements SQLite's column affinity rules (datatype3.html §3.1).
func c30Affinity(typ []string) string {
	t := strings.Join(typ, " ")
	switch {
	case strings.Contains(t, "INT"):
		return "INTEGER"
	case strings.Contains(t, "CHAR"), strings.Contains(t, "CLOB"), strings.Contains(t, "TEXT"):
		return "TEXT"
	case strings.Contains(t, "BLOB"), t == "":
		return "BLOB"
	case strings.Contains(t, "REAL"), strings.Contains(t, "FLOA"), strings.Contains(t, "DOUB"):
		return "REAL"
	}
	return "NUMERIC"
}

// c30Pred classifies one WHERE conjunct relative to the role columns:
// ("key", op) for `keyCol OP ?`; ("ttl", op) for `ttlCol OP unixepoch()` with op
// normalised so that the column is on the left; ("", "") otherwise.
func c30Pred(conj []c30tok, keyCol, ttlCol string) (string, string) {
	flip := map[string]string{"<": ">", ">": "<", "<=": ">=", ">=": "<=", "=": "=", "==": "=", "!=": "!=", "<>": "!="}
	norm := func(op string) string {
		if op == "==" {
			return "="
		}
		if op == "<>" {
			return "!="
		}
		return op
	}
	isNow := func(ts []c30tok) bool {
		return len(ts) == 3 && ts[0].kind == "word" && ts[0].val == "UNIXEPOCH" && ts[1].val == "(" && ts[2].val == ")"
	}
	// split at the operator
	opi := -1
	for i, t := range conj {
		if t.kind == "op" {
			if opi >= 0 {
				return "", ""
			}
			opi = i
		}
	}
	if opi <= 0 || opi == len(conj)-1 {
		return "", ""
	}
	l, op, r := conj[:opi], conj[opi].val, conj[opi+1:]
	if _, ok := flip[op]; !ok {
		return "", ""
	}
	isCol := func(ts []c30tok, col string) bool { return len(ts) == 1 && ts[0].kind == "word" && ts[0].val == col }
	isPH := func(ts []c30tok) bool { return len(ts) == 1 && ts[0].kind == "ph" }
	switch {
	case isCol(l, keyCol) && isPH(r):
		return "key", norm(op)
	case isPH(l) && isCol(r, keyCol):
		return "key", flip[op]
	case isCol(l, ttlCol) && isNow(r):
		return "ttl", norm(op)
	case isNow(l) && isCol(r, ttlCol):
		return "ttl", flip[op]
	}
	return "", ""
}

// c30Holds: does `ttl OP now` hold when ttl-now == d ?
func c30Holds(op string, d int) bool {
	switch op {
	case "<":
		return d < 0
	case "<=":
		return d <= 0
	case ">":
		return d > 0
	case ">=":
		return d >= 0
	case "=":
		return d == 0
	case "!=":
		return d != 0
	}
	return false
}

func c30Conj(ts []c30tok) string {
	var s []string
	for _, t := range ts {
		s = append(s, t.val)
	}
	return strings.Join(s, " ")
}

// ---------------------------------------------------------------- db calls

type c30call struct {
	fd     *ast.FuncDecl
	call   *ast.CallExpr
	method string // Query Exec QueryContext ExecContext
	query  ast.Expr
	binds  []ast.Expr
	sql    string
	fmtArg []ast.Expr // Sprintf operands
	stmt   c30stmt
}

// c30DBCalls finds the database/sql calls of a function.
func (c *Ctx) c30DBCalls(info *types.Info, fd *ast.FuncDecl) []c30call {
	var out []c30call
	defs := c29Defs(info, fd.Body)
	for _, call := range calls(fd.Body, true) {
		o := callee(info, call)
		if o == nil || o.Pkg() == nil || o.Pkg().Path() != "database/sql" {
			continue
		}
		var q int
		switch o.Name() {
		case "Query", "Exec", "QueryRow", "Prepare":
			q = 0
		case "QueryContext", "ExecContext", "QueryRowContext", "PrepareContext":
			q = 1
		default:
			continue
		}
		if len(call.Args) <= q {
			continue
		}
		dc := c30call{fd: fd, call: call, method: o.Name(), query: call.Args[q], binds: call.Args[q+1:]}
		// db.Exec(query, bind...) with `bind := []any{a, b, c}` defined once: the bound values are the literal's elements
		if call.Ellipsis.IsValid() && len(dc.binds) == 1 {
			if cl, ok := localDefs(info, fd.Body).resolve1(info, dc.binds[0]).(*ast.CompositeLit); ok {
				keyed := false
				for _, el := range cl.Elts {
					if _, isKV := el.(*ast.KeyValueExpr); isKV {
						keyed = true
					}
				}
				if _, isSlice := info.TypeOf(cl).Underlying().(*types.Slice); isSlice && !keyed {
					dc.binds = cl.Elts
				}
			}
		}
		qe := unparen(dc.query)
		// query := fmt.Sprintf(…); db.Query(query, …)
		for i := 0; i < 3; i++ {
			d, ok := defs.single(info, qe)
			if !ok || d.idx >= 0 {
				break
			}
			qe = unparen(d.rhs)
		}
		if s, ok := constString(info, qe); ok {
			dc.sql = s
		} else if sp, ok := qe.(*ast.CallExpr); ok && callIs(info, sp, "fmt", "", "Sprintf") && len(sp.Args) >= 1 {
			if s, ok := constString(info, sp.Args[0]); ok {
				dc.sql = s
				dc.fmtArg = sp.Args[1:]
			}
		} else if be, ok := qe.(*ast.BinaryExpr); ok && be.Op == token.ADD {
			// "… '" + namespace + "' …" is fmt.Sprintf("… '%s' …", namespace)
			dc.sql, dc.fmtArg = c30Concat(info, be)
		}
		if dc.sql != "" {
			dc.stmt = c30Parse(dc.sql)
		}
		out = append(out, dc)
	}
	sort.Slice(out, func(i, j int) bool { return out[i].call.Pos() < out[j].call.Pos() })
	return out
}

// c30ParamIndex: index of the parameter the identifier denotes (-1 if none).
func c30ParamIndex(info *types.Info, fd *ast.FuncDecl, e ast.Expr) int {
	id, ok := unparen(e).(*ast.Ident)
	if !ok || fd.Type.Params == nil {
		return -1
	}
	o := info.ObjectOf(id)
	i := 0
	for _, f := range fd.Type.Params.List {
		if len(f.Names) == 0 {
			i++
			continue
		}
		for _, n := range f.Names {
			if info.Defs[n] == o && o != nil {
				return i
			}
			i++
		}
	}
	return -1
}

func c30ParamName(fd *ast.FuncDecl, idx int) string {
	i := 0
	for _, f := range fd.Type.Params.List {
		for _, n := range f.Names {
			if i == idx {
				return n.Name
			}
			i++
		}
	}
	return "#" + itoa(idx)
}

// c30Reassigned: parameter idx of fd is assigned somewhere in the body.
func c30Reassigned(info *types.Info, fd *ast.FuncDecl, idx int) bool {
	re := false
	ast.Inspect(fd.Body, func(n ast.Node) bool {
		switch s := n.(type) {
		case *ast.AssignStmt:
			for _, l := range s.Lhs {
				if c30ParamIndex(info, fd, l) == idx {
					re = true
				}
			}
		case *ast.IncDecStmt:
			if c30ParamIndex(info, fd, s.X) == idx {
				re = true
			}
		}
		return true
	})
	return re
}

// roles of a function's parameters
type c30roles struct {
	ns, key int // parameter indexes (-1 unknown)
}

func runC30(c *Ctx) {
	c.Load(c30Cache, c30DB)
	dbpk, cpk := c.Pkg(c30DB), c.Pkg(c30Cache)
	if dbpk == nil || cpk == nil {
		c.Lost("R30a", "pkg", "utils/cache or utils/cache/cachedb not loaded")
		return
	}
	c.Rule("R30a", "SQL (token level, extracted from the database/sql call sites): Write executes an upsert whose column list is bound, in order, to (key parameter, JSON text of the value parameter, ttl.Unix()); Read selects exactly the value column WHERE <key column> = ? AND <ttl column> >|>= unixepoch() and binds the key parameter; Trim's SELECT and DELETE use the same predicate, which never holds for a row Read would return; Clear's DELETE has no WHERE")
	c.Rule("R30b", "role flow: in every statement the table name is fmt.Sprintf(<const>, <namespace parameter>) with that single operand, the bound key is a different parameter, neither is reassigned; the cache-package wrappers pass one and the same parameter as namespace (and as key) to the in-memory layer and to cachedb, and the exported Read/Write take (namespace, key) at positions (0, 1); the in-memory layer indexes the namespace map by the namespace and the item map by the key")
	c.Rule("R30c", "in-memory layer: internalCacheT.Read either cannot reach the caller (its store targets the address of its own parameter: inert, INFO) or every hand-out is control-dependent on the item's ttl being after now, and then Write must not leave an older item in place when it declines to store a newer one")
	c.Rule("R30d", "schema: the key column is PRIMARY KEY/UNIQUE (else the upsert inserts duplicates and Read returns the oldest row) and both the key and the value column have TEXT or BLOB affinity (else SQLite's NUMERIC affinity makes the keys \"1\", \"01\", \"1.0\" one key and rewrites numeric JSON text)")
	c.Rule("R30e", "namespace lookup: an entry of the package-level namespace map is used as a method receiver only after a comma-ok/nil check with initialisation of the missing namespace, unless the key comes from ranging over that same map or the method is nil-safe")

	dbinfo := dbpk.TypesInfo
	fn := func(name string) *ast.FuncDecl {
		fd, _ := c.MustFunc("R30a", c30DB, "", name)
		return fd
	}
	fdWrite, fdRead, fdTrim, fdClear, fdCreate, fdList := fn("Write"), fn("Read"), fn("Trim"), fn("Clear"), fn("CreateTable"), fn("List")

	// ------------------------------------------------------------ Write gives the column roles
	keyCol, valCol, ttlCol := "", "", ""
	dbRoles := map[string]c30roles{}
	nStmts := 0
	if fdWrite != nil {
		dcs := c.c30DBCalls(dbinfo, fdWrite)
		if len(dcs) != 1 {
			c.Undecided("R30a", "Write:statement", fdWrite.Pos(), "cachedb.Write issues %d database/sql statements, expected one upsert", len(dcs))
		} else {
			dc := dcs[0]
			nStmts++
			st := dc.stmt
			switch {
			case dc.sql == "":
				c.Undecided("R30a", "Write:statement", dc.call.Pos(), "the SQL text of %s is not a constant (optionally through fmt.Sprintf)", c.src(dc.query))
			case st.err != "" || st.verb != "INSERT":
				c.Undecided("R30a", "Write:statement", dc.call.Pos(), "cannot parse %q as INSERT: %s", dc.sql, st.err)
			default:
				if st.upsert {
					c.OK("R30a", "Write:upsert", dc.call.Pos(), "INSERT OR REPLACE")
				} else {
					c.Viol("R30a", "Write:upsert", dc.call.Pos(), "cachedb.Write executes %q, which is not an upsert: writing a key a second time fails on the unique key (or adds a second row) and Read keeps returning the older value", dc.sql)
				}
				if len(st.cols) != st.nValues || st.nValues != len(dc.binds) {
					c.Viol("R30a", "Write:arity", dc.call.Pos(), "%d columns, %d placeholders, %d bound arguments in cachedb.Write: the statement fails at run time and nothing is cached", len(st.cols), st.nValues, len(dc.binds))
				} else {
					c.OK("R30a", "Write:arity", dc.call.Pos(), "%d columns = placeholders = bound arguments", len(st.cols))
					defs := c29Defs(dbinfo, fdWrite.Body)
					roles := c30roles{-1, -1}
					for i, b := range dc.binds {
						col := st.cols[i]
						switch kind, detail := c.c30BindKind(dbinfo, defs, fdWrite, b); kind {
						case "key":
							keyCol = col
							roles.key = c30ParamIndex(dbinfo, fdWrite, b)
						case "value":
							valCol = col
						case "ttl":
							ttlCol = col
						case "ttl-unit":
							ttlCol = col
							c.Viol("R30a", "Write:ttl-unit", b.Pos(), "cachedb.Write stores the ttl as %s but every statement compares the column with unixepoch() (seconds): %s", c.src(b), detail)
						default:
							c.Undecided("R30a", "Write:bind#"+itoa(i+1), b.Pos(), "argument %s bound to column %s is none of (string parameter, JSON of a parameter, <time parameter>.Unix())", c.src(b), col)
						}
					}
					if keyCol != "" && valCol != "" && ttlCol != "" && keyCol != valCol && valCol != ttlCol && keyCol != ttlCol {
						c.OK("R30a", "Write:binding", dc.call.Pos(), "columns (%s, %s, %s) <- (key parameter, JSON of value parameter, ttl.Unix())", keyCol, valCol, ttlCol)
					} else {
						c.Viol("R30a", "Write:binding", dc.call.Pos(), "cachedb.Write does not bind exactly one key, one JSON value and one ttl (key column %q, value column %q, ttl column %q): the stored row cannot be found or decoded by Read", keyCol, valCol, ttlCol)
					}
					roles.ns = c.c30TableFlow(dbinfo, dc, "Write")
					dbRoles["Write"] = roles
				}
			}
		}
	}
	haveRoles := keyCol != "" && valCol != "" && ttlCol != ""

	// ------------------------------------------------------------ Read
	readOp := ""
	if fdRead != nil {
		dcs := c.c30DBCalls(dbinfo, fdRead)
		if len(dcs) != 1 {
			c.Undecided("R30a", "Read:statement", fdRead.Pos(), "cachedb.Read issues %d database/sql statements, expected one SELECT", len(dcs))
		} else if dc := dcs[0]; dc.sql == "" || dc.stmt.err != "" || dc.stmt.verb != "SELECT" {
			c.Undecided("R30a", "Read:statement", dc.call.Pos(), "cannot parse the statement of cachedb.Read (%q) as SELECT: %s", dc.sql, dc.stmt.err)
		} else if haveRoles {
			nStmts++
			st := dc.stmt
			if len(st.sel) == 1 && st.sel[0] == valCol {
				c.OK("R30a", "Read:select-list", dc.call.Pos(), "selects the value column only")
			} else {
				c.Viol("R30a", "Read:select-list", dc.call.Pos(), "cachedb.Read selects %v, not exactly the value column %s: Scan fails or decodes a different column as the cached value", st.sel, valCol)
			}
			nKey, nTTL := 0, 0
			var other []string
			for _, cj := range st.where {
				switch role, op := c30Pred(cj, keyCol, ttlCol); role {
				case "key":
					nKey++
					if op == "=" {
						c.OK("R30a", "Read:key-predicate", dc.call.Pos(), "%s", c30Conj(cj))
					} else {
						c.Viol("R30a", "Read:key-predicate", dc.call.Pos(), "cachedb.Read matches rows with `%s`: a value written under another key is returned", c30Conj(cj))
					}
				case "ttl":
					nTTL++
					readOp = op
					// must hold for every future ttl and for no past ttl
					good := c30Holds(op, 1) && c30Holds(op, 2) && !c30Holds(op, -1) && !c30Holds(op, -2)
					if good {
						c.OK("R30a", "Read:ttl-predicate", dc.call.Pos(), "%s", c30Conj(cj))
					} else {
						c.Viol("R30a", "Read:ttl-predicate", dc.call.Pos(), "cachedb.Read keeps rows with `%s`: expired values are returned and/or unexpired ones are hidden", c30Conj(cj))
					}
				default:
					other = append(other, c30Conj(cj))
				}
			}
			if st.hasOr {
				c.Undecided("R30a", "Read:where-shape", dc.call.Pos(), "WHERE clause of cachedb.Read contains OR/NOT; conjunct analysis does not apply")
			}
			if nKey != 1 {
				c.Viol("R30a", "Read:key-predicate", dc.call.Pos(), "cachedb.Read has %d conjuncts `%s = ?`: without it any row of the namespace is returned (a value written under another key)", nKey, strings.ToLower(keyCol))
			}
			if nTTL != 1 {
				c.Viol("R30a", "Read:ttl-predicate", dc.call.Pos(), "cachedb.Read has %d conjuncts comparing %s with unixepoch(): expired values are returned", nTTL, strings.ToLower(ttlCol))
			}
			if len(other) > 0 {
				c.Undecided("R30a", "Read:extra-predicate", dc.call.Pos(), "unrecognised WHERE conjunct(s) %v in cachedb.Read", other)
			}
			roles := c30roles{ns: c.c30TableFlow(dbinfo, dc, "Read"), key: -1}
			if len(dc.binds) == 1 && st.nPH == 1 {
				roles.key = c30ParamIndex(dbinfo, fdRead, dc.binds[0])
			}
			if roles.key >= 0 && roles.key != roles.ns && !c30Reassigned(dbinfo, fdRead, roles.key) {
				c.OK("R30b", "cachedb.Read:key-bind", dc.call.Pos(), "placeholder <- parameter %s", c30ParamName(fdRead, roles.key))
			} else {
				c.Viol("R30b", "cachedb.Read:key-bind", dc.call.Pos(), "the placeholder of cachedb.Read is bound to %v, not to a (never reassigned) parameter distinct from the namespace: values of another key are returned", srcs(c, dc.binds))
			}
			dbRoles["Read"] = roles
			c.c30ReadResult(dbinfo, fdRead, dc)
		}
	}

	// ------------------------------------------------------------ Trim / Clear / Create / List
	if fdTrim != nil && haveRoles {
		dcs := c.c30DBCalls(dbinfo, fdTrim)
		var preds []string
		nDel := 0
		for _, dc := range dcs {
			if dc.method == "BeginTx" {
				continue
			}
			st := dc.stmt
			if dc.sql == "" || st.err != "" {
				c.Undecided("R30a", "Trim:statement", dc.call.Pos(), "cannot parse statement %q of cachedb.Trim: %s", dc.sql, st.err)
				continue
			}
			nStmts++
			c.c30TableFlow(dbinfo, dc, "Trim:"+st.verb)
			key := "Trim:" + st.verb + ":predicate"
			if !st.hasWhere || len(st.where) != 1 || st.hasOr {
				if st.verb == "DELETE" {
					c.Viol("R30a", key, dc.call.Pos(), "cachedb.Trim executes %q: rows whose TTL has not expired are deleted, so a later Read returns nothing for a live key", dc.sql)
				} else {
					c.Undecided("R30a", key, dc.call.Pos(), "WHERE of %q is not a single conjunct", dc.sql)
				}
				continue
			}
			role, op := c30Pred(st.where[0], keyCol, ttlCol)
			if role != "ttl" {
				c.Undecided("R30a", key, dc.call.Pos(), "WHERE of %q is not a comparison of %s with unixepoch()", dc.sql, strings.ToLower(ttlCol))
				continue
			}
			preds = append(preds, op)
			if st.verb == "DELETE" {
				nDel++
				overlap := false
				for d := -3; d <= 3; d++ {
					if c30Holds(op, d) && (d > 0 || (readOp != "" && c30Holds(readOp, d))) {
						overlap = true
					}
				}
				if overlap {
					c.Viol("R30a", key, dc.call.Pos(), "cachedb.Trim deletes rows with `%s`, which includes rows whose TTL has not expired (Read keeps `%s %s unixepoch()`): trimming loses live values", c30Conj(st.where[0]), strings.ToLower(ttlCol), readOp)
				} else {
					c.OK("R30a", key, dc.call.Pos(), "deletes only rows with %s", c30Conj(st.where[0]))
				}
			} else {
				c.OK("R30a", key, dc.call.Pos(), "lists rows with %s", c30Conj(st.where[0]))
			}
		}
		if nDel != 1 {
			c.Undecided("R30a", "Trim:delete", fdTrim.Pos(), "cachedb.Trim issues %d recognised DELETE statements, expected 1", nDel)
		}
		if len(preds) == 2 {
			c.Check(preds[0] == preds[1], "R30a", "Trim:same-predicate", fdTrim.Pos(), "the SELECT that reports the trimmed keys and the DELETE use the same predicate (%v)", preds)
		}
	}
	if fdClear != nil {
		for _, dc := range c.c30DBCalls(dbinfo, fdClear) {
			st := dc.stmt
			if dc.sql == "" || st.err != "" {
				c.Undecided("R30a", "Clear:statement", dc.call.Pos(), "cannot parse statement %q of cachedb.Clear: %s", dc.sql, st.err)
				continue
			}
			nStmts++
			c.c30TableFlow(dbinfo, dc, "Clear:"+st.verb)
			if st.verb == "DELETE" {
				if st.hasWhere {
					c.Viol("R30a", "Clear:delete-all", dc.call.Pos(), "cachedb.Clear executes %q: rows survive a clear and are returned afterwards", dc.sql)
				} else {
					c.OK("R30a", "Clear:delete-all", dc.call.Pos(), "DELETE without WHERE")
				}
			}
		}
	}
	if fdList != nil {
		for _, dc := range c.c30DBCalls(dbinfo, fdList) {
			if dc.sql != "" && dc.stmt.err == "" {
				nStmts++
				c.c30TableFlow(dbinfo, dc, "List")
			}
		}
	}
	if fdCreate != nil {
		dcs := c.c30DBCalls(dbinfo, fdCreate)
		if len(dcs) != 1 || dcs[0].sql == "" || dcs[0].stmt.err != "" || dcs[0].stmt.verb != "CREATE" {
			c.Undecided("R30d", "schema", fdCreate.Pos(), "cannot extract the CREATE TABLE statement of cachedb.CreateTable")
		} else if haveRoles {
			dc := dcs[0]
			nStmts++
			c.c30TableFlow(dbinfo, dc, "CreateTable")
			cols := map[string]c30col{}
			for _, d := range dc.stmt.defs {
				cols[d.name] = d
			}
			for _, need := range []string{keyCol, valCol, ttlCol} {
				if _, ok := cols[need]; !ok {
					c.Viol("R30d", "schema:column:"+strings.ToLower(need), dc.call.Pos(), "column %s used by cachedb.Write is not created by %q: every statement fails and nothing is cached", need, dc.sql)
				}
			}
			if k, ok := cols[keyCol]; ok {
				cs := " " + strings.Join(k.constraints, " ") + " "
				if strings.Contains(cs, " PRIMARY KEY ") || strings.Contains(cs, " UNIQUE ") {
					c.OK("R30d", "schema:key-unique", dc.call.Pos(), "key column %s is %s", strings.ToLower(keyCol), strings.TrimSpace(cs))
				} else {
					c.Viol("R30d", "schema:key-unique", dc.call.Pos(), "key column %s is neither PRIMARY KEY nor UNIQUE: INSERT OR REPLACE adds a second row for the same key and Read (first row) keeps returning the older value", strings.ToLower(keyCol))
				}
				if a := c30Affinity(k.typ); a == "TEXT" || a == "BLOB" {
					c.OK("R30d", "schema:key-affinity", dc.call.Pos(), "key column declared %v: %s affinity", k.typ, a)
				} else {
					c.Viol("R30d", "schema:key-affinity", dc.call.Pos(), "key column is declared %q, which has %s affinity in SQLite: Go string keys that look numeric are converted on insert and on comparison, so \"1\", \"01\", \"1.0\" and \"1e0\" are ONE key — a Read of a key that was never written returns another key's value, and writing one overwrites the other", strings.Join(k.typ, " "), a)
				}
			}
			if v, ok := cols[valCol]; ok {
				if a := c30Affinity(v.typ); a == "TEXT" || a == "BLOB" {
					c.OK("R30d", "schema:value-affinity", dc.call.Pos(), "value column declared %v: %s affinity", v.typ, a)
				} else {
					c.Viol("R30d", "schema:value-affinity", dc.call.Pos(), "value column is declared %q (%s affinity): JSON text that is a number is stored as INTEGER/REAL and comes back re-formatted (a uint64 above MaxInt64 comes back as 1.2345678901234567e+19 and no longer decodes, so an unexpired value reads as nothing)", strings.Join(v.typ, " "), a)
				}
			}
		}
	}
	c.MinCount("R30a", "SQL statements extracted from cachedb call sites", nStmts, 8)

	// ------------------------------------------------------------ R30b wrappers, R30c, R30e
	c.c30TTLHelpers(cpk)
	live := c.c30InMemory(cpk)
	c.c30Wrappers(cpk, dbpk, dbRoles, live)
	c.c30NamespaceLookup(cpk)
}

func srcs(c *Ctx, es []ast.Expr) []string {
	var out []string
	for _, e := range es {
		out = append(out, c.src(e))
	}
	return out
}

// c30BindKind classifies an argument bound in cachedb.Write.
func (c *Ctx) c30BindKind(info *types.Info, defs c29defs, fd *ast.FuncDecl, e ast.Expr) (string, string) {
	e = unparen(e)
	// jsonText := string(b) / expires := ttl.Unix(): follow plain single definitions
	for i := 0; i < 3; i++ {
		d, ok := defs.single(info, e)
		if !ok || d.idx >= 0 {
			break
		}
		e = unparen(d.rhs)
	}
	if idx := c30ParamIndex(info, fd, e); idx >= 0 {
		if bt, ok := info.TypeOf(e).Underlying().(*types.Basic); ok && bt.Info()&types.IsString != 0 && !c30Reassigned(info, fd, idx) {
			return "key", ""
		}
		return "", ""
	}
	// string(b) / b with b, err := json.Marshal(<param>)
	inner := stripConv(info, e)
	if d, ok := defs.single(info, inner); ok && d.idx == 0 {
		if call, ok := unparen(d.rhs).(*ast.CallExpr); ok && callIs(info, call, "encoding/json", "", "Marshal") && len(call.Args) == 1 {
			if c30ParamIndex(info, fd, call.Args[0]) >= 0 {
				return "value", ""
			}
		}
	}
	// <time param>.Unix()
	if call, ok := e.(*ast.CallExpr); ok {
		if o := callee(info, call); o != nil && o.Pkg() != nil && o.Pkg().Path() == "time" {
			if se, ok := call.Fun.(*ast.SelectorExpr); ok && c30ParamIndex(info, fd, se.X) >= 0 && namedPath(info.TypeOf(se.X)) == "time.Time" {
				if o.Name() == "Unix" {
					return "ttl", ""
				}
				return "ttl-unit", "(time.Time)." + o.Name() + " is not in seconds, so `ttl > unixepoch()` stays true for ~" + map[string]string{"UnixMilli": "1000x", "UnixMicro": "10^6 x", "UnixNano": "10^9 x"}[o.Name()] + " the intended lifetime and expired values are returned"
			}
		}
	}
	return "", ""
}

// c30TableFlow checks that the statement's table is '%s' filled by exactly one
// Sprintf operand which is a never-reassigned parameter; returns its index.
func (c *Ctx) c30TableFlow(info *types.Info, dc c30call, what string) int {
	key := "cachedb." + what + ":table"
	nVerb := strings.Count(dc.sql, "%") - 2*strings.Count(dc.sql, "%%")
	if (dc.stmt.table != "%s" && dc.stmt.table != "%v") || nVerb != 1 || len(dc.fmtArg) != 1 {
		c.Viol("R30b", key, dc.call.Pos(), "statement %q of cachedb.%s does not take its table name from exactly one %%s operand (table %q, %d operands): values of all namespaces share a table or the statement fails", dc.sql, dc.fd.Name.Name, dc.stmt.table, len(dc.fmtArg))
		return -1
	}
	idx := c30ParamIndex(info, dc.fd, dc.fmtArg[0])
	if idx < 0 || c30Reassigned(info, dc.fd, idx) {
		c.Viol("R30b", key, dc.call.Pos(), "the table name of %q in cachedb.%s is %s, not a (never reassigned) parameter: the statement addresses another namespace's table", dc.sql, dc.fd.Name.Name, c.src(dc.fmtArg[0]))
		return -1
	}
	for _, b := range dc.binds {
		if c30ParamIndex(info, dc.fd, b) == idx {
			c.Viol("R30b", key, dc.call.Pos(), "cachedb.%s uses parameter %s both as table name and as bound value", dc.fd.Name.Name, c30ParamName(dc.fd, idx))
			return idx
		}
	}
	c.OK("R30b", key, dc.call.Pos(), "table name <- parameter %s", c30ParamName(dc.fd, idx))
	return idx
}

// c30ReadResult: the scanned column is what is decoded into the caller's
// pointer, and `true` is returned only after a successful decode.
func (c *Ctx) c30ReadResult(info *types.Info, fd *ast.FuncDecl, dc c30call) {
	var scanObj types.Object
	for _, call := range calls(fd.Body, false) {
		if o := callee(info, call); o != nil && objIs(o, "database/sql", "Rows", "Scan") && len(call.Args) == 1 {
			if u, ok := unparen(call.Args[0]).(*ast.UnaryExpr); ok && u.Op == token.AND {
				if id, ok := unparen(u.X).(*ast.Ident); ok {
					scanObj = info.ObjectOf(id)
				}
			}
		}
	}
	var um *ast.CallExpr
	for _, call := range calls(fd.Body, false) {
		if callIs(info, call, "encoding/json", "", "Unmarshal") && len(call.Args) == 2 {
			um = call
		}
	}
	ok := scanObj != nil && um != nil && mentions(info, um.Args[0], scanObj) && c30ParamIndex(info, fd, um.Args[1]) >= 0
	if !ok {
		c.Viol("R30a", "Read:decode", fd.Pos(), "cachedb.Read does not decode the scanned value column into the caller's pointer parameter (Scan target -> json.Unmarshal -> parameter): the caller gets no or a different value")
		return
	}
	// the variable holding Unmarshal's error (for `return err == nil`)
	var umErr types.Object
	ast.Inspect(fd.Body, func(nd ast.Node) bool {
		if as, ok := nd.(*ast.AssignStmt); ok && len(as.Lhs) == 1 && len(as.Rhs) == 1 && unparen(as.Rhs[0]) == ast.Expr(um) {
			if id, ok := as.Lhs[0].(*ast.Ident); ok && id.Name != "_" {
				umErr = info.ObjectOf(id)
			}
		}
		return true
	})
	isNilIdent := func(x ast.Expr) bool {
		id, ok := unparen(x).(*ast.Ident)
		if !ok {
			return false
		}
		_, isNil := info.ObjectOf(id).(*types.Nil)
		return isNil
	}
	// every `return true` comes after the Unmarshal and is not in its error arm
	good, n := true, 0
	walkStack(fd.Body, func(nd ast.Node, stack []ast.Node) bool {
		rs, isRet := nd.(*ast.ReturnStmt)
		if !isRet || len(rs.Results) != 1 {
			return true
		}
		// `return err == nil` with err the (not reassigned) error of the Unmarshal: a hit iff decoded
		if b, isB := unparen(rs.Results[0]).(*ast.BinaryExpr); isB && b.Op == token.EQL && umErr != nil && rs.Pos() > um.End() {
			var other ast.Expr
			switch {
			case isNilIdent(b.Y):
				other = b.X
			case isNilIdent(b.X):
				other = b.Y
			}
			if id, ok := unparen0(other).(*ast.Ident); ok && info.ObjectOf(id) == umErr {
				clobbered := false
				ast.Inspect(fd.Body, func(m ast.Node) bool {
					if as, ok := m.(*ast.AssignStmt); ok && as.Pos() > um.End() && as.End() < rs.Pos() {
						for _, l := range as.Lhs {
							if lid, ok := l.(*ast.Ident); ok && info.ObjectOf(lid) == umErr {
								clobbered = true
							}
						}
					}
					return true
				})
				if !clobbered {
					n++
					return true
				}
			}
		}
		if v, isC := constBool(info, rs.Results[0]); !isC || !v {
			if !isC {
				good = false
			}
			return true
		}
		n++
		if rs.Pos() < um.End() {
			good = false
		}
		return true
	})
	c.Check(good && n >= 1, "R30a", "Read:decode", um.Pos(), "cachedb.Read reports a hit only after json.Unmarshal of the scanned value into the caller's pointer (%d `return true`)", n)
}

// ---------------------------------------------------------------- wrappers

// c30MapRole: index of the parameter that indexes the given map-typed object
// (package var or struct field) in fd, -1 if none / ambiguous.
func c30IndexParam(info *types.Info, fd *ast.FuncDecl, isMap func(e ast.Expr) bool) int {
	idx := -1
	ast.Inspect(fd.Body, func(n ast.Node) bool {
		ix, ok := n.(*ast.IndexExpr)
		if !ok || !isMap(ix.X) {
			return true
		}
		if p := c30ParamIndex(info, fd, ix.Index); p >= 0 {
			if idx >= 0 && idx != p {
				idx = -2
			} else if idx != -2 {
				idx = p
			}
		} else {
			idx = -2
		}
		return true
	})
	if idx == -2 {
		return -1
	}
	return idx
}

func (c *Ctx) c30Wrappers(cpk, dbpk *packages.Package, dbRoles map[string]c30roles, live bool) {
	info := cpk.TypesInfo
	// a mix-up inside the in-memory layer is observable only if that layer can
	// return values at all
	memViol := func(key string, pos token.Pos, f string, a ...any) {
		if live {
			c.Viol("R30b", key, pos, f, a...)
		} else {
			c.OK("R30b", key, pos, "(not observable: the in-memory layer is inert, see R30c) "+f, a...)
		}
	}
	icT := mx(c30Cache) + ".internalCacheT"
	isNsMap := func(e ast.Expr) bool { return isPkgObj(info, e, mx(c30Cache), "cache") }
	isItemMap := func(e ast.Expr) bool { return isField(info, e, icT, "cache") }

	// item-map roles of the in-memory methods
	memKey := map[string]int{}
	for _, m := range []string{"Read", "Write"} {
		fd, _ := c.MustFunc("R30b", c30Cache, "internalCacheT", m)
		if fd == nil {
			continue
		}
		k := c30IndexParam(info, fd, isItemMap)
		memKey[m] = k
		if k >= 0 && !c30Reassigned(info, fd, k) {
			c.OK("R30b", "internalCacheT."+m+":item-key", fd.Pos(), "item map indexed by parameter %s", c30ParamName(fd, k))
		} else {
			memViol("internalCacheT."+m+":item-key", fd.Pos(), "internalCacheT.%s does not index its item map by one (never reassigned) parameter: items are stored or found under another key", m)
		}
	}
	// read / write: namespace map by ns param, method key position gets key param
	innerRoles := map[string]c30roles{}
	for _, w := range []struct{ fn, method string }{{"read", "Read"}, {"write", "Write"}} {
		fd, _ := c.MustFunc("R30b", c30Cache, "", w.fn)
		if fd == nil {
			continue
		}
		r := c30roles{ns: c30IndexParam(info, fd, isNsMap), key: -1}
		for _, call := range calls(fd.Body, false) {
			if o := callee(info, call); o != nil && objIs(o, mx(c30Cache), "internalCacheT", w.method) {
				if k, ok := memKey[w.method]; ok && k >= 0 && k < len(call.Args) {
					r.key = c30ParamIndex(info, fd, call.Args[k])
				}
			}
		}
		innerRoles[w.fn] = r
		if r.ns >= 0 && r.key >= 0 && r.ns != r.key && !c30Reassigned(info, fd, r.ns) && !c30Reassigned(info, fd, r.key) {
			c.OK("R30b", "cache."+w.fn+":roles", fd.Pos(), "namespace map <- %s, item key <- %s", c30ParamName(fd, r.ns), c30ParamName(fd, r.key))
		} else {
			memViol("cache."+w.fn+":roles", fd.Pos(), "cache.%s does not index the namespace map by one parameter and pass a different one as item key to internalCacheT.%s (namespace param %d, key param %d): values land in / come from another namespace or key", w.fn, w.method, r.ns, r.key)
		}
	}
	// exported wrappers
	for _, name := range []string{"Read", "Write"} {
		fd, _ := c.MustFunc("R30b", c30Cache, "", name)
		if fd == nil {
			continue
		}
		inner := strings.ToLower(name)
		type use struct {
			what    string
			ns, key int
			pos     token.Pos
		}
		var uses []use
		for _, call := range calls(fd.Body, false) {
			o := callee(info, call)
			if o == nil {
				continue
			}
			var r c30roles
			var what string
			switch {
			case objIs(o, mx(c30Cache), "", inner):
				r, what = innerRoles[inner], "cache."+inner
			case objIs(o, mx(c30DB), "", name):
				var ok bool
				if r, ok = dbRoles[name]; !ok {
					continue
				}
				what = "cachedb." + name
			default:
				continue
			}
			if r.ns < 0 || r.key < 0 || r.ns >= len(call.Args) || r.key >= len(call.Args) {
				continue
			}
			uses = append(uses, use{what, c30ParamIndex(info, fd, call.Args[r.ns]), c30ParamIndex(info, fd, call.Args[r.key]), call.Pos()})
		}
		key := "cache." + name + ":forwarding"
		if len(uses) < 2 {
			c.Undecided("R30b", key, fd.Pos(), "cache.%s calls %d of (cache.%s, cachedb.%s) with resolvable roles; expected both layers", name, len(uses), inner, name)
			continue
		}
		bad := ""
		for _, u := range uses {
			if u.ns != 0 || u.key != 1 {
				bad = u.what + " receives parameter #" + itoa(u.ns) + " as namespace and #" + itoa(u.key) + " as key"
			}
		}
		if bad == "" {
			c.OK("R30b", key, fd.Pos(), "cache.%s(namespace, key, …) forwards parameter 0 as namespace and 1 as key to %d layers", name, len(uses))
		} else {
			c.Viol("R30b", key, fd.Pos(), "cache.%s(namespace, key, …): %s — the two layers (or Read and Write) disagree on which string is the namespace, so a value is looked up under a foreign namespace/key", name, bad)
		}
	}
	// Read's result: a hit is reported only when a layer reported one
	if fd, _ := c.FuncDecl(c30Cache, "", "Read"); fd != nil {
		isLayer := func(e ast.Expr) bool {
			call, ok := unparen(e).(*ast.CallExpr)
			if !ok {
				return false
			}
			o := callee(info, call)
			return o != nil && (objIs(o, mx(c30Cache), "", "read") || objIs(o, mx(c30DB), "", "Read"))
		}
		good, n := true, 0
		walkStack(fd.Body, func(nd ast.Node, stack []ast.Node) bool {
			rs, ok := nd.(*ast.ReturnStmt)
			if !ok || len(rs.Results) != 1 {
				return true
			}
			n++
			r := unparen(rs.Results[0])
			allLayers := true
			for _, dj := range disjuncts(r) {
				if !isLayer(dj) {
					allLayers = false
				}
			}
			if allLayers { // read(..) || cachedb.Read(..)
				return true
			}
			if v, isC := constBool(info, r); isC {
				if !v {
					return true
				}
				for _, ft := range factsOf(guardsAt(info, stack)) {
					if isLayer(ft.E) && ft.True {
						return true
					}
				}
			}
			good = false
			c.Viol("R30b", "cache.Read:result", rs.Pos(), "cache.Read returns %s on a path where no layer reported a hit: the caller is told its pointer holds a cached value although nothing was found (or decoded) for this namespace and key", c.src(r))
			return true
		})
		if good {
			c.OK("R30b", "cache.Read:result", fd.Pos(), "%d returns: a layer's own result, or true only after a layer returned true", n)
		}
	}
	// Write reaches the db layer
	if fd, _ := c.FuncDecl(c30Cache, "", "Write"); fd != nil {
		n := 0
		for _, call := range calls(fd.Body, false) {
			if o := callee(info, call); o != nil && (objIs(o, mx(c30DB), "", "Write")) {
				n++
			}
		}
		c.Check(n == 1, "R30b", "cache.Write:reaches-db", fd.Pos(), "cache.Write calls cachedb.Write exactly once (%d)", n)
	}
	// ns-only wrappers
	for _, w := range []struct{ fn, callee string }{{"trimDb", "Trim"}, {"clearDb", "Clear"}, {"listDb", "List"}, {"createDb", "CreateTable"}} {
		fd, _ := c.MustFunc("R30b", c30Cache, "", w.fn)
		if fd == nil {
			continue
		}
		ok := false
		for _, call := range calls(fd.Body, false) {
			if o := callee(info, call); o != nil && objIs(o, mx(c30DB), "", w.callee) {
				for _, a := range call.Args {
					if p := c30ParamIndex(info, fd, a); p >= 0 {
						if bt, isB := info.TypeOf(a).Underlying().(*types.Basic); isB && bt.Info()&types.IsString != 0 {
							ok = true
						}
					}
				}
			}
		}
		c.Check(ok, "R30b", "cache."+w.fn+":forwarding", fd.Pos(), "cache.%s forwards its namespace parameter to cachedb.%s", w.fn, w.callee)
	}
}

// c30TTLHelpers: cache.Seconds / cache.Days turn a count into now + count*unit.
func (c *Ctx) c30TTLHelpers(cpk *packages.Package) {
	info := cpk.TypesInfo
	c.Rule("R30f", "TTL helpers: cache.Seconds(n) is time.Now().Add(n * 1s) and cache.Days(n) is time.Now().Add(n * 24h) — the constant factor multiplying the parameter is exactly the unit the exported name states")
	for _, w := range []struct {
		name string
		unit int64
	}{{"Seconds", 1e9}, {"Days", 24 * 3600 * 1e9}} {
		fd, _ := c.MustFunc("R30f", c30Cache, "", w.name)
		if fd == nil {
			continue
		}
		var add *ast.CallExpr
		for _, call := range calls(fd.Body, false) {
			if o := callee(info, call); o != nil && objIs(o, "time", "Time", "Add") && len(call.Args) == 1 {
				add = call
			}
		}
		defs := c29Defs(info, fd.Body)
		// follow plain single-definition locals (now := time.Now(); d := n * time.Second)
		resolve := func(e ast.Expr) ast.Expr {
			e = unparen(e)
			for i := 0; i < 3; i++ {
				d, ok := defs.single(info, e)
				if !ok || d.idx >= 0 {
					break
				}
				e = unparen(d.rhs)
			}
			return e
		}
		okShape := false
		if add != nil {
			if se, ok := add.Fun.(*ast.SelectorExpr); ok {
				if cl, ok := resolve(se.X).(*ast.CallExpr); ok && callIs(info, cl, "time", "", "Now") {
					okShape = true
				}
			}
		}
		if !okShape {
			c.Undecided("R30f", "cache."+w.name, fd.Pos(), "cache.%s is not of the form time.Now().Add(<param> * <const>)", w.name)
			continue
		}
		// product: exactly one non-constant factor (the converted parameter), the rest constants
		factor := int64(1)
		nParam, bad := 0, false
		var walk func(e ast.Expr)
		walk = func(e ast.Expr) {
			e = unparen(e)
			if c30ParamIndex(info, fd, stripConv(info, e)) < 0 {
				e = resolve(e)
			}
			if v, ok := constInt(info, e); ok {
				factor *= v
				return
			}
			if b, ok := e.(*ast.BinaryExpr); ok && b.Op == token.MUL {
				walk(b.X)
				walk(b.Y)
				return
			}
			if c30ParamIndex(info, fd, stripConv(info, e)) == 0 {
				nParam++
				return
			}
			bad = true
		}
		walk(add.Args[0])
		switch {
		case bad || nParam != 1:
			c.Undecided("R30f", "cache."+w.name, add.Pos(), "the duration %s of cache.%s is not <param> times constants", c.src(add.Args[0]), w.name)
		case factor == w.unit:
			c.OK("R30f", "cache."+w.name, add.Pos(), "parameter x %dns", factor)
		default:
			c.Viol("R30f", "cache."+w.name, add.Pos(), "cache.%s multiplies its argument by %dns instead of %dns: every value cached through it lives %.3gx as long as its caller asked for (too long = stale values are served; too short = live values vanish)", w.name, factor, w.unit, float64(factor)/float64(w.unit))
		}
	}
}

// ---------------------------------------------------------------- in-memory layer

// c30TTLFact: is e a comparison of an item's ttl with time.Now()? returns
// "fresh" (true means ttl is in the future), "expired" (true means ttl is in
// the past) or "".
func (c *Ctx) c30TTLFact(info *types.Info, e ast.Expr) string {
	call, ok := unparen(e).(*ast.CallExpr)
	if !ok || len(call.Args) != 1 {
		return ""
	}
	o := callee(info, call)
	if o == nil || o.Pkg() == nil || o.Pkg().Path() != "time" || (o.Name() != "After" && o.Name() != "Before") {
		return ""
	}
	se, ok := call.Fun.(*ast.SelectorExpr)
	if !ok {
		return ""
	}
	isNow := func(x ast.Expr) bool {
		cl, ok := unparen(x).(*ast.CallExpr)
		return ok && callIs(info, cl, "time", "", "Now")
	}
	isTTL := func(x ast.Expr) bool {
		return isField(info, x, mx(c30Cache)+".cacheItemT", "ttl")
	}
	switch {
	case isTTL(se.X) && isNow(call.Args[0]):
		if o.Name() == "After" {
			return "fresh"
		}
		return "expired"
	case isNow(se.X) && isTTL(call.Args[0]):
		if o.Name() == "After" {
			return "expired"
		}
		return "fresh"
	}
	return ""
}

func (c *Ctx) c30InMemory(cpk *packages.Package) (isLive bool) {
	info := cpk.TypesInfo
	fd, _ := c.MustFunc("R30c", c30Cache, "internalCacheT", "Read")
	if fd == nil {
		return true
	}
	// the unsafe.Pointer parameter through which the value would be handed out
	outIdx := -1
	i := 0
	for _, f := range fd.Type.Params.List {
		for range f.Names {
			if namedPath(info.TypeOf(f.Type)) == "" {
				if bt, ok := info.TypeOf(f.Type).Underlying().(*types.Basic); ok && bt.Kind() == types.UnsafePointer {
					outIdx = i
				}
			}
			if _, isPtr := info.TypeOf(f.Type).Underlying().(*types.Pointer); isPtr {
				outIdx = i
			}
			i++
		}
	}
	if outIdx < 0 {
		c.Undecided("R30c", "internalCacheT.Read:hand-out", fd.Pos(), "internalCacheT.Read has no pointer parameter through which a value could be handed out; its shape is unknown to this rule")
		return true
	}
	// classify every use of that parameter
	live, inert := 0, 0
	var livePos token.Pos
	var unknown []string
	walkStack(fd.Body, func(n ast.Node, stack []ast.Node) bool {
		id, ok := n.(*ast.Ident)
		if !ok || c30ParamIndex(info, fd, id) != outIdx {
			return true
		}
		// climb: &p | conv(p) | *conv(p) | p
		kind := "value"
		top := len(stack) - 1
		for top > 0 {
			switch par := stack[top-1].(type) {
			case *ast.ParenExpr:
				top--
				continue
			case *ast.UnaryExpr:
				if par.Op == token.AND {
					kind = "addr-of-param"
					top--
					continue
				}
			case *ast.CallExpr:
				if tv, ok := info.Types[par.Fun]; ok && tv.IsType() && len(par.Args) == 1 && kind == "value" {
					top--
					continue
				}
			case *ast.StarExpr:
				if kind == "value" {
					kind = "deref"
					top--
					continue
				}
			}
			break
		}
		node := stack[top]
		var parent ast.Node
		if top > 0 {
			parent = stack[top-1]
		}
		switch p := parent.(type) {
		case *ast.AssignStmt:
			onLeft := false
			for _, l := range p.Lhs {
				if l == node {
					onLeft = true
				}
			}
			switch {
			case onLeft && kind == "deref":
				live++
				livePos = p.Pos()
			case onLeft && kind == "value":
				inert++ // assigning to the parameter itself
			default:
				unknown = append(unknown, c.src(p))
			}
		case *ast.CallExpr:
			o := callee(info, p)
			isStore := o != nil && o.Pkg() != nil && o.Pkg().Path() == "sync/atomic" && strings.HasPrefix(o.Name(), "Store")
			if bi, isB := isBuiltinCall(info, p, "copy"); isB && len(bi.Args) == 2 && bi.Args[0] == node {
				live++
				livePos = p.Pos()
			} else if isStore && len(p.Args) == 2 && p.Args[0] == node {
				if kind == "addr-of-param" {
					inert++
				} else {
					live++
					livePos = p.Pos()
				}
			} else {
				unknown = append(unknown, c.src(p))
			}
		case *ast.BinaryExpr: // ptr == nil
		default:
			unknown = append(unknown, c.src(node))
		}
		return true
	})
	if len(unknown) > 0 {
		c.Undecided("R30c", "internalCacheT.Read:hand-out", fd.Pos(), "unrecognised use(s) of the out-pointer parameter in internalCacheT.Read: %v", unknown)
		return true
	}
	if live == 0 {
		c.OK("R30c", "internalCacheT.Read:hand-out", fd.Pos(), "inert: the only store (%d) targets the address of the parameter copy, so the caller's buffer stays nil, json.Unmarshal(nil) fails in cache.read and the in-memory layer never returns a value", inert)
		c.Info("C30 R30c: the in-memory layer (utils/cache/internal.go) is INERT on this tree: internalCacheT.Read stores into &<its own parameter>, never into the caller's buffer. Its TTL test is inverted (ttl.After(now) => reject) and Write leaves older items in place when it declines a short-TTL write, but neither can return stale data while the layer is inert. Not a violation; every cache hit comes from cachedb.")
		// confirm the consumer side: cache.read decodes the buffer whose address it passed
		return !c.c30ReadConsumer(cpk)
	}
	isLive = true
	c.OK("R30c", "internalCacheT.Read:hand-out", livePos, "live: the cached bytes are stored through the caller's pointer")
	// live: hand-out must be under "fresh"
	okAll := true
	n := 0
	walkStack(fd.Body, func(nd ast.Node, stack []ast.Node) bool {
		rs, isRet := nd.(*ast.ReturnStmt)
		if !isRet || len(rs.Results) != 1 {
			return true
		}
		if v, isC := constBool(info, rs.Results[0]); !isC || !v {
			return true
		}
		n++
		fresh, stale := false, false
		for _, f := range factsOf(guardsAt(info, stack)) {
			switch c.c30TTLFact(info, f.E) {
			case "fresh":
				if f.True {
					fresh = true
				} else {
					stale = true
				}
			case "expired":
				if f.True {
					stale = true
				}
				// !ttl.Before(now) alone admits ttl==now; accepted as fresh
				if !f.True {
					fresh = true
				}
			}
		}
		if stale || !fresh {
			okAll = false
			c.Viol("R30c", "internalCacheT.Read:ttl-polarity", rs.Pos(), "internalCacheT.Read hands the cached bytes to the caller (store at %s) on a path where the item's ttl is NOT known to be after time.Now() (fresh=%v, known-expired=%v): expired values are returned and fresh ones rejected", c.pos(livePos), fresh, stale)
		}
		return true
	})
	if okAll && n > 0 {
		c.OK("R30c", "internalCacheT.Read:ttl-polarity", fd.Pos(), "live layer: every hit (%d) is under ttl.After(now)", n)
	}
	// live: Write must invalidate when it declines
	if wfd, _ := c.MustFunc("R30c", c30Cache, "internalCacheT", "Write"); wfd != nil {
		var store token.Pos
		ast.Inspect(wfd.Body, func(n ast.Node) bool {
			if as, ok := n.(*ast.AssignStmt); ok {
				for _, l := range as.Lhs {
					if ix, ok := unparen(l).(*ast.IndexExpr); ok && isField(info, ix.X, mx(c30Cache)+".internalCacheT", "cache") {
						store = as.Pos()
					}
				}
			}
			return true
		})
		bad := false
		walkStack(wfd.Body, func(nd ast.Node, stack []ast.Node) bool {
			rs, isRet := nd.(*ast.ReturnStmt)
			if !isRet || (store.IsValid() && rs.Pos() > store) {
				return true
			}
			// `if disabled { return }` is the global off switch
			for _, f := range factsOf(guardsAt(info, stack)) {
				if isPkgObj(info, f.E, mx(c30Cache), "disabled") && f.True {
					return true
				}
			}
			// a delete(ic.cache, key) must precede in the same block
			deleted := false
			if len(stack) >= 2 {
				if blk, ok := stack[len(stack)-2].(*ast.BlockStmt); ok {
					for _, s := range blk.List {
						if s.Pos() >= rs.Pos() {
							break
						}
						for _, call := range calls(s, false) {
							if d, ok := isBuiltinCall(info, call, "delete"); ok && len(d.Args) == 2 && isField(info, d.Args[0], mx(c30Cache)+".internalCacheT", "cache") {
								deleted = true
							}
						}
					}
				}
			}
			if !deleted {
				bad = true
				c.Viol("R30c", "internalCacheT.Write:declined-write", rs.Pos(), "internalCacheT.Write returns without storing (short TTL) and without deleting the item already held for that key, while internalCacheT.Read is live: the older long-TTL value stays in memory and cache.Read returns it instead of the newer value in the db (stale)")
			}
			return true
		})
		if !bad {
			c.OK("R30c", "internalCacheT.Write:declined-write", wfd.Pos(), "every declined write invalidates the held item")
		}
	}
	return true
}

// c30ReadConsumer: cache.read passes the address of a local []byte and decodes
// that same local — with an inert layer it is always nil.
func (c *Ctx) c30ReadConsumer(cpk *packages.Package) bool {
	info := cpk.TypesInfo
	fd, _ := c.MustFunc("R30c", c30Cache, "", "read")
	if fd == nil {
		return false
	}
	var buf types.Object
	for _, call := range calls(fd.Body, false) {
		if o := callee(info, call); o != nil && objIs(o, mx(c30Cache), "internalCacheT", "Read") {
			for _, a := range call.Args {
				ast.Inspect(a, func(n ast.Node) bool {
					if u, ok := n.(*ast.UnaryExpr); ok && u.Op == token.AND {
						if id, ok := unparen(u.X).(*ast.Ident); ok {
							buf = info.ObjectOf(id)
						}
					}
					return true
				})
			}
		}
	}
	ok := false
	assigned := false
	if buf != nil {
		for _, call := range calls(fd.Body, false) {
			if callIs(info, call, "encoding/json", "", "Unmarshal") && len(call.Args) == 2 {
				if id, isId := unparen(call.Args[0]).(*ast.Ident); isId && info.ObjectOf(id) == buf {
					ok = true
				}
			}
		}
		ast.Inspect(fd.Body, func(n ast.Node) bool {
			if as, isAs := n.(*ast.AssignStmt); isAs {
				for _, l := range as.Lhs {
					if id, isId := l.(*ast.Ident); isId && info.ObjectOf(id) == buf {
						assigned = true
					}
				}
			}
			return true
		})
	}
	if ok && !assigned {
		c.OK("R30c", "cache.read:consumer", fd.Pos(), "cache.read decodes the local buffer whose address it handed to internalCacheT.Read and never assigns it itself: with the inert layer the buffer is nil and read reports a miss")
	} else {
		c.Undecided("R30c", "cache.read:consumer", fd.Pos(), "cache.read does not decode exactly the (otherwise unassigned) buffer it passes to internalCacheT.Read; the inertness argument does not apply")
	}
	return ok && !assigned
}

// ---------------------------------------------------------------- R30e

func (c *Ctx) c30NamespaceLookup(cpk *packages.Package) {
	info := cpk.TypesInfo
	isNsMap := func(e ast.Expr) bool { return isPkgObj(info, e, mx(c30Cache), "cache") }
	// nil-safe methods: the first use of a receiver field is preceded by `if recv == nil { return }`
	nilSafe := map[string]bool{}
	eachFunc(cpk, func(fd *ast.FuncDecl) {
		if recvName(fd) != "internalCacheT" {
			return
		}
		rv := recvVar(fd)
		var nilCheck, firstField token.Pos
		ast.Inspect(fd.Body, func(n ast.Node) bool {
			switch x := n.(type) {
			case *ast.IfStmt:
				if b, ok := unparen(x.Cond).(*ast.BinaryExpr); ok && b.Op == token.EQL && terminates(info, x.Body.List) {
					for _, pr := range [][2]ast.Expr{{b.X, b.Y}, {b.Y, b.X}} { // ic == nil / nil == ic
						if id, ok := unparen(pr[0]).(*ast.Ident); ok && id.Name == rv {
							if nid, ok := unparen(pr[1]).(*ast.Ident); ok {
								if _, isNil := info.ObjectOf(nid).(*types.Nil); isNil && !nilCheck.IsValid() {
									nilCheck = x.Pos()
								}
							}
						}
					}
				}
			case *ast.SelectorExpr:
				if id, ok := unparen(x.X).(*ast.Ident); ok && id.Name == rv && !firstField.IsValid() {
					if v, _ := fieldOf(info, x); v != nil {
						firstField = x.Pos()
					}
				}
			}
			return true
		})
		if nilCheck.IsValid() && (!firstField.IsValid() || nilCheck < firstField) {
			nilSafe[fd.Name.Name] = true
		}
	})
	n := 0
	eachFunc(cpk, func(fd *ast.FuncDecl) {
		defs := c29Defs(info, fd.Body)
		walkStack(fd.Body, func(nd ast.Node, stack []ast.Node) bool {
			call, ok := nd.(*ast.CallExpr)
			if !ok {
				return true
			}
			se, ok := call.Fun.(*ast.SelectorExpr)
			if !ok {
				return true
			}
			o := callee(info, call)
			if o == nil || !strings.HasSuffix(objName(o), "(internalCacheT)."+o.Name()) {
				return true
			}
			recv := unparen(se.X)
			var ix *ast.IndexExpr
			var via types.Object
			if x, ok := recv.(*ast.IndexExpr); ok && isNsMap(x.X) {
				ix = x
			} else if id, ok := recv.(*ast.Ident); ok {
				via = info.ObjectOf(id)
				for _, d := range defs[via] {
					if x, ok := unparen0(d.rhs).(*ast.IndexExpr); ok && isNsMap(x.X) {
						ix = x
					}
				}
			}
			if ix == nil {
				return true
			}
			n++
			key := fd.Name.Name + ":cache[]." + o.Name()
			switch {
			case nilSafe[o.Name()]:
				c.OK("R30e", key, call.Pos(), "internalCacheT.%s checks its receiver for nil before touching a field", o.Name())
				return true
			}
			// key from ranging over the same map
			if id, ok := unparen(ix.Index).(*ast.Ident); ok {
				for _, anc := range stack {
					if rs, ok := anc.(*ast.RangeStmt); ok && isNsMap(rs.X) {
						if kid, ok := rs.Key.(*ast.Ident); ok && info.ObjectOf(kid) == info.ObjectOf(id) {
							c.OK("R30e", key, call.Pos(), "namespace comes from ranging over the namespace map itself")
							return true
						}
					}
				}
			}
			// comma-ok / nil check + initNamespace before the call
			checked := false
			if via != nil {
				ast.Inspect(fd.Body, func(m ast.Node) bool {
					is, ok := m.(*ast.IfStmt)
					if !ok || is.Pos() > call.Pos() {
						return true
					}
					guards := false
					for _, f := range factsOf([]Guard{{Cond: is.Cond}}) {
						switch x := unparen(f.E).(type) {
						case *ast.Ident: // !ok
							if !f.True {
								for _, d := range defs[info.ObjectOf(x)] {
									if _, isIx := unparen0(d.rhs).(*ast.IndexExpr); isIx && d.idx == 1 {
										guards = true
									}
								}
							}
						case *ast.BinaryExpr: // ic == nil / nil == ic
							if x.Op != token.EQL && x.Op != token.NEQ {
								break
							}
							for _, pr := range [][2]ast.Expr{{x.X, x.Y}, {x.Y, x.X}} {
								id, ok := unparen(pr[0]).(*ast.Ident)
								nid, ok2 := unparen(pr[1]).(*ast.Ident)
								if !ok || !ok2 || info.ObjectOf(id) != via {
									continue
								}
								if _, isNil := info.ObjectOf(nid).(*types.Nil); isNil && (x.Op == token.EQL) == f.True {
									guards = true
								}
							}
						}
					}
					if !guards {
						return true
					}
					if terminates(info, is.Body.List) {
						checked = true
					}
					inits, reassigns := false, false
					for _, cl := range calls(is.Body, false) {
						if callIs(info, cl, mx(c30Cache), "", "initNamespace") {
							inits = true
						}
					}
					ast.Inspect(is.Body, func(k ast.Node) bool {
						if as, ok := k.(*ast.AssignStmt); ok {
							for _, l := range as.Lhs {
								if id, ok := l.(*ast.Ident); ok && info.ObjectOf(id) == via {
									reassigns = true
								}
							}
						}
						return true
					})
					if inits && reassigns {
						checked = true
					}
					return true
				})
			}
			if checked {
				c.OK("R30e", key, call.Pos(), "missing namespace is detected and initialised before internalCacheT.%s is called", o.Name())
			} else {
				c.Viol("R30e", key, call.Pos(), "cache.%s calls internalCacheT.%s on cache[%s] without checking that the namespace exists: for a namespace that was never initialised (cache.read initialises on demand, this path does not) the receiver is nil and %s dereferences it — the write panics instead of being stored", fd.Name.Name, o.Name(), c.src(ix.Index), o.Name())
			}
			return true
		})
	})
	c.MinCount("R30e", "method calls on entries of the namespace map", n, 5)
}

// c30Concat renders a string concatenation as the equivalent Sprintf format:
// constant operands verbatim, every other (string-typed) operand as %s.
// Returns "" when a constant part contains a % (would be ambiguous) or an
// operand is not a string.
func c30Concat(info *types.Info, e ast.Expr) (string, []ast.Expr) {
	var ops []ast.Expr
	var flat func(x ast.Expr)
	flat = func(x ast.Expr) {
		x = unparen(x)
		if _, isC := constString(info, x); !isC {
			if b, ok := x.(*ast.BinaryExpr); ok && b.Op == token.ADD {
				flat(b.X)
				flat(b.Y)
				return
			}
		}
		ops = append(ops, x)
	}
	flat(e)
	format := ""
	var args []ast.Expr
	for _, o := range ops {
		if s, ok := constString(info, o); ok {
			if strings.Contains(s, "%") {
				return "", nil
			}
			format += s
			continue
		}
		bt, ok := info.TypeOf(o).Underlying().(*types.Basic)
		if !ok || bt.Info()&types.IsString == 0 {
			return "", nil
		}
		format += "%s"
		args = append(args, o)
	}
	return format, args
}
