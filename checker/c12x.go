package main

import (
	"go/ast"
	"go/types"
)

// R12e — every stored structured value is its own object. `b = $a`, a function
// argument, or assigning the same document twice all go through
// lang.varConvertString, which turns the document text into the object the variable
// keeps; nested assignment later mutates that object in place. Two variables are
// independent only if each conversion hands out an object decoded in THAT call — a
// memo, cache or pool of decoded values makes them aliases.
func init() {
	extend("C12", func(c *Ctx) {
		c.Rule("R12e", "lang.varConvertString: the value of every non-error return is string(<the text parameter>) or a local whose every definition is a result of calling the unmarshaller selected for the data type in this invocation; the function reads no package-level variable other than the unmarshaller table (nothing decoded earlier can be handed out again)")
		fd, pk := c.MustFunc("R12e", "lang", "", "varConvertString")
		if fd == nil {
			return
		}
		info := pk.TypesInfo
		defs := localDefs(info, fd.Body)
		// locals holding a func taken from a package-level map of funcs
		isUnmarshallerCall := func(e ast.Expr) bool {
			call, ok := unparen(e).(*ast.CallExpr)
			if !ok {
				return false
			}
			f := defs.resolve1(info, call.Fun)
			if ix, ok := unparen(f).(*ast.IndexExpr); ok {
				if id, ok := unparen(ix.X).(*ast.Ident); ok {
					if v, ok := info.ObjectOf(id).(*types.Var); ok && v.Parent() == v.Pkg().Scope() {
						if m, ok := v.Type().Underlying().(*types.Map); ok {
							_, isFn := m.Elem().Underlying().(*types.Signature)
							return isFn
						}
					}
				}
			}
			return false
		}
		// package-level reads
		okGlobals := true
		badGlobal := ""
		ast.Inspect(fd.Body, func(nd ast.Node) bool {
			id, ok := nd.(*ast.Ident)
			if !ok {
				return true
			}
			v, ok := info.Uses[id].(*types.Var)
			if !ok || v.Pkg() == nil || v.Parent() != v.Pkg().Scope() {
				return true
			}
			if m, ok := v.Type().Underlying().(*types.Map); ok {
				if _, isFn := m.Elem().Underlying().(*types.Signature); isFn {
					return true
				}
			}
			okGlobals, badGlobal = false, id.Name
			return true
		})
		c.Check(okGlobals, "R12e", "varConvertString:no-shared-state", fd.Pos(), "varConvertString reads no package-level variable except the table of unmarshallers (found %q): a remembered conversion would be handed to a second variable, and `$b.path = x` would then change `$a` as well", badGlobal)
		n := 0
		walkStack(fd.Body, func(nd ast.Node, stack []ast.Node) bool {
			if _, ok := nd.(*ast.FuncLit); ok {
				return false
			}
			rs, ok := nd.(*ast.ReturnStmt)
			if !ok || len(rs.Results) != 2 {
				return true
			}
			if id, ok := unparen(rs.Results[1]).(*ast.Ident); !ok || id.Name != "nil" {
				return true // error return
			}
			n++
			key := "varConvertString:return#" + itoa(n)
			r := unparen(rs.Results[0])
			good := false
			why := c.src(r)
			if call, ok := r.(*ast.CallExpr); ok {
				if tv, isT := info.Types[call.Fun]; isT && tv.IsType() && len(call.Args) == 1 {
					if id, ok := unparen(call.Args[0]).(*ast.Ident); ok {
						if _, isParam := info.ObjectOf(id).(*types.Var); isParam && len(defs[info.ObjectOf(id)]) == 0 {
							good, why = true, "the text itself"
						}
					}
				}
			}
			if id, ok := r.(*ast.Ident); ok {
				ds := defs[info.ObjectOf(id)]
				all := len(ds) > 0
				for _, d := range ds {
					// multi-value definitions are recorded as nil by localDefs: look them up
					if d == nil || !isUnmarshallerCall(d) {
						all = false
					}
				}
				if !all {
					// v, err := UnmarshalData(p): tuple assignment
					all = true
					found := false
					ast.Inspect(fd.Body, func(x ast.Node) bool {
						as, ok := x.(*ast.AssignStmt)
						if !ok {
							return true
						}
						for _, l := range as.Lhs {
							if lid, ok := l.(*ast.Ident); ok && info.ObjectOf(lid) == info.ObjectOf(id) {
								found = true
								if len(as.Rhs) != 1 || !isUnmarshallerCall(as.Rhs[0]) {
									all = false
								}
							}
						}
						return true
					})
					all = all && found
				}
				if all {
					good, why = true, "decoded by the unmarshaller in this call"
				}
			}
			c.Check(good, "R12e", key, rs.Pos(), "success return hands out %s", why)
			return true
		})
		c.MinCount("R12e", "success returns of varConvertString", n, 2)
	})
}
