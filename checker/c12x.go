package main

import (
	"go/ast"
	"go/token"
	"go/types"
)

// R12e — every stored structured value is its own object. `b = $a`, a function
// argument, or assigning the same document twice all go through
// lang.varConvertString, which turns the document text into the object the variable
// keeps; nested assignment later mutates that object in place. Two variables are
// independent only if each conversion hands out an object decoded in THAT call — a
// memo, cache or pool of decoded values makes them aliases.
func init() {
	extend("C12", func(c *Ctx) {
		c.Rule("R12e", "lang.varConvertString: the value of every non-error return is string(<the text parameter>) or a local whose every definition is a result of calling the unmarshaller selected for the data type in this invocation; the function reads no package-level variable other than the unmarshaller table (nothing decoded earlier can be handed out again)")
		fd, pk := c.MustFunc("R12e", "lang", "", "varConvertString")
		if fd == nil {
			return
		}
		info := pk.TypesInfo
		defs := localDefs(info, fd.Body)
		// isTableLookup: <package-level map of funcs>[key]
		isTableLookup := func(e ast.Expr) bool {
			ix, ok := unparen(e).(*ast.IndexExpr)
			if !ok {
				return false
			}
			id, ok := unparen(ix.X).(*ast.Ident)
			if !ok {
				return false
			}
			v, ok := info.ObjectOf(id).(*types.Var)
			if !ok || v.Pkg() == nil || v.Parent() != v.Pkg().Scope() {
				return false
			}
			m, ok := v.Type().Underlying().(*types.Map)
			if !ok {
				return false
			}
			_, isFn := m.Elem().Underlying().(*types.Signature)
			return isFn
		}
		// fromTable: the table lookup itself, or a local whose every assignment is such a lookup
		// (`f := table[k]` as well as the comma-ok form `f, ok := table[k]`)
		fromTable := func(e ast.Expr) bool {
			if isTableLookup(e) {
				return true
			}
			id, ok := unparen(e).(*ast.Ident)
			if !ok {
				return false
			}
			o, isVar := info.ObjectOf(id).(*types.Var)
			if !isVar || o.Pkg() == nil || o.Parent() == o.Pkg().Scope() {
				return false
			}
			all, found := true, false
			ast.Inspect(fd.Body, func(x ast.Node) bool {
				switch as := x.(type) {
				case *ast.AssignStmt:
					for i, l := range as.Lhs {
						if lid, ok := l.(*ast.Ident); ok && info.ObjectOf(lid) == o {
							found = true
							switch {
							case len(as.Lhs) == len(as.Rhs) && isTableLookup(as.Rhs[i]):
							case i == 0 && len(as.Lhs) == 2 && len(as.Rhs) == 1 && isTableLookup(as.Rhs[0]):
							default:
								all = false
							}
						}
					}
				case *ast.ValueSpec:
					for i, n := range as.Names {
						if info.ObjectOf(n) == o && len(as.Values) > 0 {
							found = true
							if !(len(as.Values) == len(as.Names) && isTableLookup(as.Values[i])) && !(i == 0 && len(as.Names) == 2 && len(as.Values) == 1 && isTableLookup(as.Values[0])) {
								all = false
							}
						}
					}
				case *ast.UnaryExpr:
					if as.Op == token.AND {
						if aid, ok := unparen(as.X).(*ast.Ident); ok && info.ObjectOf(aid) == o {
							all = false
						}
					}
				}
				return true
			})
			return all && found
		}
		isUnmarshallerCall := func(e ast.Expr) bool {
			call, ok := unparen(e).(*ast.CallExpr)
			return ok && fromTable(call.Fun)
		}
		// package-level reads
		okGlobals := true
		badGlobal := ""
		ast.Inspect(fd.Body, func(nd ast.Node) bool {
			id, ok := nd.(*ast.Ident)
			if !ok {
				return true
			}
			v, ok := info.Uses[id].(*types.Var)
			if !ok || v.Pkg() == nil || v.Parent() != v.Pkg().Scope() {
				return true
			}
			if m, ok := v.Type().Underlying().(*types.Map); ok {
				if _, isFn := m.Elem().Underlying().(*types.Signature); isFn {
					return true
				}
			}
			if _, isBasic := v.Type().Underlying().(*types.Basic); isBasic {
				return true // a flag, counter or string (debug.Enabled …) cannot hold a decoded object
			}
			okGlobals, badGlobal = false, id.Name
			return true
		})
		c.Check(okGlobals, "R12e", "varConvertString:no-shared-state", fd.Pos(), "varConvertString reads no package-level variable except the table of unmarshallers (found %q): a remembered conversion would be handed to a second variable, and `$b.path = x` would then change `$a` as well", badGlobal)
		n := 0
		walkStack(fd.Body, func(nd ast.Node, stack []ast.Node) bool {
			if _, ok := nd.(*ast.FuncLit); ok {
				return false
			}
			rs, ok := nd.(*ast.ReturnStmt)
			if !ok || len(rs.Results) != 2 {
				return true
			}
			if id, ok := unparen(rs.Results[1]).(*ast.Ident); !ok || id.Name != "nil" {
				return true // error return
			}
			n++
			key := "varConvertString:return#" + itoa(n)
			r := unparen(rs.Results[0])
			good := false
			why := c.src(r)
			if d := defs.resolve1(info, r); d != r {
				if call, ok := d.(*ast.CallExpr); ok {
					if tv, isT := info.Types[call.Fun]; isT && tv.IsType() {
						r = d // `text := string(value); return text, nil`
					}
				}
			}
			if call, ok := r.(*ast.CallExpr); ok {
				if tv, isT := info.Types[call.Fun]; isT && tv.IsType() && len(call.Args) == 1 {
					if id, ok := unparen(call.Args[0]).(*ast.Ident); ok {
						if _, isParam := info.ObjectOf(id).(*types.Var); isParam && len(defs[info.ObjectOf(id)]) == 0 {
							good, why = true, "the text itself"
						}
					}
				}
			}
			if id, ok := r.(*ast.Ident); ok {
				ds := defs[info.ObjectOf(id)]
				all := len(ds) > 0
				for _, d := range ds {
					// multi-value definitions are recorded as nil by localDefs: look them up
					if d == nil || !isUnmarshallerCall(d) {
						all = false
					}
				}
				if !all {
					// v, err := UnmarshalData(p): tuple assignment
					all = true
					found := false
					ast.Inspect(fd.Body, func(x ast.Node) bool {
						as, ok := x.(*ast.AssignStmt)
						if !ok {
							return true
						}
						for _, l := range as.Lhs {
							if lid, ok := l.(*ast.Ident); ok && info.ObjectOf(lid) == info.ObjectOf(id) {
								found = true
								if len(as.Rhs) != 1 || !isUnmarshallerCall(as.Rhs[0]) {
									all = false
								}
							}
						}
						return true
					})
					all = all && found
				}
				if all {
					good, why = true, "decoded by the unmarshaller in this call"
				}
			}
			c.Check(good, "R12e", key, rs.Pos(), "success return hands out %s", why)
			return true
		})
		c.MinCount("R12e", "success returns of varConvertString", n, 2)
	})
}
