package main

import (
	"go/ast"
	"go/token"
	"go/types"
	"strings"
)

// c15ScanLoop: the (*bufio.Scanner).Scan() call that heads a line loop — `for s.Scan() { … }` or the
// same loop spelled `for { if !s.Scan() { break }; … }`. rest is the loop body after the header test.
func c15ScanLoop(info *types.Info, fs *ast.ForStmt) (call *ast.CallExpr, rest []ast.Stmt) {
	isScan := func(e ast.Expr) *ast.CallExpr {
		cl, ok := unparen(e).(*ast.CallExpr)
		if !ok {
			return nil
		}
		if fn, ok := callee(info, cl).(*types.Func); ok && fn.Name() == "Scan" && fn.Pkg() != nil && fn.Pkg().Path() == "bufio" {
			return cl
		}
		return nil
	}
	if fs.Init != nil || fs.Post != nil {
		return nil, nil
	}
	if fs.Cond != nil {
		return isScan(fs.Cond), fs.Body.List
	}
	if len(fs.Body.List) == 0 {
		return nil, nil
	}
	ifs, ok := fs.Body.List[0].(*ast.IfStmt)
	if !ok || ifs.Init != nil || ifs.Else != nil || len(ifs.Body.List) != 1 {
		return nil, nil
	}
	if br, ok := ifs.Body.List[0].(*ast.BranchStmt); !ok || br.Tok != token.BREAK || br.Label != nil {
		return nil, nil
	}
	not, ok := unparen(ifs.Cond).(*ast.UnaryExpr)
	if !ok || not.Op != token.NOT {
		return nil, nil
	}
	return isScan(not.X), fs.Body.List[1:]
}

// R15e — "with the element bound verbatim": a line-splitting array reader
// (`for scanner.Scan() { … callback(<line>) … }`) must hand the scanned line to the
// callback as it is. Any transformation of the line (TrimSpace, ToLower, Fields …)
// changes elements that carry outer white space — and turns white-space-only
// elements into empty ones, which foreach then skips.
func init() {
	extend("C15", func(c *Ctx) {
		c.Rule("R15e", "line readers pass the line on unchanged: in every function of builtins/types/string and builtins/types/generic (the types whose element is the raw line) that invokes its element callback inside a `for <*bufio.Scanner>.Scan()` loop, the element argument is scanner.Bytes() / scanner.Text() (or a plain string/[]byte conversion of them) — no call in between")
		n := 0
		for _, pk := range c.MurexPkgs() {
			// the types whose element IS the raw line: str and generic (*). For jsonl the line is a JSON
			// document, and white space around a JSON document is not part of the value.
			if !strings.HasSuffix(pk.PkgPath, "/builtins/types/string") && !strings.HasSuffix(pk.PkgPath, "/builtins/types/generic") {
				continue
			}
			info := pk.TypesInfo
			rel := relPkg(pk.PkgPath)
			eachFunc(pk, func(fd *ast.FuncDecl) {
				if fd.Body == nil || fd.Type.Params == nil {
					return
				}
				cbs := map[types.Object]bool{}
				for _, f := range fd.Type.Params.List {
					for _, nm := range f.Names {
						if o := info.Defs[nm]; o != nil {
							if sig, ok := o.Type().Underlying().(*types.Signature); ok && sig.Params().Len() >= 1 {
								// ReadArray: func([]byte); ReadArrayWithType: func(any, string) — not ReadMap's func(*stdio.Map)
								switch t := sig.Params().At(0).Type().Underlying().(type) {
								case *types.Slice, *types.Interface:
									_ = t
									cbs[o] = true
								}
							}
						}
					}
				}
				if len(cbs) == 0 {
					return
				}
				ast.Inspect(fd.Body, func(nd ast.Node) bool {
					fs, ok := nd.(*ast.ForStmt)
					if !ok {
						return true
					}
					call, _ := c15ScanLoop(info, fs)
					if call == nil {
						return true
					}
					se, _ := unparen(call.Fun).(*ast.SelectorExpr)
					if se == nil {
						return true
					}
					scannerSrc := c.src(se.X)
					isLine := func(e ast.Expr) bool {
						e = unparen(e)
						// conversion string(x) / []byte(x)
						if cv, ok := e.(*ast.CallExpr); ok && len(cv.Args) == 1 {
							if tv, isT := info.Types[cv.Fun]; isT && tv.IsType() {
								e = unparen(cv.Args[0])
							}
						}
						lc, ok := e.(*ast.CallExpr)
						if !ok || len(lc.Args) != 0 {
							return false
						}
						ls, ok := unparen(lc.Fun).(*ast.SelectorExpr)
						return ok && (ls.Sel.Name == "Bytes" || ls.Sel.Name == "Text") && c.src(ls.X) == scannerSrc
					}
					ast.Inspect(fs.Body, func(x ast.Node) bool {
						cc, ok := x.(*ast.CallExpr)
						if !ok || len(cc.Args) == 0 {
							return true
						}
						id, ok := unparen(cc.Fun).(*ast.Ident)
						if !ok || !cbs[info.ObjectOf(id)] {
							return true
						}
						n++
						key := funcKey(rel, fd) + ":element"
						arg := cc.Args[0]
						// a local defined once from the line is fine too
						if lid, ok := unparen(arg).(*ast.Ident); ok {
							defs := localDefs(info, fd.Body)
							arg = defs.resolve1(info, lid)
						}
						if isLine(arg) {
							c.OK("R15e", key, cc.Pos(), "the callback receives %s", c.src(cc.Args[0]))
						} else {
							// name the transformation in the key: a different one is a different finding
							if tc, ok := unparen(arg).(*ast.CallExpr); ok {
								if tf, ok := callee(info, tc).(*types.Func); ok && tf.Pkg() != nil {
									key += ":" + tf.Pkg().Name() + "." + tf.Name()
								} else {
									key += ":" + c.src(tc.Fun)
								}
							}
							c.Viol("R15e", key, cc.Pos(), "%s hands the callback %s instead of the scanned line itself: elements with leading/trailing white space are altered (\"  a\" → \"a\") and white-space-only elements become empty (and are then skipped by foreach)", fd.Name.Name, c.src(cc.Args[0]))
						}
						return true
					})
					return true
				})
			})
		}
		c.MinCount("R15e", "callback invocations in line readers", n, 4)
	})
}
