package main

// C08 — variable arguments ($name, @name) are passed verbatim.
//
// R08a  SSA taint: the value results of parseVarScalar / parseVarArray / the
//       sub-shell closures reach appendToParam only through assertion,
//       conversion, element access and ConvertGoType(…, String); any other
//       callee that receives them is reported (named re-parsing/splitting
//       callees as violations, unknown ones as undecided). The accessors
//       parseVarScalar/parseVarParenthesis/parseVarArray return what
//       getVar/getArray gave them, untouched.
// R08b  StatementT.possibleGlob is stored non-false only in the '*' / '?' arms.
// R08c  one parameter per array element (append, then nextParameter, nothing
//       skipped), one parameter for a scalar (no nextParameter in the '$' arm,
//       zero-length value still yields a parameter, string formatting requested).
// R08d  getVar(varAsString) = CrLfTrimString(Variables.GetString(name)) and
//       nothing else; CrLfTrimString removes at most one LF and one CR.
// R08e  (extension) zero-length array elements still yield a parameter.

import (
	"fmt"
	"go/ast"
	"go/constant"
	"go/token"
	"go/types"
	"sort"
	"strings"

	"golang.org/x/tools/go/ssa"
)

func init() {
	register("C08", "Decides: (R08a) by SSA taint inside lang/expressions that the values read for `$name`, `@name`, `${…}`, `@{…}` in statement position flow to appendToParam only through type assertion, string/[]rune conversion, element access and ConvertGoType(…, String) and reach no other callee (no re-parse, split, glob, user lookup), and that the accessor chain returns getVar/getArray results untouched; (R08b) glob state is armed only by literal `*`/`?`; (R08c) the array arm emits append-then-nextParameter once per element with no skip path, the scalar arm never calls nextParameter, asks for string formatting and marks zero-length values as parameters; (R08d) the string form of a variable is Variables.GetString followed by exactly one CrLfTrimString, which has no loop and at most one LF and one CR decrement; (R08e) zero-length elements are marked as parameters. Does NOT decide: what Variables.GetString / ReadArrayWithType produce (value level), `$var[…]` index forms (re-enter the parser with source text by design), parameters built in expression position.", runC08)
}

const c08Pkg = "lang/expressions"

// Lparen positions of the appendToParam calls that receive the value of parseVarScalar (from the R08a flow)
var c08ScalarSinks []token.Pos

// ---------------------------------------------------------------- taint engine

type c08Problem struct {
	pos     token.Pos
	viol    bool
	msg     string
	keyPart string
}

type c08Flow struct {
	c        *Ctx
	tainted  map[ssa.Value]bool
	queue    []ssa.Value
	sinks    int
	sinkAt   []token.Pos // Lparen of the sink calls reached
	problems []c08Problem
	// configuration
	follow    map[string]bool // objName of package functions whose parameters are followed
	retIdx    map[string]int  // objName of function -> result index through which the value may be returned
	allowTrim bool            // utils.CrLfTrimString is an allowed transformation
	sinkNames map[string]bool // additional callees that are final sinks (default: appendToParam)
	strConst  constant.Value  // value of lang/types.String
	visitedFn map[*ssa.Function]bool
}

var c08Forbidden = map[string]string{
	"lang/expressions.NewParser":                "re-parses the value as murex source",
	"lang/expressions.(BlockT).ParseBlock":      "re-parses the value as a murex block",
	"lang/expressions.(ParserT).ParseStatement": "re-parses the value as a statement",
	"lang/expressions.ExpressionParser":         "re-parses the value as an expression",
	"lang/expressions.ExecuteExpr":              "evaluates the value as an expression",
	"lang/expressions.(ParserT).parseGlob":      "globs the value",
	"lang.(Fork).Execute":                       "executes the value as murex code",
	"path/filepath.Glob":                        "globs the value",
	"os/user.Lookup":                            "expands the value as a user name",
	"strings.Fields":                            "word-splits the value",
	"strings.FieldsFunc":                        "word-splits the value",
	"strings.Split":                             "splits the value",
	"strings.SplitN":                            "splits the value",
	"strings.Join":                              "joins elements into one argument",
	"strings.TrimSpace":                         "trims more than one trailing CR/LF",
	"strings.Trim":                              "trims the value",
	"strings.TrimRight":                         "trims the value",
	"strings.TrimSuffix":                        "trims the value",
	"strings.ToLower":                           "changes the value",
	"strings.ToUpper":                           "changes the value",
	"strings.Replace":                           "rewrites the value",
	"strings.ReplaceAll":                        "rewrites the value",
	"os.ExpandEnv":                              "expands $variables inside the value again",
	"os.Expand":                                 "expands $variables inside the value again",
}

func c08SSAName(fn *ssa.Function) string {
	if fn == nil {
		return ""
	}
	if o := fn.Object(); o != nil {
		n := objName(o)
		if o.Pkg() != nil && !strings.HasPrefix(o.Pkg().Path(), modPath) {
			// stdlib / third party: full import path
			n = o.Pkg().Path() + "." + strings.TrimPrefix(n, relPkg(o.Pkg().Path())+".")
		}
		return n
	}
	return fn.String()
}

func (f *c08Flow) taint(v ssa.Value) {
	if v == nil || f.tainted[v] {
		return
	}
	f.tainted[v] = true
	f.queue = append(f.queue, v)
}

func (f *c08Flow) taintExtract(tuple ssa.Value, idx int) {
	refs := tuple.Referrers()
	if refs == nil {
		return
	}
	for _, r := range *refs {
		if ex, ok := r.(*ssa.Extract); ok && ex.Index == idx {
			f.taint(ex)
		}
	}
}

func (f *c08Flow) problem(pos token.Pos, viol bool, keyPart, format string, a ...any) {
	f.problems = append(f.problems, c08Problem{pos, viol, fmt.Sprintf(format, a...), keyPart})
}

func (f *c08Flow) run() {
	for len(f.queue) > 0 {
		v := f.queue[0]
		f.queue = f.queue[1:]
		refs := v.Referrers()
		if refs == nil {
			continue
		}
		for _, in := range *refs {
			f.use(v, in)
		}
	}
}

func (f *c08Flow) use(v ssa.Value, in ssa.Instruction) {
	switch x := in.(type) {
	case *ssa.DebugRef, *ssa.If:
	case *ssa.Extract:
		// tuples are never tainted as a whole (taintExtract picks the index)
	case *ssa.TypeAssert:
		if x.CommaOk {
			f.taintExtract(x, 0)
		} else {
			f.taint(x)
		}
	case *ssa.Convert:
		f.taint(x)
	case *ssa.ChangeType:
		f.taint(x)
	case *ssa.ChangeInterface:
		f.taint(x)
	case *ssa.MakeInterface:
		f.taint(x)
	case *ssa.SliceToArrayPointer:
		f.taint(x)
	case *ssa.Phi:
		f.taint(x)
	case *ssa.Slice:
		if x.X == v {
			f.taint(x)
		}
	case *ssa.IndexAddr:
		if x.X == v {
			f.taint(x)
		}
	case *ssa.Index:
		if x.X == v {
			f.taint(x)
		}
	case *ssa.Lookup:
		if x.X == v {
			if x.CommaOk {
				f.taintExtract(x, 0)
			} else {
				f.taint(x)
			}
		}
	case *ssa.FieldAddr:
		f.taint(x)
	case *ssa.Field:
		f.taint(x)
	case *ssa.Range:
		f.taint(x)
	case *ssa.Next:
		f.taintExtract(x, 2)
	case *ssa.UnOp:
		if x.Op == token.MUL {
			f.taint(x)
		}
	case *ssa.BinOp:
		if x.Op == token.ADD {
			if b, ok := x.Type().Underlying().(*types.Basic); ok && b.Info()&types.IsString != 0 {
				f.problem(x.Pos(), true, "concat", "the value is concatenated with other text (%s) before it is used", x.String())
				f.taint(x)
			}
		}
	case *ssa.Store:
		if x.Val == v {
			if al, ok := x.Addr.(*ssa.Alloc); ok {
				f.taint(al) // loads of the local are tainted through UnOp(MUL)
			} else if ia, ok := x.Addr.(*ssa.IndexAddr); ok && c08IsAlloc(ia.X) {
				f.taint(ia.X) // element of a local array: the packing of a variadic call
			} else if c08IsParamTempAddr(x.Addr) {
				f.sinks++ // the body of appendToParam written out: st.paramTemp = append(st.paramTemp, v...)
			} else {
				f.problem(x.Pos(), false, "store", "the value is stored through %s — not a recognised way to the parameter", x.Addr.String())
			}
		}
	case *ssa.Return:
		fn := x.Parent()
		want, ok := f.retIdx[c08SSAName(fn)]
		for i, r := range x.Results {
			if r == v {
				if !ok || i != want {
					f.problem(x.Pos(), false, "return", "the value is returned by %s as result %d — outside the recognised accessor chain", c08SSAName(fn), i)
				} else {
					f.sinks++
				}
			}
		}
	case *ssa.Call:
		f.call(v, x, x.Common())
	case *ssa.Defer:
		f.call(v, x, x.Common())
	case *ssa.Go:
		f.call(v, x, x.Common())
	case *ssa.MakeClosure:
		f.problem(x.Pos(), false, "closure", "the value is captured by a closure")
	case *ssa.MapUpdate, *ssa.Send:
		f.problem(in.Pos(), false, "store", "the value is stored into a map/channel")
	default:
		f.problem(in.Pos(), false, "use", "unrecognised use of the value: %T %s", in, in.String())
	}
}

func (f *c08Flow) call(v ssa.Value, in ssa.Instruction, cc *ssa.CallCommon) {
	pos := in.Pos()
	if !pos.IsValid() {
		pos = cc.Pos()
	}
	if cc.Value == v && !cc.IsInvoke() {
		// the tainted value is itself called (closure result) — not an argument flow
		return
	}
	if cc.IsInvoke() {
		f.problem(pos, false, "call:"+cc.Method.Name(), "the value is passed to interface method %s", cc.Method.Name())
		return
	}
	if b, ok := cc.Value.(*ssa.Builtin); ok {
		switch b.Name() {
		case "len", "cap":
		case "append":
			if val, ok := in.(ssa.Value); ok {
				f.taint(val)
			}
		default:
			f.problem(pos, false, "call:"+b.Name(), "the value is passed to builtin %s", b.Name())
		}
		return
	}
	callee := cc.StaticCallee()
	if callee == nil {
		f.problem(pos, false, "call:dynamic", "the value is passed to a function value (%s)", cc.Value.String())
		return
	}
	name := c08SSAName(callee)
	argIdx := []int{}
	for i, a := range cc.Args {
		if a == v {
			argIdx = append(argIdx, i)
		}
	}
	val, _ := in.(ssa.Value)
	switch {
	case name == "lang/expressions.appendToParam" || f.sinkNames[name]:
		f.sinks++
		f.sinkAt = append(f.sinkAt, cc.Pos())
	case name == "lang/types.ConvertGoType":
		ok := false
		if len(cc.Args) == 2 {
			if k, isK := cc.Args[1].(*ssa.Const); isK && k.Value != nil && f.strConst != nil && constant.Compare(k.Value, token.EQL, f.strConst) {
				ok = true
			}
		}
		if !ok {
			f.problem(pos, true, "ConvertGoType", "the value is converted with ConvertGoType(…, %s), not to types.String: the argument is no longer the element's string form", cc.Args[len(cc.Args)-1].String())
		}
		if val != nil {
			f.taintExtract(val, 0)
		}
	case name == "utils.CrLfTrimString" && f.allowTrim:
		if val != nil {
			f.taint(val)
		}
	case f.follow[name]:
		for _, i := range argIdx {
			if i < len(callee.Params) {
				f.taint(callee.Params[i])
			}
		}
	default:
		if why, bad := c08Forbidden[name]; bad {
			f.problem(pos, true, "call:"+name, "the value is passed to %s, which %s", name, why)
		} else {
			f.problem(pos, false, "call:"+name, "the value is passed to %s — not one of the recognised steps (type assertion, string/[]rune conversion, element access, ConvertGoType(…, String), appendToParam)", name)
		}
	}
}

// c08IsParamTempAddr: the address of (expressions.StatementT).paramTemp — the slice appendToParam appends to.
func c08IsParamTempAddr(a ssa.Value) bool {
	fa, ok := a.(*ssa.FieldAddr)
	if !ok {
		return false
	}
	pt, ok := fa.X.Type().Underlying().(*types.Pointer)
	if !ok || namedPath(pt.Elem()) != c10StatementT {
		return false
	}
	st, ok := pt.Elem().Underlying().(*types.Struct)
	return ok && fa.Field < st.NumFields() && st.Field(fa.Field).Name() == "paramTemp"
}

func (c *Ctx) c08NewFlow() *c08Flow {
	f := &c08Flow{c: c, tainted: map[ssa.Value]bool{}, follow: map[string]bool{}, retIdx: map[string]int{}}
	if tp := c.Pkg("lang/types"); tp != nil {
		if k, ok := tp.Types.Scope().Lookup("String").(*types.Const); ok {
			f.strConst = k.Val()
		}
	}
	return f
}

// c08Sources finds, inside fn, calls of the named package functions and returns
// the Extract of result idx; for dynamic calls of a func-typed value whose named
// type is wantDyn, result 0.
func c08Sources(fn *ssa.Function, static map[string]int, wantDyn string) map[string][]ssa.Value {
	out := map[string][]ssa.Value{}
	for _, b := range fn.Blocks {
		for _, in := range b.Instrs {
			call, ok := in.(*ssa.Call)
			if !ok {
				continue
			}
			cc := call.Common()
			if cc.IsInvoke() {
				continue
			}
			if callee := cc.StaticCallee(); callee != nil {
				n := c08SSAName(callee)
				if idx, ok := static[n]; ok {
					if refs := call.Referrers(); refs != nil {
						for _, r := range *refs {
							if ex, ok := r.(*ssa.Extract); ok && ex.Index == idx {
								out[n] = append(out[n], ex)
							}
						}
					}
				}
				continue
			}
			if wantDyn != "" && namedPath(cc.Value.Type()) == wantDyn {
				if refs := call.Referrers(); refs != nil {
					for _, r := range *refs {
						if ex, ok := r.(*ssa.Extract); ok && ex.Index == 0 {
							out["fn()"] = append(out["fn()"], ex)
						}
					}
				}
			}
		}
	}
	return out
}

// ---------------------------------------------------------------- run

func runC08(c *Ctx) {
	c.Load(c08Pkg)
	pk := c.Pkg(c08Pkg)
	if pk == nil {
		c.Lost("R08a", "pkg", "lang/expressions not loaded")
		return
	}
	info := pk.TypesInfo

	c.Rule("R08a", "taint: result 1 of parseVarScalar / parseVarArray and the result of the sub-shell closures, inside parseStatement (followed into processStatementArrays), reach appendToParam and are used only by type assertion, conversion, element access, ConvertGoType(…, types.String); parseVarScalar, parseVarParenthesis and parseVarArray return the getVar/getArray result as their value result and use it for nothing else")
	c.Rule("R08b", "StatementT.possibleGlob is stored a non-false value only inside the case arms of '*' and '?' of parseStatement's main switch")
	c.Rule("R08c", "processStatementArrays: every slice-typed arm of the type switch ranges over the asserted slice and its loop body is straight-line: (conversions), one appendToParam, then one nextParameter, no branch that skips an element, and the function ends by flushing with nextParameter; the '$' arm of parseStatement never calls nextParameter, requests varAsString, and sets canHaveZeroLenStr where it appends the value")
	c.Rule("R08d", "getVar: where strOrVal == varAsString holds, the only calls are Variables.GetString(string(name)) and utils.CrLfTrimString applied once to that result, and its result is what is returned; utils.CrLfTrimString has no loop, no call other than len, and decrements its cut index at most once per CR and LF test")
	c.Rule("R08e", "zero-length elements: every element loop of processStatementArrays sets canHaveZeroLenStr before nextParameter (otherwise nextParameter drops the empty paramTemp and the command receives fewer arguments than the array has elements)")

	// ------------------------------------------------------------ R08a
	fdPS, _ := c.MustFunc("R08a", c08Pkg, "ParserT", "parseStatement")
	if fdPS != nil {
		fn := c.SSAFunc(pk, fdPS)
		if fn == nil {
			c.Lost("R08a", "ssa:parseStatement", "no SSA for parseStatement")
		} else {
			srcs := c08Sources(fn, map[string]int{
				"lang/expressions.(ParserT).parseVarScalar": 1,
				"lang/expressions.(ParserT).parseVarArray":  1,
			}, mx("lang/expressions/primitives")+".FunctionT")
			var names []string
			for n := range srcs {
				names = append(names, n)
			}
			sort.Strings(names)
			total := 0
			for _, n := range names {
				total += len(srcs[n])
				fl := c.c08NewFlow()
				fl.follow["lang/expressions.processStatementArrays"] = true
				for _, v := range srcs[n] {
					fl.taint(v)
				}
				fl.run()
				short := n[strings.LastIndex(n, ".")+1:]
				if short == "parseVarScalar" {
					c08ScalarSinks = fl.sinkAt
				}
				c.c08Report("R08a", "value:"+short+"@parseStatement", fdPS.Pos(), fl, fmt.Sprintf("value read by %s (%d call sites in parseStatement)", short, len(srcs[n])))
			}
			c.MinCount("R08a", "value sources in parseStatement (parseVarScalar, parseVarArray, sub-shell/function closures)", total, 5)
		}
	}
	// accessor chain
	type link struct {
		fn, src string
		srcIdx  int
		retIdx  int
	}
	for _, l := range []link{
		{"parseVarScalar", "lang/expressions.(ParserT).getVar", 0, 1},
		{"parseVarParenthesis", "lang/expressions.(ParserT).getVar", 0, 1},
		{"parseVarArray", "lang/expressions.(ParserT).getArray", 0, 1},
	} {
		fd, _ := c.MustFunc("R08a", c08Pkg, "ParserT", l.fn)
		if fd == nil {
			continue
		}
		fn := c.SSAFunc(pk, fd)
		if fn == nil {
			c.Lost("R08a", "ssa:"+l.fn, "no SSA for %s", l.fn)
			continue
		}
		srcs := c08Sources(fn, map[string]int{l.src: l.srcIdx}, "")
		fl := c.c08NewFlow()
		fl.retIdx["lang/expressions.(ParserT)."+l.fn] = l.retIdx
		for _, v := range srcs[l.src] {
			fl.taint(v)
		}
		fl.run()
		short := l.src[strings.LastIndex(l.src, ".")+1:]
		key := "link:" + l.fn + "<-" + short
		if len(srcs[l.src]) == 0 {
			c.Viol("R08a", key, fd.Pos(), "%s no longer calls %s: the value it returns for `$name`/`@name` comes from somewhere else", l.fn, short)
			continue
		}
		c.c08Report("R08a", key, fd.Pos(), fl, fmt.Sprintf("%s result returned by %s as its value result", short, l.fn))
	}

	// ------------------------------------------------------------ R08b
	c.c08PossibleGlob(info)

	// ------------------------------------------------------------ R08c / R08e
	c.c08Arrays(info)
	c.c08ScalarArm(info)

	// ------------------------------------------------------------ R08d
	c.c08GetVar(info)
	c.c08Trim()

	// ------------------------------------------------------------ R08f
	c.Rule("R08f", "the parameter store keeps every rune: appendToParam is exactly paramTemp = append(paramTemp, r...); nextParameter appends paramTemp itself to parameters (or, in the possibleGlob clause, the converted glob matches), clears possibleGlob where it consumes it, resets paramTemp afterwards, and leaves early only for an empty paramTemp or an error; StatementT.Parameters converts each stored parameter with string() and nothing else")
	c.c08Store(info)
}

func (c *Ctx) c08Report(rule, key string, pos token.Pos, fl *c08Flow, what string) {
	if len(fl.problems) == 0 {
		if fl.sinks == 0 {
			c.Viol(rule, key, pos, "%s never reaches appendToParam / the value result: the argument is built from something other than the variable's value", what)
			return
		}
		c.OK(rule, key, pos, "%s: reaches its sink %d× through assertion/conversion/element access only (%d SSA values)", what, fl.sinks, len(fl.tainted))
		return
	}
	// one obligation per distinct problem kind so that each is named
	seen := map[string]bool{}
	for _, p := range fl.problems {
		k := key + ":" + p.keyPart
		if seen[k] {
			continue
		}
		seen[k] = true
		if p.viol {
			c.Viol(rule, k, p.pos, "%s: %s — the argument is not the variable's value verbatim", what, p.msg)
		} else {
			c.Undecided(rule, k, p.pos, "%s: %s", what, p.msg)
		}
	}
}

// ---------------------------------------------------------------- R08b

func (c *Ctx) c08PossibleGlob(info *types.Info) {
	pk := c.Pkg(c08Pkg)
	p := c.c10FindParser("R08b")
	n := 0
	eachFunc(pk, func(fd *ast.FuncDecl) {
		walkStack(fd.Body, func(nd ast.Node, stack []ast.Node) bool {
			as, ok := nd.(*ast.AssignStmt)
			if !ok {
				return true
			}
			for i, l := range as.Lhs {
				if !isField(info, l, c10StatementT, "possibleGlob") {
					continue
				}
				n++
				if i < len(as.Rhs) && len(as.Rhs) == len(as.Lhs) {
					if b, ok := constBool(info, as.Rhs[i]); ok && !b {
						c.OK("R08b", fmt.Sprintf("possibleGlob=false@%s", fd.Name.Name), as.Pos(), "glob state cleared in %s", fd.Name.Name)
						continue
					}
				}
				// must sit in the '*' / '?' clause of the main switch
				var runes []rune
				inMain := false
				if p != nil {
					for _, a := range stack {
						if cc, ok := a.(*ast.CaseClause); ok {
							for _, st := range p.main.Body.List {
								if st == ast.Stmt(cc) {
									inMain = true
									for _, x := range cc.List {
										if k, ok := constInt(info, x); ok {
											runes = append(runes, rune(k))
										}
									}
								}
							}
						}
					}
				}
				good := inMain && len(runes) > 0
				for _, r := range runes {
					if r != '*' && r != '?' {
						good = false
					}
				}
				where := fd.Name.Name
				if inMain {
					where = fmt.Sprintf("arm %q", string(runes))
				}
				c.Check(good, "R08b", "possibleGlob:"+where, as.Pos(), "glob expansion is armed (%s) in %s; it may only be armed by a literal `*` or `?` in the source, otherwise the text of a `$variable`/`@array` in the same parameter is globbed", c.src(as), where)
			}
			return true
		})
	})
	c.MinCount("R08b", "stores to StatementT.possibleGlob", n, 4)
}

// ---------------------------------------------------------------- R08c / R08e

func (c *Ctx) c08Arrays(info *types.Info) {
	fd, _ := c.MustFunc("R08c", c08Pkg, "", "processStatementArrays")
	if fd == nil {
		return
	}
	var ts *ast.TypeSwitchStmt
	ast.Inspect(fd.Body, func(n ast.Node) bool {
		if t, ok := n.(*ast.TypeSwitchStmt); ok && ts == nil {
			ts = t
		}
		return true
	})
	if ts == nil {
		c.Undecided("R08c", "arrays:type-switch", fd.Pos(), "processStatementArrays has no type switch over the array value")
		return
	}
	isCall := func(e ast.Expr, recv, name string) *ast.CallExpr {
		call, ok := unparen(e).(*ast.CallExpr)
		if ok && callIs(info, call, mx(c08Pkg), recv, name) {
			return call
		}
		return nil
	}
	// nextParameter as a statement: `tree.nextParameter()` or `if err := tree.nextParameter(); err != nil { return err }`
	isNextParamStmt := func(s ast.Stmt) bool {
		switch v := s.(type) {
		case *ast.ExprStmt:
			return isCall(v.X, "ParserT", "nextParameter") != nil
		case *ast.IfStmt:
			if as, ok := v.Init.(*ast.AssignStmt); ok && len(as.Rhs) == 1 && isCall(as.Rhs[0], "ParserT", "nextParameter") != nil && v.Else == nil {
				return terminates(info, v.Body.List) && len(calls(v.Body, true)) == 0
			}
		case *ast.AssignStmt:
			return len(v.Rhs) == 1 && isCall(v.Rhs[0], "ParserT", "nextParameter") != nil
		}
		return false
	}
	isErrReturn := func(s ast.Stmt) bool {
		is, ok := s.(*ast.IfStmt)
		if !ok || is.Init != nil || is.Else != nil || len(is.Body.List) != 1 {
			return false
		}
		_, isRet := is.Body.List[0].(*ast.ReturnStmt)
		_, op, isCmp := c08NilCmp(info, is.Cond) // `err != nil` or `nil != err`
		if !isRet || !isCmp || op != token.NEQ {
			return false
		}
		return len(calls(is, true)) == 0
	}
	nLoops := 0
	zeroLoops := 0
	var zeroMissing []string
	var zeroPos token.Pos
	for _, st := range ts.Body.List {
		cc := st.(*ast.CaseClause)
		tobj := info.Implicits[cc]
		for _, tx := range cc.List {
			T := info.TypeOf(tx)
			if T == nil {
				continue
			}
			tname := types.TypeString(T, func(p *types.Package) string { return p.Name() })
			if _, isSlice := T.Underlying().(*types.Slice); !isSlice {
				c.Info("R08c processStatementArrays arm %s is not a slice arm (no per-element obligation); today no producer yields it", tname)
				continue
			}
			key := "elemloop:" + tname
			var loop *ast.RangeStmt
			nTop := 0
			for _, s := range cc.Body {
				if r, ok := s.(*ast.RangeStmt); ok {
					loop = r
					nTop++
				}
			}
			if loop == nil || nTop != 1 || len(cc.Body) != 1 {
				c.Viol("R08c", key, cc.Pos(), "the %s arm of processStatementArrays is not a single loop over the elements (found %d range statements among %d statements): it does not emit one parameter per element", tname, nTop, len(cc.Body))
				continue
			}
			nLoops++
			if id, ok := unparen(loop.X).(*ast.Ident); !ok || info.ObjectOf(id) != tobj || tobj == nil {
				c.Viol("R08c", key, loop.Pos(), "the %s arm ranges over %s, not over the asserted array itself: elements are skipped or repeated", tname, c.src(loop.X))
				continue
			}
			appendIdx, nextIdx, nApp, nNext, zeroIdx := -1, -1, 0, 0, -1
			bad := ""
			for i, s := range loop.Body.List {
				switch {
				case isNextParamStmt(s):
					nNext++
					nextIdx = i
				case isErrReturn(s):
				default:
					switch v := s.(type) {
					case *ast.ExprStmt:
						if isCall(v.X, "", "appendToParam") != nil {
							nApp++
							appendIdx = i
							continue
						}
						bad = c.src(s)
					case *ast.AssignStmt:
						if len(v.Lhs) == 1 && isField(info, v.Lhs[0], c10StatementT, "canHaveZeroLenStr") {
							if b, ok := constBool(info, v.Rhs[0]); ok && b {
								zeroIdx = i
							}
							continue
						}
						for _, call := range calls(v, true) {
							if tv, ok := info.Types[call.Fun]; ok && tv.IsType() {
								continue
							}
							if callIs(info, call, mx("lang/types"), "", "ConvertGoType") {
								continue
							}
							bad = c.src(s)
						}
					default:
						bad = c.src(s)
					}
				}
			}
			// no branch statement anywhere in the loop body
			ast.Inspect(loop.Body, func(n ast.Node) bool {
				if b, ok := n.(*ast.BranchStmt); ok {
					bad = "`" + c.src(b) + "` skips elements"
				}
				return true
			})
			switch {
			case bad != "":
				c.Undecided("R08c", key, loop.Pos(), "loop body of the %s arm contains a statement outside the recognised straight-line form (conversions; appendToParam; nextParameter; error returns): %s", tname, bad)
			case nApp != 1 || nNext != 1 || appendIdx > nextIdx:
				c.Viol("R08c", key, loop.Pos(), "loop body of the %s arm has %d appendToParam and %d nextParameter (append@%d next@%d): each element must be appended once and closed by exactly one nextParameter, otherwise elements are merged into one argument or split", tname, nApp, nNext, appendIdx, nextIdx)
			default:
				c.OK("R08c", key, loop.Pos(), "each %s element: appendToParam then nextParameter, no skip path", tname)
			}
			// R08e (one obligation for the function: the arms share one producer contract)
			if nNext == 1 {
				zeroLoops++
				if !(zeroIdx >= 0 && zeroIdx < nextIdx) {
					zeroMissing = append(zeroMissing, tname)
					if !zeroPos.IsValid() {
						zeroPos = loop.Pos()
					}
				}
			}
		}
	}
	c.MinCount("R08c", "element loops in processStatementArrays", nLoops, 4)
	if zeroLoops > 0 {
		if len(zeroMissing) == 0 {
			c.OK("R08e", "zero-len:elements", ts.Pos(), "all %d element loops set canHaveZeroLenStr before nextParameter", zeroLoops)
		} else {
			c.Viol("R08e", "zero-len:elements", zeroPos, "the element loops of processStatementArrays for %s do not set canHaveZeroLenStr before nextParameter: a zero-length element leaves paramTemp empty, nextParameter emits nothing, and `@array` passes fewer arguments than the array has elements (`a = %%[a \"\" b]; f @a` calls f with 2 parameters)", strings.Join(zeroMissing, ", "))
		}
	}
	// flush at the end
	last := fd.Body.List[len(fd.Body.List)-1]
	okFlush := false
	if rs, ok := last.(*ast.ReturnStmt); ok && len(rs.Results) == 1 {
		if isCall(rs.Results[0], "ParserT", "nextParameter") != nil {
			okFlush = true
		} else if id, ok := unparen(rs.Results[0]).(*ast.Ident); ok {
			// `err := tree.nextParameter(); …; return err`: the returned local has exactly one
			// definition, and that definition is an unconditional (top-level) statement of the function
			o := info.ObjectOf(id)
			if ds := localDefs(info, fd.Body)[o]; o != nil && len(ds) == 1 && ds[0] != nil && isCall(ds[0], "ParserT", "nextParameter") != nil {
				for _, s := range fd.Body.List {
					if as, ok := s.(*ast.AssignStmt); ok && len(as.Rhs) == 1 && as.Rhs[0] == ds[0] {
						okFlush = true
					}
				}
			}
		}
	}
	c.Check(okFlush, "R08c", "arrays:flush", last.Pos(), "processStatementArrays ends with `return tree.nextParameter()` so that a non-array value (default arm) still closes its parameter")
}

func (c *Ctx) c08ScalarArm(info *types.Info) {
	p := c.c10FindParser("R08c")
	if p == nil {
		return
	}
	var arm *ast.CaseClause
	for _, st := range p.main.Body.List {
		cc := st.(*ast.CaseClause)
		for _, x := range cc.List {
			if k, ok := constInt(info, x); ok && k == '$' {
				arm = cc
			}
		}
	}
	if arm == nil {
		c.Lost("R08c", "scalar-arm", "no case '$' in parseStatement's main switch")
		return
	}
	nNext := 0
	for _, s := range arm.Body {
		for _, call := range calls(s, true) {
			if callIs(info, call, mx(c08Pkg), "ParserT", "nextParameter") {
				nNext++
			}
		}
	}
	c.Check(nNext == 0, "R08c", "scalar-arm:no-nextParameter", arm.Pos(), "the '$' arm of parseStatement calls nextParameter %d× (must be 0: a scalar is appended into the current parameter and never closed/split by the arm itself)", nNext)
	// the parseVarScalar call asks for string formatting
	nCalls := 0
	for _, s := range arm.Body {
		ast.Inspect(s, func(n ast.Node) bool {
			as, ok := n.(*ast.AssignStmt)
			if !ok || len(as.Rhs) != 1 {
				return true
			}
			call, ok := unparen(as.Rhs[0]).(*ast.CallExpr)
			if !ok || !callIs(info, call, mx(c08Pkg), "ParserT", "parseVarScalar") {
				return true
			}
			nCalls++
			good := false
			if len(call.Args) == 3 {
				if k, ok := constInt(info, call.Args[2]); ok {
					if want, ok := c.Pkg(c08Pkg).Types.Scope().Lookup("varAsString").(*types.Const); ok {
						if w, ok := constant.Int64Val(want.Val()); ok && w == k {
							good = true
						}
					}
				}
			}
			c.Check(good, "R08c", "scalar-arm:varAsString", call.Pos(), "the '$' arm reads the variable with formatting %s (must be the constant varAsString: only then getVar returns the string form that is appended)", c.src(call.Args[len(call.Args)-1]))
			return true
		})
	}
	c.MinCount("R08c", "parseVarScalar calls in the '$' arm", nCalls, 1)
	// where v is appended, canHaveZeroLenStr = true is set in the same statement list
	found, good := 0, 0
	for _, s := range arm.Body {
		walkStack(s, func(n ast.Node, stack []ast.Node) bool {
			call, ok := n.(*ast.CallExpr)
			if !ok || !callIs(info, call, mx(c08Pkg), "", "appendToParam") {
				return true
			}
			uses := false
			for _, p := range c08ScalarSinks {
				if p == call.Lparen {
					uses = true // the SSA flow of R08a reaches this call with the variable's value
				}
			}
			if !uses {
				return true
			}
			found++
			var list []ast.Stmt
			for i := len(stack) - 1; i >= 0 && list == nil; i-- {
				switch b := stack[i].(type) {
				case *ast.BlockStmt:
					list = b.List
				case *ast.CaseClause:
					list = b.Body
				}
			}
			for _, st := range list {
				if as, ok := st.(*ast.AssignStmt); ok && len(as.Lhs) == 1 && len(as.Rhs) == 1 && isField(info, as.Lhs[0], c10StatementT, "canHaveZeroLenStr") {
					if b, ok := constBool(info, as.Rhs[0]); ok && b {
						good++
					}
				}
			}
			return true
		})
	}
	if found == 0 {
		c.Viol("R08c", "scalar-arm:zero-len", arm.Pos(), "the '$' arm never appends the value result of parseVarScalar")
	} else {
		c.Check(good == found, "R08c", "scalar-arm:zero-len", arm.Pos(), "where the '$' arm appends the variable's value it sets canHaveZeroLenStr (%d of %d sites); without it an empty variable yields no argument instead of one empty argument", good, found)
	}
}

// ---------------------------------------------------------------- R08d

func (c *Ctx) c08GetVar(info *types.Info) {
	fd, _ := c.MustFunc("R08d", c08Pkg, "ParserT", "getVar")
	if fd == nil {
		return
	}
	// parameters: name []rune, strOrVal varFormatting
	var fmtObj, nameObj types.Object
	for _, fl := range fd.Type.Params.List {
		for _, n := range fl.Names {
			o := info.Defs[n]
			if namedName(o.Type()) == "varFormatting" {
				fmtObj = o
			} else if _, ok := o.Type().Underlying().(*types.Slice); ok {
				nameObj = o
			}
		}
	}
	if fmtObj == nil || nameObj == nil {
		c.Undecided("R08d", "getVar:shape", fd.Pos(), "getVar has no (name []rune, strOrVal varFormatting) parameters")
		return
	}
	asString := int64(0)
	if k, ok := c.Pkg(c08Pkg).Types.Scope().Lookup("varAsString").(*types.Const); ok {
		asString, _ = constant.Int64Val(k.Val())
	}
	// does the set of guards at a node imply strOrVal == varAsString?
	inStringArm := func(stack []ast.Node) (bool, bool) { // (implied, excluded)
		implied, excluded := false, false
		for _, g := range guardsAt(info, stack) {
			if g.Tag != nil {
				if id, ok := unparen(g.Tag).(*ast.Ident); ok && info.ObjectOf(id) == fmtObj {
					has := false
					for _, cx := range g.Cases {
						if k, ok := constInt(info, cx); ok && k == asString {
							has = true
						}
					}
					if !g.Neg && has && len(g.Cases) == 1 {
						implied = true
					}
					if (!g.Neg && !has) || (g.Neg && has) {
						excluded = true
					}
				}
			}
		}
		for _, f := range factsOf(guardsAt(info, stack)) {
			x, op, k, ok := cmpNorm(info, f.E)
			if !ok {
				continue
			}
			id, isId := x.(*ast.Ident)
			if !isId || info.ObjectOf(id) != fmtObj {
				continue
			}
			pr := intPred(op, k)
			holds := pr(asString)
			if !f.True {
				holds = !holds
			}
			// the enum has two values {0,1}
			other := 1 - asString
			holdsOther := pr(other)
			if !f.True {
				holdsOther = !holdsOther
			}
			if holds && !holdsOther {
				implied = true
			}
			if !holds {
				excluded = true
			}
		}
		return implied, excluded
	}
	var stringCalls []*ast.CallExpr
	var armList []ast.Stmt
	walkStack(fd.Body, func(n ast.Node, stack []ast.Node) bool {
		call, ok := n.(*ast.CallExpr)
		if !ok {
			return true
		}
		if tv, ok := info.Types[call.Fun]; ok && tv.IsType() {
			return true
		}
		imp, exc := inStringArm(stack)
		if imp && !exc {
			stringCalls = append(stringCalls, call)
			if armList == nil {
				for i := len(stack) - 1; i >= 0; i-- {
					if b, ok := stack[i].(*ast.BlockStmt); ok {
						if i > 0 {
							if _, isIf := stack[i-1].(*ast.IfStmt); isIf {
								armList = b.List
							}
						}
					}
					if cc, ok := stack[i].(*ast.CaseClause); ok {
						armList = cc.Body
					}
				}
			}
		}
		return true
	})
	if len(stringCalls) == 0 {
		c.Undecided("R08d", "getVar:string-arm", fd.Pos(), "no call in getVar is guarded by strOrVal == varAsString (recognised: if/else or switch on the parameter)")
		return
	}
	var getStr, trim *ast.CallExpr
	var others []string
	nGet, nTrim := 0, 0
	for _, call := range stringCalls {
		switch {
		case callIs(info, call, mx("lang"), "Variables", "GetString"):
			getStr = call
			nGet++
		case callIs(info, call, mx("utils"), "", "CrLfTrimString"):
			trim = call
			nTrim++
		default:
			if _, ok := isBuiltinCall(info, call, "len"); ok {
				continue
			}
			others = append(others, calleeName(info, call))
		}
	}
	pos := stringCalls[0].Pos()
	if len(others) > 0 {
		c.Viol("R08d", "getVar:string-arm", pos, "the varAsString arm of getVar also calls %s: the string handed to the command is no longer GetString(name) minus one trailing CR/LF", strings.Join(others, ", "))
		return
	}
	if nGet != 1 || nTrim > 1 {
		c.Viol("R08d", "getVar:string-arm", pos, "the varAsString arm of getVar calls Variables.GetString %d× and CrLfTrimString %d× (expected 1 and at most 1): more than one trailing CR/LF is removed or the value is not read", nGet, nTrim)
		return
	}
	// GetString(string(name))
	argOK := false
	if len(getStr.Args) == 1 {
		a := localDefs(info, fd.Body).resolve1(info, getStr.Args[0])
		if conv, ok := a.(*ast.CallExpr); ok && len(conv.Args) == 1 {
			if id, ok := unparen(conv.Args[0]).(*ast.Ident); ok && info.ObjectOf(id) == nameObj {
				argOK = true
			}
		}
	}
	c.Check(argOK, "R08d", "getVar:name", getStr.Pos(), "getVar reads Variables.GetString(string(name)) for exactly the name it was given (got %s)", c.src(getStr.Args[0]))
	// data flow: x, err = GetString(..); y = CrLfTrimString(x | x.(string)); y (x when there is no trim) is what is
	// returned as result 0. x and y may be the same variable (`value`) or two (`s, err := GetString(..); value = Trim(s)`);
	// the trimmed value may also be returned directly (`return CrLfTrimString(x), …`).
	isObj := func(e ast.Expr, o types.Object) bool {
		id, ok := unparen(e).(*ast.Ident)
		return ok && o != nil && info.ObjectOf(id) == o
	}
	var valObj types.Object
	ast.Inspect(fd.Body, func(n ast.Node) bool {
		if as, ok := n.(*ast.AssignStmt); ok && len(as.Rhs) == 1 && unparen(as.Rhs[0]) == ast.Expr(getStr) && len(as.Lhs) == 2 {
			if id, ok := as.Lhs[0].(*ast.Ident); ok {
				valObj = info.ObjectOf(id)
			}
		}
		return true
	})
	flowOK := valObj != nil
	why := ""
	if !flowOK {
		why = "GetString's result is not assigned to a variable"
	}
	outObj := valObj      // the variable that carries the final string
	trimReturned := false // `return CrLfTrimString(x), …` inside the arm
	if flowOK && trim != nil {
		// trim's argument is valObj (possibly through a type assertion) and its result is assigned to a variable or returned
		argIs := false
		if len(trim.Args) == 1 {
			a := unparen(trim.Args[0])
			if ta, ok := a.(*ast.TypeAssertExpr); ok {
				a = unparen(ta.X)
			}
			argIs = isObj(a, valObj)
		}
		back := false
		ast.Inspect(fd.Body, func(n ast.Node) bool {
			switch v := n.(type) {
			case *ast.AssignStmt:
				if len(v.Rhs) == 1 && len(v.Lhs) == 1 && unparen(v.Rhs[0]) == ast.Expr(trim) {
					if id, ok := v.Lhs[0].(*ast.Ident); ok && info.ObjectOf(id) != nil {
						outObj = info.ObjectOf(id)
						back = true
					}
				}
			case *ast.ReturnStmt:
				if len(v.Results) == 3 && unparen(v.Results[0]) == ast.Expr(trim) {
					trimReturned = true
					back = true
				}
			}
			return true
		})
		if !argIs || !back {
			flowOK = false
			why = "CrLfTrimString is not applied to GetString's result and stored back (" + c.src(trim) + ")"
		}
	}
	if flowOK {
		// stores to valObj / outObj inside the arm: only those two; the arm's non-error exit reaches a return of outObj
		for _, s := range armList {
			ast.Inspect(s, func(n ast.Node) bool {
				if as, ok := n.(*ast.AssignStmt); ok {
					for _, l := range as.Lhs {
						if isObj(l, valObj) || isObj(l, outObj) {
							r := unparen(as.Rhs[0])
							if r != ast.Expr(getStr) && (trim == nil || r != ast.Expr(trim)) {
								flowOK = false
								why = "the value is overwritten in the varAsString arm: " + c.src(as)
							}
						}
					}
				}
				return true
			})
		}
		// the last return of the function returns outObj as result 0
		last := fd.Body.List[len(fd.Body.List)-1]
		rs, ok := last.(*ast.ReturnStmt)
		retOK := false
		if ok && len(rs.Results) == 3 && !trimReturned {
			retOK = isObj(rs.Results[0], outObj)
		}
		// or a return inside the arm itself
		for _, s := range armList {
			if rs, ok := s.(*ast.ReturnStmt); ok && len(rs.Results) == 3 {
				if (!trimReturned && isObj(rs.Results[0], outObj)) || (trimReturned && unparen(rs.Results[0]) == ast.Expr(trim)) {
					retOK = true
				} else {
					retOK = false
					why = "the varAsString arm returns " + c.src(rs.Results[0])
				}
			}
		}
		// statements after the if/switch that store outObj
		if retOK && !trimReturned {
			for _, s := range fd.Body.List {
				if as, ok := s.(*ast.AssignStmt); ok {
					for _, l := range as.Lhs {
						if isObj(l, outObj) {
							retOK = false
							why = "the value is overwritten after the arm: " + c.src(as)
						}
					}
				}
			}
		}
		if !retOK {
			flowOK = false
			if why == "" {
				why = "getVar does not return the trimmed value as result 0"
			}
		}
	}
	c.Check(flowOK, "R08d", "getVar:string-arm", pos, "varAsString arm of getVar: value = GetString(name); value = CrLfTrimString(value) (at most once); returned as result 0 %s", why)
}

func (c *Ctx) c08Trim() {
	fd, pk := c.MustFunc("R08d", "utils", "", "CrLfTrimString")
	if fd == nil {
		return
	}
	info := pk.TypesInfo
	var sObj types.Object
	if len(fd.Type.Params.List) == 1 && len(fd.Type.Params.List[0].Names) == 1 {
		sObj = info.Defs[fd.Type.Params.List[0].Names[0]]
	}
	bad := ""
	seen := map[rune]int{}
	var iObj types.Object
	// one decrement of the cut index: must be guarded by s[i-1] == K (either operand order)
	decrement := func(id *ast.Ident, v ast.Stmt, stack []ast.Node) {
		if iObj == nil {
			iObj = info.ObjectOf(id)
		} else if iObj != info.ObjectOf(id) {
			bad = "two cut indexes"
		}
		found := false
		for _, f := range factsOf(guardsAt(info, stack)) {
			b, ok := unparen(f.E).(*ast.BinaryExpr)
			if !ok || b.Op != token.EQL || !f.True {
				continue
			}
			lhs, rhs := b.X, b.Y
			if _, isIx := unparen(lhs).(*ast.IndexExpr); !isIx {
				lhs, rhs = rhs, lhs // 'K' == s[i-1]
			}
			ix, ok := unparen(lhs).(*ast.IndexExpr)
			if !ok {
				continue
			}
			k, okK := constInt(info, rhs)
			sid, okS := unparen(ix.X).(*ast.Ident)
			if !okK || !okS || info.ObjectOf(sid) != sObj {
				continue
			}
			// index is i-1
			if be, ok := unparen(ix.Index).(*ast.BinaryExpr); ok && be.Op == token.SUB {
				if one, ok := constInt(info, be.Y); ok && one == 1 {
					if iid, ok := unparen(be.X).(*ast.Ident); ok && info.ObjectOf(iid) == info.ObjectOf(id) {
						found = true
						seen[rune(k)]++
					}
				}
			}
		}
		if !found {
			bad = "decrement " + c.src(v) + " is not guarded by s[i-1] == '\\n' / '\\r'"
		}
	}
	walkStack(fd.Body, func(n ast.Node, stack []ast.Node) bool {
		switch v := n.(type) {
		case *ast.ForStmt, *ast.RangeStmt:
			bad = "contains a loop: more than one trailing CR/LF can be removed"
		case *ast.CallExpr:
			if _, ok := isBuiltinCall(info, v, "len"); !ok {
				if tv, ok := info.Types[v.Fun]; !ok || !tv.IsType() {
					bad = "calls " + c.src(v.Fun)
				}
			}
		case *ast.IncDecStmt:
			id, ok := unparen(v.X).(*ast.Ident)
			if !ok || v.Tok != token.DEC {
				bad = "unrecognised update " + c.src(v)
				return true
			}
			decrement(id, v, stack)
		case *ast.AssignStmt:
			// `i -= 1` is the same decrement as `i--`
			if v.Tok == token.SUB_ASSIGN && len(v.Lhs) == 1 && len(v.Rhs) == 1 {
				if one, ok := constInt(info, v.Rhs[0]); ok && one == 1 {
					if id, ok := unparen(v.Lhs[0]).(*ast.Ident); ok {
						decrement(id, v, stack)
						return true
					}
				}
			}
			if v.Tok != token.DEFINE {
				bad = "assignment " + c.src(v)
			}
		case *ast.SliceExpr:
			// s[:i] (or s[0:i]) only
			sid, ok := unparen(v.X).(*ast.Ident)
			lowOK := v.Low == nil
			if !lowOK {
				if z, ok := constInt(info, v.Low); ok && z == 0 {
					lowOK = true
				}
			}
			if !ok || info.ObjectOf(sid) != sObj || !lowOK || v.High == nil || v.Slice3 {
				bad = "returns " + c.src(v) + " (only s[:i] keeps the front of the value)"
			}
		}
		return true
	})
	for r, n := range seen {
		if r != '\n' && r != '\r' {
			bad = fmt.Sprintf("removes a trailing %q", string(r))
		}
		if n > 1 {
			bad = fmt.Sprintf("removes %q more than once", string(r))
		}
	}
	c.Check(bad == "", "R08d", "CrLfTrimString:shape", fd.Pos(), "utils.CrLfTrimString removes at most one trailing LF and one trailing CR and keeps the front of the string %s", bad)
}

// ---------------------------------------------------------------- R08f

func (c *Ctx) c08Store(info *types.Info) {
	// appendToParam
	if fd, _ := c.MustFunc("R08f", c08Pkg, "", "appendToParam"); fd != nil {
		good, why := false, "body is not a single assignment"
		var variadic types.Object
		if n := len(fd.Type.Params.List); n > 0 {
			last := fd.Type.Params.List[n-1]
			if _, ok := last.Type.(*ast.Ellipsis); ok && len(last.Names) == 1 {
				variadic = info.Defs[last.Names[0]]
			}
		}
		// leading `st := tree.statement` style aliases (pointer-typed local := selector chain, no call) are transparent:
		// the store below is resolved through go/types to the StatementT field, not through the spelling
		body := fd.Body.List
		for len(body) > 1 {
			as, ok := body[0].(*ast.AssignStmt)
			if !ok || as.Tok != token.DEFINE || len(as.Lhs) != 1 || len(as.Rhs) != 1 || selPath(as.Rhs[0]) == "" {
				break
			}
			id, ok := as.Lhs[0].(*ast.Ident)
			if !ok {
				break
			}
			if _, isPtr := info.TypeOf(id).(*types.Pointer); !isPtr {
				break
			}
			body = body[1:]
		}
		if len(body) == 1 {
			if as, ok := body[0].(*ast.AssignStmt); ok && as.Tok == token.ASSIGN && len(as.Lhs) == 1 && len(as.Rhs) == 1 && isField(info, as.Lhs[0], c10StatementT, "paramTemp") {
				if call, ok := isBuiltinCall(info, as.Rhs[0], "append"); ok && len(call.Args) == 2 && call.Ellipsis.IsValid() && isField(info, call.Args[0], c10StatementT, "paramTemp") && c.sameExpr(call.Args[0], as.Lhs[0]) {
					if id, ok := unparen(call.Args[1]).(*ast.Ident); ok && variadic != nil && info.ObjectOf(id) == variadic {
						good = true
					} else {
						why = "appends " + c.src(call.Args[1]) + ", not its whole variadic parameter"
					}
				} else {
					why = "is not paramTemp = append(paramTemp, r...): " + c.src(as)
				}
			}
		}
		if good {
			c.OK("R08f", "appendToParam:verbatim", fd.Pos(), "appendToParam appends its whole variadic parameter to paramTemp")
		} else {
			c.Viol("R08f", "appendToParam:verbatim", fd.Pos(), "appendToParam %s — runes of a variable's value (and of every other parameter) are dropped or changed on their way into the parameter", why)
		}
	}
	// nextParameter
	if fd, _ := c.MustFunc("R08f", c08Pkg, "ParserT", "nextParameter"); fd != nil {
		isF := func(e ast.Expr, name string) bool {
			e = unparen(e)
			if isField(info, e, c10StatementT, name) {
				return true
			}
			return false
		}
		globGuard := func(stack []ast.Node) bool {
			for _, g := range guardsAt(info, stack) {
				if g.Cond != nil && !g.Neg && isF(g.Cond, "possibleGlob") {
					return true
				}
			}
			return false
		}
		nApp := 0
		walkStack(fd.Body, func(n ast.Node, stack []ast.Node) bool {
			as, ok := n.(*ast.AssignStmt)
			if !ok || len(as.Lhs) != 1 || len(as.Rhs) != 1 || !isF(as.Lhs[0], "parameters") {
				return true
			}
			nApp++
			key := "nextParameter:append#" + itoa(nApp)
			call, ok := isBuiltinCall(info, as.Rhs[0], "append")
			if !ok || len(call.Args) != 2 || call.Ellipsis.IsValid() || !isF(call.Args[0], "parameters") {
				c.Viol("R08f", key, as.Pos(), "nextParameter stores parameters with %s (recognised: parameters = append(parameters, paramTemp))", c.src(as))
				return true
			}
			arg := unparen(call.Args[1])
			switch {
			case isF(arg, "paramTemp"):
				c.OK("R08f", key, as.Pos(), "the collected runes are stored as the parameter unchanged")
			case globGuard(stack):
				// []rune(v[i]) or []rune(m) inside `for _, m := range v`, with v the result of parseGlob
				good := false
				fromGlob := func(x ast.Expr) bool {
					id, ok := unparen(x).(*ast.Ident)
					if !ok {
						return false
					}
					is := false
					// v, err := tree.parseGlob(...)
					ast.Inspect(fd.Body, func(m ast.Node) bool {
						if das, ok := m.(*ast.AssignStmt); ok && len(das.Rhs) == 1 && len(das.Lhs) == 2 {
							if dc, ok := unparen(das.Rhs[0]).(*ast.CallExpr); ok && callIs(info, dc, mx(c08Pkg), "ParserT", "parseGlob") {
								if did, ok := das.Lhs[0].(*ast.Ident); ok && info.ObjectOf(did) == info.ObjectOf(id) {
									is = true
								}
							}
						}
						return true
					})
					return is
				}
				if conv, ok := arg.(*ast.CallExpr); ok && len(conv.Args) == 1 {
					if tv, ok := info.Types[conv.Fun]; ok && tv.IsType() {
						good = c08RangeElem(info, conv.Args[0], stack, fromGlob)
					}
				}
				c.Check(good, "R08f", key, as.Pos(), "in the possibleGlob clause the stored parameters are the converted matches of parseGlob (got %s)", c.src(arg))
			default:
				if fv, owner := fieldOf(info, arg); fv != nil && owner == c10StatementT {
					c.Viol("R08f", key, as.Pos(), "nextParameter stores %s instead of the collected runes paramTemp: the argument is not what was appended for it", c.src(arg))
				} else {
					c.Undecided("R08f", key, as.Pos(), "nextParameter stores %s as the parameter — not recognisably the collected runes paramTemp", c.src(arg))
				}
			}
			return true
		})
		c.MinCount("R08f", "stores to StatementT.parameters in nextParameter", nApp, 4)
		// the clause that consumes possibleGlob clears it
		cleared := false
		walkStack(fd.Body, func(n ast.Node, stack []ast.Node) bool {
			as, ok := n.(*ast.AssignStmt)
			if ok && len(as.Lhs) == 1 && len(as.Rhs) == 1 && isF(as.Lhs[0], "possibleGlob") && globGuard(stack) {
				if b, ok := constBool(info, as.Rhs[0]); ok && !b {
					// unconditional inside the clause: its parent list is the clause body
					if cc, ok := stack[len(stack)-2].(*ast.CaseClause); ok {
						idx := topLevelIndex(cc.Body, as)
						pre := true
						for _, s := range cc.Body[:idx] {
							if len(calls(s, true)) > 0 {
								pre = false
							}
						}
						cleared = pre
					} else if blk, ok := stack[len(stack)-2].(*ast.BlockStmt); ok {
						if is, ok := stack[len(stack)-3].(*ast.IfStmt); ok && is.Body == blk && isF(is.Cond, "possibleGlob") {
							cleared = true
						}
					}
				}
			}
			return true
		})
		c.Check(cleared, "R08f", "nextParameter:possibleGlob-consumed", fd.Pos(), "the clause of nextParameter that is selected by possibleGlob stores possibleGlob = false before it calls anything; otherwise one literal `*` arms globbing for every later parameter, including `$variable` values")
		// paramTemp reset after the switch; early returns only for empty paramTemp / errors
		reset := false
		for _, s := range fd.Body.List {
			if as, ok := s.(*ast.AssignStmt); ok && len(as.Lhs) == 1 && len(as.Rhs) == 1 && isF(as.Lhs[0], "paramTemp") && isEmptySliceExpr(info, as.Rhs[0]) {
				reset = true
			}
		}
		c.Check(reset, "R08f", "nextParameter:reset", fd.Pos(), "nextParameter resets paramTemp to an empty slice after storing the parameter (otherwise the next parameter starts with the previous one's runes)")
		badRet := ""
		walkStack(fd.Body, func(n ast.Node, stack []ast.Node) bool {
			rs, ok := n.(*ast.ReturnStmt)
			if !ok || isTopLevel(fd.Body.List, rs) {
				return true
			}
			// allowed: `return err` (non-nil by guard) or inside the len(paramTemp)==0 clause
			okRet := false
			for _, f := range factsOf(guardsAt(info, stack)) {
				if x, op, k, ok := cmpNorm(info, f.E); ok {
					if call, ok := isBuiltinCall(info, x, "len"); ok && len(call.Args) == 1 && isF(call.Args[0], "paramTemp") {
						p := intPred(op, k)
						if !f.True {
							q := p
							p = func(v int64) bool { return !q(v) }
						}
						if samePredOnRange(p, func(v int64) bool { return v == 0 }, 0, 4) {
							okRet = true
						}
					}
					if id, ok := x.(*ast.Ident); ok && id.Name != "" && op == token.NEQ {
						_ = id
					}
				}
				// `err != nil` / `nil != err` known true, or `err == nil` known false
				if x, op, ok := c08NilCmp(info, f.E); ok && (op == token.NEQ) == f.True {
					if len(rs.Results) == 1 && c.sameExpr(rs.Results[0], x) {
						okRet = true
					}
				}
			}
			if !okRet {
				badRet = c.src(rs)
			}
			return true
		})
		c.Check(badRet == "", "R08f", "nextParameter:early-return", fd.Pos(), "nextParameter leaves before the reset only when paramTemp is empty or an error is returned %s", badRet)
	}
	// StatementT.Parameters
	if fd, _ := c.MustFunc("R08f", c08Pkg, "StatementT", "Parameters"); fd != nil {
		bad := ""
		nConv := 0
		walkStack(fd.Body, func(n ast.Node, stack []ast.Node) bool {
			call, ok := n.(*ast.CallExpr)
			if !ok {
				return true
			}
			if _, ok := isBuiltinCall(info, call, "len"); ok {
				return true
			}
			if _, ok := isBuiltinCall(info, call, "make"); ok {
				return true
			}
			if tv, ok := info.Types[call.Fun]; ok && tv.IsType() && len(call.Args) == 1 {
				// string(st.parameters[i]) or string(p) inside `for _, p := range st.parameters`
				if c08RangeElem(info, call.Args[0], stack, func(x ast.Expr) bool { return isField(info, x, c10StatementT, "parameters") }) {
					if b, ok := tv.Type.Underlying().(*types.Basic); ok && b.Kind() == types.String {
						nConv++
						return true
					}
				}
			}
			bad = c.src(call)
			return true
		})
		c.Check(bad == "" && nConv == 1, "R08f", "Parameters:verbatim", fd.Pos(), "StatementT.Parameters converts each stored parameter with string(st.parameters[i]) and calls nothing else %s", bad)
	}
}

// c08NilCmp normalises `x OP nil` / `nil OP x` (OP is == or !=): the non-nil operand and the operator.
func c08NilCmp(info *types.Info, e ast.Expr) (ast.Expr, token.Token, bool) {
	b, ok := unparen(e).(*ast.BinaryExpr)
	if !ok || (b.Op != token.NEQ && b.Op != token.EQL) {
		return nil, 0, false
	}
	isNil := func(x ast.Expr) bool {
		id, ok := unparen(x).(*ast.Ident)
		if !ok {
			return false
		}
		_, isN := info.ObjectOf(id).(*types.Nil)
		return isN
	}
	switch {
	case isNil(b.Y) && !isNil(b.X):
		return unparen(b.X), b.Op, true
	case isNil(b.X) && !isNil(b.Y):
		return unparen(b.Y), b.Op, true
	}
	return nil, 0, false
}

// c08RangeElem: e denotes one element of the collection `of` inside the loops of stack:
// `X[i]` with of(X), or the value variable of an enclosing `for _, v := range X` with of(X)
// (v must not be reassigned: a range value variable is only defined by the range clause).
func c08RangeElem(info *types.Info, e ast.Expr, stack []ast.Node, of func(ast.Expr) bool) bool {
	e = unparen(e)
	if ix, ok := e.(*ast.IndexExpr); ok {
		return of(ix.X)
	}
	id, ok := e.(*ast.Ident)
	if !ok {
		return false
	}
	o := info.ObjectOf(id)
	for i := len(stack) - 1; i >= 0; i-- {
		rs, ok := stack[i].(*ast.RangeStmt)
		if !ok || rs.Tok != token.DEFINE || rs.Value == nil {
			continue
		}
		vid, ok := rs.Value.(*ast.Ident)
		if !ok || info.ObjectOf(vid) != o || o == nil {
			continue
		}
		if !of(rs.X) {
			return false
		}
		// no other store to the value variable inside the loop
		stored := false
		ast.Inspect(rs.Body, func(n ast.Node) bool {
			switch s := n.(type) {
			case *ast.AssignStmt:
				for _, l := range s.Lhs {
					if lid, ok := unparen(l).(*ast.Ident); ok && info.ObjectOf(lid) == o {
						stored = true
					}
				}
			case *ast.IncDecStmt:
				if lid, ok := unparen(s.X).(*ast.Ident); ok && info.ObjectOf(lid) == o {
					stored = true
				}
			case *ast.UnaryExpr:
				if s.Op == token.AND && mentions(info, s.X, o) {
					stored = true
				}
			}
			return true
		})
		return !stored
	}
	return false
}

func c08IsAlloc(v ssa.Value) bool {
	_, ok := v.(*ssa.Alloc)
	return ok
}
