package main

import (
	"go/ast"
	"go/token"
	"go/types"
)

// R24f — "follows alias flags to their targets … and otherwise reports a clean
// error": ParseFlags follows an alias by rewriting the parameter and jumping back
// to re-scan it. The flag table comes from the user (`args`), so it may contain an
// alias cycle ({"-a":"-b","-b":"-a"}); the jump back must be bounded or ParseFlags
// never returns.
func init() {
	extend("C24", func(c *Ctx) {
		c.Rule("R24f", "alias following terminates: every backward goto in parameters.ParseFlags is preceded, in its own arm, by an increment of an integer local and by a test of that local against a bound whose true arm returns a non-nil error; the local is assigned nowhere else inside the labelled statement (so each jump uses up one unit of a finite budget)")
		fd, pk := c.MustFunc("R24f", "lang/parameters", "", "ParseFlags")
		if fd == nil {
			return
		}
		info := pk.TypesInfo
		labels := map[string]*ast.LabeledStmt{}
		ast.Inspect(fd.Body, func(nd ast.Node) bool {
			if ls, ok := nd.(*ast.LabeledStmt); ok {
				labels[ls.Label.Name] = ls
			}
			return true
		})
		n := 0
		walkStack(fd.Body, func(nd ast.Node, stack []ast.Node) bool {
			br, ok := nd.(*ast.BranchStmt)
			if !ok || br.Tok != token.GOTO || br.Label == nil {
				return true
			}
			ls := labels[br.Label.Name]
			if ls == nil || ls.Pos() > br.Pos() {
				return true // forward goto
			}
			n++
			key := "ParseFlags:goto " + br.Label.Name + "#" + itoa(n)
			// the statement list the goto sits in
			var list []ast.Stmt
			switch p := stack[len(stack)-2].(type) {
			case *ast.BlockStmt:
				list = p.List
			case *ast.CaseClause:
				list = p.Body
			}
			var counter types.Object
			bounded := false
			for _, s := range list {
				if s == ast.Stmt(br) {
					break
				}
				switch x := s.(type) {
				case *ast.IncDecStmt:
					if id, ok := unparen(x.X).(*ast.Ident); ok && x.Tok == token.INC {
						counter = info.ObjectOf(id)
					}
				case *ast.AssignStmt:
					if x.Tok == token.ADD_ASSIGN && len(x.Lhs) == 1 {
						if id, ok := unparen(x.Lhs[0]).(*ast.Ident); ok {
							if v, isC := constInt(info, x.Rhs[0]); isC && v >= 1 {
								counter = info.ObjectOf(id)
							}
						}
					}
				case *ast.IfStmt:
					if counter == nil {
						// `if h++; h > bound {` form
						if inc, ok := x.Init.(*ast.IncDecStmt); ok && inc.Tok == token.INC {
							if id, ok := unparen(inc.X).(*ast.Ident); ok {
								counter = info.ObjectOf(id)
							}
						}
					}
					if counter == nil {
						continue
					}
					if y, op, _, ok := cmpNorm(info, x.Cond); ok || true {
						_ = y
						_ = op
					}
					be, ok := unparen(x.Cond).(*ast.BinaryExpr)
					if !ok {
						continue
					}
					l, r, op := be.X, be.Y, be.Op
					if mentions(info, r, counter) && !mentions(info, l, counter) {
						l, r = r, l
						switch op {
						case token.LSS:
							op = token.GTR
						case token.LEQ:
							op = token.GEQ
						case token.GTR:
							op = token.LSS
						case token.GEQ:
							op = token.LEQ
						}
					}
					if id, ok := unparen(l).(*ast.Ident); !ok || info.ObjectOf(id) != counter || (op != token.GTR && op != token.GEQ) || mentions(info, r, counter) {
						continue
					}
					// the true arm returns a non-nil error
					if len(x.Body.List) > 0 {
						if rs, ok := x.Body.List[len(x.Body.List)-1].(*ast.ReturnStmt); ok && len(rs.Results) > 0 {
							last := unparen(rs.Results[len(rs.Results)-1])
							if id, isNil := last.(*ast.Ident); !(isNil && id.Name == "nil") {
								bounded = true
							}
						}
					}
				}
			}
			if counter == nil || !bounded {
				c.Viol("R24f", key, br.Pos(), "`goto %s` jumps back to re-scan the rewritten parameter with no budget: a flag table with an alias cycle ({\"-a\":\"-b\",\"-b\":\"-a\"}) makes ParseFlags (and so `args` and every builtin given such a table) loop for ever instead of reporting an error", br.Label.Name)
				return true
			}
			// the counter is assigned nowhere else inside the labelled statement
			other := ""
			ast.Inspect(ls, func(x ast.Node) bool {
				switch s := x.(type) {
				case *ast.AssignStmt:
					for _, l := range s.Lhs {
						if id, ok := unparen(l).(*ast.Ident); ok && info.ObjectOf(id) == counter && s.Tok != token.ADD_ASSIGN {
							other = c.src(s)
						}
					}
				case *ast.IncDecStmt:
					if id, ok := unparen(s.X).(*ast.Ident); ok && info.ObjectOf(id) == counter && s.Tok == token.DEC {
						other = c.src(s)
					}
				}
				return true
			})
			c.Check(other == "", "R24f", key, br.Pos(), "`goto %s` is paid for from a finite budget: %s is incremented before the jump, tested against a bound with an error return, and not reset inside the labelled statement (found %q)", br.Label.Name, counter.Name(), other)
			return true
		})
		if n == 0 {
			c.OK("R24f", "ParseFlags:no-backward-goto", fd.Pos(), "ParseFlags has no backward goto")
		}
	})
}
