package main

import (
	"go/ast"
	"go/token"
	"go/types"
)

// R24f — "follows alias flags to their targets … and otherwise reports a clean
// error": ParseFlags follows an alias by rewriting the parameter and jumping back
// to re-scan it. The flag table comes from the user (`args`), so it may contain an
// alias cycle ({"-a":"-b","-b":"-a"}); the jump back must be bounded or ParseFlags
// never returns.
func init() {
	extend("C24", func(c *Ctx) {
		c.Rule("R24f", "alias following terminates: every backward goto in parameters.ParseFlags is preceded, in its own arm, by an increment of an integer local and by a test of that local against a bound whose true arm returns a non-nil error; the local is assigned nowhere else inside the labelled statement (so each jump uses up one unit of a finite budget)")
		fd, pk := c.MustFunc("R24f", "lang/parameters", "", "ParseFlags")
		if fd == nil {
			return
		}
		info := pk.TypesInfo
		labels := map[string]*ast.LabeledStmt{}
		ast.Inspect(fd.Body, func(nd ast.Node) bool {
			if ls, ok := nd.(*ast.LabeledStmt); ok {
				labels[ls.Label.Name] = ls
			}
			return true
		})
		n := 0
		walkStack(fd.Body, func(nd ast.Node, stack []ast.Node) bool {
			br, ok := nd.(*ast.BranchStmt)
			if !ok || br.Tok != token.GOTO || br.Label == nil {
				return true
			}
			ls := labels[br.Label.Name]
			if ls == nil || ls.Pos() > br.Pos() {
				return true // forward goto
			}
			n++
			key := "ParseFlags:goto " + br.Label.Name + "#" + itoa(n)
			// the statement list the goto sits in
			var list []ast.Stmt
			switch p := stack[len(stack)-2].(type) {
			case *ast.BlockStmt:
				list = p.List
			case *ast.CaseClause:
				list = p.Body
			}
			// stepOf: h++ / h += k (k ≥ 1) count up (+1), h-- / h -= k count down (-1)
			stepOf := func(s ast.Stmt) (types.Object, int) {
				switch x := s.(type) {
				case *ast.IncDecStmt:
					if id, ok := unparen(x.X).(*ast.Ident); ok {
						if x.Tok == token.INC {
							return info.ObjectOf(id), 1
						}
						return info.ObjectOf(id), -1
					}
				case *ast.AssignStmt:
					if (x.Tok == token.ADD_ASSIGN || x.Tok == token.SUB_ASSIGN) && len(x.Lhs) == 1 && len(x.Rhs) == 1 {
						if id, ok := unparen(x.Lhs[0]).(*ast.Ident); ok {
							if v, isC := constInt(info, x.Rhs[0]); isC && v >= 1 {
								if x.Tok == token.ADD_ASSIGN {
									return info.ObjectOf(id), 1
								}
								return info.ObjectOf(id), -1
							}
						}
					}
				}
				return nil, 0
			}
			// relOf: cond is `counter OP bound` (either operand order, bound not mentioning the counter);
			// returns OP with the counter on the left
			relOf := func(cond ast.Expr, counter types.Object) (token.Token, bool) {
				be, ok := unparen(cond).(*ast.BinaryExpr)
				if !ok {
					return 0, false
				}
				l, r, op := be.X, be.Y, be.Op
				if mentions(info, r, counter) && !mentions(info, l, counter) {
					l, r = r, l
					switch op {
					case token.LSS:
						op = token.GTR
					case token.LEQ:
						op = token.GEQ
					case token.GTR:
						op = token.LSS
					case token.GEQ:
						op = token.LEQ
					}
				}
				if id, ok := unparen(l).(*ast.Ident); !ok || info.ObjectOf(id) != counter || mentions(info, r, counter) {
					return 0, false
				}
				return op, true
			}
			errReturn := func(l []ast.Stmt) bool {
				if len(l) == 0 {
					return false
				}
				rs, ok := l[len(l)-1].(*ast.ReturnStmt)
				if !ok || len(rs.Results) == 0 {
					return false
				}
				id, isID := unparen(rs.Results[len(rs.Results)-1]).(*ast.Ident)
				return !(isID && id.Name == "nil")
			}
			idx := -1
			for i, s := range list {
				if s == ast.Stmt(br) {
					idx = i
				}
			}
			var counter types.Object
			dir := 0
			bounded := false
			if idx >= 0 {
				// form A: step and `if counter beyond bound { return error }` (in either order) before the jump
				for _, s := range list[:idx] {
					if o, d := stepOf(s); o != nil && counter == nil {
						counter, dir = o, d
					}
					if x, ok := s.(*ast.IfStmt); ok && counter == nil && x.Init != nil {
						if o, d := stepOf(x.Init); o != nil { // `if h++; h > bound {`
							counter, dir = o, d
						}
					}
				}
				if counter != nil {
					for _, s := range list[:idx] {
						x, ok := s.(*ast.IfStmt)
						if !ok {
							continue
						}
						op, ok := relOf(x.Cond, counter)
						if !ok {
							continue
						}
						beyond := (dir > 0 && (op == token.GTR || op == token.GEQ)) || (dir < 0 && (op == token.LSS || op == token.LEQ))
						if beyond && errReturn(x.Body.List) {
							bounded = true
						}
					}
				}
				// form B: the jump sits inside `if counter within bound { …; goto }` and what follows that
				// `if` (or its else arm) returns the error
				if !bounded && len(stack) >= 4 {
					if ifs, ok := stack[len(stack)-3].(*ast.IfStmt); ok && stack[len(stack)-2] == ast.Node(ifs.Body) {
						var outer []ast.Stmt
						switch p := stack[len(stack)-4].(type) {
						case *ast.BlockStmt:
							outer = p.List
						case *ast.CaseClause:
							outer = p.Body
						}
						oi := -1
						for i, s := range outer {
							if s == ast.Stmt(ifs) {
								oi = i
							}
						}
						if oi >= 0 {
							counter, dir = nil, 0
							var steps []ast.Stmt
							steps = append(steps, outer[:oi]...)
							if ifs.Init != nil {
								steps = append(steps, ifs.Init)
							}
							steps = append(steps, list[:idx]...)
							for _, s := range steps {
								if o, d := stepOf(s); o != nil {
									if op, ok := relOf(ifs.Cond, o); ok {
										within := (d > 0 && (op == token.LSS || op == token.LEQ)) || (d < 0 && (op == token.GTR || op == token.GEQ))
										if within {
											counter, dir = o, d
										}
									}
								}
							}
							if counter != nil {
								if el, isBlk := ifs.Else.(*ast.BlockStmt); isBlk && errReturn(el.List) {
									bounded = true
								}
								if ifs.Else == nil && oi+1 < len(outer) && errReturn(outer[oi+1:oi+2]) {
									bounded = true
								}
							}
						}
					}
				}
			}
			if counter == nil || !bounded {
				c.Viol("R24f", key, br.Pos(), "`goto %s` jumps back to re-scan the rewritten parameter with no budget: a flag table with an alias cycle ({\"-a\":\"-b\",\"-b\":\"-a\"}) makes ParseFlags (and so `args` and every builtin given such a table) loop for ever instead of reporting an error", br.Label.Name)
				return true
			}
			// the counter moves only in its one direction inside the labelled statement
			other := ""
			ast.Inspect(ls, func(x ast.Node) bool {
				if st, ok := x.(ast.Stmt); ok {
					if o, d := stepOf(st); o == counter && o != nil {
						if d != dir {
							other = c.src(st)
						}
						return true
					}
				}
				switch s := x.(type) {
				case *ast.AssignStmt:
					for _, l := range s.Lhs {
						if id, ok := unparen(l).(*ast.Ident); ok && info.ObjectOf(id) == counter {
							other = c.src(s)
						}
					}
				case *ast.IncDecStmt:
					if id, ok := unparen(s.X).(*ast.Ident); ok && info.ObjectOf(id) == counter {
						other = c.src(s)
					}
				case *ast.UnaryExpr:
					if id, ok := unparen(s.X).(*ast.Ident); ok && s.Op == token.AND && info.ObjectOf(id) == counter {
						other = c.src(s)
					}
				}
				return true
			})
			c.Check(other == "", "R24f", key, br.Pos(), "`goto %s` is paid for from a finite budget: %s is stepped before the jump, tested against a bound with an error return, and not reset inside the labelled statement (found %q)", br.Label.Name, counter.Name(), other)
			// each parameter starts with a full budget: the counter is (re)initialised inside the loop that
			// encloses the labelled statement, before the label. A budget shared by all parameters makes a
			// long argument list with several aliases fail with a spurious "alias loop" error.
			var loopBody *ast.BlockStmt
			for i := len(stack) - 1; i >= 0; i-- {
				if stack[i] == ast.Node(ls) {
					for j := i - 1; j >= 0 && loopBody == nil; j-- {
						switch l := stack[j].(type) {
						case *ast.ForStmt:
							loopBody = l.Body
						case *ast.RangeStmt:
							loopBody = l.Body
						}
					}
					break
				}
			}
			if loopBody != nil {
				fresh := false
				for _, st := range loopBody.List {
					if st.Pos() >= ls.Pos() {
						break
					}
					switch d := st.(type) {
					case *ast.AssignStmt:
						for i, l := range d.Lhs {
							if id, ok := unparen(l).(*ast.Ident); ok && info.ObjectOf(id) == counter && len(d.Rhs) == len(d.Lhs) {
								if !mentions(info, d.Rhs[i], counter) { // a constant, or a bound such as len(args.Flags)
									fresh = true
								}
							}
						}
					case *ast.DeclStmt:
						ast.Inspect(d, func(x ast.Node) bool {
							if vs, ok := x.(*ast.ValueSpec); ok {
								for _, nm := range vs.Names {
									if info.Defs[nm] == counter {
										fresh = true
									}
								}
							}
							return true
						})
					}
				}
				c.Check(fresh, "R24f", key+":fresh-per-parameter", br.Pos(), "the budget %s is (re)initialised inside the parameter loop before `%s:` — otherwise the hops of earlier parameters use it up and a later alias is refused with a spurious loop error", counter.Name(), br.Label.Name)
			}
			return true
		})
		if n == 0 {
			c.OK("R24f", "ParseFlags:no-backward-goto", fd.Pos(), "ParseFlags has no backward goto")
		}
	})
}
