package main

import (
	"go/ast"
	"go/types"
)

// R16c — "on a map, [key] returns that key's value": presence is a property of
// the key, not of the value. itoIndexMap tries the key in four spellings and gives
// up with "key not found"; that decision must come from the comma-ok form of the
// map lookup. A value test (`obj != nil`, `obj != ""`) reports every key that holds
// null / a zero value as missing.
func init() {
	extend("C16", func(c *Ctx) {
		c.Rule("R16c", "map index presence: every lookup in the map parameter of lang.itoIndexMap is the comma-ok form `x, ok = v[k]`, and the statement that ends the search for a spelling (break / the store of the result) is guarded by that ok — never by a test on the value")
		fd, pk := c.MustFunc("R16c", "lang", "", "itoIndexMap")
		if fd == nil {
			return
		}
		info := pk.TypesInfo
		var mapParam types.Object
		if fd.Type.Params != nil {
			for _, f := range fd.Type.Params.List {
				for _, nm := range f.Names {
					if o := info.Defs[nm]; o != nil {
						if _, ok := o.Type().Underlying().(*types.Map); ok {
							mapParam = o
						}
					}
				}
			}
		}
		if mapParam == nil {
			c.Undecided("R16c", "itoIndexMap:map-param", fd.Pos(), "itoIndexMap has no map parameter")
			return
		}
		n := 0
		walkStack(fd.Body, func(nd ast.Node, stack []ast.Node) bool {
			ix, ok := nd.(*ast.IndexExpr)
			if !ok {
				return true
			}
			id, ok := unparen(ix.X).(*ast.Ident)
			if !ok || info.ObjectOf(id) != mapParam {
				return true
			}
			n++
			key := "itoIndexMap:lookup#" + itoa(n)
			as, ok := stack[len(stack)-2].(*ast.AssignStmt)
			if !ok || len(as.Lhs) != 2 || len(as.Rhs) != 1 {
				c.Viol("R16c", key, ix.Pos(), "the map is read as %s — not the comma-ok form: whether the key exists is then judged from the value, so `[key]` on a key holding null (or a zero value) fails with \"key not found\" instead of returning that key's value", c.src(stack[len(stack)-2]))
				return true
			}
			okID, isID := as.Lhs[1].(*ast.Ident)
			if !isID || okID.Name == "_" {
				c.Viol("R16c", key, ix.Pos(), "the presence result of %s is discarded", c.src(as))
				return true
			}
			okObj := info.ObjectOf(okID)
			// the next statement in the same block is `if ok { … }` (or `if !ok { … }`)
			var list []ast.Stmt
			if b, isB := stack[len(stack)-3].(*ast.BlockStmt); isB {
				list = b.List
			} else if cc, isC := stack[len(stack)-3].(*ast.CaseClause); isC {
				list = cc.Body
			}
			tested := false
			if ifs, isIf := stack[len(stack)-3].(*ast.IfStmt); isIf && ifs.Init == ast.Stmt(as) {
				cond := unparen(ifs.Cond)
				if u, isU := cond.(*ast.UnaryExpr); isU {
					cond = unparen(u.X)
				}
				if cid, isI := cond.(*ast.Ident); isI && info.ObjectOf(cid) == okObj {
					tested = true
				}
			}
			for i, s := range list {
				if s != ast.Stmt(as) || i+1 >= len(list) {
					continue
				}
				if ifs, isIf := list[i+1].(*ast.IfStmt); isIf {
					cond := unparen(ifs.Cond)
					if u, isU := cond.(*ast.UnaryExpr); isU {
						cond = unparen(u.X)
					}
					if cid, isI := cond.(*ast.Ident); isI && info.ObjectOf(cid) == okObj {
						tested = true
					}
				}
			}
			c.Check(tested, "R16c", key, ix.Pos(), "%s is followed by a test of %s alone: the search for the key ends on presence, not on the value", c.src(as), okID.Name)
			return true
		})
		c.MinCount("R16c", "lookups in the map parameter of itoIndexMap", n, 1)
	})
}
