package main

// C18 mkarray ranges produce the exact sequence.
//
// DESIGN.md §5 lists C18 as not applicable (value-level results of loops over runtime bounds). The
// numeric generators, however, are straight-line code whose only loops are closed-form fills
// `a := make([]T, L); for i := range a { a[i] = E(i) }`, so their result is a[i] = E(i), i in [0,L):
// no mutable loop state has to be interpreted. That gives sound structural decisions:
//
// R18a  `a [m..n]`: rangeToArrayString's integer arm, tabulated for all m,n in [-12,12] and for
//       zero-padded bounds of width 2 and 3 (small-scope evaluation of the arm guards, the length
//       expression, the pad predicate, the format-width expression and the per-position element
//       expression over the type-checked AST), equals the reference sequence m..n inclusive,
//       ascending or descending, zero-padded to the width of a zero-padded bound.
// R18b  `ja [m..n]`: rangeToArrayNumber yields the same integers for un-padded non-negative bounds
//       and declines (isNum=false, no error) when a bound is zero-padded, so that the string
//       generator of R18a is used for those.
// R18c  `a` and `ja` share the generator: both registered handlers reach mkArray; mkArray falls back
//       to the string generator exactly when the number generator declined without error;
//       writeArrayNumber appends every range's integers in order to the slice it marshals and
//       declines only before anything was written.
// R18d  odometer shape of writeArrayString (cartesian product, last block fastest): the emitted
//       string replaces the t-th marker by block t's current element for ascending t; the first
//       counter changed after an emission is the last one; a carry resets to 0, moves one block to
//       the left and increments; the product ends only when the carry leaves the first block; block
//       elements are appended in expression order.
//
// Not decided: parseExpression's tokenisation (escapes, nesting), non-decimal bases, dates, letter
// and mapped ranges, several comma-separated groups, mixed-width zero padding ([01..010]) and
// zero-padded negative bounds (not documented), cancellation, MarshalData / the array writers.

import (
	"fmt"
	"go/ast"
	"go/token"
	"go/types"
	"strconv"
	"strings"

	"golang.org/x/tools/go/packages"
)

func init() {
	register("C18", "Decides for mkarray (builtins/core/mkarray): the integer arm of rangeToArrayString (`a [m..n]`) — arm guards, length expression, pad predicate, format width and per-position element expression, tabulated by small-scope evaluation over the type-checked AST for all m,n in [-12,12] and zero-padded bounds of width 2/3 — equals m..n inclusive, ascending or descending, zero-padded to the width of a zero-padded bound (R18a); rangeToArrayNumber (`ja`) yields the same integers and declines without error on zero-padded bounds (R18b); `a` and `ja` reach the same mkArray, whose fallback to the string generator is taken exactly on (declined, no error), and writeArrayNumber appends each range in order to the slice it marshals (R18c); the odometer of writeArrayString has the last-block-fastest shape: ascending marker substitution with count 1, first increment at len(counter)-1, carry = reset to 0 / step left / increment, exit only when the carry leaves block 0, block elements appended in order (R18d). The only loops given a meaning are closed-form fills a[i]=E(i); no murex code is run. Does NOT decide: parseExpression's tokenisation, other range kinds (bases, dates, letters, mapped lists), comma groups, mixed-width or negative zero padding, cancellation, MarshalData and the array writers.", runC18)
}

const c18Pkg = "builtins/core/mkarray"

func runC18(c *Ctx) {
	c.c17Load(c18Pkg)
	c.Rule("R18a", "`a [m..n]`: the integer arm of rangeToArrayString equals the reference sequence (m..n inclusive, either direction, zero-padded to the width of a zero-padded bound) for all m,n in [-12,12], widths 2 and 3")
	c.Rule("R18b", "`ja [m..n]`: rangeToArrayNumber yields the same integers for un-padded bounds and declines (isNum=false, nil error) on zero-padded bounds")
	c.Rule("R18c", "`a`/`ja` share mkArray; mkArray uses the string generator exactly when the number generator declined without error; writeArrayNumber appends each range's integers in order to the slice it marshals and writes")
	c.Rule("R18d", "odometer shape of writeArrayString: ascending single-marker substitution, first increment at the last block, carry resets/steps left/increments, exit only below block 0, block elements appended in expression order")
	c.Assume = append(c.Assume,
		"strconv, strings, fmt.Sprintf behave as the Go standard library the checker itself is built with (called by the checker on model values)",
		"parseExpression hands `m..n` of `[m..n]` to the range generators as one astTypeRange node (tokenisation is not decided)",
	)
	pk := c.Pkg(c18Pkg)
	if pk == nil {
		c.Lost("R18a", "pkg:"+c18Pkg, "package not loaded")
		return
	}
	c.c18Strings(pk)
	c.c18Numbers(pk)
	c.c18Dispatch(pk)
	c.c18Odometer(pk)
}

// ---------------------------------------------------------------- reference model

type c18Case struct {
	lo, hi string // bound texts
	expect []string
}

func c18Ref(m, n, width int) []string {
	var out []string
	step := 1
	if m > n {
		step = -1
	}
	for v := m; ; v += step {
		if width > 0 {
			out = append(out, fmt.Sprintf("%0*d", width, v))
		} else {
			out = append(out, strconv.Itoa(v))
		}
		if v == n {
			break
		}
	}
	return out
}

func c18Pad(v, w int) string { return fmt.Sprintf("%0*d", w, v) }

type c18Class struct {
	key, doc string
	cases    []c18Case
}

func c18StringClasses() []c18Class {
	var asc, desc, single, padLow, padHigh, padBoth, padSingle []c18Case
	for m := -12; m <= 12; m++ {
		for n := -12; n <= 12; n++ {
			cs := c18Case{strconv.Itoa(m), strconv.Itoa(n), c18Ref(m, n, 0)}
			switch {
			case m < n:
				asc = append(asc, cs)
			case m > n:
				desc = append(desc, cs)
			default:
				single = append(single, cs)
			}
		}
	}
	for _, w := range []int{2, 3} {
		for m := 0; m <= 12; m++ {
			for n := 0; n <= 12; n++ {
				pm, pn := c18Pad(m, w), c18Pad(n, w)
				mPad, nPad := pm[0] == '0', pn[0] == '0' // a 2-digit value at width 2 is not zero-padded
				ref := c18Ref(m, n, w)
				if m == n {
					if mPad {
						padSingle = append(padSingle, c18Case{pm, strconv.Itoa(n), ref}, c18Case{strconv.Itoa(m), pn, ref}, c18Case{pm, pn, ref})
					}
					continue
				}
				lowIsM := m < n
				if mPad && nPad {
					padBoth = append(padBoth, c18Case{pm, pn, ref})
				}
				if mPad && len(strconv.Itoa(n)) <= w {
					cs := c18Case{pm, strconv.Itoa(n), ref}
					if lowIsM {
						padLow = append(padLow, cs)
					} else {
						padHigh = append(padHigh, cs)
					}
				}
				if nPad && len(strconv.Itoa(m)) <= w {
					cs := c18Case{strconv.Itoa(m), pn, ref}
					if lowIsM {
						padHigh = append(padHigh, cs)
					} else {
						padLow = append(padLow, cs)
					}
				}
			}
		}
	}
	// the unpadded bound is written with MORE characters than the zero-padded one ([08..100],
	// [100..08], [-10..05]): the width is still that of the zero-padded bound
	var padNarrow []c18Case
	for _, w := range []int{2, 3} {
		for _, m := range []int{0, 5, 8} {
			pm := c18Pad(m, w)
			if pm[0] != '0' {
				continue
			}
			for _, n := range []int{-11, -10, 100, 104, 1000} {
				if len(strconv.Itoa(n)) <= w {
					continue
				}
				padNarrow = append(padNarrow, c18Case{pm, strconv.Itoa(n), c18Ref(m, n, w)}, c18Case{strconv.Itoa(n), pm, c18Ref(n, m, w)})
			}
		}
	}
	return []c18Class{
		{"pad:narrower-than-other-bound", "one bound is zero-padded and the other, unpadded, bound is written with more characters ([08..100], [100..08], [-10..05]): every element is zero-padded to the width of the zero-padded bound, not to the longer text", padNarrow},
		{"asc", "[m..n], m<n: every integer from m up to n inclusive", asc},
		{"desc", "[m..n], m>n: every integer from m down to n inclusive", desc},
		{"single", "[m..m]: the single integer m", single},
		{"pad:low-bound", "the numerically lower bound is zero-padded ([01..10], [10..01]): every element is zero-padded to its width", padLow},
		{"pad:high-bound", "the numerically higher bound is zero-padded ([1..03], [03..1]): every element is zero-padded to its width", padHigh},
		{"pad:both", "both bounds zero-padded to the same width ([01..09]): every element is zero-padded to that width", padBoth},
		{"pad:single", "[m..m] with a zero-padded bound ([01..1], [1..01], [01..01]): the element is zero-padded to its width", padSingle},
	}
}

func c18Strs(v []string) string {
	if len(v) > 8 {
		return strings.Join(v[:8], ",") + ",…"
	}
	if len(v) == 0 {
		return "nothing"
	}
	return strings.Join(v, ",")
}

func c18SameStrs(a, b []string) bool {
	if len(a) != len(b) {
		return false
	}
	for i := range a {
		if a[i] != b[i] {
			return false
		}
	}
	return true
}

// ---------------------------------------------------------------- R18a

func (c *Ctx) c18Strings(pk *packages.Package) {
	fd, _ := c.MustFunc("R18a", c18Pkg, "", "rangeToArrayString")
	if fd == nil {
		return
	}
	total := 0
	for _, cl := range c18StringClasses() {
		total += len(cl.cases)
		bad, first, und := 0, "", ""
		for _, cs := range cl.cases {
			in := cs.lo + ".." + cs.hi
			ev := c.c17NewEval(pk, c17StdHook)
			var res c17V
			failMsg, panicMsg := ev.run(func() {
				res = ev.callDecl(fd, fd, nil, []c17V{c17StrV(in)})
			})
			if failMsg != "" {
				und = failMsg
				break
			}
			why := ""
			switch {
			case panicMsg != "":
				why = "the generator panics: " + panicMsg
			case res.k != c17Tuple || len(res.tup) != 2:
				und = "unexpected result shape of rangeToArrayString"
			case res.tup[1].k != c17Nil:
				why = "the generator returns an error"
			case res.tup[0].k != c17Slice:
				und = "result is not a slice the rule can read"
			default:
				var got []string
				for _, v := range *res.tup[0].list {
					if v.k != c17Str {
						und = "result element is not a modelled string"
						break
					}
					got = append(got, v.s)
				}
				if und == "" && !c18SameStrs(got, cs.expect) {
					why = fmt.Sprintf("generates %s, reference is %s", c18Strs(got), c18Strs(cs.expect))
				}
			}
			if und != "" {
				break
			}
			if why != "" {
				bad++
				if first == "" {
					first = fmt.Sprintf("`a [%s]`: %s", in, why)
				}
			}
		}
		switch {
		case und != "":
			c.Undecided("R18a", cl.key, fd.Pos(), "the integer arm of rangeToArrayString left the subset the rule can tabulate (straight-line code plus closed-form fill loops): %s", und)
		case bad > 0:
			c.Viol("R18a", cl.key, fd.Pos(), "%s — but %d of %d tabulated bound pairs differ; first: %s", cl.doc, bad, len(cl.cases), first)
		default:
			c.OK("R18a", cl.key, fd.Pos(), "%s: %d bound pairs agree with the reference generator", cl.doc, len(cl.cases))
		}
	}
	c.MinCount("R18a", "tabulated bound pairs", total, 900)
}

// ---------------------------------------------------------------- R18b

func (c *Ctx) c18Numbers(pk *packages.Package) {
	fd, _ := c.MustFunc("R18b", c18Pkg, "", "rangeToArrayNumber")
	if fd == nil {
		return
	}
	type ncase struct {
		in      string
		expect  []string
		decline bool
	}
	classes := map[string][]ncase{}
	order := []string{"asc", "desc", "single", "zero-padded:declines"}
	for m := 0; m <= 12; m++ {
		for n := 0; n <= 12; n++ {
			k := "single"
			if m < n {
				k = "asc"
			} else if m > n {
				k = "desc"
			}
			classes[k] = append(classes[k], ncase{in: fmt.Sprintf("%d..%d", m, n), expect: c18Ref(m, n, 0)})
			if m < 10 {
				classes[order[3]] = append(classes[order[3]], ncase{in: fmt.Sprintf("%02d..%d", m, n), decline: true})
			}
			if n < 10 {
				classes[order[3]] = append(classes[order[3]], ncase{in: fmt.Sprintf("%d..%02d", m, n), decline: true})
			}
		}
	}
	docs := map[string]string{
		"asc":                  "ja [m..n], m<n: the integers m up to n inclusive",
		"desc":                 "ja [m..n], m>n: the integers m down to n inclusive",
		"single":               "ja [m..m]: the single integer m",
		"zero-padded:declines": "a zero-padded bound makes the number generator decline (isNum=false, nil error) so that the padded strings of the string generator are produced",
	}
	total := 0
	for _, k := range order {
		bad, first, und := 0, "", ""
		for _, cs := range classes[k] {
			total++
			ev := c.c17NewEval(pk, c17StdHook)
			var res c17V
			failMsg, panicMsg := ev.run(func() {
				res = ev.callDecl(fd, fd, nil, []c17V{c17StrV(cs.in)})
			})
			if failMsg != "" {
				und = failMsg
				break
			}
			why := ""
			switch {
			case panicMsg != "":
				why = "the generator panics: " + panicMsg
			case res.k != c17Tuple || len(res.tup) != 3 || res.tup[1].k != c17Bool:
				und = "unexpected result shape of rangeToArrayNumber"
			case res.tup[2].k != c17Nil:
				why = "returns an error"
			case cs.decline:
				if res.tup[1].b {
					why = "is accepted as a number range (isNum=true): the zero padding is lost"
				}
			case !res.tup[1].b:
				why = "is declined (isNum=false)"
			case res.tup[0].k != c17Slice:
				und = "result is not a slice the rule can read"
			default:
				var got []string
				for _, v := range *res.tup[0].list {
					if v.k != c17Int {
						und = "result element is not an integer"
						break
					}
					got = append(got, strconv.Itoa(int(v.i)))
				}
				if und == "" && !c18SameStrs(got, cs.expect) {
					why = fmt.Sprintf("generates %s, reference is %s", c18Strs(got), c18Strs(cs.expect))
				}
			}
			if und != "" {
				break
			}
			if why != "" {
				bad++
				if first == "" {
					first = fmt.Sprintf("`ja [%s]`: %s", cs.in, why)
				}
			}
		}
		switch {
		case und != "":
			c.Undecided("R18b", k, fd.Pos(), "rangeToArrayNumber left the subset the rule can tabulate: %s", und)
		case bad > 0:
			c.Viol("R18b", k, fd.Pos(), "%s — but %d of %d tabulated bound pairs differ; first: %s", docs[k], bad, len(classes[k]), first)
		default:
			c.OK("R18b", k, fd.Pos(), "%s: %d bound pairs agree", docs[k], len(classes[k]))
		}
	}
	c.MinCount("R18b", "tabulated bound pairs", total, 300)
}

// ---------------------------------------------------------------- R18c

func (c *Ctx) c18Dispatch(pk *packages.Package) {
	info := pk.TypesInfo
	// registrations: lang.DefineFunction(<const name>, handler, dt)
	handlers := map[string]*ast.FuncDecl{}
	for _, f := range pk.Syntax {
		ast.Inspect(f, func(n ast.Node) bool {
			call, ok := n.(*ast.CallExpr)
			if !ok || len(call.Args) < 2 || !objIs(callee(info, call), mx("lang"), "", "DefineFunction") {
				return true
			}
			name, ok := constString(info, call.Args[0])
			if !ok {
				return true
			}
			if id, ok := unparen(call.Args[1]).(*ast.Ident); ok {
				eachFunc(pk, func(fd *ast.FuncDecl) {
					if info.Defs[fd.Name] == info.ObjectOf(id) {
						handlers[name] = fd
					}
				})
			}
			return true
		})
	}
	mkArray, _ := c.MustFunc("R18c", c18Pkg, "", "mkArray")
	// (1) `a` and `ja` reach the same generator entry with their data type
	reached := map[string]string{}
	for _, name := range []string{"a", "ja"} {
		fd := handlers[name]
		if fd == nil {
			c.Lost("R18c", "handler:"+name, "no lang.DefineFunction(%q, …) registration found in %s", name, c18Pkg)
			continue
		}
		var target types.Object
		dt := ""
		hook := func(ev *c17Eval, call *ast.CallExpr, env *c17Env) (c17V, bool) {
			o := callee(ev.info, call)
			if fn, ok := o.(*types.Func); ok && fn.Pkg() == pk.Types && fn.Type().(*types.Signature).Recv() == nil && len(call.Args) == 2 {
				target = o
				v := ev.eval(call.Args[1], env)
				if v.k == c17Str {
					dt = v.s
				}
				return c17NilV(), true
			}
			return c17V{}, false
		}
		ev := c.c17NewEval(pk, hook)
		failMsg, panicMsg := ev.run(func() { ev.callDecl(fd, fd, nil, []c17V{c17OpaqueV("p")}) })
		switch {
		case failMsg != "" || panicMsg != "":
			c.Undecided("R18c", "handler:"+name, fd.Pos(), "handler of `%s` is not the recognised one-call wrapper: %s%s", name, failMsg, panicMsg)
		case target == nil:
			c.Viol("R18c", "handler:"+name, fd.Pos(), "handler %s of `%s` does not call a generator of this package", fd.Name.Name, name)
		default:
			reached[name] = target.Name()
			want := map[string]string{"a": "str", "ja": "json"}[name]
			c.Check(dt == want && mkArray != nil && target == info.Defs[mkArray.Name], "R18c", "handler:"+name, fd.Pos(),
				"`%s` -> %s -> %s(p, %q) (expected mkArray with data type %q: `a` streams strings one per line, `ja` the same elements as a JSON array)", name, fd.Name.Name, target.Name(), dt, want)
		}
	}
	if reached["a"] != "" && reached["ja"] != "" {
		c.Check(reached["a"] == reached["ja"], "R18c", "shared-generator", token.NoPos, "`a` reaches %s and `ja` reaches %s: `ja` gives the same elements only if both use the same generator", reached["a"], reached["ja"])
	}
	// (2) mkArray: string generator used exactly on (declined, nil)
	if mkArray != nil {
		rows, und := 0, ""
		var bad []string
		for _, okv := range []bool{false, true} {
			for _, errv := range []bool{false, true} {
				strCalled, numCalled := 0, 0
				hook := func(ev *c17Eval, call *ast.CallExpr, env *c17Env) (c17V, bool) {
					_, tpath, meth := c17RecvNamed(ev.info, call)
					switch {
					case tpath == mx(c18Pkg)+".arrayT" && meth == "isNumberArray":
						numCalled++
						e := c17NilV()
						if errv {
							e = c17ErrV("number generator error")
						}
						return c17TupleV(c17BoolV(okv), e), true
					case tpath == mx(c18Pkg)+".arrayT" && meth == "isStringArray":
						strCalled++
						return c17ErrV("result of the string generator"), true
					case meth == "SetDataType":
						return c17TupleV(), true
					case meth == "ByteAll":
						return c17StrV("[1..3]"), true
					}
					return c17V{}, false
				}
				ev := c.c17NewEval(pk, hook)
				var res c17V
				failMsg, panicMsg := ev.run(func() { res = ev.callDecl(mkArray, mkArray, nil, []c17V{c17OpaqueV("p"), c17StrV("json")}) })
				if failMsg != "" || panicMsg != "" {
					und = failMsg + panicMsg
					break
				}
				rows++
				wantStr := !okv && !errv
				row := fmt.Sprintf("(isNum=%v, err=%v)", okv, errv)
				switch {
				case numCalled != 1:
					bad = append(bad, row+": the number generator is consulted "+strconv.Itoa(numCalled)+" times")
				case wantStr && strCalled != 1:
					bad = append(bad, row+": the string generator is not used although the number generator declined without error — nothing is output")
				case !wantStr && strCalled != 0:
					bad = append(bad, row+": the string generator also runs — the elements are output twice / after an error")
				case wantStr && !(res.k == c17Err && res.tag == "result of the string generator"):
					bad = append(bad, row+": the string generator's result is not returned")
				case errv && res.k != c17Err:
					bad = append(bad, row+": the number generator's error is dropped")
				case !errv && !wantStr && res.k != c17Nil:
					bad = append(bad, row+": an error is returned although the number generator succeeded")
				}
			}
		}
		switch {
		case und != "":
			c.Undecided("R18c", "mkArray:fallback", mkArray.Pos(), "mkArray left the loop-free subset: %s", und)
		case len(bad) > 0:
			c.Viol("R18c", "mkArray:fallback", mkArray.Pos(), "mkArray must use the string generator exactly when the number generator declined without error: %s", strings.Join(bad, "; "))
		default:
			c.OK("R18c", "mkArray:fallback", mkArray.Pos(), "truth table over (isNum, err), %d rows: string generator used exactly on (false, nil)", rows)
		}
	}
	// (3) writeArrayNumber: append in order, marshal that slice, decline only before the write
	wan, _ := c.MustFunc("R18c", c18Pkg, "arrayT", "writeArrayNumber")
	if wan == nil {
		return
	}
	var genCall *ast.CallExpr
	var genStack []ast.Node
	var marshal, write *ast.CallExpr
	walkStack(wan.Body, func(n ast.Node, stack []ast.Node) bool {
		call, ok := n.(*ast.CallExpr)
		if !ok {
			return true
		}
		o := callee(info, call)
		switch {
		case objIs(o, mx(c18Pkg), "", "rangeToArrayNumber"):
			genCall, genStack = call, append([]ast.Node(nil), stack...)
		case objIs(o, mx("lang"), "", "MarshalData"):
			marshal = call
		case o != nil && o.Name() == "Write":
			if _, tpath, _ := c17RecvNamed(info, call); tpath == mx("lang/stdio")+".Io" {
				write = call
			}
		}
		return true
	})
	if genCall == nil || marshal == nil || write == nil || len(marshal.Args) != 3 {
		c.Undecided("R18c", "writeArrayNumber:append", wan.Pos(), "writeArrayNumber is not in the recognised shape (rangeToArrayNumber call, lang.MarshalData(p, dt, slice), Stdout.Write)")
		return
	}
	// v of `v, isNum, err := rangeToArrayNumber(..)`
	var vObj types.Object
	var clause *ast.CaseClause
	for i := len(genStack) - 1; i >= 0; i-- {
		if as, ok := genStack[i].(*ast.AssignStmt); ok && vObj == nil && len(as.Lhs) == 3 {
			if id, ok := as.Lhs[0].(*ast.Ident); ok {
				vObj = info.ObjectOf(id)
			}
		}
		if cc, ok := genStack[i].(*ast.CaseClause); ok && clause == nil {
			clause = cc
		}
	}
	arrID, _ := unparen(marshal.Args[2]).(*ast.Ident)
	if vObj == nil || clause == nil || arrID == nil {
		c.Undecided("R18c", "writeArrayNumber:append", wan.Pos(), "cannot identify the generated slice / the marshalled slice")
		return
	}
	arr := info.ObjectOf(arrID)
	okAppend := false
	why := "the range's integers are never appended to the marshalled slice"
	ast.Inspect(clause, func(n ast.Node) bool {
		as, ok := n.(*ast.AssignStmt)
		if !ok || len(as.Lhs) != 1 || len(as.Rhs) != 1 {
			return true
		}
		ap, ok := isBuiltinCall(info, as.Rhs[0], "append")
		if !ok || !mentions(info, ap, vObj) {
			return true
		}
		l, _ := unparen(as.Lhs[0]).(*ast.Ident)
		a0, _ := unparen(ap.Args[0]).(*ast.Ident)
		a1 := ast.Expr(nil)
		if len(ap.Args) == 2 {
			a1 = unparen(ap.Args[1])
		}
		a1id, _ := a1.(*ast.Ident)
		switch {
		case l == nil || info.ObjectOf(l) != arr:
			why = "the append result is not stored in the marshalled slice"
		case a0 == nil || info.ObjectOf(a0) != arr:
			why = "the range's integers are not appended AFTER the elements collected so far (" + c.src(ap) + "): the order of the elements changes"
		case a1id == nil || info.ObjectOf(a1id) != vObj || !ap.Ellipsis.IsValid():
			why = "not all of the range's integers are appended (" + c.src(ap) + ")"
		default:
			okAppend = true
		}
		return true
	})
	c.Check(okAppend, "R18c", "writeArrayNumber:append", genCall.Pos(), "writeArrayNumber: %s", map[bool]string{true: "array = append(array, v...) keeps the order of the ranges; lang.MarshalData marshals that slice", false: why}[okAppend])
	// marshal result is what is written
	mres := types.Object(nil)
	walkStack(wan.Body, func(n ast.Node, stack []ast.Node) bool {
		if as, ok := n.(*ast.AssignStmt); ok && len(as.Rhs) == 1 && unparen(as.Rhs[0]) == ast.Expr(marshal) {
			if id, ok := as.Lhs[0].(*ast.Ident); ok {
				mres = info.ObjectOf(id)
			}
		}
		return true
	})
	wid, _ := unparen(write.Args[0]).(*ast.Ident)
	c.Check(mres != nil && wid != nil && info.ObjectOf(wid) == mres, "R18c", "writeArrayNumber:write", write.Pos(), "Stdout.Write is given the result of lang.MarshalData(…, %s) (%s)", arrID.Name, c.src(write))
	// declines happen before the write: every `return false, …` precedes the Write call in source order and the write is not in a loop
	lateDecline := ""
	ast.Inspect(wan.Body, func(n ast.Node) bool {
		rs, ok := n.(*ast.ReturnStmt)
		if !ok || len(rs.Results) != 2 {
			return true
		}
		if b, isC := constBool(info, rs.Results[0]); isC && b {
			return true
		}
		if rs.Pos() > write.Pos() {
			lateDecline = c.pos(rs.Pos())
		}
		return true
	})
	c.Check(lateDecline == "", "R18c", "writeArrayNumber:decline-before-write", wan.Pos(), "every return that may decline (isNum possibly false) precedes the only Stdout.Write, so the string generator never runs after numbers were output %s", lateDecline)
}

// ---------------------------------------------------------------- R18d odometer

// c18IdxIs: e is X[idx] with X resolving to obj; returns idx.
func c18IdxIs(info *types.Info, e ast.Expr, obj types.Object) (ast.Expr, bool) {
	ix, ok := unparen(e).(*ast.IndexExpr)
	if !ok {
		return nil, false
	}
	id, ok := unparen(ix.X).(*ast.Ident)
	if !ok || info.ObjectOf(id) != obj {
		return nil, false
	}
	return ix.Index, true
}

func (c *Ctx) c18Odometer(pk *packages.Package) {
	info := pk.TypesInfo
	fd, _ := c.MustFunc("R18d", c18Pkg, "arrayT", "writeArrayString")
	if fd == nil {
		return
	}
	und := func(key, f string, a ...any) {
		c.Undecided("R18d", key, fd.Pos(), "writeArrayString is outside the recognised odometer idiom: "+f, a...)
	}
	// the emission: <ArrayWriter>.WriteString(s)
	var emit *ast.CallExpr
	var emitStack []ast.Node
	nEmit := 0
	walkStack(fd.Body, func(n ast.Node, stack []ast.Node) bool {
		if call, ok := n.(*ast.CallExpr); ok {
			if _, tpath, meth := c17RecvNamed(info, call); tpath == mx("lang/stdio")+".ArrayWriter" && (meth == "WriteString" || meth == "Write") {
				emit, emitStack = call, append([]ast.Node(nil), stack...)
				nEmit++
			}
		}
		return true
	})
	if nEmit != 1 {
		und("odometer:emit", "%d ArrayWriter.Write/WriteString calls (expected exactly one emission per odometer position)", nEmit)
		return
	}
	// the statement list holding the emission (body of the endless for)
	var list []ast.Stmt
	emitIdx := -1
	var loop *ast.ForStmt
	for i := len(emitStack) - 1; i >= 0; i-- {
		if b, ok := emitStack[i].(*ast.BlockStmt); ok && list == nil {
			list = b.List
			emitIdx = topLevelIndex(list, emit)
			if i > 0 {
				loop, _ = emitStack[i-1].(*ast.ForStmt)
			}
		}
	}
	if list == nil || emitIdx < 0 || loop == nil || loop.Cond != nil || loop.Init != nil || loop.Post != nil {
		und("odometer:emit", "the emission is not a top-level statement of an endless `for { … }`")
		return
	}
	if es, ok := list[emitIdx].(*ast.ExprStmt); !ok || unparen(es.X) != ast.Expr(emit) {
		und("odometer:emit", "the emission is nested in another statement")
		return
	}
	sID, _ := unparen(emit.Args[0]).(*ast.Ident)
	if sID == nil {
		und("odometer:emit", "emitted value is not a local variable")
		return
	}
	sObj := info.ObjectOf(sID)
	// --- emit-fold: s := template ; for t := 0; t < len(counter); t++ { s = strings.Replace(s, marker, variable[t][counter[t]], 1) }
	var seed ast.Expr
	var fold ast.Stmt // *ast.ForStmt or *ast.RangeStmt
	for _, st := range list[:emitIdx] {
		switch x := st.(type) {
		case *ast.AssignStmt:
			if len(x.Lhs) == 1 && len(x.Rhs) == 1 {
				if id, ok := x.Lhs[0].(*ast.Ident); ok && info.ObjectOf(id) == sObj {
					seed = x.Rhs[0]
					fold = nil
				}
			}
		case *ast.ForStmt:
			if mentions(info, x, sObj) {
				fold = x
			}
		case *ast.RangeStmt:
			if mentions(info, x, sObj) {
				fold = x
			}
		}
	}
	var counter, variable, marker, template types.Object
	foldOK := false
	foldWhy := "no substitution loop between the template copy and the emission"
	if seed != nil && fold != nil {
		if id, ok := unparen(seed).(*ast.Ident); ok {
			template = info.ObjectOf(id)
		}
		foldWhy = c.c18Fold(info, fold, sObj, &counter, &variable, &marker)
		foldOK = foldWhy == "" && template != nil
		if foldWhy == "" && template == nil {
			foldWhy = "the emitted string is not seeded from a template variable"
		}
	}
	if !foldOK && (fold == nil || seed == nil) {
		und("odometer:emit-fold", "%s", foldWhy)
		return
	}
	c.Check(foldOK, "R18d", "odometer:emit-fold", emit.Pos(), "emitted string = template with, for t ascending from 0 while t < len(counter), the FIRST remaining marker replaced by variable[t][counter[t]] %s", map[bool]string{true: "(marker t receives block t's current element)", false: "— violated: " + foldWhy + "; the blocks' elements land in the wrong positions of the output"}[foldOK])
	if counter == nil || variable == nil {
		return
	}
	// --- last-fastest: first change of counter after the emission is counter[len(counter)-1]++
	// (written as ++, += 1 or counter[i] = counter[i] + 1)
	after := list[emitIdx+1:]
	var iObj types.Object
	var iInit ast.Expr
	var firstInc ast.Stmt
	var firstIncTarget ast.Expr
	var firstDelta int64
	firstIncIdx := -1
	for k, st := range after {
		if tgt, d, ok := c18StepOf(c, info, st); ok {
			if _, isC := c18IdxIs(info, tgt, counter); isC {
				firstInc, firstIncTarget, firstDelta, firstIncIdx = st, tgt, d, k
				break
			}
		}
		if c18WritesTo(info, st, counter) {
			break
		}
	}
	if firstInc == nil {
		und("odometer:last-fastest", "no `counter[i]++` at the top level after the emission")
		return
	}
	idx, _ := c18IdxIs(info, firstIncTarget, counter)
	idxID, _ := unparen(idx).(*ast.Ident)
	var idxExpr ast.Expr = idx
	if idxID != nil {
		// the index variable: its (last) plain definition between the emission and the first increment,
		// with no other store to it in between
		iObj = info.ObjectOf(idxID)
		defIdx := -1
		for k, st := range after[:firstIncIdx] {
			if as, ok := st.(*ast.AssignStmt); ok && len(as.Lhs) == 1 && len(as.Rhs) == 1 && (as.Tok == token.DEFINE || as.Tok == token.ASSIGN) && c18IsObj(info, as.Lhs[0], iObj) {
				iInit, defIdx = as.Rhs[0], k
			}
		}
		if defIdx < 0 {
			und("odometer:last-fastest", "index variable of the first increment has no single definition after the emission")
			return
		}
		for _, st := range after[defIdx+1 : firstIncIdx] {
			if c18StoresIdent(info, st, iObj) {
				und("odometer:last-fastest", "index variable of the first increment is modified between its definition and the increment")
				return
			}
		}
		// `last := len(counter) - 1; i := last`: a single-definition local stands for its definition
		idxExpr = localDefs(info, fd.Body).resolve1(info, iInit)
	}
	// evaluate idxExpr for len(counter) = 1..4
	lastOK, lastWhy := true, ""
	for L := 1; L <= 4 && lastOK; L++ {
		ev := c.c17NewEval(pk, nil)
		env := c17NewEnv(nil)
		vs := make([]c17V, L)
		for i := range vs {
			vs[i] = c17IntV(0)
		}
		env.define(counter, c17SliceV(vs))
		var v c17V
		failMsg, panicMsg := ev.run(func() { v = ev.eval(idxExpr, env) })
		if failMsg != "" || panicMsg != "" {
			und("odometer:last-fastest", "index of the first increment is not a pure expression over len(counter): %s%s", failMsg, panicMsg)
			return
		}
		if v.k != c17Int || int(v.i) != L-1 || firstDelta != 1 {
			lastOK = false
			lastWhy = fmt.Sprintf("with %d blocks the first counter changed after an emission is counter[%s] %+d", L, v, firstDelta)
		}
	}
	c.Check(lastOK, "R18d", "odometer:last-fastest", firstInc.Pos(), "after each emission the first counter changed is counter[len(counter)-1]++ (index expression %s) %s", c.src(idxExpr), map[bool]string{true: "— the last block varies fastest", false: "— violated: " + lastWhy + "; the product is not in odometer order"}[lastOK])
	// --- carry. Two layouts of the same decision:
	//   nested:    if counter[i] == len(variable[i]) { L: reset; i--; if i<0 exit; counter[i]++; if <has next> {goto emit} else {goto L} } [else {goto emit}]
	//   flattened: if <has next> { goto emit } ; L: reset; i--; if i<0 exit; counter[i]++; if <has next> {goto emit} ; goto L
	var carryIf *ast.IfStmt
	if firstIncIdx+1 < len(after) {
		carryIf, _ = after[firstIncIdx+1].(*ast.IfStmt)
	}
	if carryIf == nil || iObj == nil {
		und("odometer:carry", "no carry test directly after the first increment")
		return
	}
	emitLabels := map[string]bool{}
	for _, st := range list[:emitIdx+1] {
		if ls, ok := st.(*ast.LabeledStmt); ok {
			emitLabels[ls.Label.Name] = true
		}
	}
	target := func(list []ast.Stmt) string {
		if len(list) == 1 {
			if b, ok := list[0].(*ast.BranchStmt); ok && b.Tok == token.GOTO && b.Label != nil {
				return b.Label.Name
			}
		}
		return ""
	}
	// carry condition: semantically `counter[i] >= len(variable[i])` on the reachable values (counter[i] <= len)
	condOK, condWhy := c.c18CarryCond(pk, carryIf.Cond, counter, variable, iObj, true)
	carryBody := carryIf.Body.List
	flattened := false
	if !condOK && carryIf.Else == nil && carryIf.Init == nil {
		if hasNext, _ := c.c18CarryCond(pk, carryIf.Cond, counter, variable, iObj, false); hasNext && emitLabels[target(carryIf.Body.List)] {
			flattened, condOK, condWhy = true, true, ""
			carryBody = after[firstIncIdx+2:]
		}
	}
	// inside: reset to 0, i--, exit test, increment, continuation test
	var reset *ast.AssignStmt
	var stepStmt, inc2Stmt ast.Stmt
	var stepDelta, inc2Delta int64
	var contIf *ast.IfStmt
	againLabel := "" // flattened / else-less continuation: the `goto L` that follows the continuation test
	carryLabel := ""
	seq := []string{}
	for _, st := range carryBody {
		lbl := ""
		if ls, ok := st.(*ast.LabeledStmt); ok {
			st, lbl = ls.Stmt, ls.Label.Name
		}
		if tgt, d, ok := c18StepOf(c, info, st); ok {
			if c18IsObj(info, tgt, iObj) {
				stepStmt, stepDelta = st, d
				seq = append(seq, "step")
				continue
			} else if ie, ok := c18IdxIs(info, tgt, counter); ok && c18IsObj(info, ie, iObj) {
				inc2Stmt, inc2Delta = st, d
				seq = append(seq, "inc")
				continue
			}
		}
		switch x := st.(type) {
		case *ast.AssignStmt:
			if len(x.Lhs) == 1 {
				if ie, ok := c18IdxIs(info, x.Lhs[0], counter); ok && c18IsObj(info, ie, iObj) && x.Tok == token.ASSIGN {
					reset = x
					carryLabel = lbl
					seq = append(seq, "reset")
				}
			}
		case *ast.IfStmt:
			if mentions(info, x.Cond, counter) {
				contIf = x
				seq = append(seq, "cont")
			} else if mentions(info, x.Cond, iObj) {
				seq = append(seq, "exit")
			}
		case *ast.BranchStmt:
			if x.Tok == token.GOTO && x.Label != nil && len(seq) > 0 && seq[len(seq)-1] == "cont" {
				againLabel = x.Label.Name
				seq = append(seq, "again")
			} else {
				seq = append(seq, "branch")
			}
		}
	}
	if j := strings.Join(seq, ","); j != "reset,step,exit,inc,cont" && j != "reset,step,exit,inc,cont,again" {
		und("odometer:carry", "carry block is not the sequence reset / step / exit test / increment / continuation test (found %s)", strings.Join(seq, ","))
		return
	}
	var problems []string
	if !condOK {
		problems = append(problems, condWhy)
	}
	if v, ok := constInt(info, reset.Rhs[0]); !ok || v != 0 {
		problems = append(problems, "an exhausted block is reset to "+c.src(reset.Rhs[0])+" instead of its first element (0)")
	}
	if stepDelta != -1 {
		problems = append(problems, "the carry does not move one block to the left ("+c.src(stepStmt)+")")
	}
	if inc2Delta != 1 {
		problems = append(problems, "the carried-into counter is not incremented ("+c.src(inc2Stmt)+")")
	}
	// continuation: "has a next element" -> back to the emission; "overflows again" -> the reset statement.
	// The test may be written either way round; the arm not taken may be an else block or the goto that follows.
	{
		hasNext, why1 := c.c18CarryCond(pk, contIf.Cond, counter, variable, iObj, false)
		overflows := false
		if !hasNext {
			overflows, _ = c.c18CarryCond(pk, contIf.Cond, counter, variable, iObj, true)
		}
		thenT := target(contIf.Body.List)
		elseT := ""
		switch {
		case contIf.Else != nil && againLabel == "":
			if eb, _ := contIf.Else.(*ast.BlockStmt); eb != nil {
				elseT = target(eb.List)
			}
		case contIf.Else == nil:
			elseT = againLabel
		}
		nextT, againT := thenT, elseT
		if overflows {
			nextT, againT = elseT, thenT
		}
		switch {
		case !hasNext && !overflows:
			problems = append(problems, "continuation test: "+why1)
		case !c18GotoOnly(contIf.Body.List) || (contIf.Else == nil && againLabel == ""):
			problems = append(problems, "continuation test has no emit-again / carry-again arms")
		default:
			if !emitLabels[nextT] {
				problems = append(problems, "when the carried-into block has a next element the code does not jump back to the emission (goto "+nextT+")")
			}
			if carryLabel == "" || againT != carryLabel {
				problems = append(problems, "when the carried-into block overflows as well the code does not carry again (the other arm must jump to the reset statement)")
			}
		}
		if !flattened && carryIf.Else != nil {
			ob, _ := carryIf.Else.(*ast.BlockStmt)
			if ob == nil || !emitLabels[target(ob.List)] {
				problems = append(problems, "when the last block has a next element the code does not go back to the emission")
			}
		}
	}
	c.Check(len(problems) == 0, "R18d", "odometer:carry", carryIf.Pos(), "carry: when counter[i] reaches len(variable[i]) it is reset to 0, i moves one block to the left and that counter is incremented, repeating while it overflows %s", map[bool]string{true: "", false: "— violated: " + strings.Join(problems, "; ")}[len(problems) == 0])
	// --- exit: every jump out of the product (goto to a label outside the endless loop, or break) is guarded by i < 0
	nExit, badExit := 0, ""
	walkStack(loop.Body, func(n ast.Node, stack []ast.Node) bool {
		br, ok := n.(*ast.BranchStmt)
		if !ok || br.Tok != token.GOTO || br.Label == nil {
			return true
		}
		// target label inside the loop?
		inside := false
		ast.Inspect(loop.Body, func(x ast.Node) bool {
			if ls, ok := x.(*ast.LabeledStmt); ok && ls.Label.Name == br.Label.Name {
				inside = true
			}
			return true
		})
		if inside {
			return true
		}
		// cancellation exits are guarded by HasCancelled; product exits must be guarded by i < 0
		facts := factsOf(guardsAt(info, stack))
		isCancel, isNeg := false, false
		for _, f := range facts {
			if call, ok := unparen(f.E).(*ast.CallExpr); ok && f.True {
				if o := callee(info, call); o != nil && o.Name() == "HasCancelled" {
					isCancel = true
				}
			}
			// a fact `e is true` with e ≡ i < 0, or `e is false` with e ≡ i >= 0 (`if !(i >= 0) { goto … }`)
			if iObj != nil && c18IsNegTest(c, pk, f.E, iObj, f.True) {
				isNeg = true
			}
		}
		if isCancel {
			return true
		}
		nExit++
		if !isNeg {
			badExit = c.pos(br.Pos())
		}
		return true
	})
	if nExit == 0 {
		und("odometer:exit", "no exit from the product loop found")
		return
	}
	c.Check(badExit == "", "R18d", "odometer:exit", loop.Pos(), "the product ends (%d exits) only when the carry has left the first block (i < 0) %s", nExit, badExit)
	// --- block elements appended in order: variable[l] = append(variable[l], …)
	nApp, badApp := 0, ""
	ast.Inspect(fd.Body, func(n ast.Node) bool {
		as, ok := n.(*ast.AssignStmt)
		if !ok || len(as.Lhs) != 1 || len(as.Rhs) != 1 {
			return true
		}
		lidx, ok := c18IdxIs(info, as.Lhs[0], variable)
		if !ok {
			return true
		}
		ap, ok := isBuiltinCall(info, as.Rhs[0], "append")
		if !ok {
			return true
		}
		nApp++
		a0idx, ok := c18IdxIs(info, ap.Args[0], variable)
		if !ok || !c.sameExpr(a0idx, lidx) {
			badApp = c.src(as)
		}
		return true
	})
	if nApp < 2 {
		und("blocks:append-order", "expected the two `variable[l] = append(variable[l], …)` sites (list element, range expansion), found %d", nApp)
		return
	}
	c.Check(badApp == "", "R18d", "blocks:append-order", fd.Pos(), "the elements of an expansion block are appended behind the ones collected so far (%d sites) %s", nApp, badApp)
	// --- block numbering: one marker and one new block per opening bracket, the first block is number 0
	// (counter has len(variable) entries and the substitution loop visits blocks 0..len-1)
	var lObj types.Object
	var lIncDelta int64
	ast.Inspect(fd.Body, func(n ast.Node) bool {
		as, ok := n.(*ast.AssignStmt)
		if !ok || len(as.Lhs) != 1 || len(as.Rhs) != 1 {
			return true
		}
		if lidx, ok := c18IdxIs(info, as.Lhs[0], variable); ok {
			if _, isMake := isBuiltinCall(info, as.Rhs[0], "make"); isMake {
				if id, ok := unparen(lidx).(*ast.Ident); ok {
					lObj = info.ObjectOf(id)
				}
			}
		}
		return true
	})
	if lObj == nil {
		und("blocks:index", "no `variable[l] = make(…)` that opens a block")
		return
	}
	var openClause *ast.CaseClause
	nInc := 0
	walkStack(fd.Body, func(n ast.Node, stack []ast.Node) bool {
		st, isStmt := n.(ast.Stmt)
		if !isStmt {
			return true
		}
		if tgt, d, ok := c18StepOf(c, info, st); ok && c18IsObj(info, tgt, lObj) {
			nInc++
			lIncDelta = d
			for i := len(stack) - 1; i >= 0; i-- {
				if cc, ok := stack[i].(*ast.CaseClause); ok {
					openClause = cc
					break
				}
			}
		}
		return true
	})
	defs := localDefs(info, fd.Body)
	var lInit int64 = 99
	for _, d := range defs[lObj] {
		if d != nil {
			if v, ok := constInt(info, d); ok {
				lInit = v
			}
		}
	}
	markerAdded := false
	if openClause != nil && marker != nil && template != nil {
		for _, st := range openClause.Body {
			if as, ok := st.(*ast.AssignStmt); ok && len(as.Lhs) == 1 && c18IsObj(info, as.Lhs[0], template) {
				switch {
				case as.Tok == token.ADD_ASSIGN && c18IsObj(info, as.Rhs[0], marker):
					markerAdded = true
				case as.Tok == token.ASSIGN:
					if b, ok := unparen(as.Rhs[0]).(*ast.BinaryExpr); ok && b.Op == token.ADD && c18IsObj(info, b.X, template) && c18IsObj(info, b.Y, marker) {
						markerAdded = true
					}
				}
			}
		}
	}
	isOpen := false
	if openClause != nil {
		for _, e := range openClause.List {
			if id, ok := unparen(e).(*ast.Ident); ok && id.Name != "" {
				if k, ok := info.ObjectOf(id).(*types.Const); ok && k.Name() == "astTypeOpen" {
					isOpen = true
				}
			}
		}
	}
	okIdx := nInc == 1 && lIncDelta == 1 && lInit == -1 && markerAdded && isOpen
	c.Check(okIdx, "R18d", "blocks:index", fd.Pos(), "each opening bracket appends one marker to the template and starts block l+1, the first block being number 0 (l starts at %d, %d step(s) of l, marker appended: %v, in the astTypeOpen arm: %v) — otherwise markers and blocks do not line up with counter[0..len(variable))", lInit, nInc, markerAdded, isOpen)
}

// c18StepOf: st changes x by a constant: x++ / x-- / x += k / x -= k / x = x + k / x = k + x / x = x - k.
// Returns x and the signed constant.
func c18StepOf(c *Ctx, info *types.Info, st ast.Stmt) (ast.Expr, int64, bool) {
	switch x := st.(type) {
	case *ast.IncDecStmt:
		if x.Tok == token.INC {
			return x.X, 1, true
		}
		return x.X, -1, true
	case *ast.AssignStmt:
		if len(x.Lhs) != 1 || len(x.Rhs) != 1 {
			return nil, 0, false
		}
		switch x.Tok {
		case token.ADD_ASSIGN, token.SUB_ASSIGN:
			k, ok := constInt(info, x.Rhs[0])
			if !ok {
				return nil, 0, false
			}
			if x.Tok == token.SUB_ASSIGN {
				k = -k
			}
			return x.Lhs[0], k, true
		case token.ASSIGN:
			b, ok := unparen(x.Rhs[0]).(*ast.BinaryExpr)
			if !ok || (b.Op != token.ADD && b.Op != token.SUB) {
				return nil, 0, false
			}
			if k, ok := constInt(info, b.Y); ok && c.sameExpr(b.X, x.Lhs[0]) {
				if b.Op == token.SUB {
					k = -k
				}
				return x.Lhs[0], k, true
			}
			if k, ok := constInt(info, b.X); ok && b.Op == token.ADD && c.sameExpr(b.Y, x.Lhs[0]) {
				return x.Lhs[0], k, true
			}
		}
	}
	return nil, 0, false
}

// c18StoresIdent: some statement under n assigns / steps the local obj.
func c18StoresIdent(info *types.Info, n ast.Node, obj types.Object) bool {
	w := false
	ast.Inspect(n, func(x ast.Node) bool {
		switch s := x.(type) {
		case *ast.AssignStmt:
			for _, l := range s.Lhs {
				if c18IsObj(info, l, obj) {
					w = true
				}
			}
		case *ast.IncDecStmt:
			if c18IsObj(info, s.X, obj) {
				w = true
			}
		case *ast.UnaryExpr:
			if s.Op == token.AND && c18IsObj(info, s.X, obj) {
				w = true
			}
		}
		return true
	})
	return w
}

func c18IsObj(info *types.Info, e ast.Expr, o types.Object) bool {
	id, ok := unparen(e).(*ast.Ident)
	return ok && o != nil && info.ObjectOf(id) == o
}

func c18WritesTo(info *types.Info, n ast.Node, obj types.Object) bool {
	w := false
	ast.Inspect(n, func(x ast.Node) bool {
		switch s := x.(type) {
		case *ast.AssignStmt:
			for _, l := range s.Lhs {
				if _, ok := c18IdxIs(info, l, obj); ok {
					w = true
				}
			}
		case *ast.IncDecStmt:
			if _, ok := c18IdxIs(info, s.X, obj); ok {
				w = true
			}
		}
		return true
	})
	return w
}

func c18GotoOnly(list []ast.Stmt) bool {
	if len(list) != 1 {
		return false
	}
	b, ok := list[0].(*ast.BranchStmt)
	return ok && (b.Tok == token.GOTO || b.Tok == token.CONTINUE)
}

// c18IsNegTest: e is semantically `i < 0` (truth=true) resp. `i >= 0` (truth=false) on i in [-2,3].
func c18IsNegTest(c *Ctx, pk *packages.Package, e ast.Expr, iObj types.Object, truth bool) bool {
	for i := -2; i <= 3; i++ {
		ev := c.c17NewEval(pk, nil)
		env := c17NewEnv(nil)
		env.define(iObj, c17IntV(int64(i)))
		var v c17V
		f, p := ev.run(func() { v = ev.eval(e, env) })
		if f != "" || p != "" || v.k != c17Bool || v.b != ((i < 0) == truth) {
			return false
		}
	}
	return true
}

// c18CarryCond evaluates cond over counter[i] in [0,len] for len(variable[i]) in 1..3 and requires it
// to be true exactly when counter[i] == len (overflow=true) resp. exactly when counter[i] < len.
func (c *Ctx) c18CarryCond(pk *packages.Package, cond ast.Expr, counter, variable, iObj types.Object, overflow bool) (bool, string) {
	for L := 1; L <= 3; L++ {
		for v := 0; v <= L; v++ {
			ev := c.c17NewEval(pk, nil)
			env := c17NewEnv(nil)
			env.define(iObj, c17IntV(0))
			env.define(counter, c17SliceV([]c17V{c17IntV(int64(v))}))
			blk := make([]c17V, L)
			for i := range blk {
				blk[i] = c17StrV("e")
			}
			env.define(variable, c17V{k: c17Opaque, tag: "variable"})
			// variable is a map[int][]string: model the lookup through a hook-free trick — evaluate len(variable[i]) by substitution
			var r c17V
			ev.hook = nil
			failMsg, panicMsg := ev.run(func() { r = c18EvalWithLen(ev, cond, env, variable, iObj, L) })
			if failMsg != "" || panicMsg != "" {
				return false, "condition is not a pure comparison of counter[i] with len(variable[i]): " + failMsg + panicMsg
			}
			want := v == L
			if !overflow {
				want = v < L
			}
			if r.k != c17Bool || r.b != want {
				if overflow {
					return false, fmt.Sprintf("the overflow test %s is %v for counter[i]=%d with a block of %d elements (must hold exactly when the block is exhausted) — an index beyond the block is used or elements are skipped", ev.c.src(cond), r, v, L)
				}
				return false, fmt.Sprintf("%s is %v for counter[i]=%d with a block of %d elements (must hold exactly while the block has a next element)", ev.c.src(cond), r, v, L)
			}
		}
	}
	return true, ""
}

// c18EvalWithLen evaluates a comparison in which `len(variable[i])` denotes L.
func c18EvalWithLen(ev *c17Eval, e ast.Expr, env *c17Env, variable, iObj types.Object, L int) c17V {
	e = unparen(e)
	if call, ok := isBuiltinCall(ev.info, e, "len"); ok {
		if ie, ok := c18IdxIs(ev.info, call.Args[0], variable); ok && c18IsObj(ev.info, ie, iObj) {
			return c17IntV(int64(L))
		}
	}
	switch x := e.(type) {
	case *ast.BinaryExpr:
		if x.Op == token.LAND || x.Op == token.LOR {
			l := c18EvalWithLen(ev, x.X, env, variable, iObj, L)
			if l.k != c17Bool {
				ev.fail(x, "non-boolean operand")
			}
			if (x.Op == token.LAND && !l.b) || (x.Op == token.LOR && l.b) {
				return l
			}
			return c18EvalWithLen(ev, x.Y, env, variable, iObj, L)
		}
		return ev.binop(x, x.Op, c18EvalWithLen(ev, x.X, env, variable, iObj, L), c18EvalWithLen(ev, x.Y, env, variable, iObj, L))
	case *ast.UnaryExpr:
		if x.Op == token.NOT {
			v := c18EvalWithLen(ev, x.X, env, variable, iObj, L)
			if v.k != c17Bool {
				ev.fail(x, "non-boolean operand")
			}
			return c17BoolV(!v.b)
		}
	}
	return ev.eval(e, env)
}

// c18Fold recognises the substitution loop and returns "" or the reason it is not the documented fold.
func (c *Ctx) c18Fold(info *types.Info, foldStmt ast.Stmt, sObj types.Object, counter, variable, marker *types.Object) string {
	var tObj, valObj types.Object // loop index; (range form) the value variable = counter[t]
	var body *ast.BlockStmt
	switch fold := foldStmt.(type) {
	case *ast.RangeStmt:
		// for t := range counter / for t, c := range counter: visits t = 0..len(counter)-1 ascending by definition
		cid, ok := unparen(fold.X).(*ast.Ident)
		if !ok {
			return "substitution loop does not range over a local slice"
		}
		if _, isSlice := info.TypeOf(cid).Underlying().(*types.Slice); !isSlice {
			return "substitution loop ranges over something that is not a slice (the iteration order is not the block order)"
		}
		*counter = info.ObjectOf(cid)
		kid, ok := fold.Key.(*ast.Ident)
		if !ok || fold.Tok != token.DEFINE || kid.Name == "_" {
			return "substitution loop does not define its index variable"
		}
		tObj = info.ObjectOf(kid)
		if fold.Value != nil {
			vid, ok := fold.Value.(*ast.Ident)
			if !ok {
				return "substitution loop value variable"
			}
			if vid.Name != "_" {
				valObj = info.ObjectOf(vid)
			}
		}
		body = fold.Body
		// the body must not disturb the iteration: only locals are assigned
		for _, st := range body.List {
			if as, ok := st.(*ast.AssignStmt); ok {
				for _, l := range as.Lhs {
					if _, isID := unparen(l).(*ast.Ident); !isID {
						return "substitution loop body stores into something that is not a local"
					}
					if c18IsObj(info, l, tObj) || (valObj != nil && c18IsObj(info, l, valObj)) {
						return "substitution loop body modifies its own loop variables"
					}
				}
			}
		}
	case *ast.ForStmt:
		if why := c.c18FoldHeader(info, fold, counter, &tObj); why != "" {
			return why
		}
		body = fold.Body
	default:
		return "no substitution loop"
	}
	// body: [c := counter[t];] s = strings.Replace(s, marker, variable[t][c], 1)
	defs := localDefs(info, body)
	var rep *ast.CallExpr
	nAssign := 0
	for _, st := range body.List {
		as, ok := st.(*ast.AssignStmt)
		if !ok {
			return "substitution loop body contains more than assignments"
		}
		if len(as.Lhs) == 1 && c18IsObj(info, as.Lhs[0], sObj) {
			nAssign++
			if call, ok := unparen(as.Rhs[0]).(*ast.CallExpr); ok && objIs(callee(info, call), "strings", "", "Replace") {
				rep = call
			}
		}
	}
	if rep == nil || nAssign != 1 {
		return "the emitted string is not built by exactly one strings.Replace per block"
	}
	if !c18IsObj(info, rep.Args[0], sObj) {
		return "strings.Replace does not continue from the partially substituted string"
	}
	mid, ok := unparen(rep.Args[1]).(*ast.Ident)
	if !ok {
		return "the replaced text is not the marker variable"
	}
	*marker = info.ObjectOf(mid)
	if n, ok := constInt(info, rep.Args[3]); !ok || n != 1 {
		return "strings.Replace count is " + c.src(rep.Args[3]) + " (must be 1: each block fills exactly one marker; otherwise the first block's element fills every marker)"
	}
	// new text: variable[t][counter[t]]
	outer, ok := unparen(rep.Args[2]).(*ast.IndexExpr)
	if !ok {
		return "replacement text is not variable[t][counter[t]]"
	}
	inner, ok := unparen(outer.X).(*ast.IndexExpr)
	if !ok {
		return "replacement text is not variable[t][counter[t]]"
	}
	vid, ok := unparen(inner.X).(*ast.Ident)
	if !ok || !c18IsObj(info, inner.Index, tObj) {
		return "replacement text does not select block t (" + c.src(rep.Args[2]) + ")"
	}
	*variable = info.ObjectOf(vid)
	elemIdx := defs.resolve1(info, outer.Index)
	if valObj != nil && c18IsObj(info, elemIdx, valObj) {
		return "" // the range value variable is counter[t]
	}
	if ie, ok := c18IdxIs(info, elemIdx, *counter); !ok || !c18IsObj(info, ie, tObj) {
		return "replacement text does not select block t's current element counter[t] (" + c.src(rep.Args[2]) + ")"
	}
	return ""
}

// c18FoldHeader: `for t := <init>; <cond>; <step>` visits t = 0,1,…,len(counter)-1 ascending (decided by
// running init/cond/step on small lengths). Sets counter (the slice whose len bounds t) and the index variable.
func (c *Ctx) c18FoldHeader(info *types.Info, fold *ast.ForStmt, counter *types.Object, tOut *types.Object) string {
	// for t := 0; t < len(counter); t++
	init, ok := fold.Init.(*ast.AssignStmt)
	if !ok || init.Tok != token.DEFINE || len(init.Lhs) != 1 {
		return "substitution loop has no `t := …` initialiser"
	}
	tObj := info.ObjectOf(init.Lhs[0].(*ast.Ident))
	*tOut = tObj
	postTgt, postDelta, ok := c18StepOf(c, info, fold.Post)
	if !ok || fold.Post == nil || !c18IsObj(info, postTgt, tObj) {
		return "substitution loop does not step its index by a constant"
	}
	cond, ok := unparen(fold.Cond).(*ast.BinaryExpr)
	if !ok {
		return "substitution loop has no bound test"
	}
	// find counter: the slice whose len bounds t
	var lenCall *ast.CallExpr
	ast.Inspect(cond, func(n ast.Node) bool {
		if call, ok := n.(*ast.CallExpr); ok {
			if lc, ok := isBuiltinCall(info, call, "len"); ok {
				lenCall = lc
			}
		}
		return true
	})
	if lenCall == nil {
		return "substitution loop is not bounded by len(counter)"
	}
	cid, ok := unparen(lenCall.Args[0]).(*ast.Ident)
	if !ok {
		return "substitution loop is not bounded by the length of a local slice"
	}
	*counter = info.ObjectOf(cid)
	// the visited t sequence must be 0,1,…,len-1 ascending: decide init/cond/post on small lengths
	for L := 0; L <= 3; L++ {
		var seq []int
		ev := c.c17NewEval(c.Pkg(c18Pkg), nil)
		env := c17NewEnv(nil)
		vs := make([]c17V, L)
		for i := range vs {
			vs[i] = c17IntV(0)
		}
		env.define(*counter, c17SliceV(vs))
		f, p := ev.run(func() {
			t := ev.eval(init.Rhs[0], env)
			env.define(tObj, t)
			for n := 0; n < 8; n++ {
				cv := ev.eval(fold.Cond, env)
				if cv.k != c17Bool {
					ev.fail(fold.Cond, "bound test is not boolean")
				}
				if !cv.b {
					return
				}
				cur := *env.lookup(tObj)
				seq = append(seq, int(cur.i))
				env.define(tObj, c17IntV(cur.i+postDelta))
			}
		})
		if f != "" || p != "" {
			return "the loop header is not pure index arithmetic: " + f + p
		}
		want := []int{}
		for i := 0; i < L; i++ {
			want = append(want, i)
		}
		if !c17SameInts(seq, want) {
			return fmt.Sprintf("with %d blocks the markers are substituted in block order %v instead of %v (each substitution replaces the first remaining marker, so block t must be handled t-th)", L, seq, want)
		}
	}
	return ""
}
