package main

import (
	"go/ast"
	"go/types"
)

// R11h — `$GLOBAL` shows the global table as it is now. getGlobalValues builds the map
// from GlobalVariables.vars on every read; a cache kept beside the table is only right if
// EVERY mutation of the table (set, Unset, …) invalidates it — two cooperating sites. The
// structural condition that makes staleness impossible: the function reads no package-level
// variable other than the table itself, and what it returns is allocated in the call.
func init() {
	extend("C11", func(c *Ctx) {
		c.Rule("R11h", "lang.getGlobalValues: the only package-level variable it reads or writes is GlobalVariables (no cache beside the table), and the value it returns is a map allocated in that call (make / literal bound to a local)")
		fd, pk := c.MustFunc("R11h", "lang", "", "getGlobalValues")
		if fd == nil {
			return
		}
		info := pk.TypesInfo
		foreign := ""
		usesTable := false
		ast.Inspect(fd.Body, func(nd ast.Node) bool {
			id, ok := nd.(*ast.Ident)
			if !ok {
				return true
			}
			v, ok := info.Uses[id].(*types.Var)
			if !ok || v.IsField() || v.Pkg() == nil || v.Parent() != v.Pkg().Scope() {
				return true
			}
			if v.Pkg() == pk.Types && v.Name() == "GlobalVariables" {
				usesTable = true
				return true
			}
			if v.Pkg() == pk.Types {
				foreign = v.Name()
			}
			return true
		})
		c.Check(usesTable && foreign == "", "R11h", "getGlobalValues:no-state-beside-the-table", fd.Pos(), "getGlobalValues reads GlobalVariables (%v) and no other package-level variable (found: %q) — a cached copy goes stale on any mutation that forgets to invalidate it", usesTable, foreign)
		defs := localDefs(info, fd.Body)
		n, bad := 0, ""
		ast.Inspect(fd.Body, func(nd ast.Node) bool {
			if _, ok := nd.(*ast.FuncLit); ok {
				return false
			}
			rs, ok := nd.(*ast.ReturnStmt)
			if !ok || len(rs.Results) != 1 {
				return true
			}
			n++
			id, isId := unparen(rs.Results[0]).(*ast.Ident)
			fresh := false
			if isId {
				if _, isLocal := defs[info.ObjectOf(id)]; isLocal {
					switch r := defs.resolve1(info, id).(type) {
					case *ast.CompositeLit:
						fresh = true
					case *ast.CallExpr:
						_, fresh = isBuiltinCall(info, r, "make")
					}
				}
			}
			if !fresh {
				bad = c.src(rs)
			}
			return true
		})
		c.Check(n >= 1 && bad == "", "R11h", "getGlobalValues:returns-fresh-map", fd.Pos(), "every return hands out a map made in this call (offending: %q)", bad)
	})
}
