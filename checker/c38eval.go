package main

// c38 small-scope evaluator.
//
// Purpose: decide *index arithmetic* facts semantically instead of matching the text of bounds and
// guards (`len(b) < n` vs `len(b) <= n`, `b[:len(b)-n]` vs `b[:l-n]` with l := len(b), an up-counting
// vs a down-counting loop …). In the spirit of match.go's samePredOnRange/truthTable it evaluates a
// code fragment's integer expressions, slice bounds and element moves for every value of a small
// finite domain (element lengths 0..5, counts -7..7) and tabulates the resulting write events.
// It is NOT a murex run: nothing of murex is compiled or executed, no I/O happens; the fragment is a
// go/ast tree walked over the type-checked source, calls are resolved through go/types and only
//   - builtins len/make and type conversions,
//   - pure package-local helpers (inlined from their FuncDecl),
//   - the contract summaries supplied by the rule (c38Hook: "ReadArray invokes its callback once per
//     element", "ArrayWriter.Write emits", "errors are nil", …)
// are understood. Anything else makes the fragment "not evaluable" => the rule reports UNDECIDED.

import (
	"fmt"
	"go/ast"
	"go/constant"
	"go/token"
	"go/types"

	"golang.org/x/tools/go/packages"
)

type c38Kind int

const (
	c38Bad c38Kind = iota
	c38Int
	c38Bool
	c38Slice // []byte / string / []T : view on an array of int64 cells
	c38Nil
	c38Opaque
	c38Tuple
	c38Closure
)

type c38Arr struct{ cells []int64 }

type c38V struct {
	k      c38Kind
	i      int64
	b      bool
	arr    *c38Arr
	lo, hi int
	tup    []c38V
	tag    string
	fn     *ast.FuncLit
	env    *c38Env
}

func c38IntV(i int64) c38V { return c38V{k: c38Int, i: i} }
func c38BoolV(b bool) c38V { return c38V{k: c38Bool, b: b} }
func c38NilV() c38V        { return c38V{k: c38Nil} }
func c38OpaqueV(tag string) c38V {
	return c38V{k: c38Opaque, tag: tag}
}
func c38BytesV(b []int64) c38V {
	a := &c38Arr{cells: append([]int64(nil), b...)}
	return c38V{k: c38Slice, arr: a, lo: 0, hi: len(b)}
}
func (v c38V) bytes() []int64 {
	if v.k != c38Slice || v.arr == nil {
		return nil
	}
	return append([]int64(nil), v.arr.cells[v.lo:v.hi]...)
}
func (v c38V) length() int { return v.hi - v.lo }

type c38Env struct {
	vars map[types.Object]*c38V
	up   *c38Env
}

func c38NewEnv(up *c38Env) *c38Env { return &c38Env{vars: map[types.Object]*c38V{}, up: up} }
func (e *c38Env) lookup(o types.Object) *c38V {
	for x := e; x != nil; x = x.up {
		if v, ok := x.vars[o]; ok {
			return v
		}
	}
	return nil
}
func (e *c38Env) define(o types.Object, v c38V) { vv := v; e.vars[o] = &vv }

// outcome of a non-evaluable fragment / a modelled runtime panic
type c38Fail struct{ msg string }
type c38Panic struct{ msg string }

type c38Hook func(ev *c38Eval, call *ast.CallExpr, env *c38Env) (c38V, bool)

type c38Eval struct {
	c     *Ctx
	pk    *packages.Package
	info  *types.Info
	hook  c38Hook
	sel   func(ev *c38Eval, se *ast.SelectorExpr, env *c38Env) (c38V, bool)
	steps int
	depth int
	funcs map[types.Object]*ast.FuncDecl
	ret   c38V
}

func (c *Ctx) c38NewEval(pk *packages.Package, hook c38Hook) *c38Eval {
	ev := &c38Eval{c: c, pk: pk, info: pk.TypesInfo, hook: hook, funcs: map[types.Object]*ast.FuncDecl{}}
	eachFunc(pk, func(fd *ast.FuncDecl) {
		if fd.Recv == nil {
			ev.funcs[pk.TypesInfo.Defs[fd.Name]] = fd
		}
	})
	return ev
}

func (ev *c38Eval) fail(n ast.Node, f string, a ...any) {
	panic(c38Fail{fmt.Sprintf("%s: %s [%s]", ev.c.pos(n.Pos()), fmt.Sprintf(f, a...), ev.c.src(n))})
}
func (ev *c38Eval) rtpanic(n ast.Node, f string, a ...any) {
	panic(c38Panic{fmt.Sprintf("%s: %s [%s]", ev.c.pos(n.Pos()), fmt.Sprintf(f, a...), ev.c.src(n))})
}
func (ev *c38Eval) tick(n ast.Node) {
	ev.steps++
	if ev.steps > 20000 {
		panic(c38Panic{fmt.Sprintf("%s: no termination within 20000 evaluation steps (loop does not make progress)", ev.c.pos(n.Pos()))})
	}
}

// run evaluates f and converts the internal panics into (failMsg, panicMsg).
func (ev *c38Eval) run(f func()) (failMsg, panicMsg string) {
	defer func() {
		if r := recover(); r != nil {
			switch x := r.(type) {
			case c38Fail:
				failMsg = x.msg
			case c38Panic:
				panicMsg = x.msg
			default:
				panic(r)
			}
		}
	}()
	ev.steps = 0
	f()
	return
}

// ---------------------------------------------------------------- expressions

func (ev *c38Eval) constVal(e ast.Expr) (c38V, bool) {
	tv, ok := ev.info.Types[e]
	if !ok || tv.Value == nil {
		return c38V{}, false
	}
	switch tv.Value.Kind() {
	case constant.Int:
		if i, ok := constant.Int64Val(tv.Value); ok {
			return c38IntV(i), true
		}
	case constant.Bool:
		return c38BoolV(constant.BoolVal(tv.Value)), true
	case constant.String:
		s := constant.StringVal(tv.Value)
		b := make([]int64, len(s))
		for i := 0; i < len(s); i++ {
			b[i] = int64(s[i])
		}
		return c38BytesV(b), true
	}
	return c38V{}, false
}

func (ev *c38Eval) eval(e ast.Expr, env *c38Env) c38V {
	ev.tick(e)
	if v, ok := ev.constVal(e); ok {
		return v
	}
	switch x := e.(type) {
	case *ast.ParenExpr:
		return ev.eval(x.X, env)
	case *ast.Ident:
		o := ev.info.ObjectOf(x)
		if _, ok := o.(*types.Nil); ok {
			return c38NilV()
		}
		if v := env.lookup(o); v != nil {
			return *v
		}
		ev.fail(x, "free variable %s has no value in the evaluated fragment", x.Name)
	case *ast.UnaryExpr:
		v := ev.eval(x.X, env)
		switch {
		case x.Op == token.SUB && v.k == c38Int:
			return c38IntV(-v.i)
		case x.Op == token.ADD && v.k == c38Int:
			return v
		case x.Op == token.NOT && v.k == c38Bool:
			return c38BoolV(!v.b)
		}
		ev.fail(x, "unary %s on this operand is outside the evaluated subset", x.Op)
	case *ast.BinaryExpr:
		if x.Op == token.LAND || x.Op == token.LOR {
			l := ev.eval(x.X, env)
			if l.k != c38Bool {
				ev.fail(x, "non-boolean operand")
			}
			if (x.Op == token.LAND && !l.b) || (x.Op == token.LOR && l.b) {
				return l
			}
			r := ev.eval(x.Y, env)
			if r.k != c38Bool {
				ev.fail(x, "non-boolean operand")
			}
			return r
		}
		l, r := ev.eval(x.X, env), ev.eval(x.Y, env)
		return ev.binop(x, l, r)
	case *ast.CallExpr:
		return ev.call(x, env)
	case *ast.IndexExpr:
		s, i := ev.eval(x.X, env), ev.eval(x.Index, env)
		if s.k != c38Slice || i.k != c38Int {
			ev.fail(x, "index expression outside the evaluated subset")
		}
		if i.i < 0 || int(i.i) >= s.length() {
			ev.rtpanic(x, "index %d out of range [0,%d): the builtin panics on this input", i.i, s.length())
		}
		return c38IntV(s.arr.cells[s.lo+int(i.i)])
	case *ast.SliceExpr:
		s := ev.eval(x.X, env)
		if s.k != c38Slice || x.Slice3 {
			ev.fail(x, "slice expression outside the evaluated subset")
		}
		lo, hi := 0, s.length()
		if x.Low != nil {
			v := ev.eval(x.Low, env)
			if v.k != c38Int {
				ev.fail(x, "non-integer bound")
			}
			lo = int(v.i)
		}
		if x.High != nil {
			v := ev.eval(x.High, env)
			if v.k != c38Int {
				ev.fail(x, "non-integer bound")
			}
			hi = int(v.i)
		}
		if lo < 0 || hi < lo || hi > s.length() {
			ev.rtpanic(x, "slice bounds [%d:%d] out of range for length %d: the builtin panics (or exposes bytes beyond the element) on this input", lo, hi, s.length())
		}
		if s.arr == nil {
			return s
		}
		return c38V{k: c38Slice, arr: s.arr, lo: s.lo + lo, hi: s.lo + hi}
	case *ast.SelectorExpr:
		if ev.sel != nil {
			if v, ok := ev.sel(ev, x, env); ok {
				return v
			}
		}
		return c38OpaqueV(ev.c.src(x))
	case *ast.FuncLit:
		return c38V{k: c38Closure, fn: x, env: env}
	}
	ev.fail(e, "expression form outside the evaluated subset")
	return c38V{}
}

func (ev *c38Eval) binop(x *ast.BinaryExpr, l, r c38V) c38V {
	if l.k == c38Int && r.k == c38Int {
		switch x.Op {
		case token.ADD:
			return c38IntV(l.i + r.i)
		case token.SUB:
			return c38IntV(l.i - r.i)
		case token.MUL:
			return c38IntV(l.i * r.i)
		case token.QUO:
			if r.i == 0 {
				ev.rtpanic(x, "division by zero")
			}
			return c38IntV(l.i / r.i)
		case token.REM:
			if r.i == 0 {
				ev.rtpanic(x, "division by zero")
			}
			return c38IntV(l.i % r.i)
		case token.LSS:
			return c38BoolV(l.i < r.i)
		case token.LEQ:
			return c38BoolV(l.i <= r.i)
		case token.GTR:
			return c38BoolV(l.i > r.i)
		case token.GEQ:
			return c38BoolV(l.i >= r.i)
		case token.EQL:
			return c38BoolV(l.i == r.i)
		case token.NEQ:
			return c38BoolV(l.i != r.i)
		}
	}
	if l.k == c38Bool && r.k == c38Bool && (x.Op == token.EQL || x.Op == token.NEQ) {
		return c38BoolV((l.b == r.b) == (x.Op == token.EQL))
	}
	if x.Op == token.EQL || x.Op == token.NEQ {
		isNil := func(v c38V) (bool, bool) { // (isNil, known)
			switch v.k {
			case c38Nil:
				return true, true
			case c38Opaque, c38Closure:
				return false, true
			case c38Slice:
				return v.arr == nil, true
			}
			return false, false
		}
		if l.k == c38Nil || r.k == c38Nil {
			a, ok1 := isNil(l)
			b, ok2 := isNil(r)
			if ok1 && ok2 {
				return c38BoolV((a == b) == (x.Op == token.EQL))
			}
		}
		// string comparison
		if l.k == c38Slice && r.k == c38Slice {
			if t, ok := ev.info.TypeOf(x.X).Underlying().(*types.Basic); ok && t.Info()&types.IsString != 0 {
				lb, rb := l.bytes(), r.bytes()
				eq := len(lb) == len(rb)
				for i := 0; eq && i < len(lb); i++ {
					eq = lb[i] == rb[i]
				}
				return c38BoolV(eq == (x.Op == token.EQL))
			}
		}
	}
	ev.fail(x, "binary %s on these operands is outside the evaluated subset", x.Op)
	return c38V{}
}

func (ev *c38Eval) call(x *ast.CallExpr, env *c38Env) c38V {
	// conversions
	if tv, ok := ev.info.Types[x.Fun]; ok && tv.IsType() && len(x.Args) == 1 {
		v := ev.eval(x.Args[0], env)
		switch v.k {
		case c38Int, c38Bool:
			return v
		case c38Slice:
			// string(b) / []byte(s): a copy
			return c38BytesV(v.bytes())
		}
		ev.fail(x, "conversion of this operand is outside the evaluated subset")
	}
	// builtins
	if id, ok := unparen(x.Fun).(*ast.Ident); ok {
		if _, isB := ev.info.Uses[id].(*types.Builtin); isB {
			switch id.Name {
			case "len", "cap":
				v := ev.eval(x.Args[0], env)
				if v.k != c38Slice {
					ev.fail(x, "len of a non-slice")
				}
				return c38IntV(int64(v.length()))
			case "make":
				if len(x.Args) >= 2 {
					n := ev.eval(x.Args[1], env)
					if n.k != c38Int {
						ev.fail(x, "make with a non-integer length")
					}
					if n.i < 0 {
						ev.rtpanic(x, "make with negative length %d", n.i)
					}
					cells := make([]int64, n.i)
					for i := range cells {
						cells[i] = -1 // zero byte, distinguishable from every element byte
					}
					return c38V{k: c38Slice, arr: &c38Arr{cells: cells}, lo: 0, hi: int(n.i)}
				}
			case "min", "max":
				var best int64
				for i, a := range x.Args {
					v := ev.eval(a, env)
					if v.k != c38Int {
						ev.fail(x, "%s of a non-integer", id.Name)
					}
					if i == 0 || (id.Name == "min" && v.i < best) || (id.Name == "max" && v.i > best) {
						best = v.i
					}
				}
				return c38IntV(best)
			case "panic":
				ev.rtpanic(x, "explicit panic")
			}
			ev.fail(x, "builtin %s is outside the evaluated subset", id.Name)
		}
	}
	// contract summaries
	if ev.hook != nil {
		if v, ok := ev.hook(ev, x, env); ok {
			return v
		}
	}
	// package-local pure helper
	if o := callee(ev.info, x); o != nil {
		if fd, ok := ev.funcs[o]; ok && fd.Body != nil {
			return ev.inline(x, fd, env)
		}
	}
	// closure value
	if id, ok := unparen(x.Fun).(*ast.Ident); ok {
		if v := env.lookup(ev.info.ObjectOf(id)); v != nil && v.k == c38Closure {
			var args []c38V
			for _, a := range x.Args {
				args = append(args, ev.eval(a, env))
			}
			return ev.callClosure(*v, args)
		}
	}
	ev.fail(x, "call of %s has no contract summary and is not a package-local helper", calleeName(ev.info, x))
	return c38V{}
}

func (ev *c38Eval) inline(x *ast.CallExpr, fd *ast.FuncDecl, env *c38Env) c38V {
	ev.depth++
	defer func() { ev.depth-- }()
	if ev.depth > 6 {
		ev.fail(x, "helper inlining deeper than 6")
	}
	fenv := c38NewEnv(nil)
	i := 0
	for _, f := range fd.Type.Params.List {
		for _, n := range f.Names {
			if i >= len(x.Args) {
				ev.fail(x, "argument count mismatch")
			}
			fenv.define(ev.info.ObjectOf(n), ev.eval(x.Args[i], env))
			i++
		}
	}
	if fd.Type.Results != nil {
		for _, f := range fd.Type.Results.List {
			for _, n := range f.Names {
				fenv.define(ev.info.ObjectOf(n), ev.zero(ev.info.TypeOf(f.Type)))
			}
		}
	}
	ev.ret = c38V{}
	ev.block(fd.Body.List, fenv)
	r := ev.ret
	ev.ret = c38V{}
	return r
}

func (ev *c38Eval) callClosure(cl c38V, args []c38V) c38V {
	fenv := c38NewEnv(cl.env)
	i := 0
	for _, f := range cl.fn.Type.Params.List {
		if len(f.Names) == 0 {
			i++ // unnamed parameter
			continue
		}
		for _, n := range f.Names {
			if i < len(args) && n.Name != "_" {
				fenv.define(ev.info.ObjectOf(n), args[i])
			}
			i++
		}
	}
	saved := ev.ret
	ev.ret = c38V{}
	ev.block(cl.fn.Body.List, fenv)
	r := ev.ret
	ev.ret = saved
	return r
}

func (ev *c38Eval) zero(t types.Type) c38V {
	switch u := t.Underlying().(type) {
	case *types.Basic:
		switch {
		case u.Info()&types.IsInteger != 0:
			return c38IntV(0)
		case u.Info()&types.IsBoolean != 0:
			return c38BoolV(false)
		case u.Info()&types.IsString != 0:
			return c38BytesV(nil)
		}
	case *types.Slice:
		return c38V{k: c38Slice}
	case *types.Interface, *types.Pointer, *types.Signature, *types.Map, *types.Chan:
		return c38NilV()
	}
	return c38OpaqueV("zero")
}

// ---------------------------------------------------------------- statements

type c38Ctl int

const (
	c38Next c38Ctl = iota
	c38Break
	c38Continue
	c38Return
)

func (ev *c38Eval) block(list []ast.Stmt, env *c38Env) c38Ctl {
	for _, s := range list {
		if ctl := ev.exec(s, env); ctl != c38Next {
			return ctl
		}
	}
	return c38Next
}

func (ev *c38Eval) assign(lhs ast.Expr, v c38V, env *c38Env, define bool) {
	switch l := unparen(lhs).(type) {
	case *ast.Ident:
		if l.Name == "_" {
			return
		}
		o := ev.info.ObjectOf(l)
		if define && ev.info.Defs[l] != nil {
			env.define(o, v)
			return
		}
		if p := env.lookup(o); p != nil {
			*p = v
			return
		}
		// a captured / outer variable first written inside the fragment
		root := env
		for root.up != nil {
			root = root.up
		}
		root.define(o, v)
	case *ast.IndexExpr:
		s, i := ev.eval(l.X, env), ev.eval(l.Index, env)
		if s.k != c38Slice || i.k != c38Int || v.k != c38Int {
			ev.fail(lhs, "element store outside the evaluated subset")
		}
		if i.i < 0 || int(i.i) >= s.length() {
			ev.rtpanic(lhs, "index %d out of range [0,%d) in element store: the builtin panics on this input", i.i, s.length())
		}
		s.arr.cells[s.lo+int(i.i)] = v.i
	default:
		ev.fail(lhs, "assignment target outside the evaluated subset")
	}
}

func (ev *c38Eval) exec(s ast.Stmt, env *c38Env) c38Ctl {
	ev.tick(s)
	switch x := s.(type) {
	case *ast.EmptyStmt:
		return c38Next
	case *ast.ExprStmt:
		ev.eval(x.X, env)
		return c38Next
	case *ast.BlockStmt:
		return ev.block(x.List, c38NewEnv(env))
	case *ast.DeclStmt:
		gd, ok := x.Decl.(*ast.GenDecl)
		if !ok || gd.Tok != token.VAR {
			ev.fail(s, "declaration outside the evaluated subset")
		}
		for _, sp := range gd.Specs {
			vs := sp.(*ast.ValueSpec)
			for i, n := range vs.Names {
				if i < len(vs.Values) && len(vs.Values) == len(vs.Names) {
					env.define(ev.info.ObjectOf(n), ev.eval(vs.Values[i], env))
				} else if len(vs.Values) == 0 {
					env.define(ev.info.ObjectOf(n), ev.zero(ev.info.ObjectOf(n).Type()))
				} else {
					ev.fail(s, "multi-value var declaration")
				}
			}
		}
		return c38Next
	case *ast.AssignStmt:
		define := x.Tok == token.DEFINE
		switch {
		case x.Tok == token.ASSIGN || x.Tok == token.DEFINE:
			if len(x.Lhs) == len(x.Rhs) {
				vals := make([]c38V, len(x.Rhs))
				for i, r := range x.Rhs {
					vals[i] = ev.eval(r, env)
				}
				for i, l := range x.Lhs {
					ev.assign(l, vals[i], env, define)
				}
			} else if len(x.Rhs) == 1 {
				v := ev.eval(x.Rhs[0], env)
				if v.k != c38Tuple || len(v.tup) != len(x.Lhs) {
					ev.fail(s, "multi-value assignment from a call without a contract summary")
				}
				for i, l := range x.Lhs {
					ev.assign(l, v.tup[i], env, define)
				}
			} else {
				ev.fail(s, "assignment shape")
			}
		default:
			ops := map[token.Token]token.Token{token.ADD_ASSIGN: token.ADD, token.SUB_ASSIGN: token.SUB, token.MUL_ASSIGN: token.MUL, token.QUO_ASSIGN: token.QUO, token.REM_ASSIGN: token.REM}
			op, ok := ops[x.Tok]
			if !ok || len(x.Lhs) != 1 || len(x.Rhs) != 1 {
				ev.fail(s, "compound assignment outside the evaluated subset")
			}
			l, r := ev.eval(x.Lhs[0], env), ev.eval(x.Rhs[0], env)
			ev.assign(x.Lhs[0], ev.binop(&ast.BinaryExpr{X: x.Lhs[0], Op: op, Y: x.Rhs[0], OpPos: x.TokPos}, l, r), env, false)
		}
		return c38Next
	case *ast.IncDecStmt:
		v := ev.eval(x.X, env)
		if v.k != c38Int {
			ev.fail(s, "++/-- on a non-integer")
		}
		d := int64(1)
		if x.Tok == token.DEC {
			d = -1
		}
		ev.assign(x.X, c38IntV(v.i+d), env, false)
		return c38Next
	case *ast.IfStmt:
		ienv := c38NewEnv(env)
		if x.Init != nil {
			ev.exec(x.Init, ienv)
		}
		cv := ev.eval(x.Cond, ienv)
		if cv.k != c38Bool {
			ev.fail(x.Cond, "condition is not evaluable to a boolean")
		}
		if cv.b {
			return ev.block(x.Body.List, c38NewEnv(ienv))
		}
		if x.Else != nil {
			return ev.exec(x.Else, ienv)
		}
		return c38Next
	case *ast.ForStmt:
		fenv := c38NewEnv(env)
		if x.Init != nil {
			ev.exec(x.Init, fenv)
		}
		for {
			ev.tick(x)
			if x.Cond != nil {
				cv := ev.eval(x.Cond, fenv)
				if cv.k != c38Bool {
					ev.fail(x.Cond, "loop condition is not evaluable to a boolean")
				}
				if !cv.b {
					break
				}
			}
			ctl := ev.block(x.Body.List, c38NewEnv(fenv))
			if ctl == c38Break {
				break
			}
			if ctl == c38Return {
				return ctl
			}
			if x.Post != nil {
				ev.exec(x.Post, fenv)
			}
		}
		return c38Next
	case *ast.RangeStmt:
		s := ev.eval(x.X, env)
		n := 0
		switch s.k {
		case c38Slice:
			n = s.length()
		case c38Int:
			n = int(s.i)
		default:
			ev.fail(x, "range over this operand is outside the evaluated subset")
		}
		for i := 0; i < n; i++ {
			ev.tick(x)
			renv := c38NewEnv(env)
			if x.Key != nil {
				ev.assign(x.Key, c38IntV(int64(i)), renv, x.Tok == token.DEFINE)
			}
			if x.Value != nil && s.k == c38Slice {
				ev.assign(x.Value, c38IntV(s.arr.cells[s.lo+i]), renv, x.Tok == token.DEFINE)
			}
			ctl := ev.block(x.Body.List, renv)
			if ctl == c38Break {
				break
			}
			if ctl == c38Return {
				return ctl
			}
		}
		return c38Next
	case *ast.SwitchStmt:
		senv := c38NewEnv(env)
		if x.Init != nil {
			ev.exec(x.Init, senv)
		}
		var tag *c38V
		if x.Tag != nil {
			t := ev.eval(x.Tag, senv)
			tag = &t
		}
		var chosen *ast.CaseClause
		var dflt *ast.CaseClause
	clauses:
		for _, cs := range x.Body.List {
			cc := cs.(*ast.CaseClause)
			if cc.List == nil {
				dflt = cc
				continue
			}
			for _, e := range cc.List {
				v := ev.eval(e, senv)
				hit := false
				if tag == nil {
					if v.k != c38Bool {
						ev.fail(e, "case condition is not evaluable to a boolean")
					}
					hit = v.b
				} else {
					if tag.k == c38Int && v.k == c38Int {
						hit = tag.i == v.i
					} else if tag.k == c38Bool && v.k == c38Bool {
						hit = tag.b == v.b
					} else {
						ev.fail(e, "tagged switch on this operand is outside the evaluated subset")
					}
				}
				if hit {
					chosen = cc
					break clauses
				}
			}
		}
		if chosen == nil {
			chosen = dflt
		}
		if chosen == nil {
			return c38Next
		}
		for _, st := range chosen.Body {
			if b, ok := st.(*ast.BranchStmt); ok && b.Tok == token.FALLTHROUGH {
				ev.fail(st, "fallthrough is outside the evaluated subset")
			}
		}
		ctl := ev.block(chosen.Body, c38NewEnv(senv))
		if ctl == c38Break {
			return c38Next
		}
		return ctl
	case *ast.BranchStmt:
		if x.Label != nil {
			ev.fail(s, "labelled branch is outside the evaluated subset")
		}
		switch x.Tok {
		case token.BREAK:
			return c38Break
		case token.CONTINUE:
			return c38Continue
		}
		ev.fail(s, "branch statement outside the evaluated subset")
	case *ast.ReturnStmt:
		switch len(x.Results) {
		case 0:
			ev.ret = c38V{k: c38Tuple}
		case 1:
			ev.ret = ev.eval(x.Results[0], env)
		default:
			t := c38V{k: c38Tuple}
			for _, r := range x.Results {
				t.tup = append(t.tup, ev.eval(r, env))
			}
			ev.ret = t
		}
		return c38Return
	}
	ev.fail(s, "statement form outside the evaluated subset")
	return c38Next
}
