package main

import (
	"go/ast"
	"go/token"
	"go/types"
)

// R03e — the reader's end-of-stream decision is schedule-independent. Every stage
// of a pipeline reads its predecessor through (*Stdin).Read; "no data buffered" and
// "no writer left" must be observed in ONE critical section, otherwise a writer
// that does its last Write and Close between the two observations makes the reader
// report EOF with data still buffered — the stage's output then depends on the
// schedule. (The same facts are checked for C01 as R01a/R01c; C03 anchors read.go
// too, and a change there must fail C03 as well.)
func init() {
	extend("C03", func(c *Ctx) {
		c.Load(streamsPkg)
		c.Rule("R03e", "pipeline stages see end-of-stream independently of the schedule: the FIFO state of streams.Stdin (buffer, counters, limit, writer count) is only accessed with Stdin.mutex held (E1 lockset, as R01a), and every `return _, io.EOF` of (*Stdin).Read is in the cancelled-context arm or guarded by len(buffer)==0 and dependents<1 read in one critical section (as R01c)")
		n := c.runLockset("R03e", stdinSpecC01)
		c.MinCount("R03e", "guarded accesses to streams.Stdin", n, 20)
		if fd, pk := c.MustFunc("R03e", streamsPkg, "Stdin", "Read"); fd != nil {
			old := eofGuardRule
			eofGuardRule = "R03e"
			c.checkEOFGuards(pk.TypesInfo, fd)
			eofGuardRule = old
		}
	})
}

// isEOFReturn: the return statement hands io.EOF out as the function's error — literally
// (`return 0, io.EOF`), or through the error result variable (`err = io.EOF; return` /
// `return 0, err`) when the nearest earlier statement of the same statement list that touches
// that variable assigns io.EOF to it.
func isEOFReturn(info *types.Info, fd *ast.FuncDecl, rs *ast.ReturnStmt, stack []ast.Node) bool {
	if len(rs.Results) == 2 && isPkgObj(info, rs.Results[1], "io", "EOF") {
		return true
	}
	var errObj types.Object
	switch len(rs.Results) {
	case 0:
		if fd.Type.Results == nil {
			return false
		}
		var names []*ast.Ident
		for _, f := range fd.Type.Results.List {
			names = append(names, f.Names...)
		}
		if len(names) != 2 {
			return false
		}
		errObj = info.ObjectOf(names[1])
	case 2:
		id, ok := unparen(rs.Results[1]).(*ast.Ident)
		if !ok {
			return false
		}
		errObj = info.ObjectOf(id)
		if v, isVar := errObj.(*types.Var); !isVar || v.IsField() {
			return false
		}
	default:
		return false
	}
	if errObj == nil {
		return false
	}
	var list []ast.Stmt
	for i := len(stack) - 1; i >= 0 && list == nil; i-- {
		switch b := stack[i].(type) {
		case *ast.BlockStmt:
			list = b.List
		case *ast.CaseClause:
			list = b.Body
		case *ast.CommClause:
			list = b.Body
		}
	}
	idx := topLevelIndex(list, rs)
	if idx < 0 || list[idx] != ast.Stmt(rs) {
		return false
	}
	for j := idx - 1; j >= 0; j-- {
		if !mentions(info, list[j], errObj) {
			continue
		}
		as, ok := list[j].(*ast.AssignStmt)
		if !ok || as.Tok != token.ASSIGN || len(as.Lhs) != len(as.Rhs) {
			return false
		}
		for k, l := range as.Lhs {
			if id, isId := l.(*ast.Ident); isId && info.ObjectOf(id) == errObj {
				return isPkgObj(info, as.Rhs[k], "io", "EOF")
			}
		}
		return false
	}
	return false
}

// inCancelledArm: the node is only reached when the stream's context is cancelled — inside
// `case <-X.Done():` of a select, or under a guard `X.Err() != nil` on a context.Context (the
// non-blocking test that is true exactly when Done() is closed).
func inCancelledArm(info *types.Info, stack []ast.Node) bool {
	if inDoneArm(info, stack) {
		return true
	}
	for _, f := range factsOf(guardsAt(info, stack)) {
		b, ok := unparen(f.E).(*ast.BinaryExpr)
		if !ok || (b.Op != token.NEQ && b.Op != token.EQL) || (b.Op == token.NEQ) != f.True {
			continue
		}
		x, y := unparen(b.X), unparen(b.Y)
		if tv, isNil := info.Types[x]; isNil && tv.IsNil() {
			x, y = y, x
		}
		if tv, isNil := info.Types[y]; !isNil || !tv.IsNil() {
			continue
		}
		call, isCall := x.(*ast.CallExpr)
		if !isCall || len(call.Args) != 0 {
			continue
		}
		if o := callee(info, call); o != nil && objIs(o, "context", "Context", "Err") {
			return true
		}
	}
	return false
}
