package main

// R03e — the reader's end-of-stream decision is schedule-independent. Every stage
// of a pipeline reads its predecessor through (*Stdin).Read; "no data buffered" and
// "no writer left" must be observed in ONE critical section, otherwise a writer
// that does its last Write and Close between the two observations makes the reader
// report EOF with data still buffered — the stage's output then depends on the
// schedule. (The same facts are checked for C01 as R01a/R01c; C03 anchors read.go
// too, and a change there must fail C03 as well.)
func init() {
	extend("C03", func(c *Ctx) {
		c.Load(streamsPkg)
		c.Rule("R03e", "pipeline stages see end-of-stream independently of the schedule: the FIFO state of streams.Stdin (buffer, counters, limit, writer count) is only accessed with Stdin.mutex held (E1 lockset, as R01a), and every `return _, io.EOF` of (*Stdin).Read is in the cancelled-context arm or guarded by len(buffer)==0 and dependents<1 read in one critical section (as R01c)")
		n := c.runLockset("R03e", stdinSpecC01)
		c.MinCount("R03e", "guarded accesses to streams.Stdin", n, 20)
		if fd, pk := c.MustFunc("R03e", streamsPkg, "Stdin", "Read"); fd != nil {
			old := eofGuardRule
			eofGuardRule = "R03e"
			c.checkEOFGuards(pk.TypesInfo, fd)
			eofGuardRule = old
		}
	})
}
