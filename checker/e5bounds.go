package main

// E5 — sign/bounds domain for user-derived indices (go/ssa).
//
// A value is user-derived when it flows from the integer result of
// strconv.Atoi / strconv.ParseInt (through φ, + -, conversions) or from the
// result of a "bounded-index helper" of the same package. Every
// Index/IndexAddr/Slice whose index operand is user-derived must be proven
//   lower:  idx >= 0           and      upper:  idx < len(container)
// from: constants, len(), sums of non-negatives, comparisons on the edges that
// dominate the use (if/early-return/||/&& all become edges in SSA), per-edge
// facts at φ nodes, and summaries of bounded-index helpers (a function
// returning (int, error) whose every nil-error return is proven within
// [0, <int parameter>) — e.g. isValidElementIndex(key, length)).
// Anything else is reported: flows through struct fields, maps, slices or other
// functions are outside the domain and are not claimed.

import (
	"fmt"
	"go/token"
	"go/types"
	"sort"
	"strings"

	"golang.org/x/tools/go/ssa"
)

type boundsCtx struct {
	c       *Ctx
	helpers map[*ssa.Function]int // bounded helper -> index of the bound parameter
}

func isAtoiSource(v ssa.Value) bool {
	ex, ok := v.(*ssa.Extract)
	if !ok || ex.Index != 0 {
		return false
	}
	call, ok := ex.Tuple.(*ssa.Call)
	if !ok {
		return false
	}
	sc := call.Call.StaticCallee()
	if sc == nil || sc.Pkg == nil || sc.Pkg.Pkg.Path() != "strconv" {
		return false
	}
	return sc.Name() == "Atoi" || sc.Name() == "ParseInt" || sc.Name() == "ParseUint"
}

func (bc *boundsCtx) helperResult(v ssa.Value) (*ssa.Call, int, bool) {
	ex, ok := v.(*ssa.Extract)
	if !ok || ex.Index != 0 {
		return nil, 0, false
	}
	call, ok := ex.Tuple.(*ssa.Call)
	if !ok {
		return nil, 0, false
	}
	sc := call.Call.StaticCallee()
	if sc == nil {
		return nil, 0, false
	}
	k, ok := bc.helpers[sc]
	return call, k, ok
}

// userDerived: v flows from an Atoi source or a helper result.
func (bc *boundsCtx) userDerived(v ssa.Value, seen map[ssa.Value]bool) bool {
	if seen[v] {
		return false
	}
	seen[v] = true
	if isAtoiSource(v) {
		return true
	}
	if _, _, ok := bc.helperResult(v); ok {
		return true
	}
	switch x := v.(type) {
	case *ssa.BinOp:
		return bc.userDerived(x.X, seen) || bc.userDerived(x.Y, seen)
	case *ssa.Phi:
		for _, e := range x.Edges {
			if bc.userDerived(e, seen) {
				return true
			}
		}
	case *ssa.Convert:
		return bc.userDerived(x.X, seen)
	case *ssa.ChangeType:
		return bc.userDerived(x.X, seen)
	case *ssa.UnOp:
		if x.Op == token.SUB {
			return bc.userDerived(x.X, seen)
		}
	}
	return false
}

type edgeFact struct {
	cond  *ssa.BinOp
	truth bool
}

// factsAt: comparisons known on every path to block b (edges that dominate b).
func factsAt(b *ssa.BasicBlock) []edgeFact {
	var out []edgeFact
	for d := b; d != nil; d = d.Idom() {
		id := d.Idom()
		if id == nil {
			break
		}
		// which edge of id leads (exclusively) to d's dominance region?
		ifi, ok := id.Instrs[len(id.Instrs)-1].(*ssa.If)
		if !ok {
			continue
		}
		cond, ok := ifi.Cond.(*ssa.BinOp)
		if !ok {
			continue
		}
		t, f := id.Succs[0], id.Succs[1]
		if t == f {
			continue
		}
		if t == d && len(t.Preds) == 1 {
			out = append(out, edgeFact{cond, true})
		} else if f == d && len(f.Preds) == 1 {
			out = append(out, edgeFact{cond, false})
		}
	}
	return out
}

// edgeFacts: facts valid when control flows along pred -> succ.
func edgeFacts(pred, succ *ssa.BasicBlock) []edgeFact {
	out := factsAt(pred)
	if ifi, ok := pred.Instrs[len(pred.Instrs)-1].(*ssa.If); ok {
		if cond, ok := ifi.Cond.(*ssa.BinOp); ok && pred.Succs[0] != pred.Succs[1] {
			if pred.Succs[0] == succ {
				out = append(out, edgeFact{cond, true})
			} else if pred.Succs[1] == succ {
				out = append(out, edgeFact{cond, false})
			}
		}
	}
	return out
}

func constIntVal(v ssa.Value) (int64, bool) {
	if k, ok := v.(*ssa.Const); ok && k.Value != nil {
		if i, ok := constantInt64(k); ok {
			return i, true
		}
	}
	return 0, false
}

func constantInt64(k *ssa.Const) (int64, bool) {
	if k.Value == nil {
		return 0, false
	}
	if b, ok := k.Type().Underlying().(*types.Basic); !ok || b.Info()&types.IsInteger == 0 {
		return 0, false
	}
	return k.Int64(), true
}

func isLenCall(v ssa.Value) (ssa.Value, bool) {
	call, ok := v.(*ssa.Call)
	if !ok {
		return nil, false
	}
	if b, ok := call.Call.Value.(*ssa.Builtin); ok && b.Name() == "len" && len(call.Call.Args) == 1 {
		return call.Call.Args[0], true
	}
	return nil, false
}

// sameValue: identical SSA values, or loads of the same address, or
// conversions / slices-of-whole of the same thing.
func sameValue(a, b ssa.Value) bool {
	if a == b {
		return true
	}
	la, ok1 := a.(*ssa.UnOp)
	lb, ok2 := b.(*ssa.UnOp)
	if ok1 && ok2 && la.Op == token.MUL && lb.Op == token.MUL {
		return sameValue(la.X, lb.X)
	}
	fa, ok1 := a.(*ssa.FieldAddr)
	fb, ok2 := b.(*ssa.FieldAddr)
	if ok1 && ok2 && fa.Field == fb.Field {
		return sameValue(fa.X, fb.X)
	}
	ca, ok1 := a.(*ssa.ChangeType)
	if ok1 {
		return sameValue(ca.X, b)
	}
	cb, ok2 := b.(*ssa.ChangeType)
	if ok2 {
		return sameValue(a, cb.X)
	}
	return false
}

// nonNeg: v >= 0 holds under the given facts.
func (bc *boundsCtx) nonNeg(v ssa.Value, facts []edgeFact, depth int) bool {
	if depth > 8 {
		return false
	}
	if k, ok := constIntVal(v); ok {
		return k >= 0
	}
	if _, ok := isLenCall(v); ok {
		return true
	}
	if b, ok := v.Type().Underlying().(*types.Basic); ok && b.Info()&types.IsUnsigned != 0 {
		return true
	}
	for _, f := range facts {
		x, y, op := f.cond.X, f.cond.Y, f.cond.Op
		if !f.truth {
			op = negateOp(op)
		}
		// v OP const
		if x == v {
			if k, ok := constIntVal(y); ok {
				switch op {
				case token.GEQ:
					if k >= 0 {
						return true
					}
				case token.GTR:
					if k >= -1 {
						return true
					}
				case token.EQL:
					if k >= 0 {
						return true
					}
				}
			}
			// v >= w / v > w / v == w with w non-negative (e.g. v == len(x))
			if (op == token.GEQ || op == token.GTR || op == token.EQL) && y != v {
				if _, isC := y.(*ssa.Const); !isC && bc.nonNeg(y, nil, depth+1) {
					return true
				}
			}
		}
		if y == v {
			if k, ok := constIntVal(x); ok {
				switch op {
				case token.LEQ: // k <= v
					if k >= 0 {
						return true
					}
				case token.LSS: // k < v
					if k >= -1 {
						return true
					}
				case token.EQL:
					if k >= 0 {
						return true
					}
				}
			}
		}
	}
	switch x := v.(type) {
	case *ssa.Phi:
		for i, e := range x.Edges {
			if e == v {
				continue
			}
			pf := edgeFacts(x.Block().Preds[i], x.Block())
			if !bc.nonNeg(e, pf, depth+1) {
				return false
			}
		}
		return true
	case *ssa.BinOp:
		switch x.Op {
		case token.ADD, token.MUL:
			return bc.nonNeg(x.X, facts, depth+1) && bc.nonNeg(x.Y, facts, depth+1)
		case token.REM, token.QUO, token.SHR, token.AND:
			return bc.nonNeg(x.X, facts, depth+1) && (x.Op == token.AND || bc.nonNeg(x.Y, facts, depth+1))
		}
	case *ssa.Convert:
		return bc.nonNeg(x.X, facts, depth+1)
	case *ssa.ChangeType:
		return bc.nonNeg(x.X, facts, depth+1)
	case *ssa.Extract:
		// result of a bounded helper is within [0, bound) when err == nil dominates
		if call, _, ok := bc.helperResult(v); ok {
			return errNilIn(call, facts)
		}
	}
	return false
}

// errNilIn: the facts contain `err == nil` for the error result of call.
func errNilIn(call *ssa.Call, facts []edgeFact) bool {
	for _, f := range facts {
		op := f.cond.Op
		if !f.truth {
			op = negateOp(op)
		}
		if op != token.EQL {
			continue
		}
		for _, side := range [][2]ssa.Value{{f.cond.X, f.cond.Y}, {f.cond.Y, f.cond.X}} {
			ex, ok := side[0].(*ssa.Extract)
			if !ok || ex.Tuple != ssa.Value(call) {
				continue
			}
			if k, ok := side[1].(*ssa.Const); ok && k.IsNil() {
				return true
			}
		}
	}
	return false
}

func negateOp(op token.Token) token.Token {
	switch op {
	case token.LSS:
		return token.GEQ
	case token.GEQ:
		return token.LSS
	case token.GTR:
		return token.LEQ
	case token.LEQ:
		return token.GTR
	case token.EQL:
		return token.NEQ
	case token.NEQ:
		return token.EQL
	}
	return op
}

// isBound: w denotes the bound B (len of the container, or the bound parameter).
type boundSpec struct {
	container ssa.Value // len(container) is the bound, or
	param     ssa.Value // this int value is the bound
	slack     int64     // idx < bound + slack  (slack=1 for slice high operands: idx <= len)
}

func (bs boundSpec) matches(w ssa.Value) bool {
	if bs.param != nil && sameValue(w, bs.param) {
		return true
	}
	if bs.container != nil {
		if arg, ok := isLenCall(w); ok && sameValue(arg, bs.container) {
			return true
		}
	}
	return false
}

// matchesMinus: w denotes bound - k for a constant k (`len(v)-1`, `length-1`, `len(v)+(-1)`).
func (bs boundSpec) matchesMinus(w ssa.Value) (int64, bool) {
	bo, ok := w.(*ssa.BinOp)
	if !ok {
		return 0, false
	}
	if k, isC := constIntVal(bo.Y); isC && bs.matches(bo.X) {
		switch bo.Op {
		case token.SUB:
			return k, true
		case token.ADD:
			return -k, true
		}
	}
	return 0, false
}

// below: v < bound (+slack) under facts.
func (bc *boundsCtx) below(v ssa.Value, bs boundSpec, facts []edgeFact, depth int) bool {
	if depth > 8 {
		return false
	}
	for _, f := range facts {
		x, y, op := f.cond.X, f.cond.Y, f.cond.Op
		if !f.truth {
			op = negateOp(op)
		}
		if x == v && bs.matches(y) {
			if op == token.LSS || (op == token.LEQ && bs.slack >= 1) || (op == token.EQL && bs.slack >= 1) {
				return true
			}
		}
		if y == v && bs.matches(x) {
			if op == token.GTR || (op == token.GEQ && bs.slack >= 1) || (op == token.EQL && bs.slack >= 1) {
				return true
			}
		}
		// v <= bound-1 / v < bound-k forms (`i > len(v)-1` is how some people write `i >= len(v)`)
		if k, ok := bs.matchesMinus(y); ok && x == v {
			if (op == token.LSS && k >= -bs.slack) || ((op == token.LEQ || op == token.EQL) && k >= 1-bs.slack) {
				return true
			}
		}
		if k, ok := bs.matchesMinus(x); ok && y == v {
			if (op == token.GTR && k >= -bs.slack) || ((op == token.GEQ || op == token.EQL) && k >= 1-bs.slack) {
				return true
			}
		}
	}
	switch x := v.(type) {
	case *ssa.Phi:
		for i, e := range x.Edges {
			if e == v {
				continue
			}
			pf := edgeFacts(x.Block().Preds[i], x.Block())
			if !bc.below(e, bs, pf, depth+1) {
				return false
			}
		}
		return true
	case *ssa.Convert:
		return bc.below(x.X, bs, facts, depth+1)
	case *ssa.ChangeType:
		return bc.below(x.X, bs, facts, depth+1)
	case *ssa.BinOp:
		// (w - k) with w the bound and k >= 1 (k >= 0 with slack): e.g. len(s)-1
		if x.Op == token.SUB && bs.matches(x.X) {
			if k, ok := constIntVal(x.Y); ok && (k >= 1 || (k >= 0 && bs.slack >= 1)) {
				return true
			}
		}
		// v - k (k >= 0) stays below when v is below
		if x.Op == token.SUB {
			if k, ok := constIntVal(x.Y); ok && k >= 0 {
				return bc.below(x.X, bs, facts, depth+1)
			}
		}
		if x.Op == token.REM && bs.matches(x.Y) {
			return true
		}
		// bound + n with n known negative (e.g. `i += length` under i < 0)
		if x.Op == token.ADD {
			if bs.matches(x.X) && negative(x.Y, facts) {
				return true
			}
			if bs.matches(x.Y) && negative(x.X, facts) {
				return true
			}
		}
	case *ssa.Extract:
		if call, k, ok := bc.helperResult(v); ok && errNilIn(call, facts) && k < len(call.Call.Args) {
			return bs.matches(call.Call.Args[k])
		}
	case *ssa.Const:
		// constant index: fine only if the bound is a constant-length array — not decided here
	}
	return false
}

// diffNonNeg: a-b >= 0 because a fact says a >= b / a > b / b <= a / b < a,
// or b is a constant k and a fact says a >= k.
func (bc *boundsCtx) diffNonNeg(bo *ssa.BinOp, facts []edgeFact) bool {
	a, b := bo.X, bo.Y
	for _, f := range facts {
		x, y, op := f.cond.X, f.cond.Y, f.cond.Op
		if !f.truth {
			op = negateOp(op)
		}
		if sameValue(x, a) && sameValue(y, b) && (op == token.GEQ || op == token.GTR || op == token.EQL) {
			return true
		}
		if sameValue(x, b) && sameValue(y, a) && (op == token.LEQ || op == token.LSS || op == token.EQL) {
			return true
		}
		if k, ok := constIntVal(b); ok {
			if sameValue(x, a) {
				if kk, ok := constIntVal(y); ok && ((op == token.GEQ && kk >= k) || (op == token.GTR && kk >= k-1) || (op == token.NEQ && kk == 0 && k == 1 && bc.nonNeg(a, nil, 0)) || (op == token.EQL && kk >= k)) {
					return true
				}
			}
		}
	}
	return false
}

// negative: v < 0 is among the facts.
func negative(v ssa.Value, facts []edgeFact) bool {
	if k, ok := constIntVal(v); ok {
		return k < 0
	}
	for _, f := range facts {
		x, y, op := f.cond.X, f.cond.Y, f.cond.Op
		if !f.truth {
			op = negateOp(op)
		}
		if x == v {
			if k, ok := constIntVal(y); ok && ((op == token.LSS && k <= 0) || (op == token.LEQ && k < 0)) {
				return true
			}
		}
		if y == v {
			if k, ok := constIntVal(x); ok && ((op == token.GTR && k <= 0) || (op == token.GEQ && k < 0)) {
				return true
			}
		}
	}
	return false
}

// summariseHelpers finds bounded-index helpers in the given functions.
func (bc *boundsCtx) summariseHelpers(fns []*ssa.Function) {
	for _, fn := range fns {
		sig := fn.Signature
		if sig.Results().Len() != 2 || fn.Blocks == nil {
			continue
		}
		if b, ok := sig.Results().At(0).Type().Underlying().(*types.Basic); !ok || b.Kind() != types.Int {
			continue
		}
		if !types.Identical(sig.Results().At(1).Type(), types.Universe.Lookup("error").Type()) {
			continue
		}
		// must contain an Atoi source
		has := false
		for _, b := range fn.Blocks {
			for _, ins := range b.Instrs {
				if v, ok := ins.(ssa.Value); ok && isAtoiSource(v) {
					has = true
				}
			}
		}
		if !has {
			continue
		}
		for pi, p := range fn.Params {
			if b, ok := p.Type().Underlying().(*types.Basic); !ok || b.Kind() != types.Int {
				continue
			}
			okAll, n := true, 0
			for _, b := range fn.Blocks {
				ret, ok := b.Instrs[len(b.Instrs)-1].(*ssa.Return)
				if !ok || len(ret.Results) != 2 {
					continue
				}
				if k, ok := ret.Results[1].(*ssa.Const); !ok || !k.IsNil() {
					continue // error return
				}
				n++
				facts := factsAt(b)
				if !bc.nonNeg(ret.Results[0], facts, 0) || !bc.below(ret.Results[0], boundSpec{param: p}, facts, 0) {
					okAll = false
				}
			}
			if okAll && n > 0 {
				bc.helpers[fn] = pi
			}
		}
	}
}

// checkIndexBounds analyses every function of the given murex packages.
func (c *Ctx) checkIndexBounds(rule string, pkgs []string, wantHelpers []string) (nSites int) {
	c.SSA()
	bc := &boundsCtx{c: c, helpers: map[*ssa.Function]int{}}
	var fns []*ssa.Function
	for _, rel := range pkgs {
		sp := c.SSAPkg(rel)
		if sp == nil {
			c.Lost(rule, "pkg:"+rel, "package not loaded")
			continue
		}
		var add func(fn *ssa.Function)
		seen := map[*ssa.Function]bool{}
		add = func(fn *ssa.Function) {
			if fn == nil || seen[fn] || fn.Blocks == nil {
				return
			}
			seen[fn] = true
			fns = append(fns, fn)
			for _, a := range fn.AnonFuncs {
				add(a)
			}
		}
		for _, m := range sp.Members {
			switch x := m.(type) {
			case *ssa.Function:
				add(x)
			case *ssa.Type:
				for _, tt := range []types.Type{x.Type(), types.NewPointer(x.Type())} {
					ms := c.prog.MethodSets.MethodSet(tt)
					for i := 0; i < ms.Len(); i++ {
						if fn := c.prog.MethodValue(ms.At(i)); fn != nil && fn.Pkg == sp {
							add(fn)
						}
					}
				}
			}
		}
	}
	// generic functions: analyse their instantiations too
	for fn := range allInstantiations(c.prog, fns) {
		fns = append(fns, fn)
	}
	sort.Slice(fns, func(i, j int) bool { return ssaFuncKey(fns[i])+fns[i].Name() < ssaFuncKey(fns[j])+fns[j].Name() })
	bc.summariseHelpers(fns)
	var hn []string
	for fn, k := range bc.helpers {
		hn = append(hn, fmt.Sprintf("%s(bound=param %d)", fn.Name(), k))
	}
	sort.Strings(hn)
	c.Info("%s: bounded-index helpers summarised: %v", rule, hn)
	for _, w := range wantHelpers {
		found := false
		for fn := range bc.helpers {
			if fn.Name() == w {
				found = true
			}
		}
		if !found {
			// the helper exists but its returns are not proven within [0, bound)
			exists := false
			for _, fn := range fns {
				if fn.Name() == w {
					exists = true
				}
			}
			if exists {
				c.Viol(rule, "helper:"+w, token.NoPos, "%s has a nil-error return whose value is not proven within [0, bound): callers index with it unchecked", w)
			} else {
				c.Lost(rule, "helper:"+w, "bounded-index helper %s not found", w)
			}
		} else {
			c.OK(rule, "helper:"+w, token.NoPos, "every nil-error return of %s is within [0, its bound parameter)", w)
		}
	}
	counts := map[string]int{}
	for _, fn := range fns {
		if fn.TypeParams().Len() > 0 && len(fn.TypeArgs()) == 0 {
			continue // generic template: its instantiations are analysed
		}
		for _, b := range fn.Blocks {
			for _, ins := range b.Instrs {
				var container ssa.Value
				type opnd struct {
					v     ssa.Value
					slack int64
					what  string
				}
				var ops []opnd
				switch x := ins.(type) {
				case *ssa.Index:
					container = x.X
					ops = append(ops, opnd{x.Index, 0, "index"})
				case *ssa.IndexAddr:
					container = x.X
					ops = append(ops, opnd{x.Index, 0, "index"})
				case *ssa.Slice:
					container = x.X
					if x.Low != nil {
						ops = append(ops, opnd{x.Low, 1, "slice-low"})
					}
					if x.High != nil {
						ops = append(ops, opnd{x.High, 1, "slice-high"})
					}
				case *ssa.MakeSlice:
					// make([]T, a-b): a computed difference must be proven non-negative
					for _, sz := range []ssa.Value{x.Len, x.Cap} {
						if bo, ok := sz.(*ssa.BinOp); ok && bo.Op == token.SUB {
							if _, isConst := constIntVal(bo); !isConst {
								nSites++
								base := ssaFuncKey(fn)
								if len(fn.TypeArgs()) > 0 {
									base = ssaFuncKey(fn.Origin())
								}
								counts[base+":make"]++
								key := fmt.Sprintf("%s:make-size#%d", base, counts[base+":make"])
								if bc.nonNeg(sz, factsAt(b), 0) || bc.diffNonNeg(bo, factsAt(b)) {
									c.OK(rule, key, x.Pos(), "computed slice size proven non-negative")
								} else {
									c.Viol(rule, key, x.Pos(), "make() size is a difference that is not proven non-negative on every path (e.g. more keys than elements, duplicates): a negative length panics (makeslice: len out of range), a too small one overruns")
								}
							}
						}
					}
				case *ssa.Lookup:
					if _, isMap := x.X.Type().Underlying().(*types.Map); !isMap {
						container = x.X
						ops = append(ops, opnd{x.Index, 0, "index"})
					}
				}
				for _, o := range ops {
					if !bc.userDerived(o.v, map[ssa.Value]bool{}) {
						continue
					}
					// containers that are arrays behind a pointer: bound is the array length (not user data) — skip
					nSites++
					base := ssaFuncKey(fn)
					if len(fn.TypeArgs()) > 0 {
						base = ssaFuncKey(fn.Origin())
					}
					counts[base+":"+o.what]++
					key := fmt.Sprintf("%s:%s#%d", base, o.what, counts[base+":"+o.what])
					facts := factsAt(b)
					lo := bc.nonNeg(o.v, facts, 0)
					hi := bc.below(o.v, boundSpec{container: container, slack: o.slack}, facts, 0)
					pos := ins.Pos()
					if pos == token.NoPos {
						if v, ok := ins.(ssa.Value); ok {
							for _, r := range *v.Referrers() {
								if r.Pos() != token.NoPos {
									pos = r.Pos()
									break
								}
							}
						}
					}
					switch {
					case lo && hi:
						c.OK(rule, key, pos, "user-derived %s proven within [0, len)", o.what)
					case !lo && hi:
						c.Viol(rule, key, pos, "user-derived %s is not proven non-negative on every path (upper bound is checked): a negative number given by the user indexes before the start → runtime panic instead of a clean error", o.what)
					case lo && !hi:
						c.Viol(rule, key, pos, "user-derived %s is not proven below len(container) on every path: an out-of-range number → runtime panic instead of a clean error", o.what)
					default:
						c.Viol(rule, key, pos, "user-derived %s reaches the container with neither bound proven", o.what)
					}
				}
			}
		}
	}
	return nSites
}

// allInstantiations returns the instantiations of the generic functions in fns
// that are referenced from anywhere in those functions.
func allInstantiations(prog *ssa.Program, fns []*ssa.Function) map[*ssa.Function]bool {
	gen := map[*ssa.Function]bool{}
	for _, fn := range fns {
		if fn.TypeParams().Len() > 0 {
			gen[fn] = true
		}
	}
	out := map[*ssa.Function]bool{}
	for _, fn := range fns {
		for _, b := range fn.Blocks {
			for _, ins := range b.Instrs {
				var cc *ssa.CallCommon
				switch x := ins.(type) {
				case *ssa.Call:
					cc = &x.Call
				case *ssa.Go:
					cc = &x.Call
				case *ssa.Defer:
					cc = &x.Call
				}
				if cc == nil {
					continue
				}
				if sc := cc.StaticCallee(); sc != nil && sc.Origin() != nil && gen[sc.Origin()] && sc != sc.Origin() {
					out[sc] = true
				}
			}
		}
	}
	_ = strings.TrimSpace
	return out
}
