package main

// C20 — parsing any text terminates without panicking (block-parser half).
//
// Engine E6 (exec-mode slicing): an interprocedural boolean constant
// propagation over (function, abstract parameters) contexts of package
// lang/expressions. Abstract parameters: bool params ∈ {false,true,unknown},
// *lang.Process params ∈ {nil-in-parse-only, unknown}. Locals are joined
// flow-insensitively over their definitions, unexported bool struct fields are
// joined over every store reachable in the slice (outer fixpoint; they start
// at their zero value). `if`/tagless-`switch` arms whose condition evaluates
// to a constant are pruned, `&&`/`||` short-circuit, code after a terminating
// arm is dead until the next label. The result is the set of statements that
// can execute when the entry is BlockT.ParseBlock (tree.p == nil, exec=false).

import (
	"fmt"
	"go/ast"
	"go/constant"
	"go/parser"
	"go/token"
	"go/types"
	"os"
	"path/filepath"
	"sort"
	"strings"
	"time"

	"golang.org/x/tools/go/packages"
)

func init() {
	register("C20", "Decides, for the block parser (lang/expressions: BlockT.ParseBlock, preParser, parseStatement, parseExpression and the 84 functions they reach), on the slice of the package that can execute in parse-only context (interprocedural constant propagation of the `exec` flag and of constant bool fields, tree.p == nil): (R20a) no statement of the slice dereferences the nil tree.p or calls a function that needs it, no nil tree.p leaves the package, lang.ParseExpression is only called with exec=false, and no explicit panic is reachable except the two reviewed BlockT.panic sites, which must be guarded by tree != nil; (R20c) every element index of the parsed rune slice is position+const inside a bounds test that still holds at the access (position helpers nextChar/prevChar/currentChar and rune predicates are summarised, entry requirements of callees are discharged at call sites), every re-slice bound position±const is <= len where the position was not last moved by a callee, every len(X)−c operand is guarded by len(X) >= c, and every re-slice [saved : position] has position >= saved; (R20d) every `for` loop and backward goto of the slice advances its position by >= 1 on every path back to the head, from a lower-bound analysis of position movement with callee summaries (ParseBlock's own loop under two reviewed assumptions about its sub-parsers); (R20e) every recursive call cycle of the slice consumes input (same parser: movement since entry >= 0 on every edge and no zero-movement cycle; sub-parser: built on text that starts >= 1 rune later). The highlighter half (utils/parser) is R20b (c20b.go). Does NOT decide: panics inside callees outside lang/expressions (fmt, strconv, types.ConvertGoType, readline), re-slice bounds after a callee moved the position (listed as INFO), slices of error-message helpers (errors.go), the lower bound charPos >= 0 for non-negative offsets, stack depth of (terminating) recursion, memory use, value-dependent type assertions", runC20)
}

const c20Pkg = "lang/expressions"

type c20Tri uint8

const (
	c20Bot c20Tri = iota
	c20F
	c20T
	c20U
)

func (t c20Tri) String() string { return [...]string{"⊥", "false", "true", "?"}[t] }

func c20Join(a, b c20Tri) c20Tri {
	switch {
	case a == c20Bot:
		return b
	case b == c20Bot:
		return a
	case a == b:
		return a
	}
	return c20U
}

func c20Not(a c20Tri) c20Tri {
	switch a {
	case c20F:
		return c20T
	case c20T:
		return c20F
	}
	return a
}

// c20Abs is the abstract value of one tracked parameter.
type c20Abs struct {
	tri  c20Tri // bool parameters
	nilp bool   // *lang.Process parameters: receives the parse-only nil process
}

type c20FnCtx struct {
	fn      *types.Func
	decl    *ast.FuncDecl
	key     string
	params  map[types.Object]c20Abs
	env     map[types.Object]c20Tri
	nilLoc  map[types.Object]bool
	via     *c20FnCtx
	viaPos  token.Pos
	lits    map[*ast.FuncLit]bool
	nReach  int
	entry   bool
	pending []*ast.FuncLit
}

func (fc *c20FnCtx) name() string { return c20FuncName(fc.fn) }

func c20FuncName(f *types.Func) string {
	if sig, ok := f.Type().(*types.Signature); ok && sig.Recv() != nil {
		return "(" + namedName(sig.Recv().Type()) + ")." + f.Name()
	}
	return f.Name()
}

func (fc *c20FnCtx) label() string {
	var ps []string
	sig := fc.fn.Type().(*types.Signature)
	for i := 0; i < sig.Params().Len(); i++ {
		p := sig.Params().At(i)
		if a, ok := fc.params[p]; ok {
			if c20IsBool(p.Type()) {
				ps = append(ps, p.Name()+"="+a.tri.String())
			} else if a.nilp {
				ps = append(ps, p.Name()+"=nil")
			}
		}
	}
	if len(ps) == 0 {
		return fc.name()
	}
	return fc.name() + "[" + strings.Join(ps, ",") + "]"
}

func (fc *c20FnCtx) chain() string {
	var parts []string
	for x := fc; x != nil && len(parts) < 12; x = x.via {
		parts = append(parts, x.label())
	}
	for i, j := 0, len(parts)-1; i < j; i, j = i+1, j-1 {
		parts[i], parts[j] = parts[j], parts[i]
	}
	return strings.Join(parts, " → ")
}

type c20Created struct {
	lit *ast.FuncLit // closure …
	fn  *types.Func  // … or a reference to a declared function / method value
	sig *types.Signature
	fc  *c20FnCtx
}

type c20Dyn struct {
	sig  *types.Signature
	call *ast.CallExpr
	fc   *c20FnCtx
	args []c20Abs
}

type c20Eng struct {
	c     *Ctx
	pk    *packages.Package
	info  *types.Info
	decls map[*types.Func]*ast.FuncDecl
	encl  map[ast.Node]*ast.FuncDecl // filled lazily for inventories
	procT types.Type                 // *lang.Process
	pFld  *types.Var                 // ParserT.p

	fieldVal  map[*types.Var]c20Tri
	fieldNext map[*types.Var]c20Tri
	fieldPos  map[*types.Var]token.Pos

	seen    map[string]*c20FnCtx
	perFn   map[*types.Func][]*c20FnCtx
	work    []*c20FnCtx
	created []c20Created
	dyns    []c20Dyn
	actKey  map[string]bool

	reachStmt  map[ast.Stmt]bool
	reachPanic map[*ast.CallExpr]*c20FnCtx
	reachDeref map[*ast.SelectorExpr]*c20FnCtx
	reachCall  map[*ast.CallExpr]*c20FnCtx
	extNil     map[*ast.CallExpr]*c20FnCtx
	frontier   map[string]int
	undecided  []string
	undPos     map[string]token.Pos
	wrappers   map[*types.Func]bool
	bounds     *c20Bounds
	delta      *c20Delta
}

func c20IsBool(t types.Type) bool {
	b, ok := t.Underlying().(*types.Basic)
	return ok && b.Info()&types.IsBoolean != 0
}

func newC20Eng(c *Ctx) *c20Eng {
	pk := c.Pkg(c20Pkg)
	if pk == nil {
		c.Lost("R20a", "pkg:"+c20Pkg, "package not loaded")
		return nil
	}
	e := &c20Eng{c: c, pk: pk, info: pk.TypesInfo, decls: map[*types.Func]*ast.FuncDecl{}, fieldVal: map[*types.Var]c20Tri{}, fieldPos: map[*types.Var]token.Pos{}, wrappers: map[*types.Func]bool{}}
	eachFunc(pk, func(fd *ast.FuncDecl) {
		if strings.HasSuffix(c.Fset.Position(fd.Pos()).Filename, "_test.go") {
			return
		}
		if f, ok := pk.TypesInfo.Defs[fd.Name].(*types.Func); ok {
			e.decls[f] = fd
		}
	})
	if tn, ok := pk.Types.Scope().Lookup("ParserT").(*types.TypeName); ok {
		if st := structOf(tn.Type()); st != nil {
			for i := 0; i < st.NumFields(); i++ {
				f := st.Field(i)
				if namedPath(f.Type()) == mx("lang")+".Process" {
					if _, isPtr := f.Type().(*types.Pointer); isPtr {
						e.pFld = f
						e.procT = f.Type()
					}
				}
			}
		}
	}
	if e.pFld == nil {
		c.Lost("R20a", "field:ParserT.p", "ParserT has no field of type *lang.Process — the parse-only/exec split moved")
		return nil
	}
	for f, fd := range e.decls {
		if c20IsPanicWrapper(e.info, fd) {
			e.wrappers[f] = true
		}
	}
	return e
}

// c20IsPanicWrapper: the function never returns normally: no return statement
// and the body ends in panic(...).
func c20IsPanicWrapper(info *types.Info, fd *ast.FuncDecl) bool {
	if fd.Type.Results != nil && len(fd.Type.Results.List) > 0 {
		return false
	}
	hasRet := false
	ast.Inspect(fd.Body, func(n ast.Node) bool {
		if _, ok := n.(*ast.FuncLit); ok {
			return false
		}
		if _, ok := n.(*ast.ReturnStmt); ok {
			hasRet = true
		}
		return true
	})
	if hasRet || len(fd.Body.List) == 0 {
		return false
	}
	es, ok := fd.Body.List[len(fd.Body.List)-1].(*ast.ExprStmt)
	if !ok {
		return false
	}
	call, ok := es.X.(*ast.CallExpr)
	return ok && c20IsBuiltin(info, call, "panic")
}

func c20IsBuiltin(info *types.Info, call *ast.CallExpr, name string) bool {
	id, ok := unparen(call.Fun).(*ast.Ident)
	if !ok {
		return false
	}
	b, ok := info.Uses[id].(*types.Builtin)
	return ok && b.Name() == name
}

func (e *c20Eng) reset() {
	e.seen = map[string]*c20FnCtx{}
	e.perFn = map[*types.Func][]*c20FnCtx{}
	e.work = nil
	e.created = nil
	e.dyns = nil
	e.actKey = map[string]bool{}
	e.reachStmt = map[ast.Stmt]bool{}
	e.reachPanic = map[*ast.CallExpr]*c20FnCtx{}
	e.reachDeref = map[*ast.SelectorExpr]*c20FnCtx{}
	e.reachCall = map[*ast.CallExpr]*c20FnCtx{}
	e.extNil = map[*ast.CallExpr]*c20FnCtx{}
	e.frontier = map[string]int{}
	e.undecided = nil
	e.undPos = map[string]token.Pos{}
	e.fieldNext = map[*types.Var]c20Tri{}
}

// trackedField: unexported bool field of a struct declared in lang/expressions.
func (e *c20Eng) trackedField(v *types.Var) bool {
	return v != nil && v.IsField() && v.Pkg() == e.pk.Types && !v.Exported() && c20IsBool(v.Type())
}

func (e *c20Eng) enqueue(f *types.Func, args map[types.Object]c20Abs, via *c20FnCtx, pos token.Pos) *c20FnCtx {
	f = f.Origin()
	fd := e.decls[f]
	if fd == nil {
		return nil
	}
	sig := f.Type().(*types.Signature)
	var kb strings.Builder
	kb.WriteString(f.FullName())
	params := map[types.Object]c20Abs{}
	for i := 0; i < sig.Params().Len(); i++ {
		p := sig.Params().At(i)
		a, ok := args[p]
		switch {
		case c20IsBool(p.Type()):
			if !ok || a.tri == c20Bot {
				a.tri = c20U
			}
			params[p] = a
			fmt.Fprintf(&kb, "|%d=%s", i, a.tri)
		case types.Identical(p.Type(), e.procT):
			params[p] = a
			fmt.Fprintf(&kb, "|%d=nil:%v", i, a.nilp)
		}
	}
	key := kb.String()
	if fc, ok := e.seen[key]; ok {
		return fc
	}
	if len(e.perFn[f]) >= 24 {
		// context cap: merge into the all-unknown context (sound: more reachable)
		for p, a := range params {
			if c20IsBool(p.Type()) {
				a.tri = c20U
			} else {
				a.nilp = true
			}
			params[p] = a
		}
		key = f.FullName() + "|merged"
		if fc, ok := e.seen[key]; ok {
			return fc
		}
	}
	fc := &c20FnCtx{fn: f, decl: fd, key: key, params: params, via: via, viaPos: pos, lits: map[*ast.FuncLit]bool{}}
	e.seen[key] = fc
	e.perFn[f] = append(e.perFn[f], fc)
	e.work = append(e.work, fc)
	return fc
}

// ---------------------------------------------------------------- evaluation

func (e *c20Eng) isNilProc(fc *c20FnCtx, x ast.Expr) bool {
	x = unparen(x)
	if tv, ok := e.info.Types[x]; ok && tv.IsNil() {
		return true
	}
	switch n := x.(type) {
	case *ast.SelectorExpr:
		if sel := e.info.Selections[n]; sel != nil && sel.Kind() == types.FieldVal && sel.Obj() == e.pFld {
			return true
		}
	case *ast.Ident:
		o := e.info.Uses[n]
		if o == nil {
			o = e.info.Defs[n]
		}
		if o == nil {
			return false
		}
		if fc.nilLoc[o] {
			return true
		}
		if a, ok := fc.params[o]; ok && a.nilp {
			return true
		}
	}
	return false
}

func (e *c20Eng) eval(fc *c20FnCtx, x ast.Expr) c20Tri {
	x = unparen(x)
	if tv, ok := e.info.Types[x]; ok && tv.Value != nil {
		if tv.Value.Kind() == constant.Bool {
			if constant.BoolVal(tv.Value) {
				return c20T
			}
			return c20F
		}
		return c20U
	}
	switch n := x.(type) {
	case *ast.Ident:
		o := e.info.Uses[n]
		if o == nil {
			return c20U
		}
		if v, ok := fc.env[o]; ok && v != c20Bot {
			return v
		}
		return c20U
	case *ast.SelectorExpr:
		if sel := e.info.Selections[n]; sel != nil && sel.Kind() == types.FieldVal {
			if v, ok := sel.Obj().(*types.Var); ok && e.trackedField(v) {
				if fv, ok := e.fieldVal[v]; ok {
					return fv
				}
				return c20F // zero value; every reachable store is joined in (outer fixpoint)
			}
		}
		return c20U
	case *ast.UnaryExpr:
		if n.Op == token.NOT {
			return c20Not(e.eval(fc, n.X))
		}
	case *ast.BinaryExpr:
		switch n.Op {
		case token.LAND:
			a, b := e.eval(fc, n.X), e.eval(fc, n.Y)
			if a == c20F || b == c20F {
				return c20F
			}
			if a == c20T && b == c20T {
				return c20T
			}
			return c20U
		case token.LOR:
			a, b := e.eval(fc, n.X), e.eval(fc, n.Y)
			if a == c20T || b == c20T {
				return c20T
			}
			if a == c20F && b == c20F {
				return c20F
			}
			return c20U
		case token.EQL, token.NEQ:
			if c20IsBool(e.info.TypeOf(n.X)) {
				a, b := e.eval(fc, n.X), e.eval(fc, n.Y)
				if (a == c20T || a == c20F) && (b == c20T || b == c20F) {
					if (a == b) == (n.Op == token.EQL) {
						return c20T
					}
					return c20F
				}
			}
		}
	}
	return c20U
}

// prepare computes the flow-insensitive environment of one context: every
// bool local/param is the join of its initial value and all its definitions.
func (e *c20Eng) prepare(fc *c20FnCtx) {
	fc.env = map[types.Object]c20Tri{}
	fc.nilLoc = map[types.Object]bool{}
	for p, a := range fc.params {
		if c20IsBool(p.Type()) {
			fc.env[p] = a.tri
		}
	}
	type def struct {
		obj types.Object
		rhs ast.Expr // nil: zero value (bool) ; unknown when multi
		unk bool
	}
	var defs []def
	obj := func(id *ast.Ident) types.Object {
		if o := e.info.Defs[id]; o != nil {
			return o
		}
		return e.info.Uses[id]
	}
	ast.Inspect(fc.decl.Body, func(n ast.Node) bool {
		switch s := n.(type) {
		case *ast.AssignStmt:
			for i, l := range s.Lhs {
				id, ok := unparen(l).(*ast.Ident)
				if !ok || id.Name == "_" {
					continue
				}
				o := obj(id)
				if o == nil {
					continue
				}
				if len(s.Lhs) == len(s.Rhs) && (s.Tok == token.ASSIGN || s.Tok == token.DEFINE) {
					defs = append(defs, def{obj: o, rhs: s.Rhs[i]})
				} else {
					defs = append(defs, def{obj: o, unk: true})
				}
			}
		case *ast.ValueSpec:
			for i, id := range s.Names {
				o := obj(id)
				if o == nil {
					continue
				}
				if len(s.Values) == len(s.Names) {
					defs = append(defs, def{obj: o, rhs: s.Values[i]})
				} else if len(s.Values) == 0 {
					defs = append(defs, def{obj: o})
				} else {
					defs = append(defs, def{obj: o, unk: true})
				}
			}
		case *ast.RangeStmt:
			for _, x := range []ast.Expr{s.Key, s.Value} {
				if id, ok := x.(*ast.Ident); ok {
					if o := obj(id); o != nil {
						defs = append(defs, def{obj: o, unk: true})
					}
				}
			}
		case *ast.UnaryExpr:
			if s.Op == token.AND {
				if id, ok := unparen(s.X).(*ast.Ident); ok {
					if o := obj(id); o != nil {
						defs = append(defs, def{obj: o, unk: true})
					}
				}
			}
		}
		return true
	})
	for pass := 0; pass < 2; pass++ {
		next := map[types.Object]c20Tri{}
		for p, a := range fc.params {
			if c20IsBool(p.Type()) {
				next[p] = a.tri
			}
		}
		for _, d := range defs {
			if !c20IsBool(d.obj.Type()) {
				continue
			}
			var v c20Tri
			switch {
			case d.unk:
				v = c20U
			case d.rhs == nil:
				v = c20F
			default:
				v = e.eval(fc, d.rhs)
			}
			next[d.obj] = c20Join(next[d.obj], v)
		}
		fc.env = next
	}
	for pass := 0; pass < 2; pass++ {
		for _, d := range defs {
			if d.rhs != nil && types.Identical(d.obj.Type(), e.procT) && e.isNilProc(fc, d.rhs) {
				fc.nilLoc[d.obj] = true
			}
		}
	}
}

// ---------------------------------------------------------------- walking

type c20Walker struct {
	e       *c20Eng
	fc      *c20FnCtx
	cleared map[string]bool // printed expressions proven non-nil here
}

func (w *c20Walker) withCleared(add []string) *c20Walker {
	if len(add) == 0 {
		return w
	}
	m := map[string]bool{}
	for k := range w.cleared {
		m[k] = true
	}
	for _, k := range add {
		m[k] = true
	}
	return &c20Walker{e: w.e, fc: w.fc, cleared: m}
}

// nilTests: expressions E with `E != nil` (want=NEQ) among the conjuncts of a
// true condition, or `E == nil` among the disjuncts of a false one.
func (w *c20Walker) nilTests(cond ast.Expr, truth bool) []string {
	var out []string
	var parts []ast.Expr
	op := token.NEQ
	if truth {
		parts = conjuncts(cond)
	} else {
		parts = disjuncts(cond)
		op = token.EQL
	}
	for _, p := range parts {
		b, ok := unparen(p).(*ast.BinaryExpr)
		if !ok || b.Op != op {
			continue
		}
		if tv, ok := w.e.info.Types[b.Y]; ok && tv.IsNil() {
			out = append(out, w.e.c.src(b.X))
		} else if tv, ok := w.e.info.Types[b.X]; ok && tv.IsNil() {
			out = append(out, w.e.c.src(b.Y))
		}
	}
	return out
}

func (w *c20Walker) stmts(list []ast.Stmt) bool {
	live := true
	cur := w
	for _, s := range list {
		if !live {
			if _, ok := s.(*ast.LabeledStmt); !ok {
				continue
			}
			live = true
		}
		live = cur.stmt(s)
		// `if E == nil { …terminates }` clears E for the rest of the list
		if is, ok := s.(*ast.IfStmt); ok && is.Else == nil && terminates(w.e.info, is.Body.List) {
			cur = cur.withCleared(cur.nilTests(is.Cond, false))
		}
	}
	return live
}

func (w *c20Walker) stmt(s ast.Stmt) bool {
	if s == nil {
		return true
	}
	e := w.e
	if !e.reachStmt[s] {
		e.reachStmt[s] = true
	}
	w.fc.nReach++
	switch s := s.(type) {
	case *ast.ExprStmt:
		w.scan(s.X)
		if call, ok := unparen(s.X).(*ast.CallExpr); ok && c20IsBuiltin(e.info, call, "panic") {
			return false
		}
		return true
	case *ast.AssignStmt:
		for _, r := range s.Rhs {
			w.scan(r)
		}
		for i, l := range s.Lhs {
			w.scan(l)
			if v, _ := fieldOf(e.info, l); e.trackedField(v) {
				val := c20U
				if len(s.Lhs) == len(s.Rhs) && s.Tok == token.ASSIGN {
					val = e.eval(w.fc, s.Rhs[i])
				}
				e.store(v, val, l.Pos())
			}
		}
		return true
	case *ast.IncDecStmt:
		w.scan(s.X)
		return true
	case *ast.DeclStmt:
		w.scan(s.Decl)
		return true
	case *ast.ReturnStmt:
		for _, r := range s.Results {
			w.scan(r)
		}
		return false
	case *ast.BranchStmt:
		return false
	case *ast.BlockStmt:
		return w.stmts(s.List)
	case *ast.LabeledStmt:
		return w.stmt(s.Stmt)
	case *ast.IfStmt:
		w.stmt(s.Init)
		w.scan(s.Cond)
		v := e.eval(w.fc, s.Cond)
		tl, el := false, false
		if v != c20F {
			tl = w.withCleared(w.nilTests(s.Cond, true)).stmts(s.Body.List)
		}
		if v != c20T {
			if s.Else != nil {
				el = w.withCleared(w.nilTests(s.Cond, false)).stmt(s.Else)
			} else {
				el = true
			}
		}
		return tl || el
	case *ast.ForStmt:
		w.stmt(s.Init)
		if s.Cond != nil {
			w.scan(s.Cond)
			if e.eval(w.fc, s.Cond) == c20F {
				return true
			}
		}
		w.stmts(s.Body.List)
		w.stmt(s.Post)
		return true
	case *ast.RangeStmt:
		w.scan(s.X)
		w.stmts(s.Body.List)
		return true
	case *ast.SwitchStmt:
		w.stmt(s.Init)
		if s.Tag != nil {
			w.scan(s.Tag)
		}
		definite, prevFall := false, false
		var dflt *ast.CaseClause
		bodyOf := func(cc *ast.CaseClause) {
			w.stmts(cc.Body)
			prevFall = false
			if n := len(cc.Body); n > 0 {
				if b, ok := cc.Body[n-1].(*ast.BranchStmt); ok && b.Tok == token.FALLTHROUGH {
					prevFall = true
				}
			}
		}
		for _, cs := range s.Body.List {
			cc := cs.(*ast.CaseClause)
			if cc.List == nil {
				dflt = cc
				if prevFall {
					bodyOf(cc)
				}
				continue
			}
			may := false
			if !definite {
				for _, x := range cc.List {
					w.scan(x)
					v := c20U
					if s.Tag == nil {
						v = e.eval(w.fc, x)
					}
					if v != c20F {
						may = true
					}
					if v == c20T {
						definite = true
						break
					}
				}
			}
			if may || prevFall {
				e.reachStmt[cc] = true
				bodyOf(cc)
			} else {
				prevFall = false
			}
		}
		if dflt != nil && !definite && !e.reachStmt[dflt] {
			e.reachStmt[dflt] = true
			w.stmts(dflt.Body)
		}
		return true
	case *ast.TypeSwitchStmt:
		w.stmt(s.Init)
		w.stmt(s.Assign)
		for _, cs := range s.Body.List {
			w.stmts(cs.(*ast.CaseClause).Body)
		}
		return true
	case *ast.SelectStmt:
		for _, cs := range s.Body.List {
			cc := cs.(*ast.CommClause)
			w.stmt(cc.Comm)
			w.stmts(cc.Body)
		}
		return true
	case *ast.GoStmt:
		w.scan(s.Call)
		return true
	case *ast.DeferStmt:
		w.scan(s.Call)
		return true
	case *ast.SendStmt:
		w.scan(s.Chan)
		w.scan(s.Value)
		return true
	case *ast.EmptyStmt:
		return true
	}
	return true
}

func (e *c20Eng) store(v *types.Var, val c20Tri, pos token.Pos) {
	if val == c20Bot {
		val = c20U
	}
	old := e.fieldNext[v]
	e.fieldNext[v] = c20Join(old, val)
	if val != c20F {
		if _, ok := e.fieldPos[v]; !ok {
			e.fieldPos[v] = pos
		}
	}
}

func (w *c20Walker) lit(l *ast.FuncLit) {
	if w.fc.lits[l] {
		return
	}
	w.fc.lits[l] = true
	w.stmts(l.Body.List)
}

// scan visits an expression (or declaration) that is evaluated in this context.
func (w *c20Walker) scan(n ast.Node) {
	if n == nil {
		return
	}
	e := w.e
	ast.Inspect(n, func(x ast.Node) bool {
		switch x := x.(type) {
		case *ast.FuncLit:
			sig, _ := e.info.TypeOf(x).Underlying().(*types.Signature)
			e.created = append(e.created, c20Created{lit: x, sig: sig, fc: w.fc})
			return false
		case *ast.BinaryExpr:
			if x.Op == token.LAND || x.Op == token.LOR {
				w.scan(x.X)
				v := e.eval(w.fc, x.X)
				if (x.Op == token.LAND && v == c20F) || (x.Op == token.LOR && v == c20T) {
					return false
				}
				// right operand runs under the left's nil tests
				w.withCleared(w.nilTests(x.X, x.Op == token.LAND)).scan(x.Y)
				return false
			}
		case *ast.CallExpr:
			w.call(x)
			return false
		case *ast.CompositeLit:
			if st := structOf(e.info.TypeOf(x)); st != nil {
				for _, el := range x.Elts {
					if kv, ok := el.(*ast.KeyValueExpr); ok {
						if id, ok := kv.Key.(*ast.Ident); ok {
							if v, ok := e.info.Uses[id].(*types.Var); ok && e.trackedField(v) {
								e.store(v, e.eval(w.fc, kv.Value), kv.Pos())
							}
						}
					} else {
						for i := 0; i < st.NumFields(); i++ {
							if e.trackedField(st.Field(i)) {
								e.store(st.Field(i), c20U, el.Pos())
							}
						}
					}
				}
			}
		case *ast.UnaryExpr:
			if x.Op == token.AND {
				if v, _ := fieldOf(e.info, x.X); e.trackedField(v) {
					e.store(v, c20U, x.Pos())
				}
			}
		case *ast.StarExpr:
			if e.isNilProc(w.fc, x.X) && !w.cleared[e.c.src(x.X)] {
				e.undecide("star:"+w.fc.name(), x.Pos(), "explicit dereference *%s of the parse-only nil process in %s", e.c.src(x.X), w.fc.chain())
			}
		case *ast.SelectorExpr:
			w.selector(x)
		case *ast.Ident:
			// reference to a declared function used as a value
			if f, ok := e.info.Uses[x].(*types.Func); ok && e.decls[f.Origin()] != nil {
				sig, _ := f.Type().(*types.Signature)
				e.created = append(e.created, c20Created{fn: f, sig: sig, fc: w.fc})
			}
		}
		return true
	})
}

func (w *c20Walker) selector(x *ast.SelectorExpr) {
	e := w.e
	if e.isNilProc(w.fc, x.X) && !w.cleared[e.c.src(x.X)] {
		if _, seen := e.reachDeref[x]; !seen {
			e.reachDeref[x] = w.fc
		}
	}
	if sel := e.info.Selections[x]; sel != nil && sel.Kind() == types.MethodVal {
		if f, ok := sel.Obj().(*types.Func); ok && e.decls[f.Origin()] != nil {
			// method value (not in call position: calls are handled in call())
			sig, _ := e.info.TypeOf(x).Underlying().(*types.Signature)
			e.created = append(e.created, c20Created{fn: f, sig: sig, fc: w.fc})
		}
	}
}

func (e *c20Eng) undecide(key string, pos token.Pos, f string, a ...any) {
	if _, ok := e.undPos[key]; ok {
		return
	}
	e.undPos[key] = pos
	e.undecided = append(e.undecided, key+"\x00"+fmt.Sprintf(f, a...))
}

func (w *c20Walker) absArg(x ast.Expr, t types.Type) c20Abs {
	var a c20Abs
	if c20IsBool(t) {
		a.tri = w.e.eval(w.fc, x)
	} else if types.Identical(t, w.e.procT) {
		a.nilp = w.e.isNilProc(w.fc, x) && !w.cleared[w.e.c.src(x)]
	}
	return a
}

func (w *c20Walker) call(call *ast.CallExpr) {
	e := w.e
	fun := unparen(call.Fun)
	scanArgs := func(immediateLits bool) {
		for _, a := range call.Args {
			if l, ok := unparen(a).(*ast.FuncLit); ok && immediateLits {
				w.lit(l)
				continue
			}
			w.scan(a)
		}
	}
	if tv, ok := e.info.Types[fun]; ok && tv.IsType() {
		scanArgs(false)
		return
	}
	if id, ok := fun.(*ast.Ident); ok {
		if _, ok := e.info.Uses[id].(*types.Builtin); ok {
			if id.Name == "panic" {
				if _, seen := e.reachPanic[call]; !seen {
					e.reachPanic[call] = w.fc
				}
			}
			scanArgs(false)
			return
		}
	}
	if l, ok := fun.(*ast.FuncLit); ok {
		scanArgs(false)
		w.lit(l)
		return
	}
	if f, ok := callee(e.info, call).(*types.Func); ok {
		if se, ok := fun.(*ast.SelectorExpr); ok {
			if sel := e.info.Selections[se]; sel != nil {
				w.scan(se.X)
				if e.isNilProc(w.fc, se.X) && !w.cleared[e.c.src(se.X)] {
					if _, seen := e.reachDeref[se]; !seen {
						e.reachDeref[se] = w.fc
					}
				}
			}
		}
		sig := f.Type().(*types.Signature)
		inPkg := e.decls[f.Origin()] != nil
		iface := sig.Recv() != nil && types.IsInterface(sig.Recv().Type())
		scanArgs(!inPkg)
		if _, seen := e.reachCall[call]; !seen {
			e.reachCall[call] = w.fc
		}
		args := map[types.Object]c20Abs{}
		osig := f.Origin().Type().(*types.Signature)
		anyNil := false
		for i, a := range call.Args {
			if i >= osig.Params().Len() || (osig.Variadic() && i >= osig.Params().Len()-1) {
				break
			}
			p := osig.Params().At(i)
			ab := w.absArg(a, p.Type())
			args[p] = ab
			if ab.nilp && !(e.info.Types[unparen(a)].IsNil()) {
				anyNil = true
			}
		}
		switch {
		case inPkg:
			e.enqueue(f, args, w.fc, call.Pos())
		case iface:
			// dispatch to every in-package implementation of the method
			it, _ := sig.Recv().Type().Underlying().(*types.Interface)
			for g := range e.decls {
				gs := g.Type().(*types.Signature)
				if gs.Recv() == nil || g.Name() != f.Name() || it == nil {
					continue
				}
				rt := gs.Recv().Type()
				if types.Implements(rt, it) || types.Implements(types.NewPointer(rt), it) {
					e.enqueue(g, nil, w.fc, call.Pos())
				}
			}
		default:
			e.frontier[objName(f)]++
			if anyNil {
				if _, seen := e.extNil[call]; !seen {
					e.extNil[call] = w.fc
				}
			}
		}
		return
	}
	// dynamic call through a function value
	w.scan(call.Fun)
	scanArgs(false)
	sig, _ := e.info.TypeOf(fun).Underlying().(*types.Signature)
	if sig == nil {
		e.undecide("dyncall:"+w.fc.name(), call.Pos(), "call %s has no static callee and no function type", e.c.src(call))
		return
	}
	d := c20Dyn{sig: sig, call: call, fc: w.fc}
	for i, a := range call.Args {
		if i >= sig.Params().Len() || (sig.Variadic() && i >= sig.Params().Len()-1) {
			break
		}
		d.args = append(d.args, w.absArg(a, sig.Params().At(i).Type()))
	}
	e.dyns = append(e.dyns, d)
}

// run analyses from the entries until no context, closure activation or field
// value changes.
func (e *c20Eng) run(entries func()) {
	for iter := 0; iter < 12; iter++ {
		e.reset()
		entries()
		for {
			for len(e.work) > 0 {
				fc := e.work[0]
				e.work = e.work[1:]
				e.prepare(fc)
				(&c20Walker{e: e, fc: fc}).stmts(fc.decl.Body.List)
			}
			// match dynamic calls with created function values of identical signature
			progress := false
			for di := 0; di < len(e.dyns); di++ {
				d := e.dyns[di]
				for ci := 0; ci < len(e.created); ci++ {
					cr := e.created[ci]
					if cr.sig == nil || !types.Identical(cr.sig, d.sig) {
						continue
					}
					k := fmt.Sprintf("%p/%p/%p/%p", d.call, cr.lit, cr.fn, cr.fc)
					if cr.fn != nil {
						k = fmt.Sprintf("%p/%s/%v", d.call, cr.fn.FullName(), d.args)
					}
					if e.actKey[k] {
						continue
					}
					e.actKey[k] = true
					progress = true
					if cr.lit != nil {
						if !cr.fc.lits[cr.lit] {
							(&c20Walker{e: e, fc: cr.fc}).lit(cr.lit)
						}
					} else {
						args := map[types.Object]c20Abs{}
						ps := cr.fn.Origin().Type().(*types.Signature).Params()
						for i := 0; i < ps.Len() && i < len(d.args); i++ {
							args[ps.At(i)] = d.args[i]
						}
						e.enqueue(cr.fn, args, d.fc, d.call.Pos())
					}
				}
			}
			if !progress && len(e.work) == 0 {
				break
			}
		}
		changed := false
		for v, nv := range e.fieldNext {
			old, ok := e.fieldVal[v]
			if !ok {
				old = c20F
			}
			j := c20Join(old, nv)
			if j != old {
				changed = true
			}
			e.fieldVal[v] = j
		}
		if !changed {
			return
		}
	}
	e.undecide("fixpoint", token.NoPos, "field-constant fixpoint did not converge in 12 rounds")
}

// ---------------------------------------------------------------- the rule

func (c *Ctx) c20EnclosingFuncs(pk *packages.Package) map[*ast.FuncDecl]string {
	out := map[*ast.FuncDecl]string{}
	eachFunc(pk, func(fd *ast.FuncDecl) {
		n := fd.Name.Name
		if r := recvName(fd); r != "" {
			n = "(" + r + ")." + n
		}
		out[fd] = n
	})
	return out
}

func runC20(c *Ctx) {
	c.Load(c20Pkg)
	c.Rule("R20a", "E6 exec-mode slicing of lang/expressions from BlockT.ParseBlock / ExpressionParser(exec=false): (1) every dereference of ParserT.p (nil there) is outside the parse-only slice; (2) every call of a function that dereferences tree.p unconditionally (StrictTypes, StrictArrays, ExpandGlob, execSubShell*, …) is outside the slice; (3) no nil tree.p is passed to a function outside the package; (4) every explicit panic(...) — directly or through a never-returning wrapper such as BlockT.panic — is outside the slice, except the reviewed blk.panic('&','&') and blk.panic('-','>') in ParseBlock, which must sit in an arm where `tree == nil` is known false; (5) lang.ParseExpression (= ExpressionParser, which builds NewParser(nil,…)) is only called with exec=false")
	e := newC20Eng(c)
	if e != nil {
		t0 := time.Now()
		c.c20RuleA(e)
		t1 := time.Now()
		c.c20RuleC(e)
		t2 := time.Now()
		c.c20RuleD(e)
		t3 := time.Now()
		c.c20RuleE(e)
		c.Info("timing: load %.1fs R20a %.1fs R20c %.1fs R20d %.1fs R20e %.1fs (movement analysis: %d runs, %d block transfers)", t0.Sub(c.start).Seconds(), t1.Sub(t0).Seconds(), t2.Sub(t1).Seconds(), t3.Sub(t2).Seconds(), time.Since(t3).Seconds(), c20DRuns, c20DTransfers)
	}
	c.Rule("R20b", "highlighter utils/parser.Parse: the loop index is only incremented; every block[i±c] is guarded (see c20b.go)")
	if c20bHook != nil {
		c20bHook(c, "R20b")
	} else {
		c.Info("R20b (highlighter half, c20b.go) is not wired into this build")
	}
}

func (c *Ctx) c20RuleA(e *c20Eng) {
	const rule = "R20a"
	pk, info := e.pk, e.info
	lookupFn := func(recv, name string) *types.Func {
		fd, _ := c.MustFunc(rule, c20Pkg, recv, name)
		if fd == nil {
			return nil
		}
		f, _ := info.Defs[fd.Name].(*types.Func)
		return f
	}
	fParseBlockM := lookupFn("BlockT", "ParseBlock")
	fExprParser := lookupFn("", "ExpressionParser")
	fParseBlock := lookupFn("", "ParseBlock")
	if fParseBlockM == nil || fExprParser == nil || fParseBlock == nil {
		return
	}

	// (5) call sites of the lang.ParseExpression hook
	execArg := c.c20ParseExpressionCallers(e, fExprParser)

	e.run(func() {
		for _, f := range []*types.Func{fParseBlock, fParseBlockM} {
			if fc := e.enqueue(f, nil, nil, token.NoPos); fc != nil {
				fc.entry = true
			}
		}
		sig := fExprParser.Type().(*types.Signature)
		args := map[types.Object]c20Abs{}
		for i := 0; i < sig.Params().Len(); i++ {
			if c20IsBool(sig.Params().At(i).Type()) {
				args[sig.Params().At(i)] = c20Abs{tri: execArg}
			}
		}
		if fc := e.enqueue(fExprParser, args, nil, token.NoPos); fc != nil {
			fc.entry = true
		}
	})

	names := c.c20EnclosingFuncs(pk)
	enclOf := func(p token.Pos) (*ast.FuncDecl, string) {
		for fd, n := range names {
			if fd.Pos() <= p && p < fd.End() {
				return fd, n
			}
		}
		return nil, "?"
	}
	isTest := func(p token.Pos) bool { return strings.HasSuffix(c.Fset.Position(p).Filename, "_test.go") }
	ord := map[string]int{}
	mkKey := func(kind, fn, what string) string {
		k := kind + ":" + fn + ":" + what
		ord[k]++
		if ord[k] > 1 {
			k += fmt.Sprintf("#%d", ord[k])
		}
		return k
	}

	// functions that need tree.p unconditionally: a ParserT.p dereference is
	// reachable in their all-unknown context outside any exec guard
	needP := map[*types.Func]bool{}
	{
		probe := &c20Eng{c: c, pk: pk, info: info, decls: e.decls, procT: e.procT, pFld: e.pFld, fieldVal: e.fieldVal, fieldPos: map[*types.Var]token.Pos{}, wrappers: e.wrappers}
		for f := range e.decls {
			sig := f.Type().(*types.Signature)
			hasBool := false
			for i := 0; i < sig.Params().Len(); i++ {
				if c20IsBool(sig.Params().At(i).Type()) {
					hasBool = true
				}
			}
			if hasBool {
				continue // context decides; judged by (1) per context
			}
			probe.reset()
			fc := &c20FnCtx{fn: f, decl: e.decls[f], params: map[types.Object]c20Abs{}, lits: map[*ast.FuncLit]bool{}}
			probe.prepare(fc)
			(&c20Walker{e: probe, fc: fc}).stmts(fc.decl.Body.List)
			for se := range probe.reachDeref {
				if s, ok := unparen(se.X).(*ast.SelectorExpr); ok && info.Selections[s] != nil && info.Selections[s].Obj() == e.pFld {
					needP[f] = true
				}
			}
		}
	}

	// inventory walk over the whole package (non-test files)
	type site struct {
		pos  token.Pos
		fn   string
		node ast.Node
	}
	var derefs, panics, wrapCalls, needCalls []site
	for _, file := range pk.Syntax {
		if isTest(file.Pos()) {
			continue
		}
		ast.Inspect(file, func(n ast.Node) bool {
			switch x := n.(type) {
			case *ast.SelectorExpr:
				if s, ok := unparen(x.X).(*ast.SelectorExpr); ok {
					if sel := info.Selections[s]; sel != nil && sel.Kind() == types.FieldVal && sel.Obj() == e.pFld {
						_, fn := enclOf(x.Pos())
						derefs = append(derefs, site{x.Pos(), fn, x})
					}
				}
			case *ast.CallExpr:
				if c20IsBuiltin(info, x, "panic") {
					_, fn := enclOf(x.Pos())
					panics = append(panics, site{x.Pos(), fn, x})
				} else if f, ok := callee(info, x).(*types.Func); ok {
					_, fn := enclOf(x.Pos())
					if e.wrappers[f.Origin()] {
						wrapCalls = append(wrapCalls, site{x.Pos(), fn, x})
					} else if needP[f.Origin()] {
						needCalls = append(needCalls, site{x.Pos(), fn, x})
					}
				}
			}
			return true
		})
	}
	bypos := func(s []site) {
		sort.Slice(s, func(i, j int) bool { return s[i].pos < s[j].pos })
	}
	bypos(derefs)
	bypos(panics)
	bypos(wrapCalls)
	bypos(needCalls)

	// (1) dereferences of tree.p
	for _, s := range derefs {
		se := s.node.(*ast.SelectorExpr)
		key := mkKey("deref", s.fn, c.src(se))
		if fc, hit := e.reachDeref[se]; hit {
			c.Viol(rule, key, s.pos, "%s dereferences tree.p, which is nil in parse-only context, and the statement is reachable there: %s — ParseBlock on some input panics with a nil pointer dereference instead of returning a syntax error", c.src(se), fc.chain())
		} else {
			c.OK(rule, key, s.pos, "%s is outside the parse-only slice", c.src(se))
		}
	}
	// derefs of tainted locals/params that are not syntactically tree.p.X
	for se, fc := range e.reachDeref {
		if s, ok := unparen(se.X).(*ast.SelectorExpr); ok {
			if sel := info.Selections[s]; sel != nil && sel.Obj() == e.pFld {
				continue
			}
		}
		_, fn := enclOf(se.Pos())
		c.Viol(rule, mkKey("deref", fn, c.src(se)), se.Pos(), "%s dereferences a *lang.Process that is the nil tree.p of parse-only context: %s", c.src(se), fc.chain())
	}
	c.MinCount(rule, "tree.p dereference sites in lang/expressions", len(derefs), 38)

	// (2) calls of functions that need tree.p
	for _, s := range needCalls {
		call := s.node.(*ast.CallExpr)
		f := callee(info, call).(*types.Func)
		key := mkKey("call", s.fn, c20FuncName(f))
		if fc, hit := e.reachCall[call]; hit {
			c.Viol(rule, key, s.pos, "call of %s, which dereferences tree.p unconditionally, is reachable in parse-only context (tree.p == nil): %s — nil pointer panic while only parsing", c20FuncName(f), fc.chain())
		} else {
			c.OK(rule, key, s.pos, "call of %s (needs tree.p) is outside the parse-only slice", c20FuncName(f))
		}
	}
	c.MinCount(rule, "call sites of functions that need tree.p", len(needCalls), 30)
	var np []string
	for f := range needP {
		np = append(np, c20FuncName(f))
	}
	sort.Strings(np)
	c.Info("R20a: functions that dereference tree.p unconditionally (%d): %s", len(np), strings.Join(np, ", "))
	for _, want := range []string{"(ParserT).StrictTypes", "(ParserT).StrictArrays", "(ParserT).ExpandGlob"} {
		found := false
		for _, n := range np {
			if n == want {
				found = true
			}
		}
		if !found {
			c.Lost(rule, "needs-p:"+want, "%s is no longer recognised as a function that dereferences tree.p — the config getters moved", want)
		}
	}

	// (3) nil process leaving the package
	for call, fc := range e.extNil {
		_, fn := enclOf(call.Pos())
		c.Viol(rule, mkKey("escape", fn, calleeName(info, call)), call.Pos(), "the parse-only nil tree.p is passed to %s outside lang/expressions (%s) — whatever it does with the process dereferences nil", calleeName(info, call), fc.chain())
	}

	// (4) explicit panics
	for _, s := range panics {
		call := s.node.(*ast.CallExpr)
		fd, _ := enclOf(s.pos)
		key := mkKey("panic", s.fn, c.src(call))
		if fd != nil {
			if f, ok := info.Defs[fd.Name].(*types.Func); ok && e.wrappers[f] {
				c.OK(rule, key, s.pos, "inside the never-returning wrapper %s — judged at its call sites", s.fn)
				continue
			}
		}
		if fc, hit := e.reachPanic[call]; hit {
			c.Viol(rule, key, s.pos, "explicit %s is reachable while only parsing: %s — some text makes ParseBlock panic instead of returning a syntax error", c.src(call), fc.chain())
		} else {
			c.OK(rule, key, s.pos, "%s is outside the parse-only slice", c.src(call))
		}
	}
	c.MinCount(rule, "explicit panic sites in lang/expressions", len(panics), 6)
	reviewed := map[string]bool{"'&','&'": false, "'-','>'": false}
	for _, s := range wrapCalls {
		call := s.node.(*ast.CallExpr)
		var cs []string
		allConst := true
		for _, a := range call.Args {
			if v, ok := constInt(info, a); ok {
				cs = append(cs, fmt.Sprintf("%q", rune(v)))
			} else {
				allConst = false
				cs = append(cs, c.src(a))
			}
		}
		argS := strings.Join(cs, ",")
		key := mkKey("panic", s.fn, calleeName(info, call)+"("+argS+")")
		fc, hit := e.reachCall[call]
		if !hit {
			c.OK(rule, key, s.pos, "never-returning %s(%s) is outside the parse-only slice", calleeName(info, call), argS)
			continue
		}
		if _, isRev := reviewed[argS]; isRev && allConst && s.fn == "(BlockT).ParseBlock" {
			// reviewed site: must be in an arm where `tree == nil` is false
			guarded := false
			if fd, _ := enclOf(s.pos); fd != nil {
				stack := pathTo(fd.Body, call)
				for _, f := range factsOf(guardsAt(info, stack)) {
					b, ok := unparen(f.E).(*ast.BinaryExpr)
					if !ok {
						continue
					}
					x, y := unparen(b.X), unparen(b.Y)
					if tv, ok := info.Types[x]; ok && tv.IsNil() {
						x, y = y, x
					}
					if tv, ok := info.Types[y]; !ok || !tv.IsNil() {
						continue
					}
					if namedName(info.TypeOf(x)) != "ParserT" {
						continue
					}
					if (b.Op == token.EQL && !f.True) || (b.Op == token.NEQ && f.True) {
						guarded = true
					}
				}
			}
			reviewed[argS] = true
			c.Check(guarded, rule, key, s.pos, "reviewed panic site blk.panic(%s): reachable in parse-only context only where a statement parser has already returned at this rune (tree != nil), which parseStatement/parseExpression never do for a lone %s; guard `tree == nil` known false here: %v — without that guard the rune at command start panics", argS, cs[0], guarded)
			continue
		}
		c.Viol(rule, key, s.pos, "never-returning %s(%s) is reachable while only parsing and is not one of the two reviewed sites: %s — some text makes ParseBlock panic", calleeName(info, call), argS, fc.chain())
	}
	for k, seen := range reviewed {
		if !seen {
			c.Lost(rule, "reviewed:blk.panic("+k+")", "the reviewed site blk.panic(%s) of ParseBlock was not found — the allow-list is stale", k)
		}
	}

	// (5)
	c.Check(execArg == c20F, rule, "entry:ExpressionParser:exec", e.decls[fExprParser].Pos(), "ExpressionParser builds NewParser(nil,…); its exec argument over all call sites of the lang.ParseExpression hook evaluates to %s (must be false: with exec=true the nil process is dereferenced)", execArg)

	// per function of the slice
	var fns []*types.Func
	for f := range e.perFn {
		fns = append(fns, f)
	}
	sort.Slice(fns, func(i, j int) bool { return c20FuncName(fns[i]) < c20FuncName(fns[j]) })
	for _, f := range fns {
		var labels []string
		n := 0
		for _, fc := range e.perFn[f] {
			labels = append(labels, fc.label())
			n += fc.nReach
		}
		sort.Strings(labels)
		c.OK(rule, "slice:"+c20FuncName(f), e.decls[f].Pos(), "in the parse-only slice in %d context(s): %s", len(labels), strings.Join(labels, " "))
	}
	c.MinCount(rule, "functions in the parse-only slice", len(fns), 80)
	for _, u := range e.undecided {
		p := strings.SplitN(u, "\x00", 2)
		c.Undecided(rule, p[0], e.undPos[p[0]], "%s", p[1])
	}
	var fvs []string
	for v, t := range e.fieldVal {
		if t != c20F {
			fvs = append(fvs, fmt.Sprintf("%s=%s(%s)", v.Name(), t, c.pos(e.fieldPos[v])))
		}
	}
	sort.Strings(fvs)
	c.Info("R20a: bool fields not constant-false in the slice: %s", strings.Join(fvs, " "))
	var fr []string
	for n, k := range e.frontier {
		fr = append(fr, fmt.Sprintf("%s×%d", n, k))
	}
	sort.Strings(fr)
	c.Info("R20a: callees outside lang/expressions reached from the slice (not analysed): %s", strings.Join(fr, " "))
	c.Assume = append(c.Assume, "R20a: ParserT/StatementT objects used while only parsing are created inside the run (NewParser/new(StatementT)), so their unexported bool fields hold the join of the zero value and the stores reachable in the slice")
}

func c20AllUnknownFields(e *c20Eng) map[*types.Var]c20Tri {
	out := map[*types.Var]c20Tri{}
	sc := e.pk.Types.Scope()
	for _, n := range sc.Names() {
		tn, ok := sc.Lookup(n).(*types.TypeName)
		if !ok {
			continue
		}
		if st := structOf(tn.Type()); st != nil {
			for i := 0; i < st.NumFields(); i++ {
				if e.trackedField(st.Field(i)) {
					out[st.Field(i)] = c20U
				}
			}
		}
	}
	return out
}

// c20ParseExpressionCallers joins the exec argument over every call of the
// lang.ParseExpression hook variable in the loaded packages, checks that the
// hook is assigned ExpressionParser, and uses an untyped scan of the whole
// tree to make sure no call site lives in a package that was not loaded.
func (c *Ctx) c20ParseExpressionCallers(e *c20Eng, fExprParser *types.Func) c20Tri {
	const rule = "R20a"
	lp := c.Pkg("lang")
	if lp == nil {
		c.Lost(rule, "pkg:lang", "package lang not loaded")
		return c20U
	}
	hook, _ := lp.Types.Scope().Lookup("ParseExpression").(*types.Var)
	if hook == nil {
		c.Lost(rule, "var:lang.ParseExpression", "hook variable lang.ParseExpression not found")
		return c20U
	}
	val := c20Bot
	typedUses := 0
	assigned := false
	for _, pk := range c.MurexPkgs() {
		for _, file := range pk.Syntax {
			ast.Inspect(file, func(n ast.Node) bool {
				switch x := n.(type) {
				case *ast.CallExpr:
					var id *ast.Ident
					switch f := unparen(x.Fun).(type) {
					case *ast.Ident:
						id = f
					case *ast.SelectorExpr:
						id = f.Sel
					}
					if id != nil && pk.TypesInfo.Uses[id] == hook {
						if len(x.Args) == 3 {
							if b, ok := constBool(pk.TypesInfo, x.Args[2]); ok {
								if b {
									val = c20Join(val, c20T)
								} else {
									val = c20Join(val, c20F)
								}
							} else {
								val = c20U
							}
						} else {
							val = c20U
						}
					}
				case *ast.AssignStmt:
					for i, l := range x.Lhs {
						var id *ast.Ident
						switch f := unparen(l).(type) {
						case *ast.Ident:
							id = f
						case *ast.SelectorExpr:
							id = f.Sel
						}
						if id != nil && pk.TypesInfo.Uses[id] == hook && i < len(x.Rhs) {
							if rid, ok := unparen(x.Rhs[i]).(*ast.Ident); ok && pk.TypesInfo.Uses[rid] == fExprParser {
								assigned = true
							} else {
								val = c20U
							}
						}
					}
				case *ast.Ident:
					if pk.TypesInfo.Uses[x] == hook {
						typedUses++
					}
				}
				return true
			})
		}
	}
	if !assigned {
		c.Lost(rule, "hook:lang.ParseExpression", "lang.ParseExpression = ExpressionParser not found")
	}
	// untyped completeness guard
	untyped := 0
	filepath.Walk(c.Repo, func(path string, fi os.FileInfo, err error) error {
		if err != nil {
			return nil
		}
		if fi.IsDir() {
			b := filepath.Base(path)
			if path != c.Repo && (strings.HasPrefix(b, ".") || b == "vendor" || b == "testdata" || b == "wt") {
				return filepath.SkipDir
			}
			return nil
		}
		if !strings.HasSuffix(path, ".go") || strings.HasSuffix(path, "_test.go") {
			return nil
		}
		var srcb any
		if ov, ok := c.Overlay[path]; ok {
			srcb = ov
		} else {
			b, err := os.ReadFile(path)
			if err != nil || !strings.Contains(string(b), "ParseExpression") {
				return nil
			}
			srcb = b
		}
		f, err := parser.ParseFile(token.NewFileSet(), path, srcb, parser.SkipObjectResolution)
		if err != nil {
			return nil
		}
		ast.Inspect(f, func(n ast.Node) bool {
			if se, ok := n.(*ast.SelectorExpr); ok && se.Sel.Name == "ParseExpression" {
				if x, ok := se.X.(*ast.Ident); ok && x.Name == "lang" {
					untyped++
				}
			}
			return true
		})
		return nil
	})
	// uses inside package lang itself are unqualified; qualified ones must all be typed
	qualTyped := 0
	for _, pk := range c.MurexPkgs() {
		if pk == lp {
			continue
		}
		for _, file := range pk.Syntax {
			ast.Inspect(file, func(n ast.Node) bool {
				if se, ok := n.(*ast.SelectorExpr); ok && pk.TypesInfo.Uses[se.Sel] == hook {
					qualTyped++
				}
				return true
			})
		}
	}
	if untyped > qualTyped {
		c.Undecided(rule, "hook:lang.ParseExpression:callers", token.NoPos, "%d textual uses of lang.ParseExpression in the tree but only %d in the loaded packages — a caller outside the loaded set may pass exec=true", untyped, qualTyped)
	}
	if val == c20Bot {
		val = c20U
	}
	c.Info("R20a: lang.ParseExpression hook: %d typed uses, exec argument joins to %s", typedUses, val)
	return val
}
