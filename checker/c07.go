package main

// C07 — logical operators and truthiness. Uses the c06* SSA/AST helpers of c06.go.

import (
	"fmt"
	"go/ast"
	"go/constant"
	"go/token"
	"go/types"
	"os"
	"path/filepath"
	"sort"
	"strings"
	"time"

	"golang.org/x/tools/go/packages"
	"golang.org/x/tools/go/ssa"
)

func init() {
	register("C07", "Decides (structurally): the static argument types reaching types.ConvertGoType are ones its type switch converts (R07a); the falsy table, normalisation and exit-status arm of types.IsTrueString, and that IsTrue/goStringRecast(Boolean)/boolean literals delegate to it (R07b); that `if`, `!`, `and`/`or` take their verdict from types.IsTrue of the stdout and exit number of the SAME evaluation and branch on it with the right polarity, and that no second falsy table exists (R07c); that `??` consults only null/undefined (R07d); that for every path through expLogicalAnd/expLogicalOr/expElvis the folded result equals truthy(l)&&truthy(r) / truthy(l)||truthy(r) / (truthy(l) ? l : r), where truthy(x) = IsTrueString(ConvertGoType(x.Value,str), x.ExitNum) (R07e). Does NOT decide the conversion of composite values to strings, nor the negative-exit convention used by and/or.", runC07)
}

const c07TypesPkg = "lang/types"
const c07StructsPkg = "builtins/core/structs"
const c07TypemgmtPkg = "builtins/core/typemgmt"

var c07Falsy = []string{"", "null", "0", "false", "no", "off", "fail", "failed", "disabled"}

func c07TypesConst(c *Ctx, name string) (string, bool) {
	pk := c.Pkg(c07TypesPkg)
	if pk == nil {
		return "", false
	}
	k, ok := pk.Types.Scope().Lookup(name).(*types.Const)
	if !ok || k.Val().Kind() != constant.String {
		return "", false
	}
	return constant.StringVal(k.Val()), true
}

func runC07(c *Ctx) {
	c.Load(c06ExprPkg)
	t0 := time.Now()
	c.SSA() // built before the light packages are registered: SSA covers the source-loaded closure only
	c06Dump(c, "C07_DUMP")
	t1 := time.Now()
	c.c07LoadLight(c07StructsPkg, c07TypemgmtPkg)
	c.Info("timing: ssa=%.1fs light-load=%.1fs", t1.Sub(t0).Seconds(), time.Since(t1).Seconds())
	if c.Pkg(c06ExprPkg) == nil || c.Pkg(c07TypesPkg) == nil || c.Pkg(c07StructsPkg) == nil || c.Pkg(c07TypemgmtPkg) == nil {
		c.Lost("R07a", "pkg", "anchored packages not loaded")
		return
	}
	c.Rule("R07a", "argument domain of types.ConvertGoType in every loaded murex package: a non-interface static argument type must be one of the types its type switches convert (int, float64, bool, string, []byte, []rune, []string, []any, []int, []float64, []bool) or a map/slice rendered as JSON — never a pointer, struct, or named scalar (those fall to the default arm and are rendered as JSON text, so truthiness/number conversion is taken of the rendering)")
	c.Rule("R07b", "falsy table: IsTrueString returns false for every exit number > 0 whatever the text, and for exit number 0 returns false exactly for the texts {\"\", null, 0, false, no, off, fail, failed, disabled} after ToLower(TrimSpace(·)); IsTrue delegates to IsTrueString(string(stdout), exitNum); goStringRecast's Boolean arm and boolean literals go through IsTrue/IsTrueString with exit number 0; the scalar Boolean recasts agree with the table (0 ↔ false, nil → false, bool → itself, bool→str gives \"true\"/\"false\")")
	c.Rule("R07c", "single source: cmdIf, cmdNot and cmdAndOr obtain their verdict from types.IsTrue(b, n) where b is the ReadAll of a stream and n the exit number of the same evaluation (fork.Stdout with fork.Execute's result, or p.Stdin with p.Previous.ExitNum); `if` runs the then-block iff verdict != IsNot and the else-block otherwise; `!` writes true iff the verdict is false; and/or stop exactly on (verdict == IsNot) / (verdict != IsNot); no other function compares one value against three or more of the falsy literals")
	c.Rule("R07d", "`??`: on every path expNullCoalescing folds the right operand exactly when the left operand's GetValue failed or its DataType equals types.Null, and the left value otherwise — no truthiness involved")
	c.Rule("R07e", "short-circuit shape: on every path through expLogicalAnd the folded Boolean equals truthy(left)&&truthy(right) (an operand error may yield false or the error, never true); expLogicalOr likewise with || (a left operand error counts as not truthy); expElvis folds the left value exactly when the left operand is truthy (its Boolean conversion is true and its exit number is not > 0) and the right value otherwise; truthy(x) is IsTrueString(ConvertGoType(x.Value, types.String).(string), x.ExitNum) with both taken from the same operand")

	c.Rule("R07f", "parenthesised and stand-alone expressions accept && and ||: every parseExpression call on a parser that is created by NewParser and evaluated with executeExpr in the same function (sub-expression `( … )`, ExecuteExpr) passes incLogicalOps = true; the words true/false are tokenised as symbols.Boolean and null as symbols.Null")
	c.c07ArgDomain()
	c.c07FalsyTable()
	c.c07Tokens()
	c.c07SingleSource()
	c.c07Operators()
}

// ---------------------------------------------------------------- R07a

func (c *Ctx) c07ArgDomain() {
	tpk := c.Pkg(c07TypesPkg)
	// handled types: the case types of every type switch in ConvertGoType and goDefaultRecast
	var handled []types.Type
	for _, name := range []string{"ConvertGoType", "goDefaultRecast"} {
		fd, _ := c.MustFunc("R07a", c07TypesPkg, "", name)
		if fd == nil {
			return
		}
		ast.Inspect(fd.Body, func(n ast.Node) bool {
			ts, ok := n.(*ast.TypeSwitchStmt)
			if !ok {
				return true
			}
			for _, s := range ts.Body.List {
				for _, e := range s.(*ast.CaseClause).List {
					if tv, ok := tpk.TypesInfo.Types[e]; ok && tv.IsType() {
						handled = append(handled, tv.Type)
					}
				}
			}
			return true
		})
	}
	c.MinCount("R07a", "types handled by ConvertGoType/goDefaultRecast type switches", len(handled), 11)
	isHandled := func(t types.Type) (bool, string) {
		for _, h := range handled {
			if types.Identical(t, h) {
				return true, "case " + h.String()
			}
		}
		switch u := t.(type) {
		case *types.Map:
			return true, "map (JSON)"
		case *types.Slice:
			_ = u
			return true, "slice (JSON)"
		case *types.Array:
			return true, "array (JSON)"
		}
		return false, ""
	}
	n := 0
	for _, pk := range c.MurexPkgs() {
		rel := relPkg(pk.PkgPath)
		eachFunc(pk, func(fd *ast.FuncDecl) {
			k := 0
			for _, call := range calls(fd.Body, true) {
				if !callIs(pk.TypesInfo, call, mx(c07TypesPkg), "", "ConvertGoType") || len(call.Args) != 2 {
					continue
				}
				k++
				n++
				key := fmt.Sprintf("arg:%s#%d", funcKey(rel, fd), k)
				t := pk.TypesInfo.TypeOf(call.Args[0])
				if t == nil {
					c.Undecided("R07a", key, call.Pos(), "no type for %s", c.src(call.Args[0]))
					continue
				}
				if types.IsInterface(t) {
					c.OK("R07a", key, call.Pos(), "%s: dynamic value of interface type %s", c.src(call), t)
					continue
				}
				if b, ok := t.(*types.Basic); ok && b.Kind() == types.UntypedNil {
					c.OK("R07a", key, call.Pos(), "%s: nil", c.src(call))
					continue
				}
				ok, how := isHandled(t)
				if ok {
					c.OK("R07a", key, call.Pos(), "%s: static type %s handled (%s)", c.src(call), t, how)
					continue
				}
				why := "falls to the default arm and is rendered as JSON text"
				if p, isPtr := t.(*types.Pointer); isPtr {
					if structOf(p) != nil {
						why = "is a pointer to a struct: the default arm renders the whole struct as JSON (e.g. {\"Primitive\":15,\"Value\":0,...}), so the conversion result no longer depends on the value alone — every such text is truthy"
					}
				}
				c.Viol("R07a", key, call.Pos(), "%s passes a %s to types.ConvertGoType, which %s", c.src(call), t, why)
			}
		})
	}
	c.MinCount("R07a", "types.ConvertGoType call sites", n, 60)
}

// ---------------------------------------------------------------- R07b

func (c *Ctx) c07FalsyTable() {
	tpk := c.Pkg(c07TypesPkg)
	info := tpk.TypesInfo
	fd, _ := c.MustFunc("R07b", c07TypesPkg, "", "IsTrueString")
	if fd != nil {
		c.c07IsTrueString(info, fd)
	}
	// IsTrue delegates
	if fd, _ := c.MustFunc("R07b", c07TypesPkg, "", "IsTrue"); fd != nil {
		ok := false
		var params []types.Object
		for _, f := range fd.Type.Params.List {
			for _, n := range f.Names {
				params = append(params, info.Defs[n])
			}
		}
		rets := c07Returns(fd.Body)
		ldefs := localDefs(info, fd.Body)
		if len(rets) == 1 && len(rets[0].Results) == 1 && len(params) == 2 {
			if call, isCall := ldefs.resolve1(info, rets[0].Results[0]).(*ast.CallExpr); isCall && callIs(info, call, mx(c07TypesPkg), "", "IsTrueString") && len(call.Args) == 2 {
				// `text := string(stdout)` / `n := exitNum`: a single-definition local stands for its definition
				a0 := ldefs.resolve1(info, stripConv(info, ldefs.resolve1(info, call.Args[0])))
				id0, ok0 := a0.(*ast.Ident)
				id1, ok1 := ldefs.resolve1(info, call.Args[1]).(*ast.Ident)
				ok = ok0 && ok1 && info.ObjectOf(id0) == params[0] && info.ObjectOf(id1) == params[1]
			}
		}
		c.Check(ok, "R07b", "IsTrue:delegates", fd.Pos(), "IsTrue(stdout, exitNum) returns IsTrueString(string(stdout), exitNum) — one truthiness table for bytes and strings")
	}
	// goStringRecast Boolean arm; scalar recasts
	c.c07Recasts(tpk)
	// boolean literals in expressions
	epk := c.Pkg(c06ExprPkg)
	if fd, _ := c.MustFunc("R07b", c06ExprPkg, "", "node2primitive"); fd != nil {
		boolPrim, _ := c06PrimConst(c, "Boolean")
		found := false
		ldefs := localDefs(epk.TypesInfo, fd.Body)
		for _, call := range calls(fd.Body, false) {
			if !callIs(epk.TypesInfo, call, mx(c06PrimPkg), "", "NewPrimitive") || len(call.Args) != 2 {
				continue
			}
			if v, ok := constInt(epk.TypesInfo, call.Args[0]); !ok || v != boolPrim {
				continue
			}
			found = true
			inner, isCall := ldefs.resolve1(epk.TypesInfo, call.Args[1]).(*ast.CallExpr)
			ok := isCall && (callIs(epk.TypesInfo, inner, mx(c07TypesPkg), "", "IsTrueString") || callIs(epk.TypesInfo, inner, mx(c07TypesPkg), "", "IsTrue")) && len(inner.Args) == 2
			if ok {
				v, isC := constInt(epk.TypesInfo, inner.Args[1])
				ok = isC && v == 0
			}
			c.Check(ok, "R07b", "literal:boolean", call.Pos(), "a boolean literal in an expression gets its value from types.IsTrueString(text, 0) (%s)", c.src(call.Args[1]))
		}
		if !found {
			c.Undecided("R07b", "literal:boolean", fd.Pos(), "node2primitive builds no primitives.Boolean")
		}
	}
}

func c07Returns(body ast.Node) []*ast.ReturnStmt {
	var out []*ast.ReturnStmt
	ast.Inspect(body, func(n ast.Node) bool {
		if _, ok := n.(*ast.FuncLit); ok {
			return false
		}
		if r, ok := n.(*ast.ReturnStmt); ok {
			out = append(out, r)
		}
		return true
	})
	return out
}

// c07IsTrueString evaluates the function, by its guards, on a universe of
// (normalised text, exit number) and compares with the property's table.
func (c *Ctx) c07IsTrueString(info *types.Info, fd *ast.FuncDecl) {
	var strObj, exitObj types.Object
	for _, f := range fd.Type.Params.List {
		for _, n := range f.Names {
			bt, ok := info.TypeOf(f.Type).Underlying().(*types.Basic)
			if !ok {
				continue
			}
			if bt.Info()&types.IsString != 0 {
				strObj = info.Defs[n]
			} else if bt.Info()&types.IsInteger != 0 {
				exitObj = info.Defs[n]
			}
		}
	}
	if strObj == nil || exitObj == nil {
		c.Undecided("R07b", "IsTrueString:signature", fd.Pos(), "IsTrueString does not take (string, int)")
		return
	}
	defs := localDefs(info, fd.Body)
	// normalisation: how is an expression related to the raw parameter
	// returns "norm" for ToLower(TrimSpace(p)) in either nesting, "raw" for p, "lower", "trim", "" otherwise
	var normOf func(e ast.Expr, depth int) string
	normOf = func(e ast.Expr, depth int) string {
		if depth > 6 {
			return ""
		}
		e = defs.resolve1(info, e)
		if id, ok := e.(*ast.Ident); ok {
			// a local (or the parameter itself) that is re-assigned in straight-line code:
			// `s := strings.TrimSpace(stdout); s = strings.ToLower(s)` — the use sees the last
			// preceding assignment of the same statement list
			if d, state := c07ReachingDef(info, fd.Body, id); state == "def" {
				return normOf(d, depth+1)
			} else if state == "?" {
				return ""
			}
			if info.ObjectOf(id) == strObj {
				return "raw"
			}
			return ""
		}
		call, ok := e.(*ast.CallExpr)
		if !ok || len(call.Args) != 1 {
			return ""
		}
		inner := normOf(call.Args[0], depth+1)
		isLower := callIs(info, call, "strings", "", "ToLower")
		isTrim := callIs(info, call, "strings", "", "TrimSpace")
		switch {
		case isLower && inner == "raw":
			return "lower"
		case isTrim && inner == "raw":
			return "trim"
		case isLower && (inner == "trim" || inner == "norm"), isTrim && (inner == "lower" || inner == "norm"):
			return "norm"
		case isLower && inner == "lower":
			return "lower"
		case isTrim && inner == "trim":
			return "trim"
		}
		return ""
	}
	type sample struct {
		s    string
		exit int64
	}
	worstNorm := "norm"
	// evalCond: value of a boolean guard expression for a sample; ok=false if unknown
	var evalCond func(e ast.Expr, sm sample) (bool, bool)
	strVal := func(e ast.Expr, sm sample) (string, bool) {
		if s, ok := constString(info, e); ok {
			return s, true
		}
		switch normOf(e, 0) {
		case "norm":
			return sm.s, true
		case "raw", "lower", "trim":
			if n := normOf(e, 0); n != "norm" {
				worstNorm = n
			}
			return sm.s, true
		}
		return "", false
	}
	intAtom := func(sm sample) func(ast.Expr) (int64, bool) {
		return func(e ast.Expr) (int64, bool) {
			if id, ok := e.(*ast.Ident); ok && info.ObjectOf(id) == exitObj {
				return sm.exit, true
			}
			if lc, ok := isBuiltinCall(info, e, "len"); ok && len(lc.Args) == 1 {
				if s, ok := strVal(lc.Args[0], sm); ok {
					return int64(len(s)), true
				}
			}
			return 0, false
		}
	}
	evalCond = func(e ast.Expr, sm sample) (bool, bool) {
		e = unparen(e)
		if b, ok := e.(*ast.BinaryExpr); ok {
			switch b.Op {
			case token.LAND, token.LOR:
				x, ok1 := evalCond(b.X, sm)
				if ok1 && ((b.Op == token.LAND && !x) || (b.Op == token.LOR && x)) {
					return x, true
				}
				y, ok2 := evalCond(b.Y, sm)
				if !ok1 || !ok2 {
					return false, false
				}
				if b.Op == token.LAND {
					return x && y, true
				}
				return x || y, true
			case token.EQL, token.NEQ:
				if bt, ok := info.TypeOf(b.X).Underlying().(*types.Basic); ok && bt.Info()&types.IsString != 0 {
					x, ok1 := strVal(b.X, sm)
					y, ok2 := strVal(b.Y, sm)
					if !ok1 || !ok2 {
						return false, false
					}
					return (x == y) == (b.Op == token.EQL), true
				}
			}
		}
		if u, ok := e.(*ast.UnaryExpr); ok && u.Op == token.NOT {
			x, ok := evalCond(u.X, sm)
			return !x, ok
		}
		v, ok := c06EvalAST(info, e, intAtom(sm))
		if ok && v.IsBool {
			return v.B, true
		}
		return false, false
	}
	// returns with their guards
	type retSite struct {
		ret    *ast.ReturnStmt
		guards []Guard
		val    bool
		expr   ast.Expr // non-constant result: evaluated like a guard (`return !(s == "" || …)`)
	}
	var sites []retSite
	undec := ""
	walkStack(fd.Body, func(n ast.Node, stack []ast.Node) bool {
		r, ok := n.(*ast.ReturnStmt)
		if !ok {
			return true
		}
		if len(r.Results) != 1 {
			undec = "return without a single result"
			return true
		}
		b, ok := constBool(info, r.Results[0])
		if !ok {
			if bt, isB := info.TypeOf(r.Results[0]).Underlying().(*types.Basic); !isB || bt.Info()&types.IsBoolean == 0 {
				undec = "non-boolean result " + c.src(r.Results[0])
				return true
			}
			sites = append(sites, retSite{ret: r, guards: guardsAt(info, stack), expr: defs.resolve1(info, r.Results[0])})
			return true
		}
		sites = append(sites, retSite{ret: r, guards: guardsAt(info, stack), val: b})
		return true
	})
	if undec != "" || len(sites) == 0 {
		c.Undecided("R07b", "IsTrueString:shape", fd.Pos(), "IsTrueString is not a decision tree of constant returns (%s)", undec)
		return
	}
	run := func(sm sample) (bool, string) {
		for _, st := range sites {
			enabled := true
			for _, g := range st.guards {
				if g.Cond != nil {
					v, ok := evalCond(g.Cond, sm)
					if !ok {
						return false, "guard " + c.src(g.Cond)
					}
					if v == g.Neg {
						enabled = false
					}
					continue
				}
				// tagged switch on a string or the exit number
				tagS, isStr := strVal(g.Tag, sm)
				hit := false
				for _, ce := range g.Cases {
					if isStr {
						cs, ok := constString(info, ce)
						if !ok {
							return false, "case " + c.src(ce)
						}
						if cs == tagS {
							hit = true
						}
					} else {
						tv, ok1 := c06EvalAST(info, g.Tag, intAtom(sm))
						cv, ok2 := c06EvalAST(info, ce, intAtom(sm))
						if !ok1 || !ok2 {
							return false, "switch " + c.src(g.Tag)
						}
						if tv.I == cv.I {
							hit = true
						}
					}
				}
				if hit == g.Neg {
					enabled = false
				}
			}
			if enabled {
				if st.expr != nil {
					v, ok := evalCond(st.expr, sm)
					if !ok {
						return false, "result " + c.src(st.expr)
					}
					return v, ""
				}
				return st.val, ""
			}
		}
		return false, "no return enabled"
	}
	texts := append([]string{}, c07Falsy...)
	// every string constant of the function is also probed, plus truthy probes
	ast.Inspect(fd.Body, func(n ast.Node) bool {
		if e, ok := n.(ast.Expr); ok {
			if s, ok := constString(info, e); ok {
				texts = append(texts, s)
			}
		}
		return true
	})
	texts = append(texts, "1", "true", "yes", "on", "n", "f", "00", "nul", "disable", "foo", "-1", "t")
	sort.Strings(texts)
	isFalsy := map[string]bool{}
	for _, f := range c07Falsy {
		isFalsy[f] = true
	}
	tableBad, exitBad := "", ""
	seen := map[string]bool{}
	nEval := 0
	for _, t := range texts {
		if seen[t] {
			continue
		}
		seen[t] = true
		for _, ex := range []int64{0, 1, 2, 255} {
			got, why := run(sample{t, ex})
			if why != "" {
				c.Undecided("R07b", "IsTrueString:shape", fd.Pos(), "cannot evaluate IsTrueString for (%q, %d): %s", t, ex, why)
				return
			}
			nEval++
			if ex > 0 {
				if got && exitBad == "" {
					exitBad = fmt.Sprintf("(%q, exit %d) is true", t, ex)
				}
				continue
			}
			if got != !isFalsy[t] && tableBad == "" {
				tableBad = fmt.Sprintf("%q with exit 0 is %v, the property's table says %v", t, got, !isFalsy[t])
			}
		}
	}
	c.Check(exitBad == "", "R07b", "IsTrueString:exit", fd.Pos(), "every exit number > 0 is false whatever the text %s", exitBad)
	c.Check(tableBad == "", "R07b", "IsTrueString:table", fd.Pos(), "with exit 0 exactly %q are false (%d evaluations) %s", c07Falsy, nEval, tableBad)
	c.Check(worstNorm == "norm", "R07b", "IsTrueString:normalise", fd.Pos(), "the text compared with the table is ToLower(TrimSpace(stdout)) (found: %s) — otherwise \" OFF\\n\" is truthy", worstNorm)
	if got, why := run(sample{"x", -1}); why == "" && got {
		c.Info("R07b: IsTrueString returns true for every negative exit number; this is the convention by which and/or (ExitNum = -1) report success without output. The property's 'any non-zero exit is false' is checked for exit > 0 only.")
	}
}

// c07ReachingDef: for a use `id` of a local variable or parameter that is
// assigned more than once (or a parameter assigned at all), returns the
// right-hand side of the assignment that reaches the use, provided the answer
// is structural: every assignment of the variable is a plain `=`/`:=` with a
// matching right-hand side and all of them are direct statements of ONE
// statement list, which for a local also holds its declaration (so a loop
// around the list starts every iteration with a fresh variable) and for a
// parameter is the function body. The reaching assignment then is the last
// one that ends before the use. state: "def" (expression returned), "none"
// (no assignment precedes the use / variable never re-assigned: caller falls
// back to its own handling), "?" (not structural).
func c07ReachingDef(info *types.Info, body *ast.BlockStmt, id *ast.Ident) (ast.Expr, string) {
	obj := info.ObjectOf(id)
	if obj == nil {
		return nil, "none"
	}
	type def struct {
		stmt ast.Stmt
		rhs  ast.Expr
		list ast.Node
		decl bool
	}
	var ds []def
	bad := false
	walkStack(body, func(n ast.Node, stack []ast.Node) bool {
		parentList := func() ast.Node {
			if len(stack) < 2 {
				return nil
			}
			switch p := stack[len(stack)-2].(type) {
			case *ast.BlockStmt, *ast.CaseClause, *ast.CommClause:
				return p
			}
			return nil
		}
		switch x := n.(type) {
		case *ast.AssignStmt:
			for i, l := range x.Lhs {
				li, ok := l.(*ast.Ident)
				if !ok || info.ObjectOf(li) != obj {
					continue
				}
				if (x.Tok != token.ASSIGN && x.Tok != token.DEFINE) || len(x.Lhs) != len(x.Rhs) || parentList() == nil {
					bad = true
					continue
				}
				ds = append(ds, def{x, x.Rhs[i], parentList(), x.Tok == token.DEFINE && info.Defs[li] == obj})
			}
		case *ast.ValueSpec:
			for i, nm := range x.Names {
				if info.Defs[nm] != obj {
					continue
				}
				// var s = … inside a DeclStmt
				var ds0 ast.Stmt
				var lst ast.Node
				for j := len(stack) - 1; j >= 1; j-- {
					if d, ok := stack[j].(*ast.DeclStmt); ok {
						ds0 = d
						switch p := stack[j-1].(type) {
						case *ast.BlockStmt, *ast.CaseClause, *ast.CommClause:
							lst = p
						}
					}
				}
				if ds0 == nil || lst == nil {
					bad = true
					continue
				}
				if len(x.Values) == len(x.Names) {
					ds = append(ds, def{ds0, x.Values[i], lst, true})
				} else if len(x.Values) == 0 {
					ds = append(ds, def{ds0, nil, lst, true}) // zero value
				} else {
					bad = true
				}
			}
		case *ast.IncDecStmt:
			if li, ok := unparen(x.X).(*ast.Ident); ok && info.ObjectOf(li) == obj {
				bad = true
			}
		case *ast.RangeStmt:
			for _, e := range []ast.Expr{x.Key, x.Value} {
				if li, ok := e.(*ast.Ident); ok && info.ObjectOf(li) == obj {
					bad = true
				}
			}
		case *ast.UnaryExpr:
			if li, ok := unparen(x.X).(*ast.Ident); ok && x.Op == token.AND && info.ObjectOf(li) == obj {
				bad = true
			}
		case *ast.FuncLit:
			if mentions(info, x, obj) {
				bad = true
			}
		}
		return true
	})
	if len(ds) == 0 && !bad {
		return nil, "none"
	}
	_, isParam := obj.(*types.Var)
	isParam = isParam && obj.Parent() != nil && obj.Pos() < body.Pos() // declared in the signature
	if !isParam && len(ds) == 1 && !bad {
		return nil, "none" // single definition: resolve1 territory
	}
	if bad {
		return nil, "?"
	}
	var list ast.Node
	hasDecl := false
	for _, d := range ds {
		if list == nil {
			list = d.list
		}
		if d.list != list {
			return nil, "?"
		}
		hasDecl = hasDecl || d.decl
	}
	if isParam {
		if list != ast.Node(body) {
			return nil, "?"
		}
	} else if !hasDecl {
		return nil, "?"
	}
	var best *def
	for i := range ds {
		if ds[i].stmt.End() <= id.Pos() && (best == nil || ds[i].stmt.End() > best.stmt.End()) {
			best = &ds[i]
		}
	}
	if best == nil {
		if isParam {
			return nil, "none" // still the caller's value
		}
		return nil, "?"
	}
	if best.rhs == nil {
		return nil, "?"
	}
	return best.rhs, "def"
}

// c07Recasts: Boolean arms of the go*Recast functions.
func (c *Ctx) c07Recasts(tpk *packages.Package) {
	info := tpk.TypesInfo
	boolName, _ := c07TypesConst(c, "Boolean")
	strName, _ := c07TypesConst(c, "String")
	// arm returns the case clause of the `switch dataType` that handles the named data type
	arm := func(fd *ast.FuncDecl, dt string) *ast.CaseClause {
		var out *ast.CaseClause
		ast.Inspect(fd.Body, func(n ast.Node) bool {
			sw, ok := n.(*ast.SwitchStmt)
			if !ok || sw.Tag == nil || out != nil {
				return true
			}
			id, ok := unparen(sw.Tag).(*ast.Ident)
			if !ok {
				return true
			}
			isParam := false
			for _, f := range fd.Type.Params.List {
				for _, nm := range f.Names {
					if info.Defs[nm] == info.ObjectOf(id) {
						isParam = true
					}
				}
			}
			if !isParam {
				return true
			}
			for _, s := range sw.Body.List {
				cc := s.(*ast.CaseClause)
				for _, e := range cc.List {
					if v, ok := constString(info, e); ok && v == dt {
						out = cc
					}
				}
			}
			return false
		})
		return out
	}
	firstParam := func(fd *ast.FuncDecl) types.Object {
		if len(fd.Type.Params.List) > 0 && len(fd.Type.Params.List[0].Names) > 0 {
			return info.Defs[fd.Type.Params.List[0].Names[0]]
		}
		return nil
	}
	// string → Boolean
	if fd, _ := c.MustFunc("R07b", c07TypesPkg, "", "goStringRecast"); fd != nil {
		cc := arm(fd, boolName)
		ok := false
		if cc != nil {
			rets := c07Returns(cc)
			if len(rets) == 1 && len(rets[0].Results) == 2 {
				if call, isCall := unparen(rets[0].Results[0]).(*ast.CallExpr); isCall && len(call.Args) == 2 &&
					(callIs(info, call, mx(c07TypesPkg), "", "IsTrue") || callIs(info, call, mx(c07TypesPkg), "", "IsTrueString")) {
					a0, isId := stripConv(info, call.Args[0]).(*ast.Ident)
					v, isC := constInt(info, call.Args[1])
					ok = isId && info.ObjectOf(a0) == firstParam(fd) && isC && v == 0
				}
			}
		}
		p := fd.Pos()
		if cc != nil {
			p = cc.Pos()
		}
		c.Check(ok, "R07b", "recast:string→bool", p, "goStringRecast(v, bool) returns IsTrue/IsTrueString of the whole string v with exit number 0 (this is the truthiness `?:` uses for strings)")
	}
	// nil → Boolean false
	if fd, _ := c.MustFunc("R07b", c07TypesPkg, "", "goNilRecast"); fd != nil {
		cc := arm(fd, boolName)
		ok := false
		if cc != nil {
			rets := c07Returns(cc)
			if len(rets) == 1 && len(rets[0].Results) == 2 {
				b, isC := constBool(info, rets[0].Results[0])
				ok = isC && !b
			}
		}
		c.Check(ok, "R07b", "recast:nil→bool", fd.Pos(), "goNilRecast(bool) is false (null is falsy for `?:`)")
	}
	// number → Boolean: false iff v == 0
	for _, name := range []string{"goIntegerRecast", "goFloatRecast"} {
		fd, _ := c.MustFunc("R07b", c07TypesPkg, "", name)
		if fd == nil {
			continue
		}
		key := "recast:" + strings.TrimSuffix(strings.TrimPrefix(name, "go"), "Recast") + "→bool"
		cc := arm(fd, boolName)
		if cc == nil {
			c.Undecided("R07b", key, fd.Pos(), "%s has no Boolean arm", name)
			continue
		}
		v0 := firstParam(fd)
		bad, und := "", ""
		for _, x := range []int64{-2, -1, 0, 1, 2} {
			var got, have bool
			walkStack(cc, func(n ast.Node, stack []ast.Node) bool {
				r, ok := n.(*ast.ReturnStmt)
				if !ok || have {
					return true
				}
				enabled := true
				for _, f := range factsOf(guardsAt(info, stack)) {
					v, ok := c06EvalAST(info, f.E, func(e ast.Expr) (int64, bool) {
						if id, ok := e.(*ast.Ident); ok && info.ObjectOf(id) == v0 {
							return x, true
						}
						return 0, false
					})
					if !ok || !v.IsBool {
						und = c.src(f.E)
						return true
					}
					if v.B != f.True {
						enabled = false
					}
				}
				if enabled && len(r.Results) == 2 {
					b, isC := constBool(info, r.Results[0])
					if !isC {
						und = c.src(r.Results[0])
						return true
					}
					got, have = b, true
				}
				return true
			})
			if !have && und == "" {
				und = "no return enabled"
			}
			if have && got != (x != 0) && bad == "" {
				bad = fmt.Sprintf("— but %d converts to %v", x, got)
			}
		}
		if und != "" {
			c.Undecided("R07b", key, cc.Pos(), "cannot evaluate the Boolean arm of %s (%s)", name, und)
		} else {
			c.Check(bad == "", "R07b", key, cc.Pos(), "%s(v, bool) is false exactly for v == 0, in agreement with the text \"0\" being falsy %s", name, bad)
		}
	}
	// bool → Boolean is identity; bool → String gives "true"/"false"
	if fd, _ := c.MustFunc("R07b", c07TypesPkg, "", "goBooleanRecast"); fd != nil {
		v0 := firstParam(fd)
		if cc := arm(fd, boolName); cc != nil {
			ok := false
			rets := c07Returns(cc)
			if len(rets) == 1 && len(rets[0].Results) == 2 {
				id, isId := unparen(rets[0].Results[0]).(*ast.Ident)
				ok = isId && info.ObjectOf(id) == v0
			}
			c.Check(ok, "R07b", "recast:bool→bool", cc.Pos(), "goBooleanRecast(v, bool) returns v")
		} else {
			c.Undecided("R07b", "recast:bool→bool", fd.Pos(), "goBooleanRecast has no Boolean arm")
		}
		if cc := arm(fd, strName); cc != nil {
			// under v: text "true"; otherwise "false"
			bad, und := "", ""
			n := 0
			walkStack(cc, func(nd ast.Node, stack []ast.Node) bool {
				r, ok := nd.(*ast.ReturnStmt)
				if !ok || len(r.Results) != 2 {
					return true
				}
				n++
				truth, known := false, false
				for _, f := range factsOf(guardsAt(info, stack)) {
					if id, ok := unparen(f.E).(*ast.Ident); ok && info.ObjectOf(id) == v0 {
						truth, known = f.True, true
					}
				}
				if !known {
					und = "return not guarded by v"
					return true
				}
				txt, ok := c.c07TextOf(info, r.Results[0])
				if !ok {
					und = "result " + c.src(r.Results[0])
					return true
				}
				want := map[bool]string{true: "true", false: "false"}[truth]
				if txt != want {
					bad = fmt.Sprintf("— but for v=%v it returns %q", truth, txt)
				}
				return true
			})
			if und != "" || n != 2 {
				c.Undecided("R07b", "recast:bool→str", cc.Pos(), "cannot evaluate the String arm of goBooleanRecast (%s, %d returns)", und, n)
			} else {
				c.Check(bad == "", "R07b", "recast:bool→str", cc.Pos(), "goBooleanRecast(v, str) is \"true\" for true and \"false\" for false (&& and || take the truthiness of this text) %s", bad)
			}
		} else {
			c.Undecided("R07b", "recast:bool→str", fd.Pos(), "goBooleanRecast has no String arm")
		}
	}
}

// c07TextOf resolves string(TrueByte) / TrueString / "true" to its text.
func (c *Ctx) c07TextOf(info *types.Info, e ast.Expr) (string, bool) {
	if s, ok := constString(info, e); ok {
		return s, true
	}
	e = stripConv(info, e)
	var id *ast.Ident
	switch x := e.(type) {
	case *ast.Ident:
		id = x
	case *ast.SelectorExpr:
		id = x.Sel
	default:
		return "", false
	}
	v, ok := info.ObjectOf(id).(*types.Var)
	if !ok || v.Pkg() == nil || v.Parent() != v.Pkg().Scope() {
		return "", false
	}
	// package-level var: find its single initialiser
	pk := c.All[v.Pkg().Path()]
	if pk == nil {
		return "", false
	}
	for _, f := range pk.Syntax {
		for _, d := range f.Decls {
			gd, ok := d.(*ast.GenDecl)
			if !ok || gd.Tok != token.VAR {
				continue
			}
			for _, s := range gd.Specs {
				vs := s.(*ast.ValueSpec)
				for i, n := range vs.Names {
					if n.Name == v.Name() && i < len(vs.Values) {
						if s, ok := constString(pk.TypesInfo, stripConv(pk.TypesInfo, vs.Values[i])); ok {
							return s, true
						}
					}
				}
			}
		}
	}
	return "", false
}

var _ = ssa.NaiveForm

// c07LoadLight type-checks the named packages from source but takes their
// dependencies from export data (builtins/core/structs alone has a 290 package
// closure; only the syntax and type information of the package itself is
// needed). The packages are registered in c.All so that c.Pkg/c.MustFunc see
// them. Overlay entries are honoured for files of these packages only.
func (c *Ctx) c07LoadLight(rels ...string) {
	ov := map[string][]byte{}
	for f, b := range c.Overlay {
		for _, rel := range rels {
			if filepath.Dir(f) == filepath.Join(c.Repo, filepath.FromSlash(rel)) {
				ov[f] = b
			}
		}
	}
	cfg := &packages.Config{
		Mode: packages.NeedName | packages.NeedFiles | packages.NeedCompiledGoFiles | packages.NeedImports |
			packages.NeedTypes | packages.NeedSyntax | packages.NeedTypesInfo | packages.NeedTypesSizes,
		Dir: c.Repo, Fset: c.Fset, Tests: false, Overlay: ov,
		Env: append(os.Environ(), c.Env...),
	}
	var pats []string
	for _, r := range rels {
		pats = append(pats, mx(r))
	}
	pkgs, err := packages.Load(cfg, pats...)
	if err != nil {
		fatal("light load: %v", err)
	}
	if len(pkgs) != len(rels) {
		fatal("light load: %d packages for %v", len(pkgs), rels)
	}
	for _, p := range pkgs {
		for _, e := range p.Errors {
			fmt.Fprintf(os.Stderr, "load error: %s: %v\n", p.PkgPath, e)
		}
		if len(p.Errors) > 0 {
			fatal("light load: %s does not type-check", p.PkgPath)
		}
		c.All[p.PkgPath] = p
	}
	c.configs = append(c.configs, fmt.Sprintf("light(patterns=%v deps=export-data)", rels))
}

// ---------------------------------------------------------------- R07c

// c07Verdict describes one types.IsTrue/IsTrueString call of a builtin.
type c07Verdict struct {
	call *ast.CallExpr
	mode string // "fork" | "stdin" | ""
	why  string
}

// c07PairedVerdicts finds the IsTrue calls of fd and decides whether text and
// exit number belong to the same evaluation.
func (c *Ctx) c07PairedVerdicts(info *types.Info, fd *ast.FuncDecl) []c07Verdict {
	var out []c07Verdict
	var procObj types.Object
	if len(fd.Type.Params.List) > 0 && len(fd.Type.Params.List[0].Names) > 0 {
		procObj = info.Defs[fd.Type.Params.List[0].Names[0]]
	}
	// definition of a local by a (possibly multi-value) call: object -> (call, result index)
	type def struct {
		call *ast.CallExpr
		idx  int
	}
	defsOf := map[types.Object][]def{}
	ast.Inspect(fd.Body, func(n ast.Node) bool {
		as, ok := n.(*ast.AssignStmt)
		if !ok {
			return true
		}
		if len(as.Rhs) == 1 {
			if call, ok := unparen(as.Rhs[0]).(*ast.CallExpr); ok {
				for i, l := range as.Lhs {
					if id, ok := l.(*ast.Ident); ok && info.ObjectOf(id) != nil {
						defsOf[info.ObjectOf(id)] = append(defsOf[info.ObjectOf(id)], def{call, i})
					}
				}
				return true
			}
		}
		for _, l := range as.Lhs {
			if id, ok := l.(*ast.Ident); ok && info.ObjectOf(id) != nil {
				defsOf[info.ObjectOf(id)] = append(defsOf[info.ObjectOf(id)], def{nil, 0})
			}
		}
		return true
	})
	oneDef := func(e ast.Expr) (*ast.CallExpr, int) {
		id, ok := unparen(e).(*ast.Ident)
		if !ok {
			return nil, 0
		}
		ds := defsOf[info.ObjectOf(id)]
		if len(ds) != 1 {
			return nil, 0
		}
		return ds[0].call, ds[0].idx
	}
	rootObj := func(e ast.Expr) types.Object {
		if id, ok := unparen(e).(*ast.Ident); ok {
			return info.ObjectOf(id)
		}
		return nil
	}
	ldefs := localDefs(info, fd.Body)
	for _, call := range calls(fd.Body, true) {
		if !(callIs(info, call, mx(c07TypesPkg), "", "IsTrue") || callIs(info, call, mx(c07TypesPkg), "", "IsTrueString")) || len(call.Args) != 2 {
			continue
		}
		v := c07Verdict{call: call}
		textCall, ti := oneDef(stripConv(info, call.Args[0]))
		if textCall == nil || ti != 0 {
			v.why = "the text argument is not the result of a single ReadAll call"
			out = append(out, v)
			continue
		}
		sel, ok := textCall.Fun.(*ast.SelectorExpr)
		if !ok || sel.Sel.Name != "ReadAll" {
			v.why = "the text argument does not come from ReadAll"
			out = append(out, v)
			continue
		}
		stream, ok := unparen(sel.X).(*ast.SelectorExpr)
		if !ok {
			// tee idiom: `fork.Stdout, out = streams.NewTee(...)`; out.ReadAll() reads what fork wrote
			if id, isId := unparen(sel.X).(*ast.Ident); isId {
				ast.Inspect(fd.Body, func(n ast.Node) bool {
					as, isAs := n.(*ast.AssignStmt)
					if !isAs || len(as.Lhs) != 2 || len(as.Rhs) != 1 {
						return true
					}
					tc, isCall := unparen(as.Rhs[0]).(*ast.CallExpr)
					if !isCall || !callIs(info, tc, mx("builtins/pipes/streams"), "", "NewTee") {
						return true
					}
					l1, is1 := as.Lhs[1].(*ast.Ident)
					l0, is0 := unparen(as.Lhs[0]).(*ast.SelectorExpr)
					if is1 && is0 && info.ObjectOf(l1) == info.ObjectOf(id) && l0.Sel.Name == "Stdout" {
						stream, ok = l0, true
					}
					return true
				})
			}
		}
		if !ok {
			v.why = "ReadAll is not called on a stream of a process"
			out = append(out, v)
			continue
		}
		owner := rootObj(stream.X)
		switch stream.Sel.Name {
		case "Stdout":
			exitCall, ei := oneDef(call.Args[1])
			if exitCall == nil || ei != 0 {
				v.why = "the exit number is not the first result of a single call"
				break
			}
			es, ok := exitCall.Fun.(*ast.SelectorExpr)
			if !ok || es.Sel.Name != "Execute" || rootObj(es.X) == nil || rootObj(es.X) != owner {
				v.why = fmt.Sprintf("the exit number comes from %s, the text from %s.Stdout — not the same evaluation", c.src(exitCall.Fun), c.src(stream.X))
				break
			}
			v.mode = "fork"
		case "Stdin":
			// exit number must be <proc>.Previous.ExitNum of the same process
			// `n := p.Previous.ExitNum; IsTrue(b, n)`: a single-definition local stands for its definition
			es, ok := ldefs.resolve1(info, call.Args[1]).(*ast.SelectorExpr)
			if ok && es.Sel.Name == "ExitNum" {
				if ps, ok := unparen(es.X).(*ast.SelectorExpr); ok && ps.Sel.Name == "Previous" && rootObj(ps.X) == owner && owner == procObj {
					v.mode = "stdin"
					break
				}
			}
			v.why = fmt.Sprintf("the text is read from %s.Stdin but the exit number is %s, not %s.Previous.ExitNum", c.src(stream.X), c.src(call.Args[1]), c.src(stream.X))
		default:
			v.why = "text read from " + c.src(sel.X)
		}
		out = append(out, v)
	}
	return out
}

func (c *Ctx) c07SingleSource() {
	spk, tpk := c.Pkg(c07StructsPkg), c.Pkg(c07TypemgmtPkg)
	// ---- pairing in every builtin of the two packages
	nPairs := 0
	strict := map[string]bool{"cmdIf": true, "cmdNot": true, "cmdAndOr": true}
	for _, pk := range []*packages.Package{spk, tpk} {
		rel := relPkg(pk.PkgPath)
		eachFunc(pk, func(fd *ast.FuncDecl) {
			vs := c.c07PairedVerdicts(pk.TypesInfo, fd)
			for i, v := range vs {
				nPairs++
				key := fmt.Sprintf("verdict:%s#%d", funcKey(rel, fd), i+1)
				if v.mode != "" {
					c.OK("R07c", key, v.call.Pos(), "%s: text and exit number of the same evaluation (%s)", c.src(v.call), v.mode)
				} else if strict[fd.Name.Name] {
					c.Viol("R07c", key, v.call.Pos(), "%s in %s: %s — the verdict is taken of one command's output with another's exit status", c.src(v.call), fd.Name.Name, v.why)
				} else {
					c.Undecided("R07c", key, v.call.Pos(), "%s in %s: %s", c.src(v.call), fd.Name.Name, v.why)
				}
			}
		})
	}
	c.MinCount("R07c", "types.IsTrue verdicts in builtins/core/structs and typemgmt", nPairs, 8)

	// ---- cmdIf
	if fd, _ := c.MustFunc("R07c", c07StructsPkg, "", "cmdIf"); fd != nil {
		c.c07CheckIf(spk, fd)
	}
	// ---- cmdNot
	if fd, _ := c.MustFunc("R07c", c07TypemgmtPkg, "", "cmdNot"); fd != nil {
		c.c07CheckNot(tpk, fd)
	}
	// ---- cmdAndOr
	if fd, _ := c.MustFunc("R07c", c07StructsPkg, "", "cmdAndOr"); fd != nil {
		c.c07CheckAndOr(spk, fd)
	}
	// ---- no second falsy table
	falsy := map[string]bool{}
	for _, f := range c07Falsy {
		if f != "" {
			falsy[f] = true
		}
	}
	nFuncs := 0
	for _, pk := range c.MurexPkgs() {
		rel := relPkg(pk.PkgPath)
		info := pk.TypesInfo
		eachFunc(pk, func(fd *ast.FuncDecl) {
			nFuncs++
			if rel == c07TypesPkg && fd.Name.Name == "IsTrueString" {
				return
			}
			// subject expression (printed) -> set of falsy literals it is compared with
			cmp := map[string]map[string]bool{}
			add := func(subject ast.Expr, lit string) {
				if !falsy[lit] {
					return
				}
				k := c.src(subject)
				if cmp[k] == nil {
					cmp[k] = map[string]bool{}
				}
				cmp[k][lit] = true
			}
			ast.Inspect(fd.Body, func(n ast.Node) bool {
				switch x := n.(type) {
				case *ast.BinaryExpr:
					if x.Op == token.EQL || x.Op == token.NEQ {
						if s, ok := constString(info, x.Y); ok {
							add(x.X, s)
						} else if s, ok := constString(info, x.X); ok {
							add(x.Y, s)
						}
					}
				case *ast.SwitchStmt:
					if x.Tag != nil {
						for _, cs := range x.Body.List {
							for _, e := range cs.(*ast.CaseClause).List {
								if s, ok := constString(info, e); ok {
									add(x.Tag, s)
								}
							}
						}
					}
				}
				return true
			})
			for subj, lits := range cmp {
				if len(lits) >= 3 {
					var ls []string
					for l := range lits {
						ls = append(ls, l)
					}
					sort.Strings(ls)
					c.Viol("R07c", "table:"+funcKey(rel, fd), fd.Pos(), "%s compares %s with the falsy literals %q itself instead of calling types.IsTrue/IsTrueString: a second truthiness table that can drift from the first", funcKey(rel, fd), subj, ls)
				}
			}
		})
	}
	c.OK("R07c", "table:single", token.NoPos, "%d functions scanned: only types.IsTrueString compares a value with three or more of the falsy literals", nFuncs)
	c.MinCount("R07c", "functions scanned for a second falsy table", nFuncs, 900)
}

// c07BoolTable evaluates cond for all values of the two atoms (verdict, isNot).
func c07BoolTable(info *types.Info, cond ast.Expr, isVerdict, isNot func(ast.Expr) bool) (tbl [2][2]bool, ok bool) {
	ok = true
	for v := 0; v < 2; v++ {
		for n := 0; n < 2; n++ {
			r, okE := c06EvalASTB(info, cond, func(ast.Expr) (int64, bool) { return 0, false }, func(e ast.Expr) (bool, bool) {
				if isVerdict(e) {
					return v == 1, true
				}
				if isNot(e) {
					return n == 1, true
				}
				return false, false
			})
			if !okE || !r.IsBool {
				ok = false
			}
			tbl[v][n] = r.B
		}
	}
	return
}

func c07IsNotField(info *types.Info, e ast.Expr) bool {
	return isField(info, e, mx("lang")+".Process", "IsNot")
}

// c07VerdictVar: the local that only ever receives IsTrue results in fd.
func (c *Ctx) c07VerdictVar(info *types.Info, fd *ast.FuncDecl) (types.Object, string) {
	var obj types.Object
	why := ""
	ast.Inspect(fd.Body, func(n ast.Node) bool {
		as, ok := n.(*ast.AssignStmt)
		if !ok || len(as.Lhs) != 1 || len(as.Rhs) != 1 {
			return true
		}
		call, ok := unparen(as.Rhs[0]).(*ast.CallExpr)
		if !ok || !(callIs(info, call, mx(c07TypesPkg), "", "IsTrue") || callIs(info, call, mx(c07TypesPkg), "", "IsTrueString")) {
			return true
		}
		id, ok := as.Lhs[0].(*ast.Ident)
		if !ok {
			return true
		}
		o := info.ObjectOf(id)
		if obj != nil && o != obj {
			why = "IsTrue results are stored in more than one variable"
		}
		obj = o
		return true
	})
	if obj == nil {
		return nil, "no variable is assigned from types.IsTrue"
	}
	// every other store to it must also be an IsTrue call
	ast.Inspect(fd.Body, func(n ast.Node) bool {
		as, ok := n.(*ast.AssignStmt)
		if !ok {
			return true
		}
		for i, l := range as.Lhs {
			id, ok := l.(*ast.Ident)
			if !ok || info.ObjectOf(id) != obj {
				continue
			}
			good := false
			if len(as.Lhs) == len(as.Rhs) {
				if call, ok := unparen(as.Rhs[i]).(*ast.CallExpr); ok && (callIs(info, call, mx(c07TypesPkg), "", "IsTrue") || callIs(info, call, mx(c07TypesPkg), "", "IsTrueString")) {
					good = true
				}
			}
			if !good {
				why = "the verdict variable is also assigned " + c.src(as)
			}
		}
		return true
	})
	return obj, why
}

func (c *Ctx) c07CheckIf(pk *packages.Package, fd *ast.FuncDecl) {
	info := pk.TypesInfo
	verdict, why := c.c07VerdictVar(info, fd)
	if verdict == nil || why != "" {
		c.Undecided("R07c", "if:verdict", fd.Pos(), "cmdIf: %s", why)
		return
	}
	isVerdict := func(e ast.Expr) bool {
		id, ok := e.(*ast.Ident)
		return ok && info.ObjectOf(id) == verdict
	}
	isNot := func(e ast.Expr) bool { return c07IsNotField(info, e) }
	// the branching statement: an if whose condition mentions the verdict
	var branch *ast.IfStmt
	ast.Inspect(fd.Body, func(n ast.Node) bool {
		if is, ok := n.(*ast.IfStmt); ok && branch == nil && mentions(info, is.Cond, verdict) {
			branch = is
		}
		return true
	})
	// the two arms: if/else, or `if c { …; return }` followed by the rest of the enclosing statement list
	var firstArm, secondArm ast.Node
	if branch != nil {
		firstArm = branch.Body
		if branch.Else != nil {
			secondArm = branch.Else
		} else if terminates(info, branch.Body.List) {
			walkStack(fd.Body, func(n ast.Node, stack []ast.Node) bool {
				if n != ast.Node(branch) || len(stack) < 2 {
					return true
				}
				var list []ast.Stmt
				switch p := stack[len(stack)-2].(type) {
				case *ast.BlockStmt:
					list = p.List
				case *ast.CaseClause:
					list = p.Body
				}
				for i, st := range list {
					if st == ast.Stmt(branch) {
						secondArm = &ast.BlockStmt{List: list[i+1:]}
					}
				}
				return true
			})
		}
	}
	if branch == nil || secondArm == nil {
		c.Undecided("R07c", "if:polarity", fd.Pos(), "cmdIf has no if/else on the verdict")
		return
	}
	tbl, ok := c07BoolTable(info, branch.Cond, isVerdict, isNot)
	if !ok {
		c.Undecided("R07c", "if:polarity", branch.Pos(), "cmdIf branches on %s, which is not a function of the verdict and p.IsNot only", c.src(branch.Cond))
		return
	}
	good := tbl[1][0] && !tbl[0][0] && !tbl[1][1] && tbl[0][1]
	// the inverted test (`verdict == IsNot`) with the arms exchanged is the same decision
	inverted := !tbl[1][0] && tbl[0][0] && tbl[1][1] && !tbl[0][1]
	if inverted {
		firstArm, secondArm = secondArm, firstArm
	}
	c.Check(good || inverted, "R07c", "if:polarity", branch.Pos(), "cmdIf decides between its two arms exactly by verdict != IsNot (%s; table verdict×IsNot = %v)", c.src(branch.Cond), tbl)
	// which block each arm executes: blocks[k]; k must be the flag value that setFlag stores for "then"/"else"
	flagOf := map[string]int64{}
	if sf, _ := c.MustFunc("R07c", c07StructsPkg, "", "setFlag"); sf != nil {
		ast.Inspect(sf.Body, func(n ast.Node) bool {
			cc, ok := n.(*ast.CaseClause)
			if !ok || len(cc.List) != 1 {
				return true
			}
			word, ok := constString(info, cc.List[0])
			if !ok {
				return true
			}
			for _, s := range cc.Body {
				if as, ok := s.(*ast.AssignStmt); ok && len(as.Lhs) == 1 && len(as.Rhs) == 1 {
					if _, isStar := as.Lhs[0].(*ast.StarExpr); isStar {
						if v, ok := constInt(info, as.Rhs[0]); ok {
							flagOf[word] = v
						}
					}
				}
			}
			return true
		})
	}
	armBlock := func(body ast.Node) (int64, bool) {
		var idx int64
		found := 0
		for _, call := range calls(body, false) {
			se, ok := call.Fun.(*ast.SelectorExpr)
			if !ok || se.Sel.Name != "Execute" || len(call.Args) != 1 {
				continue
			}
			ix, ok := unparen(call.Args[0]).(*ast.IndexExpr)
			if !ok {
				continue
			}
			if v, ok := constInt(info, ix.Index); ok {
				idx = v
				found++
			}
		}
		return idx, found == 1
	}
	thenIdx, ok1 := armBlock(firstArm)
	elseIdx, ok2 := armBlock(secondArm)
	tv, okT := flagOf["then"]
	ev, okE := flagOf["else"]
	if !ok1 || !ok2 || !okT || !okE {
		c.Undecided("R07c", "if:blocks", branch.Pos(), "cannot identify the blocks executed by the two arms of cmdIf / the flag values of setFlag")
		return
	}
	c.Check(thenIdx == tv && elseIdx == ev, "R07c", "if:blocks", branch.Pos(), "the arm taken when verdict != IsNot executes blocks[%d] (the `then` block is stored at %d) and the other arm blocks[%d] (`else` is stored at %d)", thenIdx, tv, elseIdx, ev)
}

func (c *Ctx) c07CheckNot(pk *packages.Package, fd *ast.FuncDecl) {
	info := pk.TypesInfo
	// val := [!]* IsTrue(...)
	var valObj types.Object
	neg := 0
	ast.Inspect(fd.Body, func(n ast.Node) bool {
		as, ok := n.(*ast.AssignStmt)
		if !ok || len(as.Lhs) != 1 || len(as.Rhs) != 1 {
			return true
		}
		e := unparen(as.Rhs[0])
		k := 0
		for {
			u, ok := e.(*ast.UnaryExpr)
			if !ok || u.Op != token.NOT {
				break
			}
			k++
			e = unparen(u.X)
		}
		if call, ok := e.(*ast.CallExpr); ok && callIs(info, call, mx(c07TypesPkg), "", "IsTrue") {
			if id, ok := as.Lhs[0].(*ast.Ident); ok {
				valObj = info.ObjectOf(id)
				neg = k
			}
		}
		return true
	})
	if valObj == nil {
		c.Undecided("R07c", "not:polarity", fd.Pos(), "cmdNot does not store (a negation of) types.IsTrue in a local")
		return
	}
	// writes under val / !val
	n := 0
	bad := ""
	walkStack(fd.Body, func(nd ast.Node, stack []ast.Node) bool {
		call, ok := nd.(*ast.CallExpr)
		if !ok || len(call.Args) != 1 {
			return true
		}
		se, ok := call.Fun.(*ast.SelectorExpr)
		if !ok || (se.Sel.Name != "Writeln" && se.Sel.Name != "Write") {
			return true
		}
		txt, ok := c.c07TextOf(info, call.Args[0])
		if !ok {
			return true
		}
		known, truth := false, false
		for _, f := range factsOf(guardsAt(info, stack)) {
			if id, ok := unparen(f.E).(*ast.Ident); ok && info.ObjectOf(id) == valObj {
				known, truth = true, f.True
			}
		}
		if !known {
			bad = "a write of " + txt + " is not guarded by the verdict"
			return true
		}
		n++
		verdictTrue := truth != (neg%2 == 1) // val = !^neg verdict
		want := map[bool]string{true: "false", false: "true"}[verdictTrue]
		if txt != want {
			bad = fmt.Sprintf("for a %v verdict it writes %q", verdictTrue, txt)
		}
		return true
	})
	if n != 2 && bad == "" {
		c.Undecided("R07c", "not:polarity", fd.Pos(), "cmdNot: expected two guarded writes of true/false, found %d", n)
		return
	}
	c.Check(bad == "", "R07c", "not:polarity", fd.Pos(), "`!` writes true exactly when types.IsTrue of its stdin is false %s", bad)
}

func (c *Ctx) c07CheckAndOr(pk *packages.Package, fd *ast.FuncDecl) {
	info := pk.TypesInfo
	verdict, why := c.c07VerdictVar(info, fd)
	if verdict == nil || why != "" {
		c.Undecided("R07c", "andor:verdict", fd.Pos(), "cmdAndOr: %s", why)
		return
	}
	var isAndObj types.Object
	for _, f := range fd.Type.Params.List {
		for _, n := range f.Names {
			if bt, ok := info.TypeOf(f.Type).Underlying().(*types.Basic); ok && bt.Kind() == types.Bool {
				isAndObj = info.Defs[n]
			}
		}
	}
	isVerdict := func(e ast.Expr) bool {
		id, ok := e.(*ast.Ident)
		return ok && info.ObjectOf(id) == verdict
	}
	isNot := func(e ast.Expr) bool { return c07IsNotField(info, e) }
	n := 0
	walkStack(fd.Body, func(nd ast.Node, stack []ast.Node) bool {
		is, ok := nd.(*ast.IfStmt)
		if !ok || !mentions(info, is.Cond, verdict) {
			return true
		}
		// which operator: guarded by isAnd / !isAnd
		op := ""
		for _, f := range factsOf(guardsAt(info, stack)) {
			if id, ok := unparen(f.E).(*ast.Ident); ok && isAndObj != nil && info.ObjectOf(id) == isAndObj {
				op = map[bool]string{true: "and", false: "or"}[f.True]
			}
		}
		if op == "" {
			c.Undecided("R07c", "andor:stop", is.Pos(), "a test on the verdict in cmdAndOr is not inside an isAnd / !isAnd arm")
			return true
		}
		n++
		tbl, ok := c07BoolTable(info, is.Cond, isVerdict, isNot)
		if !ok {
			c.Undecided("R07c", "andor:stop:"+op, is.Pos(), "cmdAndOr stops on %s, which is not a function of the verdict and p.IsNot only", c.src(is.Cond))
			return true
		}
		// the exit number stored in the arm
		var exit int64
		haveExit := false
		for _, s := range is.Body.List {
			if as, ok := s.(*ast.AssignStmt); ok && len(as.Lhs) == 1 && len(as.Rhs) == 1 && isField(info, as.Lhs[0], mx("lang")+".Process", "ExitNum") {
				if v, ok := constInt(info, as.Rhs[0]); ok {
					exit, haveExit = v, true
				}
			}
		}
		if !haveExit || !terminates(info, is.Body.List) {
			c.Undecided("R07c", "andor:stop:"+op, is.Pos(), "the stopping arm of `%s` does not store a constant ExitNum and return", op)
			return true
		}
		if op == "and" {
			good := tbl[0][0] && !tbl[1][0] && tbl[1][1] && !tbl[0][1] && exit > 0
			c.Check(good, "R07c", "andor:stop:and", is.Pos(), "`and` stops with a failing exit number (%d) at the first block whose verdict == IsNot (%s; table %v)", exit, c.src(is.Cond), tbl)
		} else {
			good := tbl[1][0] && !tbl[0][0] && tbl[0][1] && !tbl[1][1] && exit <= 0
			c.Check(good, "R07c", "andor:stop:or", is.Pos(), "`or` stops with a succeeding exit number (%d) at the first block whose verdict != IsNot (%s; table %v)", exit, c.src(is.Cond), tbl)
		}
		return true
	})
	if n != 2 {
		c.Undecided("R07c", "andor:stop", fd.Pos(), "cmdAndOr: expected one stopping test for `and` and one for `or`, found %d", n)
	}
}

// ---------------------------------------------------------------- R07d / R07e (SSA paths)

// Atoms of the path conditions of the logical operator handlers.
//
//	Esym        getLeftAndRightSymbols failed
//	Eget:s      GetValue of operand s failed
//	Estr:s      ConvertGoType(s.Value, str) failed
//	Ebool:s     ConvertGoType(s.Value, bool) failed
//	T:s         IsTrueString(str(s.Value), s.ExitNum)
//	B:s         ConvertGoType(s.Value, bool).(bool)
//	N:s         s.DataType == types.Null
//	X:s         s.ExitNum > 0
type c07Lit struct {
	Atom string
	Val  bool
}

type c07Path struct {
	Blocks []*ssa.BasicBlock
	Lits   []c07Lit
	Ret    *ssa.Return
}

type c07Op struct {
	c       *Ctx
	fn      *ssa.Function
	name    string
	strName string
	boolNm  string
	nullNm  string
	boolPr  int64
	unknown []string
	// validated truthiness calls: call -> side
	truthy map[*ssa.Call]int
}

// side of an operand value: v = Extract(GetValue(load(&X.dt)), 0) with X = Extract(getLeftAndRightSymbols, s);
// inside a helper taking the node as parameter, side 1 is used for the node parameter.
func (o *c07Op) nodeSide(x ssa.Value) int {
	if call, idx, ok := c06Extract(x); ok && c06FnIs(call.Call.StaticCallee(), c06ExprPkg, "ParserT", "getLeftAndRightSymbols") && idx < 2 {
		return idx
	}
	return -1
}

func (o *c07Op) getValueOf(v ssa.Value) (call *ssa.Call, side int) {
	call, idx, ok := c06Extract(v)
	_ = idx
	if !ok || !c06FnIs(call.Call.StaticCallee(), c06PrimPkg, "DataType", "GetValue") || len(call.Call.Args) != 1 {
		return nil, -1
	}
	x, f, ok := c06FieldLoad(call.Call.Args[0])
	if !ok || f != "dt" {
		return nil, -1
	}
	return call, o.nodeSide(x)
}

// valueSide: v is the *primitives.Value (result 0) of GetValue of side s.
func (o *c07Op) valueSide(v ssa.Value) int {
	call, idx, ok := c06Extract(v)
	if !ok || idx != 0 {
		return -1
	}
	_ = call
	_, s := o.getValueOf(v)
	return s
}

// fieldOfOperand: v = load(&nv.field) for an operand value nv; returns side.
func (o *c07Op) fieldOfOperand(v ssa.Value, field string) int {
	x, f, ok := c06FieldLoad(v)
	if !ok || f != field {
		return -1
	}
	return o.valueSide(x)
}

// convertOf: v = Extract(ConvertGoType(arg, const dt), idx) ; returns the call, target data type.
func (o *c07Op) convertOf(v ssa.Value) (*ssa.Call, string, int) {
	call, idx, ok := c06Extract(v)
	if !ok || !c06FnIs(call.Call.StaticCallee(), c07TypesPkg, "", "ConvertGoType") || len(call.Call.Args) != 2 {
		return nil, "", 0
	}
	k, ok := call.Call.Args[1].(*ssa.Const)
	if !ok || k.Value == nil || k.Value.Kind() != constant.String {
		return nil, "", 0
	}
	return call, constant.StringVal(k.Value), idx
}

// convertSide: which operand's Value a ConvertGoType call converts (-1 unknown, -2 the whole struct).
func (o *c07Op) convertSide(call *ssa.Call) int {
	a := call.Call.Args[0]
	if s := o.fieldOfOperand(a, "Value"); s >= 0 {
		return s
	}
	if s := o.valueSide(c06StripIface(a)); s >= 0 {
		return -2 - s // the *Value struct itself
	}
	return -1
}

// truthyCall validates IsTrueString(ConvertGoType(x.Value,str).(string), x.ExitNum); returns side or -1.
func (o *c07Op) truthyCall(call *ssa.Call) int {
	if s, ok := o.truthy[call]; ok {
		return s
	}
	side := -1
	defer func() { o.truthy[call] = side }()
	if !c06FnIs(call.Call.StaticCallee(), c07TypesPkg, "", "IsTrueString") || len(call.Call.Args) != 2 {
		return -1
	}
	exitSide := o.fieldOfOperand(call.Call.Args[1], "ExitNum")
	if exitSide < 0 {
		o.c.Viol("R07e", "truthy:"+o.name+":exit", call.Pos(), "%s calls IsTrueString with an exit number that is not <operand>.ExitNum: a non-zero exit of the operand no longer makes it false", o.name)
		return -1
	}
	sname := c06SideName(exitSide)
	key := "truthy:" + o.name + ":" + sname
	ta, ok := call.Call.Args[0].(*ssa.TypeAssert)
	if !ok {
		o.c.Undecided("R07e", key, call.Pos(), "the text given to IsTrueString in %s is not a type assertion of a ConvertGoType result", o.name)
		return -1
	}
	cv, dt, idx := o.convertOf(ta.X)
	if cv == nil || idx != 0 {
		o.c.Undecided("R07e", key, call.Pos(), "the text given to IsTrueString in %s does not come from types.ConvertGoType", o.name)
		return -1
	}
	if dt != o.strName {
		o.c.Viol("R07e", key, cv.Pos(), "%s converts the %s operand to %q, not to types.String, before asking IsTrueString", o.name, sname, dt)
		return -1
	}
	cs := o.convertSide(cv)
	switch {
	case cs == exitSide:
		o.c.OK("R07e", key, call.Pos(), "truthy(%s) in %s = IsTrueString(ConvertGoType(%s.Value, str).(string), %s.ExitNum)", sname, o.name, sname, sname)
		side = exitSide
	case cs <= -2:
		o.c.Viol("R07e", key, cv.Pos(), "%s converts the whole *primitives.Value of the %s operand (not its .Value) to a string: the text is the JSON rendering of the struct, e.g. {\"Primitive\":15,\"Value\":0,\"DataType\":\"num\",\"ExitNum\":0}, which is never one of the falsy texts — every operand is truthy (`0 && 1` is true, `false || false` is true)", o.name, sname)
		side = exitSide // structure is still analysed
	case cs >= 0:
		o.c.Viol("R07e", key, cv.Pos(), "%s takes the text of the %s operand but the exit number of the %s operand", o.name, c06SideName(cs), sname)
	default:
		o.c.Undecided("R07e", key, cv.Pos(), "cannot identify what %s converts before IsTrueString", o.name)
	}
	return side
}

// classifyCond maps an If condition to a literal (atom true when cond true, or flipped).
func (o *c07Op) classifyCond(v ssa.Value) (string, bool, bool) {
	flip := false
	for {
		u, ok := v.(*ssa.UnOp)
		if !ok || u.Op != token.NOT {
			break
		}
		flip = !flip
		v = u.X
	}
	switch x := v.(type) {
	case *ssa.Call:
		if s := o.truthyCall(x); s >= 0 {
			return fmt.Sprintf("T:%d", s), flip, true
		}
	case *ssa.TypeAssert:
		if !x.CommaOk {
			if cv, dt, idx := o.convertOf(x.X); cv != nil && idx == 0 && dt == o.boolNm {
				if s := o.convertSide(cv); s >= 0 {
					return fmt.Sprintf("B:%d", s), flip, true
				}
			}
		}
	case *ssa.BinOp:
		var other ssa.Value
		var k *ssa.Const
		if c, ok := x.Y.(*ssa.Const); ok {
			other, k = x.X, c
		} else if c, ok := x.X.(*ssa.Const); ok {
			other, k = x.Y, c
		}
		if k == nil {
			return "", false, false
		}
		if (x.Op == token.EQL || x.Op == token.NEQ) && k.Value != nil && k.Value.Kind() == constant.Bool {
			// b == false / b != true ...
			atom, f2, ok := o.classifyCond(other)
			same := constant.BoolVal(k.Value) == (x.Op == token.EQL)
			return atom, flip != f2 != !same, ok
		}
		if (x.Op == token.EQL || x.Op == token.NEQ) && k.Value == nil {
			if x.Op == token.EQL { // `err == nil`: the error atom is false when the condition holds
				flip = !flip
			}
			// error tests
			call, idx, ok := c06Extract(other)
			if !ok {
				return "", false, false
			}
			fn := call.Call.StaticCallee()
			switch {
			case c06FnIs(fn, c06ExprPkg, "ParserT", "getLeftAndRightSymbols") && idx == 2:
				return "Esym", flip, true
			case c06FnIs(fn, c06PrimPkg, "DataType", "GetValue") && idx == 1:
				if _, s := o.getValueOf(other); s >= 0 {
					return fmt.Sprintf("Eget:%d", s), flip, true
				}
			case c06FnIs(fn, c07TypesPkg, "", "ConvertGoType") && idx == 1:
				cv, dt, _ := o.convertOf(other)
				if cv != nil {
					s := o.convertSide(cv)
					if s <= -2 {
						s = -2 - s
					}
					if s >= 0 && dt == o.strName {
						return fmt.Sprintf("Estr:%d", s), flip, true
					}
					if s >= 0 && dt == o.boolNm {
						return fmt.Sprintf("Ebool:%d", s), flip, true
					}
				}
			}
			return "", false, false
		}
		if x.Op == token.EQL || x.Op == token.NEQ {
			if k.Value != nil && k.Value.Kind() == constant.String && constant.StringVal(k.Value) == o.nullNm {
				if s := o.fieldOfOperand(other, "DataType"); s >= 0 {
					return fmt.Sprintf("N:%d", s), flip != (x.Op == token.NEQ), true
				}
			}
		}
		// exit number tests: evaluate at 0 and at 3
		if s := o.fieldOfOperand(other, "ExitNum"); s >= 0 && k.Value != nil && k.Value.Kind() == constant.Int {
			kv, _ := constant.Int64Val(k.Value)
			op := x.Op
			if other == x.Y { // const on the left: flip the relation
				op = map[token.Token]token.Token{token.LSS: token.GTR, token.GTR: token.LSS, token.LEQ: token.GEQ, token.GEQ: token.LEQ, token.EQL: token.EQL, token.NEQ: token.NEQ}[op]
			}
			at0, at3, at1 := intPred(op, kv)(0), intPred(op, kv)(3), intPred(op, kv)(1)
			if at0 != at3 && at1 == at3 {
				// cond true <=> (exit>0) == at3
				return fmt.Sprintf("X:%d", s), flip != !at3, true
			}
		}
	}
	return "", false, false
}

func (o *c07Op) paths() ([]c07Path, bool) {
	var out []c07Path
	ok := true
	var walk func(b *ssa.BasicBlock, blocks []*ssa.BasicBlock, lits []c07Lit)
	walk = func(b *ssa.BasicBlock, blocks []*ssa.BasicBlock, lits []c07Lit) {
		for _, p := range blocks {
			if p == b {
				o.unknown = append(o.unknown, "loop in "+o.name)
				ok = false
				return
			}
		}
		blocks = append(append([]*ssa.BasicBlock{}, blocks...), b)
		last := b.Instrs[len(b.Instrs)-1]
		switch t := last.(type) {
		case *ssa.Return:
			out = append(out, c07Path{Blocks: blocks, Lits: append([]c07Lit{}, lits...), Ret: t})
		case *ssa.Jump:
			walk(b.Succs[0], blocks, lits)
		case *ssa.If:
			atom, flip, known := o.classifyCond(t.Cond)
			if !known {
				o.unknown = append(o.unknown, fmt.Sprintf("condition %s (%s) at %s", t.Cond.Name(), t.Cond.String(), o.c.pos(t.Cond.Pos())))
				ok = false
				return
			}
			for i, succ := range b.Succs {
				val := (i == 0) != flip
				// infeasible if contradicting an earlier literal
				contra := false
				for _, l := range lits {
					if l.Atom == atom && l.Val != val {
						contra = true
					}
				}
				if contra {
					continue
				}
				walk(succ, blocks, append(append([]c07Lit{}, lits...), c07Lit{atom, val}))
			}
		default:
			o.unknown = append(o.unknown, fmt.Sprintf("block ends with %T", last))
			ok = false
		}
	}
	walk(o.fn.Blocks[0], nil, nil)
	return out, ok
}

// resolvePhi follows phi nodes along the path.
func resolvePhi(v ssa.Value, p c07Path) ssa.Value {
	for i := 0; i < 8; i++ {
		phi, ok := v.(*ssa.Phi)
		if !ok {
			return v
		}
		pos := -1
		for j, b := range p.Blocks {
			if b == phi.Block() {
				pos = j
			}
		}
		if pos <= 0 {
			return v
		}
		pred := p.Blocks[pos-1]
		found := false
		for k, pb := range phi.Block().Preds {
			if pb == pred {
				v = phi.Edges[k]
				found = true
				break
			}
		}
		if !found {
			return v
		}
	}
	return v
}

// classifyReturn: "err" | "const:true" | "const:false" | "T:<side>" | "left" | "right" | "?…"
func (o *c07Op) classifyReturn(p c07Path, depth int) string {
	if len(p.Ret.Results) != 1 {
		return "?return arity"
	}
	return o.classifyResult(resolvePhi(p.Ret.Results[0], p), p, depth)
}

func (o *c07Op) classifyResult(v ssa.Value, p c07Path, depth int) string {
	if c06IsNilConst(v) {
		return "?returns nil without folding"
	}
	if call, _, ok := c06Extract(v); ok {
		_ = call
		return "err"
	}
	call, ok := v.(*ssa.Call)
	if !ok {
		return "?result " + v.String()
	}
	if f := c06FoldOf(v); f != nil {
		if f.Dt == nil {
			return "?fold without dt"
		}
		if prim, payload, ok := c06NewPrimitive(f.Dt); ok {
			if prim != o.boolPr {
				return "?fold of a non-Boolean primitive"
			}
			payload = resolvePhi(payload, p)
			if k, ok := payload.(*ssa.Const); ok && k.Value != nil && k.Value.Kind() == constant.Bool {
				return fmt.Sprintf("const:%v", constant.BoolVal(k.Value))
			}
			neg := false
			for {
				u, ok := payload.(*ssa.UnOp)
				if !ok || u.Op != token.NOT {
					break
				}
				neg = !neg
				payload = u.X
			}
			if tc, ok := payload.(*ssa.Call); ok {
				if s := o.truthyCall(tc); s >= 0 {
					if neg {
						return fmt.Sprintf("notT:%d", s)
					}
					return fmt.Sprintf("T:%d", s)
				}
			}
			return "?Boolean payload " + payload.String()
		}
		if sc := c06CallTo(f.Dt, c06PrimPkg, "", "NewScalar"); sc != nil && len(sc.Call.Args) == 2 {
			s1 := o.fieldOfOperand(sc.Call.Args[0], "DataType")
			s2 := o.fieldOfOperand(sc.Call.Args[1], "Value")
			if s1 >= 0 && s1 == s2 {
				return c06SideName(s1)
			}
			return "?NewScalar of mixed operands"
		}
		return "?fold of " + f.Dt.String()
	}
	// helper call: summarise the callee (constant folds; right-value helper)
	callee := call.Call.StaticCallee()
	if callee == nil || callee.Blocks == nil || depth > 1 {
		return "?dynamic call"
	}
	sub := &c07Op{c: o.c, fn: callee, name: callee.Name(), strName: o.strName, boolNm: o.boolNm, nullNm: o.nullNm, boolPr: o.boolPr, truthy: map[*ssa.Call]int{}}
	classes := map[string]bool{}
	for _, r := range c06Returns(callee) {
		if len(r.Results) != 1 {
			return "?helper arity"
		}
		res := r.Results[0]
		if _, _, isEx := c06Extract(res); isEx {
			classes["err"] = true
			continue
		}
		if f := c06FoldOf(res); f != nil && f.Dt != nil {
			if prim, payload, ok := c06NewPrimitive(f.Dt); ok && prim == o.boolPr {
				if k, ok := payload.(*ssa.Const); ok && k.Value != nil && k.Value.Kind() == constant.Bool {
					classes[fmt.Sprintf("const:%v", constant.BoolVal(k.Value))] = true
					continue
				}
			}
			if sc := c06CallTo(f.Dt, c06PrimPkg, "", "NewScalar"); sc != nil && len(sc.Call.Args) == 2 {
				// operand = GetValue of a node parameter; which argument of our call is it?
				side := func(x ssa.Value, field string) int {
					nv, fld, ok := c06FieldLoad(x)
					if !ok || fld != field {
						return -1
					}
					gv, idx, ok := c06Extract(nv)
					if !ok || idx != 0 || !c06FnIs(gv.Call.StaticCallee(), c06PrimPkg, "DataType", "GetValue") {
						return -1
					}
					node, fdt, ok := c06FieldLoad(gv.Call.Args[0])
					if !ok || fdt != "dt" {
						return -1
					}
					for i, prm := range callee.Params {
						if ssa.Value(prm) == node && i < len(call.Call.Args) {
							return sub.parentSide(o, call.Call.Args[i])
						}
					}
					return -1
				}
				s1, s2 := side(sc.Call.Args[0], "DataType"), side(sc.Call.Args[1], "Value")
				if s1 >= 0 && s1 == s2 {
					classes[c06SideName(s1)] = true
					continue
				}
			}
		}
		return "?helper " + callee.Name() + " returns " + res.String()
	}
	delete(classes, "err") // an operand error inside the helper
	if len(classes) != 1 {
		return fmt.Sprintf("?helper %s has %d result classes", callee.Name(), len(classes))
	}
	for k := range classes {
		return k
	}
	return "?"
}

func (sub *c07Op) parentSide(parent *c07Op, arg ssa.Value) int { return parent.nodeSide(arg) }

func (c *Ctx) c07NewOp(name string) *c07Op {
	fd, pk := c.MustFunc("R07e", c06ExprPkg, "", name)
	if fd == nil {
		return nil
	}
	fn := c.SSAFunc(pk, fd)
	if fn == nil || len(fn.Blocks) == 0 {
		c.Lost("R07e", "ssa:"+name, "no SSA body for %s", name)
		return nil
	}
	o := &c07Op{c: c, fn: fn, name: name, truthy: map[*ssa.Call]int{}}
	o.strName, _ = c07TypesConst(c, "String")
	o.boolNm, _ = c07TypesConst(c, "Boolean")
	o.nullNm, _ = c07TypesConst(c, "Null")
	o.boolPr, _ = c06PrimConst(c, "Boolean")
	return o
}

func c07LitMap(p c07Path) map[string]bool {
	m := map[string]bool{}
	for _, l := range p.Lits {
		m[l.Atom] = l.Val
	}
	return m
}

func c07PathString(p c07Path) string {
	var parts []string
	for _, l := range p.Lits {
		if l.Val {
			parts = append(parts, l.Atom)
		} else {
			parts = append(parts, "¬"+l.Atom)
		}
	}
	if len(parts) == 0 {
		return "(unconditional)"
	}
	r := strings.Join(parts, " ∧ ")
	r = strings.NewReplacer(":0", "(left)", ":1", "(right)").Replace(r)
	return r
}

func (c *Ctx) c07Operators() {
	c.SSAPkg(c06ExprPkg)
	c.SSAPkg(c06PrimPkg)
	nPaths := 0
	// ---- && and ||
	for _, spec := range []struct {
		name string
		or   bool
	}{{"expLogicalAnd", false}, {"expLogicalOr", true}} {
		o := c.c07NewOp(spec.name)
		if o == nil {
			continue
		}
		paths, ok := o.paths()
		if !ok {
			c.Undecided("R07e", "paths:"+spec.name, o.fn.Pos(), "%s contains a branch outside the recognised condition forms: %s", spec.name, strings.Join(o.unknown, "; "))
			continue
		}
		bad := 0
		for _, p := range paths {
			nPaths++
			m := c07LitMap(p)
			cls := o.classifyReturn(p, 0)
			if strings.HasPrefix(cls, "?") {
				c.Undecided("R07e", "result:"+spec.name, p.Ret.Pos(), "%s: unrecognised result on path %s: %s", spec.name, c07PathString(p), strings.TrimPrefix(cls, "?"))
				bad++
				continue
			}
			// operand errors
			hardErr := m["Esym"] || m["Estr:0"] || m["Estr:1"] || m["Eget:1"] || (!spec.or && m["Eget:0"])
			if hardErr {
				if cls != "err" && cls != "const:false" {
					c.Viol("R07e", "error:"+spec.name, p.Ret.Pos(), "%s: on the operand-error path %s the result is %s; an operand that cannot be evaluated must yield the error or false", spec.name, c07PathString(p), cls)
					bad++
				}
				continue
			}
			if cls == "err" {
				c.Viol("R07e", "error:"+spec.name, p.Ret.Pos(), "%s returns an error value on the error-free path %s", spec.name, c07PathString(p))
				bad++
				continue
			}
			// evaluate over the assignments of T:0, T:1 consistent with the path
			for tl := 0; tl < 2; tl++ {
				for tr := 0; tr < 2; tr++ {
					TL, TR := tl == 1, tr == 1
					if spec.or && m["Eget:0"] {
						if TL {
							continue
						}
					} else if v, ok := m["T:0"]; ok && v != TL {
						continue
					}
					if v, ok := m["T:1"]; ok && v != TR {
						continue
					}
					if _, tested := m["T:0"]; !tested && spec.or && m["Eget:0"] {
						// left counts as false
					}
					var got bool
					switch cls {
					case "const:true":
						got = true
					case "const:false":
						got = false
					case "T:0":
						got = TL
					case "T:1":
						got = TR
					case "notT:0":
						got = !TL
					case "notT:1":
						got = !TR
					default:
						c.Undecided("R07e", "result:"+spec.name, p.Ret.Pos(), "%s: result class %s on path %s", spec.name, cls, c07PathString(p))
						bad++
						continue
					}
					want := TL && TR
					opname := "&&"
					if spec.or {
						want = TL || TR
						opname = "||"
					}
					if got != want {
						c.Viol("R07e", "table:"+spec.name, p.Ret.Pos(), "%s: on path %s the result is %s, which for truthy(left)=%v truthy(right)=%v gives %v; `left %s right` must be %v", spec.name, c07PathString(p), cls, TL, TR, got, opname, want)
						bad++
					}
				}
			}
		}
		if bad == 0 {
			c.OK("R07e", "table:"+spec.name, o.fn.Pos(), "%s: all %d paths fold the truth table of its operator over truthy(left), truthy(right); operand errors yield false or the error", spec.name, len(paths))
		}
	}

	// ---- ?:
	if o := c.c07NewOp("expElvis"); o != nil {
		paths, ok := o.paths()
		if !ok {
			c.Undecided("R07e", "paths:expElvis", o.fn.Pos(), "expElvis contains a branch outside the recognised condition forms: %s", strings.Join(o.unknown, "; "))
		} else {
			bad := 0
			exitSeen := false
			for _, p := range paths {
				nPaths++
				m := c07LitMap(p)
				cls := o.classifyReturn(p, 0)
				if strings.HasPrefix(cls, "?") {
					c.Undecided("R07e", "result:expElvis", p.Ret.Pos(), "expElvis: unrecognised result on path %s: %s", c07PathString(p), strings.TrimPrefix(cls, "?"))
					bad++
					continue
				}
				if m["Esym"] {
					if cls != "err" {
						c.Viol("R07e", "error:expElvis", p.Ret.Pos(), "expElvis folds a value although an operand is missing (%s)", c07PathString(p))
						bad++
					}
					continue
				}
				if m["Eget:0"] || m["Ebool:0"] || m["Estr:0"] {
					if cls != "right" {
						c.Viol("R07e", "error:expElvis", p.Ret.Pos(), "expElvis: the left operand cannot be evaluated (%s) but the result is %s, not the right operand", c07PathString(p), cls)
						bad++
					}
					continue
				}
				for b := 0; b < 2; b++ {
					for x := 0; x < 2; x++ {
						B, X := b == 1, x == 1
						truthy := B && !X
						if v, ok := m["B:0"]; ok && v != B {
							continue
						}
						if v, ok := m["X:0"]; ok && v != X {
							continue
						}
						if v, ok := m["T:0"]; ok && v != truthy {
							continue
						}
						want := "right"
						if truthy {
							want = "left"
						}
						if cls != want {
							if X && cls == "left" {
								if !exitSeen {
									c.Viol("R07e", "elvis:exitnum", p.Ret.Pos(), "expElvis: on path %s the left value is folded even when left.ExitNum > 0 — `?:` only looks at the Boolean conversion of left.Value, so a sub-shell that printed text but failed (`${sh -c \"echo yes; exit 3\"} ?: 5`) counts as truthy here while `&&`, `||`, `if` and `!` treat it as false", c07PathString(p))
									exitSeen = true
								}
							} else {
								c.Viol("R07e", "table:expElvis", p.Ret.Pos(), "expElvis: on path %s with bool(left)=%v exit>0=%v the %s value is folded, expected the %s value", c07PathString(p), B, X, cls, want)
							}
							bad++
						}
					}
				}
			}
			if bad == 0 {
				c.OK("R07e", "table:expElvis", o.fn.Pos(), "expElvis: all %d paths fold the left value exactly when it is truthy (Boolean conversion true and exit number not > 0), else the right value", len(paths))
			}
			if !exitSeen {
				c.OK("R07e", "elvis:exitnum", o.fn.Pos(), "expElvis never folds the left value of an operand whose exit number is > 0")
			}
		}
	}

	// ---- ??
	if o := c.c07NewOp("expNullCoalescing"); o != nil {
		paths, ok := o.paths()
		if !ok {
			c.Undecided("R07d", "paths:expNullCoalescing", o.fn.Pos(), "expNullCoalescing contains a branch outside the recognised condition forms (it must consult only GetValue's error and DataType == types.Null): %s", strings.Join(o.unknown, "; "))
		} else {
			bad := 0
			for _, p := range paths {
				nPaths++
				m := c07LitMap(p)
				cls := o.classifyReturn(p, 0)
				if strings.HasPrefix(cls, "?") {
					c.Undecided("R07d", "result:expNullCoalescing", p.Ret.Pos(), "expNullCoalescing: unrecognised result on path %s: %s", c07PathString(p), strings.TrimPrefix(cls, "?"))
					bad++
					continue
				}
				if m["Esym"] {
					if cls != "err" {
						c.Viol("R07d", "table:expNullCoalescing", p.Ret.Pos(), "expNullCoalescing folds a value although an operand is missing")
						bad++
					}
					continue
				}
				for n := 0; n < 2; n++ {
					N := n == 1
					if v, ok := m["N:0"]; ok && v != N {
						continue
					}
					want := "left"
					if m["Eget:0"] || N {
						want = "right"
					}
					if cls != want {
						c.Viol("R07d", "table:expNullCoalescing", p.Ret.Pos(), "expNullCoalescing: on path %s (left is null: %v) the %s value is folded, expected the %s value — `a ?? b` must yield a unless a is null or undefined, whatever its truthiness", c07PathString(p), N, cls, want)
						bad++
					}
				}
				for a := range m {
					if strings.HasPrefix(a, "T:") || strings.HasPrefix(a, "B:") || strings.HasPrefix(a, "X:") {
						c.Viol("R07d", "table:expNullCoalescing", p.Ret.Pos(), "expNullCoalescing consults truthiness (%s) — `0 ?? 3` must stay 0", a)
						bad++
					}
				}
			}
			if bad == 0 {
				c.OK("R07d", "table:expNullCoalescing", o.fn.Pos(), "expNullCoalescing: all %d paths fold the right value exactly when GetValue(left) failed or left.DataType == types.Null", len(paths))
			}
		}
	}
	undecided := false
	for _, ob := range c.Obls {
		if ob.Status == StUndecided && (ob.Rule == "R07e" || ob.Rule == "R07d") {
			undecided = true
		}
	}
	if !undecided {
		c.MinCount("R07e", "paths through expLogicalAnd/Or, expElvis, expNullCoalescing", nPaths, 20)
	}
}

// ---------------------------------------------------------------- R07f

func (c *Ctx) c07Tokens() {
	pk := c.Pkg(c06ExprPkg)
	info := pk.TypesInfo
	n := 0
	eachFunc(pk, func(fd *ast.FuncDecl) {
		defs := localDefs(info, fd.Body)
		k := 0
		for _, call := range calls(fd.Body, true) {
			if !callIs(info, call, mx(c06ExprPkg), "ParserT", "parseExpression") || len(call.Args) != 2 {
				continue
			}
			se, ok := call.Fun.(*ast.SelectorExpr)
			if !ok {
				continue
			}
			d := defs.resolve1(info, se.X)
			nc, ok := d.(*ast.CallExpr)
			if !ok || !callIs(info, nc, mx(c06ExprPkg), "", "NewParser") {
				continue // the method's own parser: statement level, where && and || are pipeline operators
			}
			// only parsers whose result is evaluated here (executeExpr on the same parser);
			// ExpressionParser merely finds where an expression ends at statement level
			recvObj := types.Object(nil)
			if id, ok := unparen(se.X).(*ast.Ident); ok {
				recvObj = info.ObjectOf(id)
			}
			executed := false
			for _, ec := range calls(fd.Body, true) {
				if callIs(info, ec, mx(c06ExprPkg), "ParserT", "executeExpr") {
					if es, ok := ec.Fun.(*ast.SelectorExpr); ok {
						if id, ok := unparen(es.X).(*ast.Ident); ok && recvObj != nil && info.ObjectOf(id) == recvObj {
							executed = true
						}
					}
				}
			}
			if !executed {
				continue
			}
			k++
			n++
			key := fmt.Sprintf("sublogical:%s#%d", funcKey(c06ExprPkg, fd), k)
			v, isC := constBool(info, call.Args[1])
			c.Check(isC && v, "R07f", key, call.Pos(), "%s parses a complete (sub-)expression with incLogicalOps = %s; with false, `(a && b)` ends at the `&&`", c.src(call), c.src(call.Args[1]))
		}
	})
	c.MinCount("R07f", "parseExpression calls on a fresh parser", n, 3)

	// literal words
	fd, _ := c.MustFunc("R07f", c06ExprPkg, "ParserT", "parseExpression")
	if fd == nil {
		return
	}
	byName, _ := c06ExpConstNames(c)
	for _, w := range []struct{ word, sym string }{{"true", "Boolean"}, {"false", "Boolean"}, {"null", "Null"}} {
		// the arm that handles the word: a case clause listing it, or the body of an
		// `if x == "word" || …` (an if/else-if chain instead of the switch)
		var cc ast.Node
		var ccBody []ast.Stmt
		ast.Inspect(fd.Body, func(nd ast.Node) bool {
			switch k := nd.(type) {
			case *ast.CaseClause:
				for _, e := range k.List {
					if sv, ok := constString(info, e); ok && sv == w.word {
						cc, ccBody = k, k.Body
					}
				}
			case *ast.IfStmt:
				for _, d := range disjuncts(k.Cond) {
					be, ok := unparen(d).(*ast.BinaryExpr)
					if !ok || be.Op != token.EQL {
						continue
					}
					sx, okx := constString(info, be.X)
					sy, oky := constString(info, be.Y)
					if (okx && !oky && sx == w.word) || (oky && !okx && sy == w.word) {
						cc, ccBody = k, k.Body.List
					}
				}
			}
			return true
		})
		key := "word:" + w.word
		if cc == nil {
			c.Viol("R07f", key, fd.Pos(), "parseExpression has no case for the word %q: it is tokenised as a bareword, not as symbols.%s, so `%s && x` is not a boolean operand", w.word, w.sym, w.word)
			continue
		}
		var sym int64 = -1
		for _, s := range ccBody {
			for _, call := range calls(s, false) {
				if callIs(info, call, mx(c06ExprPkg), "ParserT", "appendAst") && len(call.Args) >= 1 && sym < 0 {
					if v, ok := constInt(info, call.Args[0]); ok {
						sym = v
					}
				}
			}
		}
		c.Check(sym == byName[w.sym], "R07f", key, cc.Pos(), "the word %q is appended as symbols.%s (found symbol %d)", w.word, w.sym, sym)
	}
}
