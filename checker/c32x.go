package main

import (
	"go/ast"
	"go/types"
)

func init() {
	extend("C32", func(c *Ctx) {
		c.Rule("R32e", "no reference to guarded storage leaves its lock: a function of the owning package does not return (directly, re-sliced, or through a single-definition local) a guarded map or slice field of the structures in the guarded-by table — callers would read it while writers mutate it under the lock")
		n := 0
		for _, s := range c32Table {
			pk := c.Pkg(s.Pkg)
			if pk == nil {
				continue
			}
			info := pk.TypesInfo
			tpath := mx(s.Pkg) + "." + s.Type
			guarded := map[string]bool{}
			for _, f := range s.Fields {
				guarded[f] = true
			}
			elemStores := map[string]bool{}
			eachFunc(pk, func(fd *ast.FuncDecl) {
				ast.Inspect(fd.Body, func(nd ast.Node) bool {
					if as, ok := nd.(*ast.AssignStmt); ok {
						for _, l := range as.Lhs {
							if ix, ok := unparen(l).(*ast.IndexExpr); ok {
								if v, owner := fieldOf(info, ix.X); v != nil && owner == tpath {
									elemStores[v.Name()] = true
								}
							}
						}
					}
					// the field passed to a callee that stores into its parameter's elements
					if call, ok := nd.(*ast.CallExpr); ok {
						if m := lockMutators[callee(info, call)]; m != nil {
							for i, a := range call.Args {
								if m[i] {
									if v, owner := fieldOf(info, a); v != nil && owner == tpath {
										elemStores[v.Name()] = true
									}
								}
							}
						}
					}
					return true
				})
			})
			isGuardedRef := func(e ast.Expr) (string, bool) {
				e = unparen(e)
				if se, ok := e.(*ast.SliceExpr); ok {
					e = unparen(se.X)
				}
				v, owner := fieldOf(info, e)
				if v == nil || owner != tpath || !guarded[v.Name()] {
					return "", false
				}
				switch v.Type().Underlying().(type) {
				case *types.Map:
					return v.Name(), true
				case *types.Slice:
					// a slice header handed out is only dangerous when the
					// owner also stores into existing elements (append never
					// touches the visible range of an older header)
					if elemStores[v.Name()] {
						return v.Name(), true
					}
				}
				return "", false
			}
			eachFunc(pk, func(fd *ast.FuncDecl) {
				defs := localDefs(info, fd.Body)
				ast.Inspect(fd.Body, func(nd ast.Node) bool {
					if _, isLit := nd.(*ast.FuncLit); isLit {
						return false
					}
					rs, ok := nd.(*ast.ReturnStmt)
					if !ok {
						return true
					}
					for _, r := range rs.Results {
						e := defs.resolve1(info, r)
						if f, ok := isGuardedRef(e); ok {
							n++
							c.Viol("R32e", s.Type+"."+f+"@"+fd.Name.Name+":returned", rs.Pos(), "%s returns a reference to the guarded %s.%s (%s): the caller iterates/serialises it outside the mutex while other goroutines write it (concurrent map read and map write is fatal in Go)", fd.Name.Name, s.Type, f, c.src(r))
						}
					}
					return true
				})
			})
		}
		c.OK("R32e", "scan", 0, "returns of guarded map/slice fields examined in %d structures; %d references handed out", len(c32Table), n)
	})
}
