package main

import (
	"go/ast"

	"golang.org/x/tools/go/cfg"
)

// R26g — "a closed pipe disappears after its grace period": Close reports success
// only after it has started the delayed closer. A success return that can be
// reached without the `go closePipe(…)` statement (a fast path, a "closing already"
// shortcut, a cache) leaves a pipe that was closed successfully open and registered
// for ever: its readers never see EOF and its name can never be created again.
func init() {
	extend("C26", func(c *Ctx) {
		c.Rule("R26g", "must-pass-through in Named.Close (go/cfg): every path from the entry to a `return nil` passes the go statement that starts closePipe for this registry and name")
		fd, pk := c.MustFunc("R26g", pipesPkg, "Named", "Close")
		if fd == nil {
			return
		}
		info := pk.TypesInfo
		var goStmt *ast.GoStmt
		ast.Inspect(fd.Body, func(nd ast.Node) bool {
			if g, ok := nd.(*ast.GoStmt); ok {
				closes := false
				ast.Inspect(g.Call, func(x ast.Node) bool {
					if call, ok := x.(*ast.CallExpr); ok {
						if o := callee(info, call); o != nil && o.Name() == "closePipe" {
							closes = true
						}
					}
					return true
				})
				if closes {
					goStmt = g
				}
			}
			return true
		})
		if goStmt == nil {
			c.Lost("R26g", "Close:delayed-closer", "Named.Close no longer contains a go statement that calls closePipe")
			return
		}
		g := cfg.New(fd.Body, func(*ast.CallExpr) bool { return true })
		seen := map[*cfg.Block]bool{}
		var bad []ast.Node
		var walk func(b *cfg.Block)
		walk = func(b *cfg.Block) {
			if seen[b] {
				return
			}
			seen[b] = true
			for _, nd := range b.Nodes {
				if nd == ast.Node(goStmt) {
					return // everything after it has passed through
				}
				if rs, ok := nd.(*ast.ReturnStmt); ok {
					if len(rs.Results) == 1 {
						if id, ok := unparen(rs.Results[0]).(*ast.Ident); ok && id.Name == "nil" {
							bad = append(bad, rs)
						}
					}
					return
				}
			}
			for _, s := range b.Succs {
				walk(s)
			}
		}
		if len(g.Blocks) > 0 {
			walk(g.Blocks[0])
		}
		if len(bad) > 0 {
			for i, nd := range bad {
				c.Viol("R26g", "Close:success-without-closer#"+itoa(i+1), nd.Pos(), "Named.Close can return nil here without having started closePipe (%s): the pipe is reported closed but stays open and registered — readers never see EOF and the name cannot be created again", c.pos(goStmt.Pos()))
			}
		} else {
			c.OK("R26g", "Close:success-through-closer", goStmt.Pos(), "every success return of Named.Close lies behind `%s`", c.src(goStmt))
		}
	})
}
