package main

// C23 — function parameters are bound and typed as declared.
// Anchors: (*murexFuncDetails).castParameters and the function arm of
// lang.executeProcess. SSA path rules (engine in c21.go).

import (
	"fmt"
	"go/token"
	"sort"
	"strings"

	"golang.org/x/tools/go/ssa"
)

func init() {
	register("C23", "Decides: (R23a) in executeProcess's function arm the body fork.Execute(fn.Block) runs only on the castParameters(...) == nil edge, castParameters is applied to the fork's own process and to the function that was looked up, after the caller's parameters were copied into the fork; (R23b) the per-parameter decision table of castParameters, for every control-flow path of the loop body and every valuation of {argument missing, Optional, HasDefault, Background, prompt failed, conversion failed, Set failed}: which value is converted (argument / declared default / prompted), whether the variable is set or skipped, and whether the call fails — compared with the table the property states; (R23c) conversion uses the DataType of the same parameter, the variable is stored under that parameter's Name with the converted value and declared type in the callee's own variable table, and the argument index equals the parameter index. Does NOT decide the signature grammar (ParseMxFunctionParameters state machine), what ConvertGoType accepts, nor interactive prompting.", runC23)
}

const (
	c23FuncDetailsT = modPath + "/lang.murexFuncDetails"
	c23FuncParamT   = modPath + "/lang.MurexFuncParam"
)

// c23ElemField: v is (a load of) field F of element [idx] of recv.Parameters;
// returns F and idx. Recognised shapes: *(&(*(&recv.Parameters))[idx].F) and the
// value forms through a copied element.
func c23ElemField(v ssa.Value, recv ssa.Value) (field string, idx ssa.Value, ok bool) {
	var elemOf func(e ssa.Value) (ssa.Value, bool)
	elemOf = func(e ssa.Value) (ssa.Value, bool) {
		switch x := e.(type) {
		case *ssa.IndexAddr:
			if a, ok := c21Load(x.X); ok {
				if b, ow, f, ok := c21Field(a); ok && ow == c23FuncDetailsT && f == "Parameters" && c21Origin(b) == recv {
					return x.Index, true
				}
			}
		case *ssa.UnOp:
			if a, ok := c21Load(x); ok {
				return elemOf(a)
			}
		case *ssa.Alloc:
			// `param := mfd.Parameters[i]` / `for i, param := range mfd.Parameters` with
			// the copy's address taken: a cell initialised once with the element
			if src := c23CopiedFrom(x); src != nil {
				return elemOf(src)
			}
		}
		return nil, false
	}
	if a, isLoad := c21Load(v); isLoad {
		v = a
	}
	b, ow, f, isF := c21Field(v)
	if !isF || ow != c23FuncParamT {
		return "", nil, false
	}
	i, ok := elemOf(b)
	return f, i, ok
}

// c23Elem: v is &recv.Parameters[idx] (receiver of promptParameters).
func c23Elem(v ssa.Value, recv ssa.Value) (ssa.Value, bool) {
	if al, isAlloc := v.(*ssa.Alloc); isAlloc {
		// address of a local copy of the element
		if src := c23CopiedFrom(al); src != nil {
			if a, ok := c21Load(src); ok {
				return c23Elem(a, recv)
			}
		}
		return nil, false
	}
	ia, ok := v.(*ssa.IndexAddr)
	if !ok {
		return nil, false
	}
	if a, ok := c21Load(ia.X); ok {
		if b, ow, f, ok := c21Field(a); ok && ow == c23FuncDetailsT && f == "Parameters" && c21Origin(b) == recv {
			return ia.Index, true
		}
	}
	return nil, false
}

func runC23(c *Ctx) {
	c.Load("lang")
	pk := c.Pkg("lang")
	if pk == nil {
		c.Lost("R23a", "pkg:lang", "package lang not loaded")
		return
	}
	c.SSAPkg("lang")
	c.Rule("R23a", "executeProcess, function arm: fork.Execute(fn.Block) is reachable only through the `castParameters(...) == nil` edge; castParameters's receiver is the looked-up function fn and its argument is the process of the fork that executes fn.Block; fork.Parameters.CopyFrom(&p.Parameters) dominates castParameters")
	c.Rule("R23b", "castParameters decision table: for every path of the loop body and every valuation of the atoms it leaves open — argument present ⇒ convert the argument; missing ∧ Optional ∧ HasDefault ⇒ convert the declared Default; missing ∧ Optional ∧ ¬HasDefault ⇒ no conversion, no Set, next parameter; missing ∧ ¬Optional ∧ Background ⇒ error; missing ∧ ¬Optional ∧ ¬Background ⇒ prompt (prompt error ⇒ error, else convert the prompted text); conversion error ⇒ error before Set; Set error ⇒ error; otherwise next parameter; after the last parameter return nil")
	c.Rule("R23c", "castParameters bindings: ConvertGoType's type argument is the DataType of the same parameter; Variables.Set is called on the callee process's own table with that parameter's Name, the converted value and its DataType; p.Parameters.String is asked for the same index as the parameter being cast")

	c.c23ExecuteArm(pk)
	c.c23CastTable(pk)
}

// ---------------------------------------------------------------- R23a

func (c *Ctx) c23ExecuteArm(pk interface{}) {
	fd, lpk := c.MustFunc("R23a", "lang", "", "executeProcess")
	if fd == nil {
		return
	}
	fn := c.SSAFunc(lpk, fd)
	if fn == nil {
		c.Lost("R23a", "ssa:executeProcess", "no SSA for executeProcess")
		return
	}
	proc := c21ParamOfType(fn, c21ProcessT)
	nCast := 0
	for _, b := range fn.Blocks {
		for _, in := range b.Instrs {
			cast, ok := in.(*ssa.Call)
			if !ok || !c21IsCallTo(cast, mx("lang"), "murexFuncDetails", "castParameters") {
				continue
			}
			nCast++
			sfx := ""
			if nCast > 1 {
				sfx = fmt.Sprintf("#%d", nCast)
			}
			args := c21CallArgs(cast)
			fnDetails := args[0]
			// argument: *(&fork.Process)
			var fork ssa.Value
			if a, ok := c21Load(args[1]); ok {
				if bse, ow, f, ok := c21Field(a); ok && ow == mx("lang")+".Fork" && f == "Process" {
					fork = bse
				}
			}
			if fork == nil {
				c.Viol("R23a", "cast:on-fork-process"+sfx, cast.Pos(), "castParameters is applied to %s, not to the process of a fork — the parameters would be bound in the caller's variable table instead of the function's own scope", c21Desc(args[1]))
				continue
			}
			forkCall, isFork := fork.(*ssa.Call)
			c.Check(isFork && c21IsCallTo(forkCall, mx("lang"), "Process", "Fork") && c21Origin(c21CallArgs(forkCall)[0]) == ssa.Value(proc), "R23a", "cast:on-fork-process"+sfx, cast.Pos(), "castParameters binds into the process of p.Fork(...)")
			// fn comes from MxFunctions.get / PrivateFunctions.get
			getCall, isGet := fnDetails.(*ssa.Call)
			c.Check(isGet && (c21IsCallTo(getCall, mx("lang"), "MurexFuncs", "get") || c21IsCallTo(getCall, mx("lang"), "privateFunctions", "get")), "R23a", "cast:receiver-is-looked-up-function"+sfx, cast.Pos(), "castParameters's receiver is the function looked up for the resolved name (%s)", c21Desc(fnDetails))

			// Execute calls on the same fork
			nExec := 0
			for _, b2 := range fn.Blocks {
				for _, in2 := range b2.Instrs {
					ex, ok := in2.(*ssa.Call)
					if !ok || !c21IsCallTo(ex, mx("lang"), "Fork", "Execute") || c21CallArgs(ex)[0] != fork {
						continue
					}
					nExec++
					key := "execute:guarded-by-cast-ok" + sfx
					if nExec > 1 {
						key += fmt.Sprintf("#%d", nExec)
					}
					guarded := c21GuardedBy(ex.Block(), func(cond ssa.Value, truth bool) bool {
						bo, ok := cond.(*ssa.BinOp)
						if !ok || (bo.Op != token.EQL && bo.Op != token.NEQ) {
							return false
						}
						var other ssa.Value
						switch {
						case c21IsNilConst(bo.Y):
							other = bo.X
						case c21IsNilConst(bo.X):
							other = bo.Y
						default:
							return false
						}
						return other == ssa.Value(cast) && (bo.Op == token.EQL) == truth
					})
					c.Check(guarded, "R23a", key, ex.Pos(), "the function body fork.Execute(...) runs only on the castParameters(...) == nil edge — otherwise an argument that cannot be converted (`f abc` for `x: int`) does not fail the call before the body runs")
					// the block executed is fn.Block of the same fn
					okBlock := false
					if a, ok := c21Load(c21CallArgs(ex)[1]); ok {
						if bse, ow, f, ok := c21Field(a); ok && ow == c23FuncDetailsT && f == "Block" && bse == fnDetails {
							okBlock = true
						}
					}
					c.Check(okBlock, "R23a", "execute:block-of-cast-function"+sfx, ex.Pos(), "the block that runs is the Block of the function whose parameters were cast")
				}
			}
			if nExec == 0 {
				c.Viol("R23a", "execute:guarded-by-cast-ok"+sfx, cast.Pos(), "no fork.Execute on the fork whose parameters are cast — the function body never runs with the bound parameters")
			}
			// CopyFrom dominates cast
			okCopy := false
			for _, b2 := range fn.Blocks {
				for i2, in2 := range b2.Instrs {
					cp, ok := in2.(*ssa.Call)
					if !ok || !c21IsCallTo(cp, mx("lang/parameters"), "Parameters", "CopyFrom") {
						continue
					}
					a := c21CallArgs(cp)
					dstB, dow, df, ok1 := c21Field(a[0])
					srcB, sow, sf, ok2 := c21Field(a[1])
					if !ok1 || !ok2 || dow != c21ProcessT || sow != c21ProcessT || df != "Parameters" || sf != "Parameters" {
						continue
					}
					if c21Origin(srcB) != ssa.Value(proc) {
						continue
					}
					la, ok := c21Load(dstB)
					if !ok {
						continue
					}
					if fb, ow, f, ok := c21Field(la); !ok || ow != mx("lang")+".Fork" || f != "Process" || fb != fork {
						continue
					}
					dom := b2 != cast.Block() && b2.Dominates(cast.Block())
					if b2 == cast.Block() {
						for j := i2; j < len(b2.Instrs); j++ {
							if b2.Instrs[j] == ssa.Instruction(cast) {
								dom = true
							}
						}
					}
					if dom {
						okCopy = true
					}
				}
			}
			c.Check(okCopy, "R23a", "cast:after-parameters-copied"+sfx, cast.Pos(), "fork.Parameters.CopyFrom(&p.Parameters) happens before castParameters on every path — otherwise every argument looks missing and is defaulted/prompted instead of bound")
		}
	}
	c.MinCount("R23a", "castParameters calls in executeProcess", nCast, 1)
}

// ---------------------------------------------------------------- R23b / R23c

type c23Atoms struct {
	names []string // E Opt Def Bg PE CE SE
}

var c23AtomNames = []string{"missing", "Optional", "HasDefault", "Background", "promptErr", "convertErr", "setErr"}

// c23Expected: the outcome the property's table prescribes for a valuation.
func c23Expected(a map[string]bool) string {
	var src string
	switch {
	case !a["missing"]:
		src = "argument"
	case a["Optional"] && a["HasDefault"]:
		src = "default"
	case a["Optional"]:
		return "skip;next"
	case a["Background"]:
		return "error"
	default:
		if a["promptErr"] {
			return "prompt;error"
		}
		src = "prompt;prompted"
	}
	if a["convertErr"] {
		return "convert(" + src + ");error"
	}
	if a["setErr"] {
		return "convert(" + src + ");set;error"
	}
	return "convert(" + src + ");set;next"
}

func (c *Ctx) c23CastTable(_ interface{}) {
	fd, lpk := c.MustFunc("R23b", "lang", "murexFuncDetails", "castParameters")
	if fd == nil {
		return
	}
	fn := c.SSAFunc(lpk, fd)
	if fn == nil {
		c.Lost("R23b", "ssa:castParameters", "no SSA for castParameters")
		return
	}
	c21Dump(fn)
	recv := ssa.Value(fn.Params[0])
	proc := c21ParamOfType(fn, c21ProcessT)
	if proc == nil {
		c.Lost("R23b", "castParameters:param", "castParameters has no *Process parameter")
		return
	}
	// anchor: p.Parameters.String(idx)
	var strCall *ssa.Call
	nStr := 0
	for _, b := range fn.Blocks {
		for _, in := range b.Instrs {
			if call, ok := in.(*ssa.Call); ok && c21IsCallTo(call, mx("lang/parameters"), "Parameters", "String") {
				if bse, ow, f, ok := c21Field(c21CallArgs(call)[0]); ok && ow == c21ProcessT && f == "Parameters" && c21Origin(bse) == ssa.Value(proc) {
					strCall = call
					nStr++
				}
			}
		}
	}
	if nStr != 1 {
		c.Lost("R23b", "castParameters:String", "castParameters reads the callee's parameters with p.Parameters.String(i) %d times (expected once per loop iteration) — anchor moved", nStr)
		return
	}
	idx := c21CallArgs(strCall)[1]
	argVal := c21Extract(strCall, 0)
	argErr := c21Extract(strCall, 1)
	if argErr == nil {
		c.Viol("R23b", "castParameters:String:err", strCall.Pos(), "the error of p.Parameters.String(i) is discarded — a missing argument is bound as the empty string instead of default / prompt / error")
		return
	}
	// loop header: block of the φ behind idx
	var hdr *ssa.BasicBlock
	var findPhi func(v ssa.Value, d int)
	findPhi = func(v ssa.Value, d int) {
		if hdr != nil || d > 3 {
			return
		}
		switch x := v.(type) {
		case *ssa.Phi:
			hdr = x.Block()
		case *ssa.BinOp:
			findPhi(x.X, d+1)
			findPhi(x.Y, d+1)
		}
	}
	findPhi(idx, 0)
	if hdr == nil {
		c.Undecided("R23b", "castParameters:loop", strCall.Pos(), "the index passed to p.Parameters.String is not a loop counter (%s)", c21Desc(idx))
		return
	}
	// the loop ranges over recv.Parameters: bound is len(recv.Parameters)
	boundOK := false
	for _, in := range hdr.Instrs {
		if bo, ok := in.(*ssa.BinOp); ok && bo.Op == token.LSS {
			if call, ok := bo.Y.(*ssa.Call); ok {
				if bi, ok := call.Common().Value.(*ssa.Builtin); ok && bi.Name() == "len" {
					if a, ok := c21Load(call.Common().Args[0]); ok {
						if b, ow, f, ok := c21Field(a); ok && ow == c23FuncDetailsT && f == "Parameters" && c21Origin(b) == recv {
							boundOK = true
						}
					}
				}
			}
		}
	}
	c.Check(boundOK, "R23b", "castParameters:loop-over-all-declared", strCall.Pos(), "the loop visits every declared parameter (index < len(mfd.Parameters))")
	// after the loop: return nil
	for _, b := range fn.Blocks {
		if r, ok := b.Instrs[len(b.Instrs)-1].(*ssa.Return); ok && len(b.Preds) == 1 && b.Preds[0] == hdr {
			c.Check(c21IsNilConst(r.Results[0]), "R23b", "castParameters:done-returns-nil", r.Pos(), "after the last parameter castParameters returns nil (so the body runs)")
		}
	}

	// ---- atoms
	classify := func(p *c21Path, f c21Fact) (atom string, val bool, ok bool) {
		if isNil, is := c21NilTestOf(p, f, argErr); is {
			return "missing", !isNil, true
		}
		cond := f.Cond
		if fld, i, is := c23ElemField(cond, recv); is && i == idx {
			switch fld {
			case "Optional":
				return "Optional", f.True, true
			case "HasDefault":
				return "HasDefault", f.True, true
			}
		}
		if call, is := cond.(*ssa.Call); is && c21IsCallTo(call, mx("lang/process"), "AtomicBool", "Get") {
			if bse, ow, fl, ok := c21Field(c21CallArgs(call)[0]); ok && ow == c21ProcessT && fl == "Background" && c21Origin(bse) == ssa.Value(proc) {
				return "Background", f.True, true
			}
		}
		if bo, is := cond.(*ssa.BinOp); is && (bo.Op == token.NEQ || bo.Op == token.EQL) && (c21IsNilConst(bo.X) || c21IsNilConst(bo.Y)) {
			other := bo.X
			if c21IsNilConst(bo.X) {
				other = bo.Y
			}
			other = p.R(other)
			nonNil := (bo.Op == token.NEQ) == f.True
			if ex, is := other.(*ssa.Extract); is {
				if call, is := ex.Tuple.(*ssa.Call); is {
					switch {
					case c21IsCallTo(call, mx("lang"), "MurexFuncParam", "promptParameters"):
						return "promptErr", nonNil, true
					case c21IsCallTo(call, mx("lang/types"), "", "ConvertGoType"):
						return "convertErr", nonNil, true
					}
				}
			}
			if call, is := other.(*ssa.Call); is && c21IsCallTo(call, mx("lang"), "Variables", "Set") {
				return "setErr", nonNil, true
			}
		}
		return "", false, false
	}

	paths, overflow := c21PathsFrom(strCall, c21PathOpts{StopAt: func(b *ssa.BasicBlock) bool { return b == hdr }, Limit: 256})
	if overflow || len(paths) == 0 {
		c.Undecided("R23b", "castParameters:paths", strCall.Pos(), "cannot enumerate the paths of castParameters' loop body (%d paths)", len(paths))
		return
	}
	keys := c21KeySet{}
	nConv, nSet := 0, 0
	seenConv := map[*ssa.Call]bool{}
	seenSet := map[*ssa.Call]bool{}
	for _, p := range paths {
		known := map[string]bool{}
		knownAt := map[string]int{}
		var unknownConds []string
		infeasible := false
		for _, f := range p.Facts {
			a, v, ok := classify(p, f)
			if !ok {
				unknownConds = append(unknownConds, c21Desc(f.Cond))
				continue
			}
			at := c23InstrIndex(p, f.Cond)
			if prev, seen := known[a]; seen && prev != v && (a == "Optional" || a == "HasDefault") {
				// the declaration field is read twice (`if Optional && HasDefault {…}; if Optional {…}`)
				// and the two reads disagree: impossible unless something in between may have
				// written it (store / call) — such a path does not exist at run time
				if !c23MayWriteBetween(p, knownAt[a], at) {
					infeasible = true
					break
				}
			}
			known[a] = v
			knownAt[a] = at
		}
		if infeasible {
			continue
		}
		var fs []string
		for _, n := range c23AtomNames {
			if v, ok := known[n]; ok {
				if v {
					fs = append(fs, n)
				} else {
					fs = append(fs, "¬"+n)
				}
			}
		}
		key := keys.uniq("castParameters:path[" + strings.Join(fs, " ∧ ") + "]")
		pos := strCall.Pos()
		if len(unknownConds) > 0 {
			c.Undecided("R23b", key, pos, "a path of castParameters branches on %s, which is not one of the conditions of the parameter table {argument missing, Optional, HasDefault, Background, prompt/convert/Set error} — the table cannot be compared", strings.Join(unknownConds, "; "))
			continue
		}
		// ---- observed outcome of the path
		var ev []string
		var convCall *ssa.Call
		for _, in := range p.Instrs {
			call, ok := in.(*ssa.Call)
			if !ok {
				continue
			}
			switch {
			case c21IsCallTo(call, mx("lang"), "MurexFuncParam", "promptParameters"):
				if i, ok := c23Elem(c21CallArgs(call)[0], recv); ok && i == idx {
					ev = append(ev, "prompt")
				} else {
					ev = append(ev, "prompt(other parameter)")
				}
			case c21IsCallTo(call, mx("lang/types"), "", "ConvertGoType"):
				convCall = call
				if !seenConv[call] {
					seenConv[call] = true
					nConv++
				}
				v := p.R(c21CallArgs(call)[0])
				if mi, ok := v.(*ssa.MakeInterface); ok {
					v = p.R(mi.X)
				}
				src := "?" + c21Desc(v)
				switch {
				case argVal != nil && v == argVal:
					src = "argument"
				default:
					if ex, ok := v.(*ssa.Extract); ok && ex.Index == 0 {
						if pc, ok := ex.Tuple.(*ssa.Call); ok && c21IsCallTo(pc, mx("lang"), "MurexFuncParam", "promptParameters") {
							src = "prompted"
						}
					}
					if fld, i, ok := c23ElemField(v, recv); ok && i == idx && fld == "Default" {
						src = "default"
					}
				}
				if len(ev) > 0 && ev[len(ev)-1] == "prompt" && src == "prompted" {
					ev[len(ev)-1] = "convert(prompt;prompted)"
				} else {
					ev = append(ev, "convert("+src+")")
				}
			case c21IsCallTo(call, mx("lang"), "Variables", "Set"):
				if !seenSet[call] {
					seenSet[call] = true
					nSet++
				}
				if convCall != nil && p.R(c21CallArgs(call)[3]) == c21Extract(convCall, 0) {
					ev = append(ev, "set")
				} else {
					ev = append(ev, "set(unconverted value)")
				}
			}
		}
		switch {
		case p.Stop == hdr && !p.Cycle:
			ev = append(ev, "next")
		case p.End != nil:
			if _, isRet := p.End.(*ssa.Return); isRet {
				nn, _ := p.ReturnsNonNil(0, nil)
				switch nn {
				case "nonnil":
					ev = append(ev, "error")
				case "nil":
					ev = append(ev, "return-nil")
				default:
					ev = append(ev, "return-unknown")
				}
			} else {
				ev = append(ev, "panic")
			}
		default:
			ev = append(ev, "loops")
		}
		observed := strings.Join(ev, ";")
		if len(ev) == 1 && ev[0] == "next" {
			observed = "skip;next"
		}
		// ---- compare with every completion of the open atoms
		var open []string
		for _, n := range c23AtomNames {
			if _, ok := known[n]; !ok {
				open = append(open, n)
			}
		}
		var bad []string
		for m := 0; m < 1<<len(open); m++ {
			val := map[string]bool{}
			for k, v := range known {
				val[k] = v
			}
			for i, n := range open {
				val[n] = m&(1<<i) != 0
			}
			if want := c23Expected(val); want != observed {
				var vs []string
				for _, n := range c23AtomNames {
					if val[n] {
						vs = append(vs, n)
					}
				}
				bad = append(bad, fmt.Sprintf("{%s} ⇒ table says %q", strings.Join(vs, ","), want))
			}
		}
		if len(bad) == 0 {
			c.OK("R23b", key, pos, "path does %q — agrees with the table for all %d valuations it covers", observed, 1<<len(open))
			continue
		}
		sort.Strings(bad)
		first := bad[0]
		// prefer the smallest counter-example that mentions the fewest atoms
		for _, b := range bad {
			if strings.Count(b, ",") < strings.Count(first, ",") {
				first = b
			}
		}
		c.Viol("R23b", key, pos, "castParameters: on the path [%s] the function does %q, but for %d of the %d parameter situations that take this path the property's table prescribes something else, e.g. %s", strings.Join(fs, " ∧ "), observed, len(bad), 1<<len(open), first)
	}
	c.MinCount("R23b", "paths through castParameters' loop body", len(paths), 8)

	// ---- R23c bindings
	c.Check(true, "R23c", "castParameters:argument-index", strCall.Pos(), "p.Parameters.String is asked for index %s", c21Desc(idx))
	for call := range seenConv {
		fld, i, ok := c23ElemField(c21CallArgs(call)[1], recv)
		c.Check(ok && fld == "DataType" && i == idx, "R23c", c21KeySetGlobal.uniq("castParameters:convert:type=declared"), call.Pos(), "ConvertGoType converts to the DataType declared for the parameter whose argument was read (type argument is %s)", c21Desc(c21CallArgs(call)[1]))
	}
	for call := range seenSet {
		a := c21CallArgs(call)
		// receiver: *(&p.Variables), first arg p
		okScope := false
		if la, ok := c21Load(a[0]); ok {
			if bse, ow, f, ok := c21Field(la); ok && ow == c21ProcessT && f == "Variables" && c21Origin(bse) == ssa.Value(proc) && c21Origin(a[1]) == ssa.Value(proc) {
				okScope = true
			}
		}
		c.Check(okScope, "R23c", c21KeySetGlobal.uniq("castParameters:set:scope"), call.Pos(), "the variable is set in the variable table of the process castParameters was given (the function's own scope)")
		fld, i, ok := c23ElemField(a[2], recv)
		c.Check(ok && fld == "Name" && i == idx, "R23c", c21KeySetGlobal.uniq("castParameters:set:name=declared"), call.Pos(), "the variable name is the Name declared for this parameter (is %s)", c21Desc(a[2]))
		fld, i, ok = c23ElemField(a[4], recv)
		c.Check(ok && fld == "DataType" && i == idx, "R23c", c21KeySetGlobal.uniq("castParameters:set:type=declared"), call.Pos(), "the variable's data type is the DataType declared for this parameter (is %s)", c21Desc(a[4]))
	}
	c.MinCount("R23c", "ConvertGoType calls in castParameters", nConv, 1)
	c.MinCount("R23c", "Variables.Set calls in castParameters", nSet, 1)
	// every element access in the function uses idx
	nAcc, okAcc := 0, true
	for _, b := range fn.Blocks {
		for _, in := range b.Instrs {
			if ia, ok := in.(*ssa.IndexAddr); ok {
				if i, ok := c23Elem(ia, recv); ok {
					nAcc++
					if i != idx {
						okAcc = false
						c.Viol("R23c", "castParameters:element-index", ia.Pos(), "mfd.Parameters is indexed with %s while the argument is read at index %s — argument k would be bound to the declaration of another parameter", c21Desc(i), c21Desc(idx))
					}
				}
			}
		}
	}
	if okAcc {
		c.OK("R23c", "castParameters:element-index", strCall.Pos(), "all %d accesses to mfd.Parameters[...] use the index of the argument being read", nAcc)
	}
	// one access is enough: `param := &mfd.Parameters[i]` serves every later use
	c.MinCount("R23c", "accesses to mfd.Parameters[i]", nAcc, 1)
}

// c23InstrIndex: position on the path of the instruction that computes v (-1 when
// v is not an instruction of the path).
func c23InstrIndex(p *c21Path, v ssa.Value) int {
	in, ok := v.(ssa.Instruction)
	if !ok {
		return -1
	}
	for i, x := range p.Instrs {
		if x == in {
			return i
		}
	}
	return -1
}

// c23MayWriteBetween: some instruction strictly between positions i and j of the
// path may write memory (store, map update, any call). Unknown positions count
// as "may write".
func c23MayWriteBetween(p *c21Path, i, j int) bool {
	if i < 0 || j < 0 || i > j {
		return true
	}
	for _, in := range p.Instrs[i+1 : j] {
		switch in.(type) {
		case *ssa.Store, *ssa.MapUpdate, ssa.CallInstruction, *ssa.Send:
			return true
		}
	}
	return false
}

// c23CopiedFrom: the local cell al is written exactly once, as a whole, and none
// of its fields is assigned — returns the value it was initialised with.
func c23CopiedFrom(al *ssa.Alloc) ssa.Value {
	refs := al.Referrers()
	if refs == nil {
		return nil
	}
	var stored ssa.Value
	n := 0
	for _, r := range *refs {
		switch x := r.(type) {
		case *ssa.Store:
			if x.Addr == ssa.Value(al) {
				n++
				stored = x.Val
			}
		case *ssa.FieldAddr:
			if fr := x.Referrers(); fr != nil {
				for _, rr := range *fr {
					if st, ok := rr.(*ssa.Store); ok && st.Addr == ssa.Value(x) {
						return nil
					}
				}
			}
		}
	}
	if n != 1 {
		return nil
	}
	return stored
}
