package main

import (
	"go/ast"
	"go/types"
)

// R22e — "an alias is expanded exactly once": executeProcess sets its "already
// expanded" flag after ONE call of GlobalAliases.Get (R22b/R22c). That only means one
// expansion if Get itself answers with the definition stored under that name and
// nothing more. A Get that follows the first word through the table again expands
// aliases behind the guard's back (and can loop on a cycle, holding the table lock).
func init() {
	extend("C22", func(c *Ctx) {
		c.Rule("R22e", "(*Aliases).Get: the alias table is indexed exactly once, with the name parameter; the function contains no loop; every non-nil return is the definition field of that one entry (directly or through a single-definition local)")
		fd, pk := c.MustFunc("R22e", "lang", "Aliases", "Get")
		if fd == nil {
			return
		}
		info := pk.TypesInfo
		defs := localDefs(info, fd.Body)
		var param types.Object
		if fd.Type.Params != nil && len(fd.Type.Params.List) == 1 && len(fd.Type.Params.List[0].Names) == 1 {
			param = info.Defs[fd.Type.Params.List[0].Names[0]]
		}
		nIdx, badKey, loops := 0, "", 0
		var entry types.Object
		ast.Inspect(fd.Body, func(nd ast.Node) bool {
			switch x := nd.(type) {
			case *ast.ForStmt, *ast.RangeStmt:
				loops++
			case *ast.IndexExpr:
				if _, isMap := info.TypeOf(x.X).Underlying().(*types.Map); isMap {
					nIdx++
					// the name parameter, directly or through a single-definition local (`key := name`)
					if id, ok := defs.resolve1(info, x.Index).(*ast.Ident); !ok || info.ObjectOf(id) != param {
						badKey = c.src(x.Index)
					}
				}
			case *ast.AssignStmt:
				if len(x.Rhs) == 1 {
					if ix, ok := unparen(x.Rhs[0]).(*ast.IndexExpr); ok {
						if _, isMap := info.TypeOf(ix.X).Underlying().(*types.Map); isMap {
							if id, ok := x.Lhs[0].(*ast.Ident); ok {
								entry = info.ObjectOf(id)
							}
						}
					}
				}
			}
			return true
		})
		c.Check(nIdx == 1 && badKey == "" && loops == 0, "R22e", "Aliases.Get:one-lookup", fd.Pos(), "Get looks the table up once, by its parameter, without a loop (lookups: %d, foreign key: %q, loops: %d) — following the expansion's first word through the table again would expand more than one alias per command", nIdx, badKey, loops)
		n, bad := 0, ""
		ast.Inspect(fd.Body, func(nd ast.Node) bool {
			rs, ok := nd.(*ast.ReturnStmt)
			if !ok || len(rs.Results) != 1 {
				return true
			}
			r := unparen(rs.Results[0])
			if isNilIdent(info, r) {
				return true
			}
			n++
			r = defs.resolve1(info, r)
			se, ok := unparen(r).(*ast.SelectorExpr)
			if !ok {
				bad = c.src(rs)
				return true
			}
			switch b := unparen(se.X).(type) {
			case *ast.Ident:
				if entry == nil || info.ObjectOf(b) != entry {
					bad = c.src(rs)
				}
			case *ast.IndexExpr:
				// a.aliases[name].Alias directly
			default:
				bad = c.src(rs)
			}
			return true
		})
		c.Check(n >= 1 && bad == "", "R22e", "Aliases.Get:returns-the-stored-definition", fd.Pos(), "every non-nil return of Get is a field of the looked-up entry (offending: %q)", bad)
	})
}
