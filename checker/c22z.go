package main

import (
	"go/ast"
	"go/types"
)

// R22f — the existence test of the alias table is the membership test and nothing else.
// executeProcess / the autocompleter / `alias` itself ask Exists(name) before Get(name): an
// Exists that answers "no" for some stored aliases (self-referential ones, empty ones, names
// of a certain shape) makes those aliases silently never expand — their extra parameters are
// lost — while `alias` still lists them. Structural condition: every value Exists returns is
// the comma-ok of ONE lookup of the table by the name parameter (or a boolean constant equal
// to what that comma-ok is known to be at the return).
func init() {
	extend("C22", func(c *Ctx) {
		c.Rule("R22f", "(*Aliases).Exists(name) ⇔ name is a key of the table: the table is indexed once, by the parameter; every returned value is that lookup's comma-ok (directly, through the named result, or as a constant that the guards at the return prove equal to it); no other value is assigned to it")
		fd, pk := c.MustFunc("R22f", "lang", "Aliases", "Exists")
		if fd == nil {
			return
		}
		info := pk.TypesInfo
		defs := localDefs(info, fd.Body)
		var param types.Object
		if fd.Type.Params != nil && len(fd.Type.Params.List) == 1 && len(fd.Type.Params.List[0].Names) == 1 {
			param = info.ObjectOf(fd.Type.Params.List[0].Names[0])
		}
		var named types.Object
		if fd.Type.Results != nil && len(fd.Type.Results.List) == 1 && len(fd.Type.Results.List[0].Names) == 1 {
			named = info.ObjectOf(fd.Type.Results.List[0].Names[0])
		}
		var okObj types.Object
		nIdx, badKey, nAssign := 0, "", 0
		isTableIdx := func(e ast.Expr) (*ast.IndexExpr, bool) {
			ix, ok := unparen(e).(*ast.IndexExpr)
			if !ok {
				return nil, false
			}
			_, isMap := info.TypeOf(ix.X).Underlying().(*types.Map)
			return ix, isMap
		}
		ast.Inspect(fd.Body, func(nd ast.Node) bool {
			switch x := nd.(type) {
			case *ast.IndexExpr:
				if ix, ok := isTableIdx(x); ok {
					nIdx++
					if id, ok := defs.resolve1(info, ix.Index).(*ast.Ident); !ok || info.ObjectOf(id) != param {
						badKey = c.src(ix.Index)
					}
				}
			case *ast.AssignStmt:
				if len(x.Lhs) == 2 && len(x.Rhs) == 1 {
					if _, ok := isTableIdx(x.Rhs[0]); ok {
						if id, ok := x.Lhs[1].(*ast.Ident); ok && id.Name != "_" {
							okObj = info.ObjectOf(id)
						}
					}
				}
			}
			return true
		})
		if okObj != nil {
			ast.Inspect(fd.Body, func(nd ast.Node) bool {
				switch x := nd.(type) {
				case *ast.AssignStmt:
					for _, l := range x.Lhs {
						if id, ok := l.(*ast.Ident); ok && info.ObjectOf(id) == okObj {
							nAssign++
						}
					}
				case *ast.UnaryExpr:
					if id, ok := unparen(x.X).(*ast.Ident); ok && x.Op.String() == "&" && info.ObjectOf(id) == okObj {
						nAssign += 2
					}
				}
				return true
			})
		}
		c.Check(nIdx == 1 && badKey == "" && okObj != nil && nAssign == 1, "R22f", "Aliases.Exists:one-lookup", fd.Pos(), "Exists looks the table up once, by its parameter, and keeps the comma-ok (lookups: %d, foreign key: %q, comma-ok bound: %v, assignments to it: %d)", nIdx, badKey, okObj != nil, nAssign)
		if okObj == nil {
			return
		}
		n, bad := 0, ""
		walkStack(fd.Body, func(nd ast.Node, stack []ast.Node) bool {
			if _, isLit := nd.(*ast.FuncLit); isLit {
				return false
			}
			rs, ok := nd.(*ast.ReturnStmt)
			if !ok {
				return true
			}
			n++
			if len(rs.Results) == 0 {
				if named == nil || named != okObj {
					bad = "bare return of a result that is not the comma-ok"
				}
				return true
			}
			r := defs.resolve1(info, unparen(rs.Results[0]))
			if id, ok := unparen(r).(*ast.Ident); ok && info.ObjectOf(id) == okObj {
				return true
			}
			if b, ok := constBool(info, r); ok {
				for _, f := range factsOf(guardsAt(info, append(stack, nd))) {
					if id, ok := unparen(f.E).(*ast.Ident); ok && info.ObjectOf(id) == okObj && f.True == b {
						return true
					}
				}
			}
			bad = c.src(rs)
			return true
		})
		c.Check(n >= 1 && bad == "", "R22f", "Aliases.Exists:returns-membership", fd.Pos(), "every return of Exists yields the lookup's comma-ok (offending: %q) — an alias that is stored but reported absent is never expanded", bad)
	})
}
