package main

import (
	"fmt"
	"os"
	"time"
)

var c24T0 = time.Now()

func c24Tick(what string) {
	if os.Getenv("MUREXLINT_TIMING") != "" {
		fmt.Fprintf(os.Stderr, "timing %-30s %6.1fs\n", what, time.Since(c24T0).Seconds())
	}
}
