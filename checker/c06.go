package main

// C06 — arithmetic / comparison precedence in lang/expressions.
// Shared SSA helpers (prefix c06) are also used by c07.go.

import (
	"fmt"
	"go/ast"
	"go/constant"
	"go/token"
	"go/types"
	"os"
	"sort"
	"strings"

	"golang.org/x/tools/go/packages"
	"golang.org/x/tools/go/ssa"
)

func init() {
	register("C06", "Decides (structurally) for lang/expressions: every operator constant is dispatched (R06a); the precedence classes that the constant values of symbols.Exp and orderOfOperations induce are the C ones, passes run in table order and a pass skips exactly the lower-precedence operators (R06b); each operator's case reaches a handler that computes that operator on (left,right) in that order, through helpers that preserve operand order, and folds the result with the right primitive (R06c); the fold loop scans left to right and restarts after each fold (R06d); foldAst replaces exactly operand-operator-operand by the result for every list length/position up to 8 (R06e); numeric literals are parsed as 64 bit floats (R06f); the tokenizer maps each operator spelling to its constant (R06g). Does NOT decide IEEE results, number formatting, or the string/number coercion rules of compareTypes.", runC06)
}

const c06ExprPkg = "lang/expressions"
const c06SymPkg = "lang/expressions/symbols"
const c06PrimPkg = "lang/expressions/primitives"

// ---------------------------------------------------------------- SSA helpers

func c06Dump(c *Ctx, env string) {
	d := os.Getenv(env)
	if d == "" {
		return
	}
	for _, name := range strings.Split(d, ",") {
		pkg := c06ExprPkg
		if i := strings.LastIndex(name, ":"); i >= 0 {
			pkg, name = name[:i], name[i+1:]
		}
		recv := ""
		if i := strings.Index(name, "."); i >= 0 {
			recv, name = name[:i], name[i+1:]
		}
		fd, pk := c.FuncDecl(pkg, recv, name)
		if fd == nil {
			fmt.Println("no func", name)
			continue
		}
		c.SSAFunc(pk, fd).WriteTo(os.Stdout)
	}
}

// c06StaticCallee: the statically known callee of a call value.
func c06StaticCallee(v ssa.Value) (*ssa.Call, *ssa.Function) {
	call, ok := v.(*ssa.Call)
	if !ok {
		return nil, nil
	}
	return call, call.Call.StaticCallee()
}

func c06FnIs(fn *ssa.Function, pkgRel, recv, name string) bool {
	if fn == nil || fn.Object() == nil {
		return false
	}
	return objIs(fn.Object(), mx(pkgRel), recv, name)
}

// c06CallTo: v is a call whose static callee is pkgRel.[recv.]name
func c06CallTo(v ssa.Value, pkgRel, recv, name string) *ssa.Call {
	call, fn := c06StaticCallee(v)
	if call != nil && c06FnIs(fn, pkgRel, recv, name) {
		return call
	}
	return nil
}

// c06Extract: v = extract <call> #idx
func c06Extract(v ssa.Value) (*ssa.Call, int, bool) {
	ex, ok := v.(*ssa.Extract)
	if !ok {
		return nil, 0, false
	}
	call, ok := ex.Tuple.(*ssa.Call)
	if !ok {
		return nil, 0, false
	}
	return call, ex.Index, true
}

func c06StripIface(v ssa.Value) ssa.Value {
	for {
		switch x := v.(type) {
		case *ssa.MakeInterface:
			v = x.X
		case *ssa.ChangeInterface:
			v = x.X
		default:
			return v
		}
	}
}

// c06Slice computes the backward data slice of v (operands only, never into
// callee bodies) and returns the roots: parameters and values for which stop()
// holds. unknown collects constructs the slice cannot see through.
type c06SliceRes struct {
	Roots   map[ssa.Value]bool
	Unknown []string
}

func c06Slice(v ssa.Value, stop func(ssa.Value) bool) *c06SliceRes {
	res := &c06SliceRes{Roots: map[ssa.Value]bool{}}
	seen := map[ssa.Value]bool{}
	var walk func(v ssa.Value)
	walk = func(v ssa.Value) {
		if v == nil || seen[v] {
			return
		}
		seen[v] = true
		if stop != nil && stop(v) {
			res.Roots[v] = true
			return
		}
		switch x := v.(type) {
		case *ssa.Parameter:
			res.Roots[v] = true
			return
		case *ssa.Const, *ssa.Global, *ssa.Function, *ssa.Builtin:
			return
		case *ssa.FreeVar:
			res.Unknown = append(res.Unknown, "free variable "+x.Name())
			return
		case *ssa.Alloc:
			// address-taken local: everything stored into it (or its parts)
			var addrs []ssa.Value
			addrs = append(addrs, x)
			for i := 0; i < len(addrs); i++ {
				refs := addrs[i].Referrers()
				if refs == nil {
					continue
				}
				for _, r := range *refs {
					switch y := r.(type) {
					case *ssa.Store:
						if y.Addr == addrs[i] {
							walk(y.Val)
						}
					case *ssa.FieldAddr:
						addrs = append(addrs, y)
					case *ssa.IndexAddr:
						addrs = append(addrs, y)
					}
				}
			}
			return
		}
		if in, ok := v.(ssa.Instruction); ok {
			for _, op := range in.Operands(nil) {
				if op != nil && *op != nil {
					walk(*op)
				}
			}
			return
		}
		res.Unknown = append(res.Unknown, fmt.Sprintf("%T", v))
	}
	walk(v)
	return res
}

// c06FieldLoad: v = *(&X.field) ; returns X and the field name.
func c06FieldLoad(v ssa.Value) (ssa.Value, string, bool) {
	u, ok := v.(*ssa.UnOp)
	if !ok || u.Op != token.MUL {
		return nil, "", false
	}
	fa, ok := u.X.(*ssa.FieldAddr)
	if !ok {
		return nil, "", false
	}
	st := structOf(fa.X.Type())
	if st == nil || fa.Field >= st.NumFields() {
		return nil, "", false
	}
	return fa.X, st.Field(fa.Field).Name(), true
}

// c06Fold describes a call (*ParserT).foldAst(tree, &astNodeT{...}).
type c06Fold struct {
	Call *ssa.Call
	Dt   ssa.Value // value stored into the node's dt field
	Key  ssa.Value // value stored into the node's key field
}

func c06FoldOf(v ssa.Value) *c06Fold {
	call := c06CallTo(v, c06ExprPkg, "ParserT", "foldAst")
	if call == nil || len(call.Call.Args) != 2 {
		return nil
	}
	f := &c06Fold{Call: call}
	alloc, ok := call.Call.Args[1].(*ssa.Alloc)
	if !ok || alloc.Referrers() == nil {
		return f
	}
	st := structOf(alloc.Type())
	for _, r := range *alloc.Referrers() {
		fa, ok := r.(*ssa.FieldAddr)
		if !ok || fa.Referrers() == nil || st == nil {
			continue
		}
		for _, rr := range *fa.Referrers() {
			if s, ok := rr.(*ssa.Store); ok && s.Addr == fa {
				switch st.Field(fa.Field).Name() {
				case "dt":
					f.Dt = s.Val
				case "key":
					f.Key = s.Val
				}
			}
		}
	}
	return f
}

// c06NewPrimitive: dt = primitives.NewPrimitive(<const primitive>, payload)
func c06NewPrimitive(dt ssa.Value) (prim int64, payload ssa.Value, ok bool) {
	call := c06CallTo(dt, c06PrimPkg, "", "NewPrimitive")
	if call == nil || len(call.Call.Args) != 2 {
		return 0, nil, false
	}
	k, isC := call.Call.Args[0].(*ssa.Const)
	if !isC || k.Value == nil {
		return 0, nil, false
	}
	p, exact := constant.Int64Val(constant.ToInt(k.Value))
	if !exact {
		return 0, nil, false
	}
	return p, c06StripIface(call.Call.Args[1]), true
}

// c06PrimConst: value of the constant primitives.<name>
func c06PrimConst(c *Ctx, name string) (int64, bool) {
	pk := c.Pkg(c06PrimPkg)
	if pk == nil {
		return 0, false
	}
	k, ok := pk.Types.Scope().Lookup(name).(*types.Const)
	if !ok {
		return 0, false
	}
	return constant.Int64Val(constant.ToInt(k.Val()))
}

// c06Returns lists the return instructions of fn.
func c06Returns(fn *ssa.Function) []*ssa.Return {
	var out []*ssa.Return
	for _, b := range fn.Blocks {
		for _, in := range b.Instrs {
			if r, ok := in.(*ssa.Return); ok {
				out = append(out, r)
			}
		}
	}
	return out
}

func c06IsNilConst(v ssa.Value) bool {
	k, ok := v.(*ssa.Const)
	return ok && k.Value == nil
}

// c06EvalInt evaluates an integer SSA value; atom supplies symbolic leaves.
func c06EvalInt(v ssa.Value, atom func(ssa.Value) (int64, bool)) (int64, bool) {
	if a, ok := atom(v); ok {
		return a, true
	}
	switch x := v.(type) {
	case *ssa.Const:
		if x.Value == nil || x.Value.Kind() != constant.Int {
			return 0, false
		}
		return constant.Int64Val(x.Value)
	case *ssa.BinOp:
		a, ok1 := c06EvalInt(x.X, atom)
		b, ok2 := c06EvalInt(x.Y, atom)
		if !ok1 || !ok2 {
			return 0, false
		}
		switch x.Op {
		case token.ADD:
			return a + b, true
		case token.SUB:
			return a - b, true
		case token.MUL:
			return a * b, true
		}
	case *ssa.Convert:
		return c06EvalInt(x.X, atom)
	}
	return 0, false
}

// ---------------------------------------------------------------- AST evaluator

// c06Val is an int or a bool produced by the small AST evaluator.
type c06Val struct {
	I      int64
	B      bool
	IsBool bool
}

// c06EvalAST evaluates a side-effect-free int/bool expression. atom maps leaf
// expressions (fields, parameters, len(...)) to integers.
func c06EvalAST(info *types.Info, e ast.Expr, atom func(ast.Expr) (int64, bool)) (c06Val, bool) {
	return c06EvalASTB(info, e, atom, nil)
}

// c06EvalASTB additionally takes boolean atoms; && and || short-circuit, so an
// unknown right operand does not matter when the left one decides.
func c06EvalASTB(info *types.Info, e ast.Expr, atom func(ast.Expr) (int64, bool), batom func(ast.Expr) (bool, bool)) (c06Val, bool) {
	e = unparen(e)
	if v, ok := atom(e); ok {
		return c06Val{I: v}, true
	}
	if batom != nil {
		if b, ok := batom(e); ok {
			return c06Val{B: b, IsBool: true}, true
		}
	}
	if b, ok := constBool(info, e); ok {
		return c06Val{B: b, IsBool: true}, true
	}
	if v, ok := constInt(info, e); ok {
		return c06Val{I: v}, true
	}
	switch x := e.(type) {
	case *ast.UnaryExpr:
		v, ok := c06EvalASTB(info, x.X, atom, batom)
		if !ok {
			return v, false
		}
		switch x.Op {
		case token.NOT:
			return c06Val{B: !v.B, IsBool: true}, v.IsBool
		case token.SUB:
			return c06Val{I: -v.I}, !v.IsBool
		case token.ADD:
			return v, !v.IsBool
		}
	case *ast.BinaryExpr:
		a, ok1 := c06EvalASTB(info, x.X, atom, batom)
		if ok1 && a.IsBool {
			if x.Op == token.LAND && !a.B {
				return c06Val{B: false, IsBool: true}, true
			}
			if x.Op == token.LOR && a.B {
				return c06Val{B: true, IsBool: true}, true
			}
		}
		b, ok2 := c06EvalASTB(info, x.Y, atom, batom)
		if !ok1 || !ok2 {
			return c06Val{}, false
		}
		if a.IsBool != b.IsBool {
			return c06Val{}, false
		}
		if a.IsBool {
			switch x.Op {
			case token.LAND:
				return c06Val{B: a.B && b.B, IsBool: true}, true
			case token.LOR:
				return c06Val{B: a.B || b.B, IsBool: true}, true
			case token.EQL:
				return c06Val{B: a.B == b.B, IsBool: true}, true
			case token.NEQ:
				return c06Val{B: a.B != b.B, IsBool: true}, true
			}
			return c06Val{}, false
		}
		switch x.Op {
		case token.ADD:
			return c06Val{I: a.I + b.I}, true
		case token.SUB:
			return c06Val{I: a.I - b.I}, true
		case token.MUL:
			return c06Val{I: a.I * b.I}, true
		case token.LSS, token.LEQ, token.GTR, token.GEQ, token.EQL, token.NEQ:
			return c06Val{B: intPred(x.Op, b.I)(a.I), IsBool: true}, true
		}
	}
	return c06Val{}, false
}

// c06FieldAtom: e is a selector of field `field` of the named type typePath.
func c06FieldAtom(info *types.Info, e ast.Expr, typePath, field string) bool {
	return isField(info, e, typePath, field)
}

func c06ExpConstNames(c *Ctx) (map[string]int64, map[int64]string) {
	spk := c.Pkg(c06SymPkg)
	byName := map[string]int64{}
	byVal := map[int64]string{}
	if spk == nil {
		return byName, byVal
	}
	for n, v := range enumConsts(spk.Types, "Exp") {
		i, ok := constant.Int64Val(constant.ToInt(v))
		if ok {
			byName[n] = i
			byVal[i] = n
		}
	}
	return byName, byVal
}

// ---------------------------------------------------------------- run

func runC06(c *Ctx) {
	c.Load(c06ExprPkg)
	c06Dump(c, "C06_DUMP")
	pk := c.Pkg(c06ExprPkg)
	if pk == nil || c.Pkg(c06SymPkg) == nil || c.Pkg(c06PrimPkg) == nil {
		c.Lost("R06a", "pkg", "lang/expressions (or symbols/primitives) not loaded")
		return
	}
	byName, byVal := c06ExpConstNames(c)

	c.Rule("R06a", "exhaustive dispatch: every symbols.Exp constant greater than symbols.Operations has a case in the operator switch of executeExpression (a missing case ends in the default arm: 'no code written to handle symbol')")
	c.Rule("R06b", "precedence from constant values: with pass(op) = first index k with op >= orderOfOperations[k]: pass(*)=pass(/) < pass(+)=pass(-) < pass(>)=pass(>=)=pass(<)=pass(<=) <= pass(==)=pass(!=) < pass(&&) < pass(||) < pass(?:) and every assignment operator is in the last pass; orderOfOperations is strictly descending; executeExpr runs the passes in table order; a pass skips a node exactly when node.key < order")
	c.Rule("R06c", "handler mapping: the case of + - * / reaches a function whose only float64 arithmetic is that operator applied to (left,right) = results (0,1) of validateNumericalDataTypes on results (0,1) of getLeftAndRightSymbols (order may only be permuted for + and *), folded as primitives.Number; > >= < <= pass comparator functions that decide exactly that relation on (1st,2nd) parameter for floats and for strings, and the dispatcher applies them to (left,right) of compareTypes and folds a Boolean; == folds `l == r` of compareTypes, != its negation; validateNumericalDataTypes/compareTypes return (value of leftNode, value of rightNode) in that order on every success path; getLeftAndRightSymbols returns (ast[astPos-1], ast[astPos+1])")
	c.Rule("R06d", "left associativity: executeExpression examines ast[astPos] scanning astPos upward from 0 (init 0, cond astPos < len(ast), post +1) and after every fold resets astPos so that the scan restarts at the left end")
	c.Rule("R06e", "fold shape: for every list length n in 3..8 and operator position p in 1..n-2, foldAst leaves ast[:p-1] + [new] + ast[p+2:] (bounded evaluation of the slice expressions of each arm)")
	c.Rule("R06f", "double precision: every strconv.ParseFloat in lang/expressions and lang/types has bitSize 64")
	c.Rule("R06g", "token table: in parseExpression the spelling + - * / > >= < <= == != && || ?: ?? appends exactly the symbols constant of that operator")

	fdExec, _ := c.MustFunc("R06a", c06ExprPkg, "", "executeExpression")
	if fdExec == nil {
		return
	}
	info := pk.TypesInfo
	sw := c06OperatorSwitch(info, fdExec)
	if sw == nil {
		c.Undecided("R06a", "switch:executeExpression", fdExec.Pos(), "no switch over a symbols.Exp value found in executeExpression — dispatch idiom not recognised")
		return
	}
	cases := map[int64]*ast.CaseClause{}
	var dflt *ast.CaseClause
	for _, s := range sw.Body.List {
		cc := s.(*ast.CaseClause)
		if cc.List == nil {
			dflt = cc
		}
		for _, e := range cc.List {
			if v, ok := constInt(info, e); ok {
				cases[v] = cc
			} else {
				c.Undecided("R06a", "case:nonconst:"+c.src(e), e.Pos(), "non-constant case expression in the operator switch")
			}
		}
	}
	opsVal, okOps := byName["Operations"]
	if !okOps {
		c.Lost("R06a", "const:symbols.Operations", "constant symbols.Operations not found")
		return
	}
	var names []string
	for n := range byName {
		names = append(names, n)
	}
	sort.Strings(names)
	nOps := 0
	for _, n := range names {
		if byName[n] <= opsVal {
			continue
		}
		nOps++
		cc := cases[byName[n]]
		p := fdExec.Pos()
		if cc != nil {
			p = cc.Pos()
		}
		c.Check(cc != nil, "R06a", "case:symbols."+n, p, "operator constant symbols.%s (=%d) has a case in executeExpression (without one an expression using it fails with 'no code written to handle symbol')", n, byName[n])
	}
	c.MinCount("R06a", "operator constants above symbols.Operations", nOps, 28)
	// default arm reports an error
	if dflt != nil {
		setsErr := false
		for _, s := range dflt.Body {
			if as, ok := s.(*ast.AssignStmt); ok && len(as.Rhs) == 1 {
				if _, ok := as.Rhs[0].(*ast.CallExpr); ok {
					if t := info.TypeOf(as.Lhs[0]); t != nil && t.String() == "error" {
						setsErr = true
					}
				}
			}
			if _, ok := s.(*ast.ReturnStmt); ok {
				setsErr = true
			}
		}
		c.Check(setsErr, "R06a", "default:error", dflt.Pos(), "the default arm of the operator switch raises an error (an unknown operator is never silently dropped)")
	}

	c.c06Precedence(pk, fdExec, byName, byVal)
	c.c06Handlers(pk, sw, byName)
	c.c06Loop(pk, fdExec, sw)
	c.c06FoldModel(pk)
	c.c06ParseFloat()
	c.c06TokenTable(pk, byName)
}

// c06OperatorSwitch finds the tagged switch whose tag has type symbols.Exp.
func c06OperatorSwitch(info *types.Info, fd *ast.FuncDecl) *ast.SwitchStmt {
	var out *ast.SwitchStmt
	ast.Inspect(fd.Body, func(n ast.Node) bool {
		if sw, ok := n.(*ast.SwitchStmt); ok && sw.Tag != nil && out == nil {
			if t := info.TypeOf(sw.Tag); t != nil && namedPath(t) == mx(c06SymPkg)+".Exp" {
				out = sw
			}
		}
		return true
	})
	return out
}

var _ = packages.NeedName

// ---------------------------------------------------------------- R06b

func (c *Ctx) c06Precedence(pk *packages.Package, fdExec *ast.FuncDecl, byName map[string]int64, byVal map[int64]string) {
	info := pk.TypesInfo
	// the table
	var lit *ast.CompositeLit
	var tableObj types.Object
	for _, f := range pk.Syntax {
		for _, d := range f.Decls {
			gd, ok := d.(*ast.GenDecl)
			if !ok || gd.Tok != token.VAR {
				continue
			}
			for _, s := range gd.Specs {
				vs := s.(*ast.ValueSpec)
				for i, n := range vs.Names {
					if n.Name == "orderOfOperations" && i < len(vs.Values) {
						if cl, ok := vs.Values[i].(*ast.CompositeLit); ok {
							lit = cl
							tableObj = info.Defs[n]
						}
					}
				}
			}
		}
	}
	if lit == nil {
		c.Lost("R06b", "var:orderOfOperations", "package variable orderOfOperations (composite literal) not found")
		return
	}
	var order []int64
	for _, e := range lit.Elts {
		if kv, ok := e.(*ast.KeyValueExpr); ok {
			c.Undecided("R06b", "orderOfOperations:keyed", kv.Pos(), "keyed element in orderOfOperations — table idiom not recognised")
			return
		}
		v, ok := constInt(info, e)
		if !ok {
			c.Undecided("R06b", "orderOfOperations:nonconst", e.Pos(), "non-constant element %s in orderOfOperations", c.src(e))
			return
		}
		order = append(order, v)
	}
	c.MinCount("R06b", "orderOfOperations entries", len(order), 9)
	desc := true
	for i := 1; i < len(order); i++ {
		if order[i] >= order[i-1] {
			desc = false
		}
	}
	c.Check(desc, "R06b", "orderOfOperations:descending", lit.Pos(), "orderOfOperations %v is strictly descending (a pass handles every operator >= its bound, so a later, higher bound would never see its operators first)", order)
	// no other store to the table
	nStores := 0
	for _, f := range pk.Syntax {
		ast.Inspect(f, func(n ast.Node) bool {
			if as, ok := n.(*ast.AssignStmt); ok {
				for _, l := range as.Lhs {
					root := unparen(l)
					if ix, ok := root.(*ast.IndexExpr); ok {
						root = unparen(ix.X)
					}
					if id, ok := root.(*ast.Ident); ok && tableObj != nil && info.ObjectOf(id) == tableObj {
						nStores++
						c.Viol("R06b", "orderOfOperations:store", as.Pos(), "orderOfOperations is modified at run time: %s — the precedence table is no longer the constant one", c.src(as))
					}
				}
			}
			return true
		})
	}
	pass := func(name string) int {
		v, ok := byName[name]
		if !ok {
			return -1
		}
		for k, b := range order {
			if v >= b {
				return k
			}
		}
		return len(order) // never handled
	}
	missing := false
	for _, n := range []string{"Multiply", "Divide", "Add", "Subtract", "GreaterThan", "GreaterThanOrEqual", "LessThan", "LessThanOrEqual", "EqualTo", "NotEqualTo", "LogicalAnd", "LogicalOr", "Elvis", "Assign"} {
		if _, ok := byName[n]; !ok {
			c.Lost("R06b", "const:symbols."+n, "constant symbols.%s not found", n)
			missing = true
		}
	}
	if missing {
		return
	}
	same := func(key string, ns ...string) {
		ok := true
		var parts []string
		for _, n := range ns {
			parts = append(parts, fmt.Sprintf("%s→%d", n, pass(n)))
			if pass(n) != pass(ns[0]) || pass(n) >= len(order) {
				ok = false
			}
		}
		c.Check(ok, "R06b", "class:"+key, lit.Pos(), "operators of equal precedence are folded in the same pass (%s); otherwise one of them binds tighter and `a %s b %s c` no longer associates left", strings.Join(parts, " "), ns[0], ns[len(ns)-1])
	}
	same("mul", "Multiply", "Divide")
	same("add", "Add", "Subtract")
	same("rel", "GreaterThan", "GreaterThanOrEqual", "LessThan", "LessThanOrEqual")
	same("eq", "EqualTo", "NotEqualTo")
	before := func(key, a, b string, strict bool) {
		ok := pass(a) < pass(b) || (!strict && pass(a) == pass(b))
		c.Check(ok, "R06b", "order:"+key, lit.Pos(), "pass(%s)=%d is before pass(%s)=%d: %s binds tighter", a, pass(a), b, pass(b), a)
	}
	before("mul<add", "Multiply", "Add", true)
	before("add<rel", "Subtract", "GreaterThan", true)
	before("rel<=eq", "LessThanOrEqual", "EqualTo", false)
	before("eq<and", "NotEqualTo", "LogicalAnd", true)
	before("and<or", "LogicalAnd", "LogicalOr", true)
	before("or<elvis", "LogicalOr", "Elvis", true)
	// every operator is handled by some pass, and assignments come last
	opsVal := byName["Operations"]
	last := len(order) - 1
	var names []string
	for n := range byName {
		names = append(names, n)
	}
	sort.Strings(names)
	for _, n := range names {
		if byName[n] <= opsVal {
			continue
		}
		p := pass(n)
		if p >= len(order) {
			c.Viol("R06b", "handled:symbols."+n, lit.Pos(), "operator symbols.%s (=%d) is below every bound of orderOfOperations %v: no pass ever folds it and the expression fails with 'AST results > 1'", n, byName[n], order)
			continue
		}
		isAssign := strings.HasPrefix(n, "Assign")
		if isAssign {
			c.Check(p == last, "R06b", "assign-last:symbols."+n, lit.Pos(), "assignment operator symbols.%s is folded in the last pass (%d of %d), after its right-hand side is fully evaluated", n, p, last)
		} else {
			c.Check(p < last, "R06b", "assign-last:symbols."+n, lit.Pos(), "operator symbols.%s (pass %d) is folded before the assignment pass (%d)", n, p, last)
		}
	}

	// passes run in table order
	if fd, _ := c.MustFunc("R06b", c06ExprPkg, "ParserT", "executeExpr"); fd != nil {
		c.c06PassLoop(info, fd, tableObj, fdExec)
	}

	// skip predicate
	c.c06SkipPredicate(info, fdExec)
}

func (c *Ctx) c06PassLoop(info *types.Info, fd *ast.FuncDecl, table types.Object, fdExec *ast.FuncDecl) {
	execObj := info.Defs[fdExec.Name]
	found := false
	isTable := func(e ast.Expr) bool {
		id, ok := unparen(e).(*ast.Ident)
		return ok && info.ObjectOf(id) == table
	}
	walkStack(fd.Body, func(n ast.Node, stack []ast.Node) bool {
		call, ok := n.(*ast.CallExpr)
		if !ok || callee(info, call) != execObj || len(call.Args) != 2 {
			return true
		}
		found = true
		arg := unparen(call.Args[1])
		// innermost enclosing loop
		var loop ast.Node
		for i := len(stack) - 1; i >= 0 && loop == nil; i-- {
			switch stack[i].(type) {
			case *ast.RangeStmt, *ast.ForStmt:
				loop = stack[i]
			}
		}
		switch l := loop.(type) {
		case *ast.RangeStmt:
			if !isTable(l.X) {
				c.Undecided("R06b", "passes:ascending", l.Pos(), "executeExpression is called in a range loop over %s, not over orderOfOperations", c.src(l.X))
				return true
			}
			ok := false
			if ix, isIx := arg.(*ast.IndexExpr); isIx && isTable(ix.X) {
				if k, isId := l.Key.(*ast.Ident); isId {
					if id, isId2 := unparen(ix.Index).(*ast.Ident); isId2 && info.ObjectOf(id) == info.ObjectOf(k) {
						ok = true
					}
				}
			}
			if v, isId := l.Value.(*ast.Ident); isId && l.Value != nil {
				if id, isId2 := arg.(*ast.Ident); isId2 && info.ObjectOf(id) == info.ObjectOf(v) {
					ok = true
				}
			}
			c.Check(ok, "R06b", "passes:ascending", call.Pos(), "executeExpr runs executeExpression once per entry of orderOfOperations in index order, passing that entry (%s)", c.src(call))
		case *ast.ForStmt:
			// for i := 0; i < len(table); i++ { f(tree, table[i]) }
			ok := false
			if ix, isIx := arg.(*ast.IndexExpr); isIx && isTable(ix.X) {
				if id, isId := unparen(ix.Index).(*ast.Ident); isId {
					obj := info.ObjectOf(id)
					initOK, postOK, condOK := false, false, false
					if as, isAs := l.Init.(*ast.AssignStmt); isAs && len(as.Lhs) == 1 && len(as.Rhs) == 1 {
						if li, isId := as.Lhs[0].(*ast.Ident); isId && info.ObjectOf(li) == obj {
							if v, isC := constInt(info, as.Rhs[0]); isC && v == 0 {
								initOK = true
							}
						}
					}
					if inc, isInc := l.Post.(*ast.IncDecStmt); isInc && inc.Tok == token.INC {
						if li, isId := inc.X.(*ast.Ident); isId && info.ObjectOf(li) == obj {
							postOK = true
						}
					}
					if l.Cond != nil {
						agree := true
						for i := int64(0); i <= 4 && agree; i++ {
							for n := int64(0); n <= 4 && agree; n++ {
								v, okE := c06EvalAST(info, l.Cond, func(e ast.Expr) (int64, bool) {
									if x, isId := e.(*ast.Ident); isId && info.ObjectOf(x) == obj {
										return i, true
									}
									if lc, isLen := isBuiltinCall(info, e, "len"); isLen && isTable(lc.Args[0]) {
										return n, true
									}
									return 0, false
								})
								if !okE || !v.IsBool || v.B != (i < n) {
									agree = false
								}
							}
						}
						condOK = agree
					}
					ok = initOK && postOK && condOK
				}
			}
			if ok {
				c.OK("R06b", "passes:ascending", call.Pos(), "executeExpr runs the passes with an index loop 0..len(orderOfOperations)-1 upward")
			} else {
				c.Undecided("R06b", "passes:ascending", call.Pos(), "executeExpression is called from a for loop that is not recognisably `i from 0 upward over orderOfOperations` (%s): passes may not run in precedence order", c.src(l.Cond))
			}
		default:
			c.Undecided("R06b", "passes:ascending", call.Pos(), "executeExpression(tree, %s) is not called from a loop over orderOfOperations", c.src(arg))
		}
		return true
	})
	if !found {
		c.Lost("R06b", "passes:call", "executeExpr does not call executeExpression")
	}
}

// c06NodeKeyAtoms returns an atom function for (node.key, order) in executeExpression.
func (c *Ctx) c06SkipPredicate(info *types.Info, fd *ast.FuncDecl) {
	if fd.Type.Params == nil || len(fd.Type.Params.List) < 2 {
		c.Undecided("R06b", "skip:lower-only", fd.Pos(), "executeExpression has no order parameter")
		return
	}
	var orderObj types.Object
	for _, f := range fd.Type.Params.List {
		for _, n := range f.Names {
			if namedPath(info.TypeOf(f.Type)) == mx(c06SymPkg)+".Exp" {
				orderObj = info.Defs[n]
			}
		}
	}
	sw := c06OperatorSwitch(info, fd)
	loop := c06EnclosingFor(fd, sw)
	if orderObj == nil || loop == nil {
		c.Undecided("R06b", "skip:lower-only", fd.Pos(), "no symbols.Exp parameter / no loop around the operator switch in executeExpression")
		return
	}
	nodeT := mx(c06ExprPkg) + ".astNodeT"
	defs := localDefs(info, fd.Body)
	evalAt := func(e ast.Expr, k, o int64) (c06Val, bool) {
		return c06EvalAST(info, e, func(x ast.Expr) (int64, bool) {
			if id, ok := x.(*ast.Ident); ok && info.ObjectOf(id) == orderObj {
				return o, true
			}
			if c06FieldAtom(info, x, nodeT, "key") {
				return k, true
			}
			// a single-definition local holding node.key (`key := node.key`)
			if id, ok := x.(*ast.Ident); ok {
				if d := defs.resolve1(info, id); d != ast.Expr(id) && c06FieldAtom(info, d, nodeT, "key") {
					return k, true
				}
			}
			return 0, false
		})
	}
	// statements of the loop body before the switch that can leave the iteration
	n := 0
	for _, s := range loop.Body.List {
		if s == ast.Stmt(sw) {
			break
		}
		is, ok := s.(*ast.IfStmt)
		if !ok {
			continue
		}
		mentionsOrder := mentions(info, is.Cond, orderObj)
		if !mentionsOrder {
			continue
		}
		n++
		isContinue := false
		if len(is.Body.List) == 1 {
			if b, ok := is.Body.List[0].(*ast.BranchStmt); ok && b.Tok == token.CONTINUE && b.Label == nil {
				isContinue = true
			}
		}
		if !isContinue || is.Else != nil || is.Init != nil {
			c.Undecided("R06b", "skip:lower-only", is.Pos(), "the test on `order` before the operator switch is not of the form `if <pred> { continue }`: %s", c.src(is.Cond))
			continue
		}
		agree, evalOK := true, true
		var bad string
		for k := int64(0); k <= 4; k++ {
			for o := int64(0); o <= 4; o++ {
				v, ok := evalAt(is.Cond, k, o)
				if !ok || !v.IsBool {
					evalOK = false
					continue
				}
				if v.B != (k < o) && agree {
					agree = false
					bad = fmt.Sprintf("key=%d order=%d: skips=%v, want %v", k, o, v.B, k < o)
				}
			}
		}
		if !evalOK {
			c.Undecided("R06b", "skip:lower-only", is.Pos(), "skip predicate %s uses something other than node.key and order", c.src(is.Cond))
		} else {
			c.Check(agree, "R06b", "skip:lower-only", is.Pos(), "a pass skips a node exactly when node.key < order (%s) %s — otherwise an operator is folded in the wrong pass (precedence broken) or never", c.src(is.Cond), bad)
		}
	}
	if n == 0 {
		c.Viol("R06b", "skip:lower-only", loop.Pos(), "no `if node.key < order { continue }` before the operator switch: every pass folds every operator, so precedence degenerates to left-to-right")
	}
}

func c06EnclosingFor(fd *ast.FuncDecl, target ast.Node) *ast.ForStmt {
	if target == nil {
		return nil
	}
	var out *ast.ForStmt
	for _, n := range pathTo(fd.Body, target) {
		if f, ok := n.(*ast.ForStmt); ok {
			out = f
		}
	}
	return out
}

// ---------------------------------------------------------------- R06d

func (c *Ctx) c06Loop(pk *packages.Package, fd *ast.FuncDecl, sw *ast.SwitchStmt) {
	info := pk.TypesInfo
	loop := c06EnclosingFor(fd, sw)
	if loop == nil {
		c.Undecided("R06d", "loop:shape", fd.Pos(), "the operator switch is not inside a for loop")
		return
	}
	parserT := mx(c06ExprPkg) + ".ParserT"
	isPos := func(e ast.Expr) bool { return c06FieldAtom(info, e, parserT, "astPos") }
	isAst := func(e ast.Expr) bool { return c06FieldAtom(info, e, parserT, "ast") }
	// init
	initOK := false
	if as, ok := loop.Init.(*ast.AssignStmt); ok && len(as.Lhs) == 1 && len(as.Rhs) == 1 && as.Tok == token.ASSIGN && isPos(as.Lhs[0]) {
		if v, ok := constInt(info, as.Rhs[0]); ok && v == 0 {
			initOK = true
		}
	}
	if loop.Init == nil {
		c.Undecided("R06d", "loop:init", loop.Pos(), "the fold loop has no init statement; cannot see where the scan starts")
	} else {
		c.Check(initOK, "R06d", "loop:init", loop.Init.Pos(), "each pass starts scanning at astPos = 0, the left end (%s)", c.src(loop.Init))
	}
	// post
	postOK := false
	switch p := loop.Post.(type) {
	case *ast.IncDecStmt:
		postOK = p.Tok == token.INC && isPos(p.X)
	case *ast.AssignStmt:
		if len(p.Lhs) == 1 && len(p.Rhs) == 1 && isPos(p.Lhs[0]) {
			if p.Tok == token.ADD_ASSIGN {
				if v, ok := constInt(info, p.Rhs[0]); ok && v == 1 {
					postOK = true
				}
			}
			if p.Tok == token.ASSIGN {
				v0, ok0 := c06EvalAST(info, p.Rhs[0], func(e ast.Expr) (int64, bool) {
					if isPos(e) {
						return 10, true
					}
					return 0, false
				})
				postOK = ok0 && !v0.IsBool && v0.I == 11
			}
		}
	}
	if loop.Post == nil {
		c.Undecided("R06d", "loop:post", loop.Pos(), "the fold loop has no post statement")
	} else {
		c.Check(postOK, "R06d", "loop:post", loop.Post.Pos(), "the scan moves one node to the right per iteration (%s); scanning leftwards would make - and / associate right", c.src(loop.Post))
	}
	// cond
	if loop.Cond == nil {
		c.Undecided("R06d", "loop:cond", loop.Pos(), "the fold loop has no condition")
	} else {
		agree, evalOK := true, true
		for p := int64(0); p <= 5; p++ {
			for n := int64(0); n <= 5; n++ {
				v, ok := c06EvalAST(info, loop.Cond, func(e ast.Expr) (int64, bool) {
					if isPos(e) {
						return p, true
					}
					if lc, ok := isBuiltinCall(info, e, "len"); ok && isAst(lc.Args[0]) {
						return n, true
					}
					return 0, false
				})
				if !ok || !v.IsBool {
					evalOK = false
				} else if v.B != (p < n) {
					agree = false
				}
			}
		}
		if !evalOK {
			c.Undecided("R06d", "loop:cond", loop.Cond.Pos(), "loop condition %s is not over astPos and len(ast)", c.src(loop.Cond))
		} else {
			c.Check(agree, "R06d", "loop:cond", loop.Cond.Pos(), "the scan covers every node: it continues exactly while astPos < len(ast) (%s)", c.src(loop.Cond))
		}
	}
	// examined node = ast[astPos]
	defs := localDefs(info, fd.Body)
	tag := defs.resolve1(info, sw.Tag)
	nodeOK := false
	if se, ok := tag.(*ast.SelectorExpr); ok && c06FieldAtom(info, se, mx(c06ExprPkg)+".astNodeT", "key") {
		x := defs.resolve1(info, se.X)
		if ix, ok := x.(*ast.IndexExpr); ok && isAst(ix.X) && isPos(ix.Index) {
			nodeOK = true
		}
	}
	c.Check(nodeOK, "R06d", "loop:node", sw.Tag.Pos(), "the operator switch examines the key of ast[astPos] (%s)", c.src(sw.Tag))

	// reset after fold: a direct statement of the loop body after the switch
	idx := topLevelIndex(loop.Body.List, sw)
	var reset *ast.AssignStmt
	if idx >= 0 && ast.Node(loop.Body.List[idx]) == ast.Node(sw) {
		for _, s := range loop.Body.List[idx+1:] {
			if as, ok := s.(*ast.AssignStmt); ok && len(as.Lhs) == 1 && len(as.Rhs) == 1 && as.Tok == token.ASSIGN && isPos(as.Lhs[0]) {
				reset = as
			}
		}
		if reset == nil {
			// path-wise form: every syntactic path from the end of the switch to the
			// next iteration (end of the body or `continue`) passes a constant store
			// to astPos; paths that return leave the scan. Branch conditions are not
			// evaluated (all syntactic paths are required to reset).
			if resets, ok := c06RestartPaths(info, loop.Body.List[idx+1:], isPos); ok && len(resets) > 0 {
				allOK := true
				var vals []string
				for _, as := range resets {
					v, isC := constInt(info, as.Rhs[0])
					if !isC {
						c.Undecided("R06d", "loop:restart", as.Pos(), "astPos is reset to a non-constant %s after a fold", c.src(as.Rhs[0]))
						return
					}
					vals = append(vals, fmt.Sprint(v))
					if v != 0 && v != -1 {
						allOK = false
					}
				}
				c.Check(allOK, "R06d", "loop:restart", resets[0].Pos(), "after every fold the scan restarts at the left end (astPos = %s on every path to the next iteration, then +1); a restart further right skips operators that are now left of astPos", strings.Join(vals, "/"))
				return
			}
		}
	}
	if reset == nil {
		// any store to astPos elsewhere in the loop body?
		other := false
		ast.Inspect(loop.Body, func(n ast.Node) bool {
			if as, ok := n.(*ast.AssignStmt); ok {
				for _, l := range as.Lhs {
					if isPos(l) {
						other = true
					}
				}
			}
			return true
		})
		if other {
			c.Undecided("R06d", "loop:restart", loop.Pos(), "astPos is stored inside the fold loop but not as an unconditional statement after the operator switch — restart idiom not recognised")
		} else {
			c.Viol("R06d", "loop:restart", loop.Pos(), "after a fold astPos is not reset: the scan continues behind the folded node and skips the next operator of the same pass, so `a - b - c - d` is folded as (a-b) - (c-d)")
		}
		return
	}
	v, ok := constInt(info, reset.Rhs[0])
	if !ok {
		c.Undecided("R06d", "loop:restart", reset.Pos(), "astPos is reset to a non-constant %s after a fold", c.src(reset.Rhs[0]))
		return
	}
	c.Check(v == 0 || v == -1, "R06d", "loop:restart", reset.Pos(), "after every fold the scan restarts at the left end (astPos = %d, then +1); a restart further right skips operators that are now left of astPos", v)
}

// c06RestartPaths walks the statements that follow the operator switch in the
// fold loop. ok = every syntactic path that reaches the next iteration (falls
// off the end of the list or executes an unlabeled `continue`) has executed a
// plain `astPos = <expr>` store; the stores that are the LAST one on some such
// path are returned. Paths ending in `return` leave the scan and need no reset.
// Anything else that could move astPos or leave the iteration (break, goto,
// labels, loops/switches containing a store or a branch) makes ok false.
func c06RestartPaths(info *types.Info, list []ast.Stmt, isPos func(ast.Expr) bool) ([]*ast.AssignStmt, bool) {
	type state struct{ last *ast.AssignStmt } // nil = no reset yet on this path
	var out []*ast.AssignStmt
	seenOut := map[*ast.AssignStmt]bool{}
	bad := false
	arrive := func(st state) {
		if st.last == nil {
			bad = true
			return
		}
		if !seenOut[st.last] {
			seenOut[st.last] = true
			out = append(out, st.last)
		}
	}
	opaqueOK := func(n ast.Node) bool {
		ok := true
		ast.Inspect(n, func(m ast.Node) bool {
			switch x := m.(type) {
			case *ast.AssignStmt:
				for _, l := range x.Lhs {
					if isPos(l) {
						ok = false
					}
				}
			case *ast.IncDecStmt:
				if isPos(x.X) {
					ok = false
				}
			case *ast.UnaryExpr:
				if x.Op == token.AND && isPos(x.X) {
					ok = false
				}
			case *ast.BranchStmt, *ast.ReturnStmt, *ast.FuncLit, *ast.LabeledStmt:
				ok = false
			}
			return ok
		})
		return ok
	}
	// walk returns the states that fall through the end of list
	var walk func(list []ast.Stmt, in []state) []state
	walk = func(list []ast.Stmt, in []state) []state {
		cur := in
		for _, st := range list {
			if len(cur) == 0 || bad {
				return nil
			}
			switch s := st.(type) {
			case *ast.AssignStmt:
				if len(s.Lhs) == 1 && len(s.Rhs) == 1 && s.Tok == token.ASSIGN && isPos(s.Lhs[0]) {
					cur = []state{{last: s}}
					continue
				}
				if !opaqueOK(s) {
					bad = true
					return nil
				}
			case *ast.ReturnStmt:
				return nil
			case *ast.BranchStmt:
				if s.Tok == token.CONTINUE && s.Label == nil {
					for _, x := range cur {
						arrive(x)
					}
					return nil
				}
				bad = true
				return nil
			case *ast.BlockStmt:
				cur = walk(s.List, cur)
			case *ast.IfStmt:
				if s.Init != nil && !opaqueOK(s.Init) {
					bad = true
					return nil
				}
				if !opaqueOK(s.Cond) {
					bad = true
					return nil
				}
				thenOut := walk(s.Body.List, cur)
				var elseOut []state
				switch e := s.Else.(type) {
				case nil:
					elseOut = cur
				case *ast.BlockStmt:
					elseOut = walk(e.List, cur)
				case *ast.IfStmt:
					elseOut = walk([]ast.Stmt{e}, cur)
				}
				cur = append(append([]state{}, thenOut...), elseOut...)
			case *ast.ExprStmt, *ast.DeclStmt, *ast.EmptyStmt, *ast.IncDecStmt, *ast.DeferStmt, *ast.GoStmt,
				*ast.ForStmt, *ast.RangeStmt, *ast.SwitchStmt, *ast.TypeSwitchStmt, *ast.SelectStmt, *ast.SendStmt:
				if !opaqueOK(s) {
					bad = true
					return nil
				}
			default:
				bad = true
				return nil
			}
		}
		return cur
	}
	for _, x := range walk(list, []state{{}}) {
		arrive(x)
	}
	if bad {
		return nil, false
	}
	return out, true
}

// ---------------------------------------------------------------- R06c

// c06Operand maps an SSA value to the side (0 = left, 1 = right) of the
// operator it was derived from: Extract(getLeftAndRightSymbols, j) is side j;
// Extract(h, i) for an order-preserving helper h(tree, a, b) is the side of its
// argument i+1. Anything else: -1.
func c06Operand(v ssa.Value, depth int) int {
	call, idx, ok := c06Extract(v)
	if !ok || depth > 3 || idx > 1 {
		return -1
	}
	fn := call.Call.StaticCallee()
	switch {
	case c06FnIs(fn, c06ExprPkg, "ParserT", "getLeftAndRightSymbols"):
		return idx
	case c06FnIs(fn, c06ExprPkg, "", "validateNumericalDataTypes"), c06FnIs(fn, c06ExprPkg, "", "compareTypes"):
		if len(call.Call.Args) != 3 {
			return -1
		}
		return c06Operand(call.Call.Args[idx+1], depth+1)
	}
	return -1
}

// c06Sides: which operator sides a value depends on (backward slice).
func c06Sides(v ssa.Value) (left, right bool, unknown []string) {
	res := c06Slice(v, func(x ssa.Value) bool { return c06Operand(x, 0) >= 0 })
	for r := range res.Roots {
		switch c06Operand(r, 0) {
		case 0:
			left = true
		case 1:
			right = true
		}
	}
	return left, right, res.Unknown
}

func (c *Ctx) c06FuncOfCallee(pk *packages.Package, obj types.Object) *ssa.Function {
	fn, ok := obj.(*types.Func)
	if !ok {
		return nil
	}
	c.SSAPkg(relPkg(fn.Pkg().Path()))
	return c.prog.FuncValue(fn)
}

func (c *Ctx) c06Handlers(pk *packages.Package, sw *ast.SwitchStmt, byName map[string]int64) {
	info := pk.TypesInfo
	c.SSAPkg(c06ExprPkg)
	c.SSAPkg(c06PrimPkg)
	clauseOf := func(name string) *ast.CaseClause {
		for _, s := range sw.Body.List {
			cc := s.(*ast.CaseClause)
			for _, e := range cc.List {
				if v, ok := constInt(info, e); ok && v == byName[name] {
					return cc
				}
			}
		}
		return nil
	}
	// the single call of a case body
	handlerCall := func(name string) *ast.CallExpr {
		cc := clauseOf(name)
		if cc == nil {
			return nil // R06a reports it
		}
		var cs []*ast.CallExpr
		for _, s := range cc.Body {
			cs = append(cs, calls(s, false)...)
		}
		if len(cs) != 1 || len(cc.List) != 1 {
			c.Undecided("R06c", "handler:symbols."+name, cc.Pos(), "case symbols.%s does not consist of exactly one handler call (or shares its arm with another operator) — dispatch idiom not recognised", name)
			return nil
		}
		return cs[0]
	}
	numberPrim, _ := c06PrimConst(c, "Number")
	boolPrim, _ := c06PrimConst(c, "Boolean")
	nHandlers := 0

	// ---- arithmetic
	arith := []struct {
		name string
		op   token.Token
		comm bool
	}{{"Add", token.ADD, true}, {"Subtract", token.SUB, false}, {"Multiply", token.MUL, true}, {"Divide", token.QUO, false}}
	for _, a := range arith {
		call := handlerCall(a.name)
		if call == nil {
			continue
		}
		key := "handler:symbols." + a.name
		fn := c.c06FuncOfCallee(pk, callee(info, call))
		if fn == nil || fn.Blocks == nil {
			c.Undecided("R06c", key, call.Pos(), "callee of %s is not a function with a body", c.src(call))
			continue
		}
		nHandlers++
		var ops []*ssa.BinOp
		for _, b := range fn.Blocks {
			for _, in := range b.Instrs {
				if bo, ok := in.(*ssa.BinOp); ok {
					if bt, ok := bo.Type().Underlying().(*types.Basic); ok && bt.Info()&types.IsFloat != 0 {
						switch bo.Op {
						case token.ADD, token.SUB, token.MUL, token.QUO, token.REM:
							ops = append(ops, bo)
						}
					}
				}
			}
		}
		if len(ops) != 1 {
			c.Undecided("R06c", key, call.Pos(), "handler %s of symbols.%s contains %d float64 arithmetic operations, expected exactly one", fn.Name(), a.name, len(ops))
			continue
		}
		bo := ops[0]
		if bo.Op != a.op {
			c.Viol("R06c", key, bo.Pos(), "case symbols.%s runs %s, which computes `%s` instead of `%s`", a.name, fn.Name(), bo.Op, a.op)
			continue
		}
		sx, sy := c06Operand(bo.X, 0), c06Operand(bo.Y, 0)
		if sx < 0 || sy < 0 {
			c.Undecided("R06c", key, bo.Pos(), "operands of `%s` in %s are not results of validateNumericalDataTypes(tree, left, right) on getLeftAndRightSymbols()", bo.Op, fn.Name())
			continue
		}
		okOrder := sx == 0 && sy == 1 || (a.comm && sx == 1 && sy == 0)
		if !okOrder {
			c.Viol("R06c", key, bo.Pos(), "%s computes <%s operand> %s <%s operand>: symbols.%s is not commutative, so `a %s b` yields b %s a", fn.Name(), c06SideName(sx), bo.Op, c06SideName(sy), a.name, bo.Op, bo.Op)
			continue
		}
		// the result is folded as a Number
		folded := false
		for _, r := range c06Returns(fn) {
			if len(r.Results) != 1 {
				continue
			}
			if f := c06FoldOf(r.Results[0]); f != nil && f.Dt != nil {
				if prim, payload, ok := c06NewPrimitive(f.Dt); ok && payload == ssa.Value(bo) && prim == numberPrim {
					folded = true
				}
			}
		}
		c.Check(folded, "R06c", key, bo.Pos(), "case symbols.%s → %s computes left %s right and folds it as primitives.Number", a.name, fn.Name(), bo.Op)
	}

	// ---- relational
	rel := []struct {
		name string
		op   token.Token
	}{{"GreaterThan", token.GTR}, {"GreaterThanOrEqual", token.GEQ}, {"LessThan", token.LSS}, {"LessThanOrEqual", token.LEQ}}
	dispatchers := map[*ssa.Function]bool{}
	for _, r := range rel {
		call := handlerCall(r.name)
		if call == nil {
			continue
		}
		key := "handler:symbols." + r.name
		fn := c.c06FuncOfCallee(pk, callee(info, call))
		if fn == nil || fn.Blocks == nil {
			c.Undecided("R06c", key, call.Pos(), "callee of %s is not a function with a body", c.src(call))
			continue
		}
		nHandlers++
		nCmp := 0
		for i, arg := range call.Args {
			sig, ok := info.TypeOf(arg).Underlying().(*types.Signature)
			if !ok {
				continue
			}
			if sig.Params().Len() != 2 || sig.Results().Len() != 1 {
				continue
			}
			bt, ok := sig.Params().At(0).Type().Underlying().(*types.Basic)
			if !ok {
				continue
			}
			kind := ""
			switch {
			case bt.Info()&types.IsFloat != 0:
				kind = "float"
			case bt.Info()&types.IsString != 0:
				kind = "string"
			default:
				continue
			}
			nCmp++
			ckey := "cmp:symbols." + r.name + ":" + kind
			var cfn *ssa.Function
			switch a := unparen(arg).(type) {
			case *ast.Ident:
				cfn = c.c06FuncOfCallee(pk, info.ObjectOf(a))
			case *ast.SelectorExpr:
				cfn = c.c06FuncOfCallee(pk, info.ObjectOf(a.Sel))
			}
			if cfn == nil || cfn.Blocks == nil {
				c.Undecided("R06c", ckey, arg.Pos(), "comparator argument %d (%s) of the symbols.%s handler is not a named function", i, c.src(arg), r.name)
				continue
			}
			bad, ok := c06CheckComparator(cfn, kind, r.op)
			if !ok {
				c.Undecided("R06c", ckey, cfn.Pos(), "comparator %s is not a single comparison of its two parameters", cfn.Name())
				continue
			}
			c.Check(bad == "", "R06c", ckey, cfn.Pos(), "symbols.%s compares %ss with %s, which must decide `1st %s 2nd` %s", r.name, kind, cfn.Name(), r.op, bad)
		}
		if nCmp != 2 {
			c.Undecided("R06c", key, call.Pos(), "symbols.%s handler call %s does not pass one float and one string comparator", r.name, c.src(call))
			continue
		}
		c.OK("R06c", key, call.Pos(), "symbols.%s → %s with a float and a string comparator", r.name, fn.Name())
		dispatchers[fn] = true
	}
	for fn := range dispatchers {
		c.c06CheckRelDispatcher(fn, boolPrim)
	}

	// ---- equality
	for _, e := range []struct {
		name  string
		equal bool
	}{{"EqualTo", true}, {"NotEqualTo", false}} {
		call := handlerCall(e.name)
		if call == nil {
			continue
		}
		key := "handler:symbols." + e.name
		fn := c.c06FuncOfCallee(pk, callee(info, call))
		if fn == nil || fn.Blocks == nil {
			c.Undecided("R06c", key, call.Pos(), "callee of %s is not a function with a body", c.src(call))
			continue
		}
		nHandlers++
		sem, why, pos := c.c06EqualitySemantics(fn, boolPrim)
		switch sem {
		case 0:
			c.Undecided("R06c", key, pos, "symbols.%s → %s: %s", e.name, fn.Name(), why)
		case 1, -1:
			c.Check((sem == 1) == e.equal, "R06c", key, pos, "symbols.%s → %s folds a Boolean that is %s when compareTypes' two results are equal (%s)", e.name, fn.Name(), map[bool]string{true: "true", false: "false"}[sem == 1], why)
		}
	}
	c.MinCount("R06c", "operator handlers analysed", nHandlers, 10)

	// ---- order-preserving helpers
	for _, h := range []string{"validateNumericalDataTypes", "compareTypes"} {
		fd, _ := c.MustFunc("R06c", c06ExprPkg, "", h)
		if fd == nil {
			continue
		}
		fn := c.SSAFunc(pk, fd)
		if fn == nil || len(fn.Params) != 3 {
			c.Undecided("R06c", "operands:"+h, fd.Pos(), "%s does not have the (tree, leftNode, rightNode) signature", h)
			continue
		}
		nSucc := 0
		okAll := true
		for _, r := range c06Returns(fn) {
			if len(r.Results) != 3 || !c06IsNilConst(r.Results[2]) {
				continue
			}
			nSucc++
			for i := 0; i < 2; i++ {
				res := c06Slice(r.Results[i], nil)
				if len(res.Unknown) > 0 {
					c.Undecided("R06c", fmt.Sprintf("operands:%s:result%d", h, i), r.Pos(), "cannot trace result %d of %s: %s", i, h, strings.Join(res.Unknown, "; "))
					okAll = false
					continue
				}
				want, other := fn.Params[1+i], fn.Params[2-i]
				if !res.Roots[want] || res.Roots[other] {
					okAll = false
					c.Viol("R06c", fmt.Sprintf("operands:%s:result%d", h, i), r.Pos(), "on a success path result %d of %s is computed from %s (must be from %s only): the operands of every operator using it are mixed up or swapped", i, h, c06ParamNames(res.Roots, fn), want.Name())
				}
			}
		}
		if nSucc == 0 {
			c.Undecided("R06c", "operands:"+h, fd.Pos(), "%s has no `return _, _, nil` path", h)
		} else if okAll {
			c.OK("R06c", "operands:"+h, fd.Pos(), "%d success returns of %s: result 0 derives from %s only, result 1 from %s only", nSucc, h, fn.Params[1].Name(), fn.Params[2].Name())
		}
	}

	// ---- getLeftAndRightSymbols = (ast[astPos-1], ast[astPos+1])
	if fd, _ := c.MustFunc("R06c", c06ExprPkg, "ParserT", "getLeftAndRightSymbols"); fd != nil {
		fn := c.SSAFunc(pk, fd)
		n := 0
		for _, r := range c06Returns(fn) {
			if len(r.Results) != 3 || !c06IsNilConst(r.Results[2]) {
				continue
			}
			n++
			for i, want := range []int64{-1, +1} {
				key := fmt.Sprintf("neighbours:result%d", i)
				call, cfn := c06StaticCallee(r.Results[i])
				if call == nil || cfn == nil || cfn.Blocks == nil || len(call.Call.Args) != 1 || call.Call.Args[0] != ssa.Value(fn.Params[0]) {
					c.Undecided("R06c", key, r.Pos(), "result %d of getLeftAndRightSymbols is not a call of a method on the same parser", i)
					continue
				}
				off, ok := c06NeighbourOffset(cfn)
				if !ok {
					c.Undecided("R06c", key, cfn.Pos(), "%s does not return ast[astPos+k] for a constant k", cfn.Name())
					continue
				}
				c.Check(off == want, "R06c", key, cfn.Pos(), "result %d of getLeftAndRightSymbols is %s = ast[astPos%+d], must be ast[astPos%+d] (the %s operand)", i, cfn.Name(), off, want, c06SideName(i))
			}
		}
		if n == 0 {
			c.Undecided("R06c", "neighbours", fd.Pos(), "getLeftAndRightSymbols has no success return")
		}
	}
}

func c06SideName(i int) string {
	if i == 0 {
		return "left"
	}
	return "right"
}

func c06ParamNames(roots map[ssa.Value]bool, fn *ssa.Function) string {
	var ns []string
	for _, p := range fn.Params {
		if roots[p] {
			ns = append(ns, p.Name())
		}
	}
	if len(ns) == 0 {
		return "no parameter"
	}
	return strings.Join(ns, "+")
}

// c06NeighbourOffset: fn returns (besides nil) *(&recv.ast[recv.astPos + k]); yields k.
func c06NeighbourOffset(fn *ssa.Function) (int64, bool) {
	var offs []int64
	for _, r := range c06Returns(fn) {
		if len(r.Results) != 1 {
			return 0, false
		}
		if c06IsNilConst(r.Results[0]) {
			continue
		}
		u, ok := r.Results[0].(*ssa.UnOp)
		if !ok || u.Op != token.MUL {
			return 0, false
		}
		ia, ok := u.X.(*ssa.IndexAddr)
		if !ok {
			return 0, false
		}
		if x, f, ok := c06FieldLoad(ia.X); !ok || f != "ast" || x != ssa.Value(fn.Params[0]) {
			return 0, false
		}
		var vals [2]int64
		for j, p := range []int64{10, 20} {
			v, ok := c06EvalInt(ia.Index, func(v ssa.Value) (int64, bool) {
				if x, f, ok := c06FieldLoad(v); ok && f == "astPos" && x == ssa.Value(fn.Params[0]) {
					return p, true
				}
				return 0, false
			})
			if !ok {
				return 0, false
			}
			vals[j] = v - p
		}
		if vals[0] != vals[1] {
			return 0, false
		}
		offs = append(offs, vals[0])
	}
	if len(offs) != 1 {
		return 0, false
	}
	return offs[0], true
}

// c06CheckComparator evaluates a comparator `func(a, b T) bool` consisting of
// comparisons of its parameters on sample values and compares with `a op b`.
func c06CheckComparator(fn *ssa.Function, kind string, op token.Token) (string, bool) {
	if len(fn.Blocks) == 0 || len(fn.Blocks) > 16 || len(fn.Params) != 2 {
		return "", false
	}
	rets := c06Returns(fn)
	if len(rets) == 0 {
		return "", false
	}
	for _, r := range rets {
		if len(r.Results) != 1 {
			return "", false
		}
	}
	// only comparisons/negations of the parameters, phis and control flow
	for _, b := range fn.Blocks {
		for _, in := range b.Instrs {
			switch in.(type) {
			case *ssa.BinOp, *ssa.UnOp, *ssa.Phi, *ssa.If, *ssa.Jump, *ssa.Return, *ssa.DebugRef:
			default:
				return "", false
			}
		}
	}
	type sample struct {
		f float64
		s string
	}
	var samples []sample
	if kind == "float" {
		for _, f := range []float64{-1.5, 0, 2} {
			samples = append(samples, sample{f: f})
		}
	} else {
		for _, s := range []string{"", "A", "a", "ab", "b"} {
			samples = append(samples, sample{s: s})
		}
	}
	cmp3 := func(a, b sample) int {
		if kind == "float" {
			switch {
			case a.f < b.f:
				return -1
			case a.f > b.f:
				return 1
			}
			return 0
		}
		return strings.Compare(a.s, b.s)
	}
	holds := func(o token.Token, c3 int) bool {
		switch o {
		case token.LSS:
			return c3 < 0
		case token.LEQ:
			return c3 <= 0
		case token.GTR:
			return c3 > 0
		case token.GEQ:
			return c3 >= 0
		case token.EQL:
			return c3 == 0
		case token.NEQ:
			return c3 != 0
		}
		return false
	}
	phiVal := map[ssa.Value]bool{} // phi values of the current concrete run
	var eval func(v ssa.Value, env [2]sample) (bool, bool)
	leaf := func(v ssa.Value, env [2]sample) (sample, bool) {
		switch x := v.(type) {
		case *ssa.Parameter:
			for i, p := range fn.Params {
				if p == x {
					return env[i], true
				}
			}
		case *ssa.Const:
			if x.Value != nil && x.Value.Kind() == constant.String {
				return sample{s: constant.StringVal(x.Value)}, kind == "string"
			}
			if x.Value != nil && kind == "float" {
				f, _ := constant.Float64Val(constant.ToFloat(x.Value))
				return sample{f: f}, true
			}
		}
		return sample{}, false
	}
	eval = func(v ssa.Value, env [2]sample) (bool, bool) {
		switch x := v.(type) {
		case *ssa.UnOp:
			if x.Op == token.NOT {
				b, ok := eval(x.X, env)
				return !b, ok
			}
		case *ssa.BinOp:
			a, ok1 := leaf(x.X, env)
			b, ok2 := leaf(x.Y, env)
			if ok1 && ok2 {
				return holds(x.Op, cmp3(a, b)), true
			}
			if x.Op == token.EQL || x.Op == token.NEQ {
				p, ok1 := eval(x.X, env)
				q, ok2 := eval(x.Y, env)
				if ok1 && ok2 {
					return (p == q) == (x.Op == token.EQL), true
				}
			}
		case *ssa.Const:
			if x.Value != nil && x.Value.Kind() == constant.Bool {
				return constant.BoolVal(x.Value), true
			}
		case *ssa.Phi:
			b, ok := phiVal[x]
			return b, ok
		}
		return false, false
	}
	// concrete run of the (loop-free or bounded) control flow for one pair of samples
	run := func(env [2]sample) (bool, bool) {
		for k := range phiVal {
			delete(phiVal, k)
		}
		blk := fn.Blocks[0]
		var prev *ssa.BasicBlock
		for steps := 0; steps < 64; steps++ {
			// phis read the values of the previous block simultaneously
			newPhi := map[ssa.Value]bool{}
			for _, in := range blk.Instrs {
				ph, ok := in.(*ssa.Phi)
				if !ok {
					break
				}
				idx := -1
				for i, p := range blk.Preds {
					if p == prev {
						idx = i
					}
				}
				if idx < 0 {
					return false, false
				}
				b, ok := eval(ph.Edges[idx], env)
				if !ok {
					return false, false
				}
				newPhi[ph] = b
			}
			for k, v := range newPhi {
				phiVal[k] = v
			}
			var next *ssa.BasicBlock
			switch t := blk.Instrs[len(blk.Instrs)-1].(type) {
			case *ssa.Return:
				return eval(t.Results[0], env)
			case *ssa.Jump:
				next = blk.Succs[0]
			case *ssa.If:
				b, ok := eval(t.Cond, env)
				if !ok {
					return false, false
				}
				if b {
					next = blk.Succs[0]
				} else {
					next = blk.Succs[1]
				}
			default:
				return false, false
			}
			prev, blk = blk, next
		}
		return false, false
	}
	for _, a := range samples {
		for _, b := range samples {
			got, ok := run([2]sample{a, b})
			if !ok {
				return "", false
			}
			if want := holds(op, cmp3(a, b)); got != want {
				if kind == "float" {
					return fmt.Sprintf("— but for (%v, %v) it returns %v", a.f, b.f, got), true
				}
				return fmt.Sprintf("— but for (%q, %q) it returns %v", a.s, b.s, got), true
			}
		}
	}
	return "", true
}

// c06CheckRelDispatcher: the function receiving the comparators applies each to
// (left, right) of compareTypes in that order and folds the result as Boolean.
func (c *Ctx) c06CheckRelDispatcher(fn *ssa.Function, boolPrim int64) {
	name := fn.Name()
	isCmpParam := func(v ssa.Value) bool {
		p, ok := v.(*ssa.Parameter)
		if !ok {
			return false
		}
		_, isSig := p.Type().Underlying().(*types.Signature)
		return isSig
	}
	var cmpCalls []*ssa.Call
	for _, b := range fn.Blocks {
		for _, in := range b.Instrs {
			if call, ok := in.(*ssa.Call); ok && isCmpParam(call.Call.Value) {
				cmpCalls = append(cmpCalls, call)
			}
		}
	}
	if len(cmpCalls) < 2 {
		c.Undecided("R06c", "dispatch:"+name, fn.Pos(), "%s calls its comparator parameters %d times, expected one call per comparator", name, len(cmpCalls))
		return
	}
	for _, call := range cmpCalls {
		p := call.Call.Value.(*ssa.Parameter)
		key := "dispatch:" + name + ":" + p.Name()
		if len(call.Call.Args) != 2 {
			c.Undecided("R06c", key, call.Pos(), "comparator call with %d arguments", len(call.Call.Args))
			continue
		}
		l0, r0, u0 := c06Sides(call.Call.Args[0])
		l1, r1, u1 := c06Sides(call.Call.Args[1])
		if len(u0)+len(u1) > 0 {
			c.Undecided("R06c", key, call.Pos(), "cannot trace comparator arguments: %s", strings.Join(append(u0, u1...), "; "))
			continue
		}
		c.Check(l0 && !r0 && r1 && !l1, "R06c", key, call.Pos(), "%s applies %s to (value of the left operand, value of the right operand) in that order; swapped or mixed arguments turn `a > b` into `b > a`", name, p.Name())
	}
	// the folded Boolean is (a phi of) the comparator results, not negated
	nFold := 0
	for _, r := range c06Returns(fn) {
		if len(r.Results) != 1 {
			continue
		}
		f := c06FoldOf(r.Results[0])
		if f == nil || f.Dt == nil {
			continue
		}
		nFold++
		prim, payload, ok := c06NewPrimitive(f.Dt)
		if !ok {
			c.Undecided("R06c", "dispatch:"+name+":fold", r.Pos(), "%s folds something other than primitives.NewPrimitive(<const>, value)", name)
			continue
		}
		leaves := c06PhiLeaves(payload)
		all := len(leaves) > 0
		for _, l := range leaves {
			call, ok := l.(*ssa.Call)
			if !ok || !isCmpParam(call.Call.Value) {
				all = false
			}
		}
		c.Check(all && prim == boolPrim, "R06c", "dispatch:"+name+":fold", r.Pos(), "%s folds exactly the comparator's result as primitives.Boolean (no negation, no constant)", name)
	}
	if nFold == 0 {
		c.Undecided("R06c", "dispatch:"+name+":fold", fn.Pos(), "%s never returns a foldAst result", name)
	}
}

func c06PhiLeaves(v ssa.Value) []ssa.Value {
	var out []ssa.Value
	seen := map[ssa.Value]bool{}
	var walk func(v ssa.Value)
	walk = func(v ssa.Value) {
		if seen[v] {
			return
		}
		seen[v] = true
		if p, ok := v.(*ssa.Phi); ok {
			for _, e := range p.Edges {
				walk(e)
			}
			return
		}
		out = append(out, v)
	}
	walk(v)
	return out
}

// c06EqualitySemantics: +1 the handler folds `l == r`, -1 it folds `l != r`, 0 unknown.
func (c *Ctx) c06EqualitySemantics(fn *ssa.Function, boolPrim int64) (int, string, token.Pos) {
	// the Boolean DataType value that is folded
	var dt ssa.Value
	var foldBlock *ssa.BasicBlock
	for _, r := range c06Returns(fn) {
		if len(r.Results) != 1 {
			continue
		}
		if f := c06FoldOf(r.Results[0]); f != nil && f.Dt != nil {
			if dt != nil {
				return 0, "more than one fold", r.Pos()
			}
			dt = f.Dt
			foldBlock = f.Call.Block()
		}
	}
	if dt == nil {
		return 0, "no foldAst result is returned", fn.Pos()
	}
	neg := 0
	// dt either is NewPrimitive(Boolean, binop) or result 0 of a helper returning that
	core := dt
	if call, idx, ok := c06Extract(dt); ok && idx == 0 {
		h := call.Call.StaticCallee()
		if h == nil || h.Blocks == nil {
			return 0, "folded value comes from a dynamic call", call.Pos()
		}
		var cores []ssa.Value
		for _, r := range c06Returns(h) {
			if len(r.Results) == 2 && c06IsNilConst(r.Results[1]) {
				cores = append(cores, r.Results[0])
			}
		}
		if len(cores) != 1 {
			return 0, fmt.Sprintf("%s has %d success returns", h.Name(), len(cores)), h.Pos()
		}
		core = cores[0]
		// NotValue applications on dt in fn
		if dt.Referrers() != nil {
			for _, r := range *dt.Referrers() {
				call, ok := r.(*ssa.Call)
				if !ok {
					continue
				}
				if c06FnIs(call.Call.StaticCallee(), c06PrimPkg, "DataType", "NotValue") {
					if !call.Block().Dominates(foldBlock) {
						return 0, "NotValue is applied conditionally", call.Pos()
					}
					if !c.c06NotValueNegates(call.Call.StaticCallee()) {
						return 0, "(*DataType).NotValue does not store the negation of its Boolean value", call.Pos()
					}
					neg++
				}
			}
		}
	}
	prim, payload, ok := c06NewPrimitive(core)
	if !ok || prim != boolPrim {
		return 0, "the folded value is not primitives.NewPrimitive(primitives.Boolean, …)", core.Pos()
	}
	for {
		u, ok := payload.(*ssa.UnOp)
		if !ok || u.Op != token.NOT {
			break
		}
		neg++
		payload = u.X
	}
	bo, ok := payload.(*ssa.BinOp)
	if !ok || (bo.Op != token.EQL && bo.Op != token.NEQ) {
		return 0, "the Boolean payload is not an ==/!= comparison", core.Pos()
	}
	sx, sy := c06Operand(bo.X, 0), c06Operand(bo.Y, 0)
	if sx < 0 || sy < 0 || sx == sy {
		return 0, "the compared values are not the two results of compareTypes(tree, left, right)", bo.Pos()
	}
	if cx, _, _ := c06Extract(bo.X); cx == nil || !c06FnIs(cx.Call.StaticCallee(), c06ExprPkg, "", "compareTypes") {
		return 0, "the compared values do not come from compareTypes", bo.Pos()
	}
	if bo.Op == token.NEQ {
		neg++
	}
	why := fmt.Sprintf("`%s` on compareTypes' results with %d negation(s)", token.EQL, neg)
	if neg%2 == 0 {
		return 1, why, bo.Pos()
	}
	return -1, why, bo.Pos()
}

// c06NotValueNegates: NotValue stores !(<same field>.(bool)) into a Value field.
func (c *Ctx) c06NotValueNegates(fn *ssa.Function) bool {
	if fn == nil || fn.Blocks == nil {
		return false
	}
	n := 0
	for _, b := range fn.Blocks {
		for _, in := range b.Instrs {
			st, ok := in.(*ssa.Store)
			if !ok {
				continue
			}
			fa, ok := st.Addr.(*ssa.FieldAddr)
			if !ok {
				continue
			}
			u, ok := c06StripIface(st.Val).(*ssa.UnOp)
			if !ok || u.Op != token.NOT {
				return false
			}
			ta, ok := u.X.(*ssa.TypeAssert)
			if !ok {
				return false
			}
			ld, ok := ta.X.(*ssa.UnOp)
			if !ok || ld.Op != token.MUL {
				return false
			}
			fb, ok := ld.X.(*ssa.FieldAddr)
			if !ok || !c06SameAddr(fa, fb) {
				return false
			}
			n++
		}
	}
	return n == 1
}

// c06SameAddr: two address/value expressions denote the same location, assuming
// no intervening store (structural: parameter, field address, load).
func c06SameAddr(a, b ssa.Value) bool {
	if a == b {
		return true
	}
	switch x := a.(type) {
	case *ssa.FieldAddr:
		y, ok := b.(*ssa.FieldAddr)
		return ok && x.Field == y.Field && c06SameAddr(x.X, y.X)
	case *ssa.UnOp:
		y, ok := b.(*ssa.UnOp)
		return ok && x.Op == y.Op && x.Op == token.MUL && c06SameAddr(x.X, y.X)
	}
	return false
}

// ---------------------------------------------------------------- R06e

// c06Sl models a Go slice over a shared backing array (so that in-place
// append aliasing is reproduced faithfully).
type c06Sl struct {
	arr     *[]int64
	off, n  int
	cp      int
	invalid string
}

func (s c06Sl) list() []int64 {
	out := make([]int64, s.n)
	copy(out, (*s.arr)[s.off:s.off+s.n])
	return out
}

func c06NewSl(vals []int64, cp int) c06Sl {
	if cp < len(vals) {
		cp = len(vals)
	}
	arr := make([]int64, cp)
	copy(arr, vals)
	return c06Sl{arr: &arr, n: len(vals), cp: cp}
}

type c06FoldEnv struct {
	info   *types.Info
	ast    c06Sl
	pos    int64
	newObj types.Object
	locals map[types.Object]c06Sl
	ints   map[types.Object]int64 // integer locals (`n := len(tree.ast)`, `p := tree.astPos`): value at the time of the assignment
	parser string
}

func (e *c06FoldEnv) intAtom(x ast.Expr) (int64, bool) {
	if c06FieldAtom(e.info, x, e.parser, "astPos") {
		return e.pos, true
	}
	if id, ok := x.(*ast.Ident); ok && e.ints != nil {
		if v, ok := e.ints[e.info.ObjectOf(id)]; ok {
			return v, true
		}
	}
	if lc, ok := isBuiltinCall(e.info, x, "len"); ok && len(lc.Args) == 1 {
		if s, ok := e.slice(lc.Args[0]); ok && s.invalid == "" {
			return int64(s.n), true
		}
	}
	return 0, false
}

func (e *c06FoldEnv) elem(x ast.Expr) (int64, bool) {
	if id, ok := unparen(x).(*ast.Ident); ok && e.info.ObjectOf(id) == e.newObj {
		return -1, true
	}
	if ix, ok := unparen(x).(*ast.IndexExpr); ok {
		s, ok1 := e.slice(ix.X)
		i, ok2 := c06EvalAST(e.info, ix.Index, e.intAtom)
		if ok1 && ok2 && !i.IsBool && i.I >= 0 && int(i.I) < s.n {
			return (*s.arr)[s.off+int(i.I)], true
		}
	}
	return 0, false
}

func (e *c06FoldEnv) slice(x ast.Expr) (c06Sl, bool) {
	x = unparen(x)
	if c06FieldAtom(e.info, x, e.parser, "ast") {
		return e.ast, true
	}
	switch v := x.(type) {
	case *ast.Ident:
		if s, ok := e.locals[e.info.ObjectOf(v)]; ok {
			return s, true
		}
	case *ast.SliceExpr:
		s, ok := e.slice(v.X)
		if !ok || v.Slice3 {
			return s, false
		}
		if s.invalid != "" {
			return s, true
		}
		lo, hi := 0, s.n
		if v.Low != nil {
			r, ok := c06EvalAST(e.info, v.Low, e.intAtom)
			if !ok || r.IsBool {
				return s, false
			}
			lo = int(r.I)
		}
		if v.High != nil {
			r, ok := c06EvalAST(e.info, v.High, e.intAtom)
			if !ok || r.IsBool {
				return s, false
			}
			hi = int(r.I)
		}
		if lo < 0 || hi < lo || hi > s.cp {
			return c06Sl{invalid: fmt.Sprintf("slice bounds out of range [%d:%d] with capacity %d", lo, hi, s.cp)}, true
		}
		return c06Sl{arr: s.arr, off: s.off + lo, n: hi - lo, cp: s.cp - lo}, true
	case *ast.CompositeLit:
		if _, ok := e.info.TypeOf(v).Underlying().(*types.Slice); !ok {
			return c06Sl{}, false
		}
		var vals []int64
		for _, el := range v.Elts {
			ev, ok := e.elem(el)
			if !ok {
				return c06Sl{}, false
			}
			vals = append(vals, ev)
		}
		return c06NewSl(vals, len(vals)), true
	case *ast.CallExpr:
		call, ok := isBuiltinCall(e.info, v, "append")
		if !ok || len(call.Args) < 1 {
			return c06Sl{}, false
		}
		base, ok := e.slice(call.Args[0])
		if !ok {
			return base, false
		}
		if base.invalid != "" {
			return base, true
		}
		var vals []int64
		if call.Ellipsis.IsValid() {
			if len(call.Args) != 2 {
				return base, false
			}
			src, ok := e.slice(call.Args[1])
			if !ok {
				return src, false
			}
			if src.invalid != "" {
				return src, true
			}
			vals = src.list()
		} else {
			for _, a := range call.Args[1:] {
				ev, ok := e.elem(a)
				if !ok {
					return base, false
				}
				vals = append(vals, ev)
			}
		}
		if base.n+len(vals) <= base.cp {
			copy((*base.arr)[base.off+base.n:], vals)
			return c06Sl{arr: base.arr, off: base.off, n: base.n + len(vals), cp: base.cp}, true
		}
		return c06NewSl(append(base.list(), vals...), base.n+len(vals)+2), true
	}
	return c06Sl{}, false
}

// run executes the statements of the fold function for the configured model.
// Returns: "ok" (returned nil), "err" (returned an error), or "?"+reason.
func (e *c06FoldEnv) run(list []ast.Stmt) string {
	for _, st := range list {
		switch s := st.(type) {
		case *ast.SwitchStmt:
			if s.Tag != nil || s.Init != nil {
				return "?tagged switch"
			}
			var chosen *ast.CaseClause
			var dflt *ast.CaseClause
			for _, cs := range s.Body.List {
				cc := cs.(*ast.CaseClause)
				if cc.List == nil {
					dflt = cc
					continue
				}
				hit := false
				for _, cond := range cc.List {
					v, ok := c06EvalAST(e.info, cond, e.intAtom)
					if !ok || !v.IsBool {
						return "?condition " + types.ExprString(cond)
					}
					if v.B {
						hit = true
					}
				}
				if hit {
					chosen = cc
					break
				}
			}
			if chosen == nil {
				chosen = dflt
			}
			if chosen != nil {
				if r := e.run(chosen.Body); r != "" {
					return r
				}
			}
		case *ast.IfStmt:
			if s.Init != nil {
				return "?if with init"
			}
			v, ok := c06EvalAST(e.info, s.Cond, e.intAtom)
			if !ok || !v.IsBool {
				return "?condition " + types.ExprString(s.Cond)
			}
			if v.B {
				if r := e.run(s.Body.List); r != "" {
					return r
				}
			} else if s.Else != nil {
				var r string
				switch el := s.Else.(type) {
				case *ast.BlockStmt:
					r = e.run(el.List)
				case *ast.IfStmt:
					r = e.run([]ast.Stmt{el})
				}
				if r != "" {
					return r
				}
			}
		case *ast.AssignStmt:
			if len(s.Lhs) != len(s.Rhs) || (s.Tok != token.ASSIGN && s.Tok != token.DEFINE) {
				return "?assignment " + src(token.NewFileSet(), s)
			}
			// all right-hand sides are evaluated before any store (Go's parallel assignment)
			type rhsVal struct {
				sl    c06Sl
				i     int64
				isInt bool
			}
			vals := make([]rhsVal, len(s.Rhs))
			for i, r := range s.Rhs {
				if bt, isBasic := e.info.TypeOf(r).Underlying().(*types.Basic); isBasic && bt.Info()&types.IsInteger != 0 {
					iv, ok := c06EvalAST(e.info, r, e.intAtom)
					if !ok || iv.IsBool {
						return "?integer expression " + types.ExprString(r)
					}
					vals[i] = rhsVal{i: iv.I, isInt: true}
					continue
				}
				val, ok := e.slice(r)
				if !ok {
					return "?slice expression " + types.ExprString(r)
				}
				if val.invalid != "" {
					return "panic: " + val.invalid
				}
				vals[i] = rhsVal{sl: val}
			}
			for i, l := range s.Lhs {
				id, isId := l.(*ast.Ident)
				switch {
				case vals[i].isInt && isId:
					if id.Name == "_" {
						continue
					}
					if e.ints == nil {
						e.ints = map[types.Object]int64{}
					}
					e.ints[e.info.ObjectOf(id)] = vals[i].i
				case vals[i].isInt:
					return "?store to " + types.ExprString(l)
				case c06FieldAtom(e.info, l, e.parser, "ast"):
					e.ast = vals[i].sl
				case isId:
					e.locals[e.info.ObjectOf(id)] = vals[i].sl
				default:
					return "?store to " + types.ExprString(l)
				}
			}
		case *ast.ReturnStmt:
			if len(s.Results) != 1 {
				return "?return"
			}
			if id, ok := unparen(s.Results[0]).(*ast.Ident); ok && id.Name == "nil" {
				return "ok"
			}
			return "err"
		case *ast.BlockStmt:
			if r := e.run(s.List); r != "" {
				return r
			}
		default:
			return fmt.Sprintf("?statement %T", st)
		}
	}
	return ""
}

func (c *Ctx) c06FoldModel(pk *packages.Package) {
	fd, _ := c.MustFunc("R06e", c06ExprPkg, "ParserT", "foldAst")
	if fd == nil {
		return
	}
	info := pk.TypesInfo
	var newObj types.Object
	if fd.Type.Params != nil && len(fd.Type.Params.List) == 1 && len(fd.Type.Params.List[0].Names) == 1 {
		newObj = info.Defs[fd.Type.Params.List[0].Names[0]]
	}
	if newObj == nil {
		c.Undecided("R06e", "fold:model", fd.Pos(), "foldAst does not take exactly one node parameter")
		return
	}
	nCfg := 0
	for n := 2; n <= 8; n++ {
		for p := -1; p <= n; p++ {
			for _, extra := range []int{0, 3} {
				vals := make([]int64, n)
				for i := range vals {
					vals[i] = int64(i)
				}
				env := &c06FoldEnv{info: info, ast: c06NewSl(vals, n+extra), pos: int64(p), newObj: newObj, locals: map[types.Object]c06Sl{}, parser: mx(c06ExprPkg) + ".ParserT"}
				r := env.run(fd.Body.List)
				cfg := fmt.Sprintf("len(ast)=%d cap=%d astPos=%d", n, n+extra, p)
				valid := p >= 1 && p <= n-2
				switch {
				case strings.HasPrefix(r, "?") || r == "":
					c.Undecided("R06e", "fold:model", fd.Pos(), "foldAst uses a construct outside the modelled slice language (%s) at %s", strings.TrimPrefix(r, "?"), cfg)
					return
				case strings.HasPrefix(r, "panic"):
					c.Viol("R06e", "fold:model", fd.Pos(), "foldAst panics for %s: %s", cfg, r)
					return
				case !valid:
					if r != "err" {
						c.Viol("R06e", "fold:bounds", fd.Pos(), "foldAst accepts %s although there is no operand on both sides of the operator", cfg)
						return
					}
				case r == "err":
					c.Viol("R06e", "fold:model", fd.Pos(), "foldAst rejects the valid position %s: expressions with an operator there cannot be evaluated", cfg)
					return
				default:
					var want []int64
					want = append(want, vals[:p-1]...)
					want = append(want, -1)
					want = append(want, vals[p+2:]...)
					got := env.ast.list()
					if fmt.Sprint(got) != fmt.Sprint(want) {
						c.Viol("R06e", "fold:model", fd.Pos(), "foldAst at %s leaves %v, expected %v (nodes i, the folded result -1): operands of neighbouring operators are lost or duplicated", cfg, got, want)
						return
					}
				}
				nCfg++
			}
		}
	}
	c.OK("R06e", "fold:model", fd.Pos(), "foldAst replaces ast[p-1..p+1] by the new node for all %d modelled (length, capacity, position) configurations and rejects positions without two neighbours", nCfg)
	c.OK("R06e", "fold:bounds", fd.Pos(), "foldAst returns an error when astPos has no operand on both sides")
}

// ---------------------------------------------------------------- R06f

func (c *Ctx) c06ParseFloat() {
	n := 0
	for _, rel := range []string{c06ExprPkg, "lang/types"} {
		pk := c.Pkg(rel)
		if pk == nil {
			c.Lost("R06f", "pkg:"+rel, "package %s not loaded", rel)
			continue
		}
		eachFunc(pk, func(fd *ast.FuncDecl) {
			k := 0
			for _, call := range calls(fd.Body, true) {
				if !callIs(pk.TypesInfo, call, "strconv", "", "ParseFloat") || len(call.Args) != 2 {
					continue
				}
				k++
				n++
				key := fmt.Sprintf("parsefloat:%s#%d", funcKey(rel, fd), k)
				v, ok := constInt(pk.TypesInfo, call.Args[1])
				if !ok {
					c.Undecided("R06f", key, call.Pos(), "non-constant bitSize in %s", c.src(call))
					continue
				}
				c.Check(v == 64, "R06f", key, call.Pos(), "%s parses with bitSize %d; anything but 64 rounds numeric literals/strings to single precision before arithmetic", c.src(call), v)
			}
		})
	}
	c.MinCount("R06f", "strconv.ParseFloat calls in lang/expressions and lang/types", n, 5)
	// every primitives.Number built in lang/expressions carries a float64 (an int payload would make 1 == 1.0 false: == compares interface values)
	epk := c.Pkg(c06ExprPkg)
	numPrim, _ := c06PrimConst(c, "Number")
	m := 0
	if epk != nil {
		eachFunc(epk, func(fd *ast.FuncDecl) {
			k := 0
			for _, call := range calls(fd.Body, true) {
				if !callIs(epk.TypesInfo, call, mx(c06PrimPkg), "", "NewPrimitive") || len(call.Args) != 2 {
					continue
				}
				if v, ok := constInt(epk.TypesInfo, call.Args[0]); !ok || v != numPrim {
					continue
				}
				k++
				m++
				t := epk.TypesInfo.TypeOf(call.Args[1])
				key := fmt.Sprintf("number-payload:%s#%d", funcKey(c06ExprPkg, fd), k)
				if t == nil || types.IsInterface(t) {
					c.Undecided("R06f", key, call.Pos(), "payload of %s has a dynamic type", c.src(call))
					continue
				}
				bt, isBasic := t.Underlying().(*types.Basic)
				c.Check(isBasic && bt.Kind() == types.Float64, "R06f", key, call.Pos(), "%s builds a Number from a %s; numbers must be float64 so that equal numbers compare equal however they are written", c.src(call), t)
			}
		})
	}
	c.MinCount("R06f", "primitives.Number constructions in lang/expressions", m, 5)
}

// ---------------------------------------------------------------- R06g

type c06TokPath struct {
	sym    int64
	found  bool
	incs   int
	symPos token.Pos
}

func (c *Ctx) c06TokenTable(pk *packages.Package, byName map[string]int64) {
	info := pk.TypesInfo
	fd, _ := c.MustFunc("R06g", c06ExprPkg, "ParserT", "parseExpression")
	if fd == nil {
		return
	}
	// the rune switch: tagged switch with rune constant cases containing '+'
	var sw *ast.SwitchStmt
	ast.Inspect(fd.Body, func(n ast.Node) bool {
		s, ok := n.(*ast.SwitchStmt)
		if !ok || s.Tag == nil || sw != nil {
			return true
		}
		for _, cs := range s.Body.List {
			for _, e := range cs.(*ast.CaseClause).List {
				if v, ok := constInt(info, e); ok && v == '+' {
					if bt, ok := info.TypeOf(s.Tag).Underlying().(*types.Basic); ok && bt.Kind() == types.Int32 {
						sw = s
					}
				}
			}
		}
		return true
	})
	if sw == nil {
		c.Undecided("R06g", "switch:parseExpression", fd.Pos(), "no rune switch with a '+' case in parseExpression")
		return
	}
	var boolParams []types.Object
	for _, f := range fd.Type.Params.List {
		for _, n := range f.Names {
			if bt, ok := info.TypeOf(f.Type).Underlying().(*types.Basic); ok && bt.Kind() == types.Bool {
				boolParams = append(boolParams, info.Defs[n])
			}
		}
	}
	defs := localDefs(info, fd.Body)
	parserT := mx(c06ExprPkg) + ".ParserT"
	isNextChar := func(e ast.Expr) bool {
		call, ok := unparen(e).(*ast.CallExpr)
		return ok && callIs(info, call, mx(c06ExprPkg), "ParserT", "nextChar")
	}
	// last: key of the last node already in the list ("" = not relevant, "-" = empty list)
	table := []struct {
		first, next rune
		sym         string
		last        string
	}{
		{'+', ' ', "Add", ""}, {'-', ' ', "Subtract", ""}, {'*', ' ', "Multiply", ""}, {'/', ' ', "Divide", ""},
		{'>', ' ', "GreaterThan", ""}, {'>', '=', "GreaterThanOrEqual", ""}, {'<', ' ', "LessThan", ""}, {'<', '=', "LessThanOrEqual", ""},
		{'=', '=', "EqualTo", ""}, {'!', '=', "NotEqualTo", ""}, {'&', '&', "LogicalAnd", ""}, {'|', '|', "LogicalOr", ""},
		{'?', ':', "Elvis", ""}, {'?', '?', "NullCoalescing", ""},
		// `-` directly followed by a digit: a negative literal only at the start or after an operator
		{'-', '5', "Number", "-"}, {'-', '5', "Number", "Multiply"}, {'-', '5', "Number", "Subtract"}, {'-', '5', "Number", "GreaterThan"}, {'-', '5', "Number", "Assign"},
		{'-', '5', "Subtract", "Number"}, {'-', '5', "Subtract", "Calculated"}, {'-', '5', "Subtract", "Scalar"},
	}
	n := 0
	for _, row := range table {
		spelling := string(row.first)
		if row.next != ' ' {
			spelling += string(row.next)
		}
		key := "token:" + spelling
		if row.last != "" {
			key = "token:-<digit> after " + row.last
			if row.last == "-" {
				key = "token:-<digit> at start"
			}
		}
		var cc *ast.CaseClause
		for _, cs := range sw.Body.List {
			for _, e := range cs.(*ast.CaseClause).List {
				if v, ok := constInt(info, e); ok && v == int64(row.first) {
					cc = cs.(*ast.CaseClause)
				}
			}
		}
		if cc == nil {
			c.Viol("R06g", key, sw.Pos(), "parseExpression has no case for %q: the operator %s cannot be written", row.first, spelling)
			continue
		}
		n++
		next := int64(row.next)
		lastKey, listLen := int64(0), int64(-1)
		if row.last == "-" {
			listLen = 0
		} else if row.last != "" {
			lastKey, listLen = byName[row.last], 3
		}
		atom := func(e ast.Expr) (int64, bool) {
			if isNextChar(e) {
				return next, true
			}
			if listLen >= 0 {
				if lc, ok := isBuiltinCall(info, e, "len"); ok && c06FieldAtom(info, lc.Args[0], parserT, "ast") {
					return listLen, true
				}
				if se, ok := e.(*ast.SelectorExpr); ok && listLen > 0 && c06FieldAtom(info, se, mx(c06ExprPkg)+".astNodeT", "key") {
					// the only node examined by the arm is the last one: ast[len(ast)-1]
					if ix, ok := unparen(se.X).(*ast.IndexExpr); ok && c06FieldAtom(info, ix.X, parserT, "ast") {
						v, ok := c06EvalAST(info, ix.Index, func(x ast.Expr) (int64, bool) {
							if lc, ok := isBuiltinCall(info, x, "len"); ok && c06FieldAtom(info, lc.Args[0], parserT, "ast") {
								return listLen, true
							}
							return 0, false
						})
						if ok && !v.IsBool && v.I == listLen-1 {
							return lastKey, true
						}
					}
				}
			}
			if id, ok := e.(*ast.Ident); ok {
				if d := defs.resolve1(info, id); isNextChar(d) {
					return next, true
				}
			}
			return 0, false
		}
		batom := func(e ast.Expr) (bool, bool) {
			if id, ok := e.(*ast.Ident); ok {
				for _, p := range boolParams {
					if info.ObjectOf(id) == p {
						return true, true
					}
				}
			}
			return false, false
		}
		path := &c06TokPath{}
		var exec func(list []ast.Stmt) string
		exec = func(list []ast.Stmt) string {
			for _, st := range list {
				switch s := st.(type) {
				case *ast.ExprStmt:
					if call, ok := s.X.(*ast.CallExpr); ok && (callIs(info, call, mx(c06ExprPkg), "ParserT", "appendAst") || callIs(info, call, mx(c06ExprPkg), "ParserT", "appendAstWithPrimitive")) && len(call.Args) >= 1 {
						if !path.found {
							v, ok := constInt(info, call.Args[0])
							if !ok {
								return "?non-constant symbol " + c.src(call.Args[0])
							}
							path.sym, path.found, path.symPos = v, true, call.Pos()
						} else {
							return "?second appendAst on the same path"
						}
					}
				case *ast.IncDecStmt:
					if c06FieldAtom(info, s.X, parserT, "charPos") {
						if s.Tok == token.INC {
							path.incs++
						} else {
							path.incs--
						}
					}
				case *ast.AssignStmt:
					for _, l := range s.Lhs {
						if c06FieldAtom(info, l, parserT, "charPos") {
							return "?charPos assigned"
						}
					}
				case *ast.BranchStmt:
					return "stop"
				case *ast.ReturnStmt:
					return "stop"
				case *ast.BlockStmt:
					if r := exec(s.List); r != "" {
						return r
					}
				case *ast.IfStmt:
					if s.Init != nil {
						return "?if with init"
					}
					v, ok := c06EvalASTB(info, s.Cond, atom, batom)
					if !ok || !v.IsBool {
						return "?condition " + c.src(s.Cond)
					}
					if v.B {
						if r := exec(s.Body.List); r != "" {
							return r
						}
					} else if s.Else != nil {
						if r := exec([]ast.Stmt{s.Else}); r != "" {
							return r
						}
					}
				case *ast.SwitchStmt:
					var chosen, dflt *ast.CaseClause
					for _, cs := range s.Body.List {
						k := cs.(*ast.CaseClause)
						if k.List == nil {
							dflt = k
							continue
						}
						for _, e := range k.List {
							var hit bool
							if s.Tag != nil {
								tv, ok1 := c06EvalASTB(info, s.Tag, atom, batom)
								cv, ok2 := c06EvalASTB(info, e, atom, batom)
								if !ok1 || !ok2 || tv.IsBool || cv.IsBool {
									return "?switch " + c.src(s.Tag)
								}
								hit = tv.I == cv.I
							} else {
								v, ok := c06EvalASTB(info, e, atom, batom)
								if !ok || !v.IsBool {
									return "?condition " + c.src(e)
								}
								hit = v.B
							}
							if hit && chosen == nil {
								chosen = k
							}
						}
						if chosen != nil {
							break
						}
					}
					if chosen == nil {
						chosen = dflt
					}
					if chosen != nil {
						if r := exec(chosen.Body); r != "" {
							return r
						}
					}
				case *ast.DeclStmt, *ast.EmptyStmt:
				default:
					return fmt.Sprintf("?statement %T", st)
				}
			}
			return ""
		}
		r := exec(cc.Body)
		if strings.HasPrefix(r, "?") && !path.found {
			c.Undecided("R06g", key, cc.Pos(), "cannot follow the %q arm of parseExpression for next char %q: %s", row.first, row.next, strings.TrimPrefix(r, "?"))
			continue
		}
		want := byName[row.sym]
		if !path.found {
			c.Viol("R06g", key, cc.Pos(), "the spelling %s appends no operator node (expected symbols.%s)", spelling, row.sym)
			continue
		}
		if path.sym != want {
			c.Viol("R06g", key, path.symPos, "%s appends symbol %d, expected symbols.%s (=%d): the operator is evaluated as a different one (for `-<digit>`: `a -1` must subtract, `a * -1` must not)", strings.TrimPrefix(key, "token:"), path.sym, row.sym, want)
			continue
		}
		if strings.HasPrefix(r, "?") {
			c.Undecided("R06g", key, cc.Pos(), "after appending symbols.%s for %s the arm cannot be followed: %s", row.sym, spelling, strings.TrimPrefix(r, "?"))
			continue
		}
		if row.last != "" {
			c.OK("R06g", key, path.symPos, "`-` followed by a digit %s appends symbols.%s", strings.TrimPrefix(key, "token:-<digit> "), row.sym)
			continue
		}
		wantInc := 0
		if row.next != ' ' {
			wantInc = 1
		}
		c.Check(path.incs == wantInc, "R06g", key, path.symPos, "%s appends symbols.%s and consumes %d extra character(s) (charPos moved by %d); a wrong count re-reads or swallows the next character", spelling, row.sym, wantInc, path.incs)
	}
	c.MinCount("R06g", "operator spellings followed through parseExpression", n, 22)
}
