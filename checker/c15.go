package main

import (
	"go/ast"
	"go/token"
	"go/types"
	"sort"
	"strings"

	"golang.org/x/tools/go/packages"
)

func init() {
	register("C15", "Decides (structurally): (R15a) str, *, json, jsonl and yaml each register an array writer, an array reader and a typed array reader under one constant name in one linked package, and every other type that has both a writer and a reader either has its own typed reader or shares the line reader of str/* (for which the generic typed fallback yields the same elements); stdio.ReadArray/ReadArrayWithType/WriteArray look the type up by the stream's own data type; (R15b) foreach's default callback runs forEachInnerLoop exactly once per element synchronously with the element and type it was given, and forEachInnerLoop reaches fork.Execute(block) on every path that did not cancel the process; (R15c) every element loop of the registered readers and the lang array templates they call visits the whole container and invokes the callback exactly once per iteration, leaving early only on cancellation or with an error; (R15d) every array writer's Write/WriteString emits its argument exactly once. Does NOT decide the bytes each codec produces (quoting, JSON escaping), bufio.Scanner's 64 KiB line limit (inside the property's 60 KiB bound), nor map iteration order.", runC15)
}

var c15Named = []string{"str", "*", "json", "jsonl", "yaml"}

func runC15(c *Ctx) {
	c.Load("builtins/core/structs", "builtins/types/string", "builtins/types/generic", "builtins/types/json", "builtins/types/jsonlines", "builtins/types/yaml", "builtins/types/toml", "builtins/types/null")
	regs := c15a(c)
	c15b(c)
	c15c(c, regs)
	c15d(c, regs)
}

// ---------------------------------------------------------------- R15a

func c15a(c *Ctx) []c14Reg {
	c.Rule("R15a", "registry: each of str, *, json, jsonl, yaml has stdio.RegisterWriteArray, RegisterReadArray and RegisterReadArrayWithType called with that one constant name in an init function of one package linked into `builtins`; every other loaded type with a writer and a reader has a typed reader too, or registers the very reader function of str/* (line splitter; the generic typed fallback then yields the same elements); stdio.ReadArray/ReadArrayWithType/WriteArray index their table with the stream's GetDataType() (WriteArray: its dt parameter) and fall back only to types.Generic")
	regs := c14Registry(c, "R15a", "lang/stdio", []string{"RegisterWriteArray", "RegisterReadArray", "RegisterReadArrayWithType"})
	linked := c14Linked(c)
	by := map[string]map[string][]c14Reg{}
	for _, r := range regs {
		if by[r.name] == nil {
			by[r.name] = map[string][]c14Reg{}
		}
		by[r.name][r.kind] = append(by[r.name][r.kind], r)
	}
	c.MinCount("R15a", "array reader/writer registrations", len(regs), 20)
	lineReaders := map[types.Object]bool{}
	for _, n := range []string{"str", "*"} {
		for _, r := range by[n]["ReadArray"] {
			if r.fn != nil {
				lineReaders[r.fn] = true
			}
		}
	}
	var names []string
	for n := range by {
		names = append(names, n)
	}
	sort.Strings(names)
	var table []string
	for _, n := range names {
		k := by[n]
		w, r, rt := k["WriteArray"], k["ReadArray"], k["ReadArrayWithType"]
		table = append(table, n+"(W"+itoa(len(w))+" R"+itoa(len(r))+" RT"+itoa(len(rt))+")")
		named := false
		for _, x := range c15Named {
			if x == n {
				named = true
			}
		}
		key := "registry:" + n
		if !named && (len(w) == 0 || len(r) == 0) {
			continue // not a read+write array type: outside the property
		}
		pos := token.NoPos
		if len(w) > 0 {
			pos = w[0].call.Pos()
		}
		switch {
		case len(w) == 0 || len(r) == 0:
			c.Viol("R15a", key, pos, "type %q has %d array writers and %d array readers registered: a list written as %s cannot be read back element by element", n, len(w), len(r), n)
		case len(w) > 1 || len(r) > 1 || len(rt) > 1:
			c.Viol("R15a", key, pos, "type %q has duplicate array registrations (W%d R%d RT%d): Register* panics at start-up", n, len(w), len(r), len(rt))
		case len(rt) == 0 && named:
			c.Viol("R15a", key, pos, "type %q has an array writer and reader but no RegisterReadArrayWithType: foreach (which iterates with ReadArrayWithType) silently falls back to the generic line splitter and does not see the elements that `-> format %s`/a:%s wrote", n, n, n)
		case len(rt) == 0 && !(r[0].fn != nil && lineReaders[r[0].fn]):
			c.Viol("R15a", key, pos, "type %q has an array writer and its own array reader (%s) but no typed reader: foreach falls back to the generic line splitter and visits lines, not the elements the %s reader yields", n, c15FnName(r[0]), n)
		case len(rt) == 0:
			c.OK("R15a", key, pos, "alias of the str/* line reader %s; the generic typed fallback splits the same lines", c15FnName(r[0]))
		case w[0].pk != r[0].pk || w[0].pk != rt[0].pk:
			c.Viol("R15a", key, pos, "the array writer, reader and typed reader of %q are registered by different packages: two codecs for one format", n)
		case !linked[w[0].pk.PkgPath]:
			c.Viol("R15a", key, pos, "package %s is not imported by builtins: type %q does not exist in the shell", relPkg(w[0].pk.PkgPath), n)
		default:
			c.OK("R15a", key, pos, "%s: writer=%s reader=%s typed=%s", relPkg(w[0].pk.PkgPath), c15FnName(w[0]), c15FnName(r[0]), c15FnName(rt[0]))
		}
	}
	c.Info("R15a registry (loaded packages): %s", strings.Join(table, " "))

	// dispatch templates
	for _, d := range []struct{ fn, tab string }{{"ReadArray", "readArray"}, {"ReadArrayWithType", "readArrayWithType"}, {"WriteArray", "writeArray"}} {
		fd, pk := c.MustFunc("R15a", "lang/stdio", "", d.fn)
		if fd == nil {
			continue
		}
		info := pk.TypesInfo
		defs := localDefs(info, fd.Body)
		var io0 types.Object
		if len(fd.Type.Params.List) > 0 {
			for _, fl := range fd.Type.Params.List {
				for _, nm := range fl.Names {
					if namedName(info.Defs[nm].Type()) == "Io" && io0 == nil {
						io0 = info.Defs[nm]
					}
				}
			}
		}
		nIdx, bad := 0, ""
		ast.Inspect(fd.Body, func(n ast.Node) bool {
			ix, ok := n.(*ast.IndexExpr)
			if !ok {
				return true
			}
			if !isPkgObj(info, ix.X, mx("lang/stdio"), d.tab) {
				if id, ok := unparen(ix.X).(*ast.Ident); ok {
					if v, ok := info.ObjectOf(id).(*types.Var); ok && v.Pkg() == pk.Types && v.Parent() == pk.Types.Scope() {
						bad = "indexes table " + id.Name + " instead of " + d.tab
					}
				}
				return true
			}
			nIdx++
			if s, ok := constString(info, ix.Index); ok {
				if s != "*" {
					bad = "falls back to type \"" + s + "\" instead of the generic type"
				}
				return true
			}
			k := defs.resolve1(info, ix.Index)
			if id, ok := k.(*ast.Ident); ok && isParam(info, fd, id) && d.fn == "WriteArray" {
				return true
			}
			call, ok := k.(*ast.CallExpr)
			if ok {
				if se, ok := call.Fun.(*ast.SelectorExpr); ok && se.Sel.Name == "GetDataType" {
					if id, ok := unparen(se.X).(*ast.Ident); ok && info.ObjectOf(id) == io0 {
						return true
					}
				}
			}
			bad = "table indexed with " + c.src(ix.Index) + ", not the stream's own data type"
			return true
		})
		c.Check(bad == "" && nIdx >= 1, "R15a", "dispatch:"+d.fn, fd.Pos(), "stdio.%s must select the %s entry for the stream's own data type (%s)", d.fn, d.tab, bad)
	}
	return regs
}

func c15FnName(r c14Reg) string {
	if r.fn != nil {
		return r.fn.Name()
	}
	return "func literal"
}

// ---------------------------------------------------------------- path counting

// c15Counts: possible numbers (capped at 2) of events on the paths through a
// statement list, by how the path ends.
type c15Counts struct {
	fall, cont, ret, brk map[int]bool
	complex              string // non-empty: construct the evaluator does not model
	rets                 []*ast.ReturnStmt
}

func c15New() *c15Counts {
	return &c15Counts{fall: map[int]bool{}, cont: map[int]bool{}, ret: map[int]bool{}, brk: map[int]bool{}}
}

type c15Eval struct {
	info    *types.Info
	event   func(n ast.Node) bool     // is this node an event?
	assumeF func(cond ast.Expr) bool  // conditions to take as false
	retAt   map[*ast.ReturnStmt][]int // counts observed at each return
}

func c15cap(n int) int {
	if n > 2 {
		return 2
	}
	return n
}

// events directly in an expression/simple statement (not inside FuncLits)
func (e *c15Eval) eventsIn(n ast.Node) int {
	if n == nil {
		return 0
	}
	k := 0
	ast.Inspect(n, func(x ast.Node) bool {
		if _, ok := x.(*ast.FuncLit); ok {
			return false
		}
		if x != nil && e.event(x) {
			k++
		}
		return true
	})
	return k
}

// stmts evaluates a list starting from the given set of counts.
func (e *c15Eval) stmts(list []ast.Stmt, start map[int]bool, out *c15Counts) map[int]bool {
	cur := start
	for _, s := range list {
		if len(cur) == 0 {
			break
		}
		next := map[int]bool{}
		for c0 := range cur {
			for c1 := range e.stmt(s, c0, out) {
				next[c1] = true
			}
		}
		cur = next
	}
	return cur
}

// stmt returns the counts with which control falls out of s when entered with c0.
func (e *c15Eval) stmt(s ast.Stmt, c0 int, out *c15Counts) map[int]bool {
	one := func(n int) map[int]bool { return map[int]bool{c15cap(n): true} }
	switch x := s.(type) {
	case nil:
		return one(c0)
	case *ast.BlockStmt:
		return e.stmts(x.List, one(c0), out)
	case *ast.ReturnStmt:
		n := c15cap(c0 + e.eventsIn(x))
		out.ret[n] = true
		out.rets = append(out.rets, x)
		if e.retAt != nil {
			e.retAt[x] = append(e.retAt[x], n)
		}
		return map[int]bool{}
	case *ast.BranchStmt:
		switch x.Tok {
		case token.CONTINUE:
			if x.Label != nil {
				out.complex = "labelled continue"
			}
			out.cont[c0] = true
		case token.BREAK:
			if x.Label != nil {
				out.complex = "labelled break"
			}
			out.brk[c0] = true
		default:
			out.complex = x.Tok.String()
		}
		return map[int]bool{}
	case *ast.IfStmt:
		c1 := c0 + e.eventsIn(x.Init) + e.eventsIn(x.Cond)
		res := map[int]bool{}
		takeThen, takeElse := true, true
		if e.assumeF != nil && e.assumeF(x.Cond) {
			takeThen = false
		}
		if takeThen {
			for k := range e.stmts(x.Body.List, one(c1), out) {
				res[k] = true
			}
		}
		if takeElse {
			if x.Else != nil {
				for k := range e.stmt(x.Else, c15cap(c1), out) {
					res[k] = true
				}
			} else {
				res[c15cap(c1)] = true
			}
		}
		return res
	case *ast.SwitchStmt, *ast.TypeSwitchStmt, *ast.SelectStmt:
		var body *ast.BlockStmt
		c1 := c0
		hasDefault := false
		switch y := x.(type) {
		case *ast.SwitchStmt:
			body = y.Body
			c1 += e.eventsIn(y.Init) + e.eventsIn(y.Tag)
		case *ast.TypeSwitchStmt:
			body = y.Body
			c1 += e.eventsIn(y.Init) + e.eventsIn(y.Assign)
		case *ast.SelectStmt:
			body = y.Body
			hasDefault = true // a select always runs one arm
		}
		res := map[int]bool{}
		inner := c15New()
		for _, cl := range body.List {
			var b []ast.Stmt
			c2 := c1
			switch z := cl.(type) {
			case *ast.CaseClause:
				b = z.Body
				if z.List == nil {
					hasDefault = true
				}
				for _, le := range z.List {
					c2 += e.eventsIn(le)
				}
			case *ast.CommClause:
				b = z.Body
				c2 += e.eventsIn(z.Comm)
			}
			if n := len(b); n > 0 {
				if br, ok := b[n-1].(*ast.BranchStmt); ok && br.Tok == token.FALLTHROUGH {
					out.complex = "fallthrough"
				}
			}
			for k := range e.stmts(b, one(c2), inner) {
				res[k] = true
			}
		}
		for k := range inner.brk { // break leaves the switch/select only
			res[k] = true
		}
		for k := range inner.cont {
			out.cont[k] = true
		}
		for k := range inner.ret {
			out.ret[k] = true
		}
		out.rets = append(out.rets, inner.rets...)
		if inner.complex != "" {
			out.complex = inner.complex
		}
		if !hasDefault {
			res[c15cap(c1)] = true
		}
		return res
	case *ast.ForStmt, *ast.RangeStmt:
		if e.eventsIn(x) > 0 {
			out.complex = "event inside a nested loop"
		}
		return one(c0)
	case *ast.GoStmt, *ast.DeferStmt:
		if e.eventsIn(x) > 0 {
			out.complex = "event in a go/defer statement (not executed synchronously, in order)"
		}
		return one(c0)
	case *ast.LabeledStmt:
		return e.stmt(x.Stmt, c0, out)
	default:
		return one(c0 + e.eventsIn(x))
	}
}

func c15Set(m map[int]bool) string {
	var ks []int
	for k := range m {
		ks = append(ks, k)
	}
	sort.Ints(ks)
	var s []string
	for _, k := range ks {
		if k >= 2 {
			s = append(s, "2+")
		} else {
			s = append(s, itoa(k)[1:])
		}
	}
	return "{" + strings.Join(s, ",") + "}"
}

func c15Only(m map[int]bool, k int) bool { return len(m) == 1 && m[k] }

// ---------------------------------------------------------------- R15b

func c15b(c *Ctx) {
	c.Rule("R15b", "foreach (default mode): cmdForEachDefault iterates with one p.Stdin.ReadArrayWithType(p.Context, <callback>) and, on the steps==0 paths, the callback calls forEachInnerLoop exactly once, synchronously, passing its own (value, dataType) parameters; forEachInnerLoop calls fork.Execute(<block parameter>) unconditionally at its top level and every return before it either follows p.Done() (directly or through a helper that returns false only after p.Done()) or is taken only when p.HasCancelled(); the loop variable is set to the unmodified value/type parameters")
	const sp = "builtins/core/structs"
	fd, pk := c.MustFunc("R15b", sp, "", "cmdForEachDefault")
	inner, _ := c.MustFunc("R15b", sp, "", "forEachInnerLoop")
	if fd == nil || inner == nil {
		return
	}
	info := pk.TypesInfo
	innerObj := info.Defs[inner.Name]
	// --- the iteration call
	var lit *ast.FuncLit
	nRA := 0
	fdefs := localDefs(info, fd.Body) // `each := func(…){…}` / `stdin := p.Stdin`: single-definition locals stand for their definition
	walkStack(fd.Body, func(n ast.Node, st []ast.Node) bool {
		call, ok := n.(*ast.CallExpr)
		if !ok {
			return true
		}
		se, ok := call.Fun.(*ast.SelectorExpr)
		if !ok || se.Sel.Name != "ReadArrayWithType" || len(call.Args) != 2 {
			return true
		}
		nRA++
		for _, a := range st {
			switch a.(type) {
			case *ast.ForStmt, *ast.RangeStmt, *ast.GoStmt, *ast.DeferStmt:
				c.Viol("R15b", "cmdForEachDefault:iterate", call.Pos(), "ReadArrayWithType is called inside a loop/go/defer: elements are not visited once, in order")
			}
		}
		if l, ok := fdefs.resolve1(info, call.Args[1]).(*ast.FuncLit); ok {
			lit = l
		}
		if inr, ok := fdefs.resolve1(info, se.X).(*ast.SelectorExpr); !ok || inr.Sel.Name != "Stdin" {
			c.Viol("R15b", "cmdForEachDefault:iterate", call.Pos(), "foreach must iterate over p.Stdin (iterates %s)", c.src(se.X))
		}
		return true
	})
	if nRA != 1 || lit == nil {
		c.Undecided("R15b", "cmdForEachDefault:iterate", fd.Pos(), "expected exactly one p.Stdin.ReadArrayWithType(ctx, func literal) in cmdForEachDefault, found %d", nRA)
		return
	}
	c.OK("R15b", "cmdForEachDefault:iterate", lit.Pos(), "one ReadArrayWithType over p.Stdin with a literal callback")
	// steps parameter (the int one)
	var stepsObj types.Object
	for _, fl := range fd.Type.Params.List {
		for _, nm := range fl.Names {
			if b, ok := info.Defs[nm].Type().Underlying().(*types.Basic); ok && b.Kind() == types.Int {
				stepsObj = info.Defs[nm]
			}
		}
	}
	isStepsPositive := func(cond ast.Expr) bool {
		x, op, k, ok := cmpNorm(info, cond)
		if !ok {
			return false
		}
		id, ok := x.(*ast.Ident)
		if !ok || info.ObjectOf(id) != stepsObj {
			return false
		}
		// the condition is false for steps == 0
		return !intPred(op, k)(0)
	}
	ev := &c15Eval{info: info, assumeF: isStepsPositive, event: func(n ast.Node) bool {
		call, ok := n.(*ast.CallExpr)
		return ok && callee(info, call) == innerObj
	}}
	out := c15New()
	fall := ev.stmts(lit.Body.List, map[int]bool{0: true}, out)
	all := map[int]bool{}
	for k := range fall {
		all[k] = true
	}
	for k := range out.ret {
		all[k] = true
	}
	switch {
	case out.complex != "":
		c.Viol("R15b", "cmdForEachDefault:callback-once", lit.Pos(), "the foreach callback reaches forEachInnerLoop through a %s: the body is not run exactly once per element, in order", out.complex)
	case !c15Only(all, 1):
		c.Viol("R15b", "cmdForEachDefault:callback-once", lit.Pos(), "with --step unset the foreach callback calls forEachInnerLoop %s times per element depending on the path (must be exactly 1): elements are skipped or visited twice", c15Set(all))
	default:
		c.OK("R15b", "cmdForEachDefault:callback-once", lit.Pos(), "exactly one forEachInnerLoop call on every steps==0 path")
	}
	// arguments: value/type are the callback's own parameters, not reassigned outside the steps>0 arm
	var lp []types.Object
	for _, fl := range lit.Type.Params.List {
		for _, nm := range fl.Names {
			lp = append(lp, info.Defs[nm])
		}
	}
	for _, call := range calls(lit.Body, false) {
		if callee(info, call) != innerObj || len(call.Args) != 6 || len(lp) != 2 {
			continue
		}
		okArgs := true
		for i, want := range []types.Object{lp[0], lp[1]} {
			id, ok := unparen(call.Args[3+i]).(*ast.Ident)
			if !ok || info.ObjectOf(id) != want {
				okArgs = false
			}
		}
		// reassignments of the parameters only under steps>0
		walkStack(lit.Body, func(n ast.Node, st []ast.Node) bool {
			as, ok := n.(*ast.AssignStmt)
			if !ok {
				return true
			}
			for _, l := range as.Lhs {
				if id, ok := l.(*ast.Ident); ok && (info.ObjectOf(id) == lp[0] || info.ObjectOf(id) == lp[1]) {
					under := false
					for _, a := range st {
						if is, ok := a.(*ast.IfStmt); ok && isStepsPositive(is.Cond) && as.Pos() > is.Body.Pos() && as.End() < is.Body.End() {
							under = true
						}
					}
					if !under {
						okArgs = false
					}
				}
			}
			return true
		})
		c.Check(okArgs, "R15b", "cmdForEachDefault:callback-args", call.Pos(), "the callback must hand forEachInnerLoop the very value and data type it received from the array reader (element bound verbatim)")
	}

	// --- forEachInnerLoop
	var ip []types.Object
	for _, fl := range inner.Type.Params.List {
		for _, nm := range fl.Names {
			ip = append(ip, info.Defs[nm])
		}
	}
	if len(ip) != 6 {
		c.Undecided("R15b", "forEachInnerLoop:signature", inner.Pos(), "signature changed")
		return
	}
	pObj, blockObj, nameObj, valObj, dtObj := ip[0], ip[1], ip[2], ip[3], ip[4]
	isPCall := func(n ast.Node, name string) bool {
		call, ok := n.(*ast.CallExpr)
		if !ok {
			return false
		}
		se, ok := call.Fun.(*ast.SelectorExpr)
		if !ok || se.Sel.Name != name {
			return false
		}
		id, ok := unparen(se.X).(*ast.Ident)
		if !ok || info.ObjectOf(id) == nil || !types.Identical(info.ObjectOf(id).Type(), pObj.Type()) {
			return false
		}
		// Done is a field holding the context's cancel function; HasCancelled is a method
		return callIs(info, call, mx("lang"), "Process", name) || isField(info, se, mx("lang")+".Process", name)
	}
	// helper summary: bool functions of this package that return false only after p.Done()
	cancelsOnFalse := map[types.Object]bool{}
	eachFunc(pk, func(h *ast.FuncDecl) {
		if h.Type.Results == nil || len(h.Type.Results.List) != 1 {
			return
		}
		if b, ok := info.TypeOf(h.Type.Results.List[0].Type).Underlying().(*types.Basic); !ok || b.Kind() != types.Bool {
			return
		}
		ok, n := true, 0
		walkStack(h.Body, func(nd ast.Node, st []ast.Node) bool {
			rs, isR := nd.(*ast.ReturnStmt)
			if !isR || len(rs.Results) != 1 {
				return true
			}
			v, isK := constBool(info, rs.Results[0])
			if !isK {
				ok = false
				return true
			}
			if v {
				return true
			}
			n++
			if !c15DoneBefore(info, st, rs, isPCall) {
				ok = false
			}
			return true
		})
		if ok && n > 0 {
			cancelsOnFalse[info.Defs[h.Name]] = true
		}
	})
	// the Execute call
	var exec *ast.CallExpr
	for _, call := range calls(inner.Body, false) {
		if callIs(info, call, mx("lang"), "Process", "Execute") || callIs(info, call, mx("lang"), "Fork", "Execute") {
			exec = call
		}
	}
	if exec == nil {
		c.Viol("R15b", "forEachInnerLoop:execute", inner.Pos(), "forEachInnerLoop never calls fork.Execute: the foreach body is not run")
		return
	}
	top := topLevelIndex(inner.Body.List, exec)
	topOK := top >= 0
	if topOK {
		switch s := inner.Body.List[top].(type) {
		case *ast.AssignStmt, *ast.ExprStmt:
		case *ast.IfStmt:
			topOK = s.Init != nil && exec.Pos() >= s.Init.Pos() && exec.End() <= s.Init.End()
		default:
			topOK = false
		}
	}
	blockOK := false
	if len(exec.Args) == 1 {
		if id, ok := unparen(exec.Args[0]).(*ast.Ident); ok && info.ObjectOf(id) == blockObj {
			blockOK = true
		}
	}
	c.Check(topOK && blockOK, "R15b", "forEachInnerLoop:execute", exec.Pos(), "fork.Execute(<block parameter>) must be an unconditional top-level statement of forEachInnerLoop (conditional=%v, block parameter=%v): otherwise some elements do not run the body", !topOK, blockOK)
	// returns before Execute
	nRet := 0
	walkStack(inner.Body, func(nd ast.Node, st []ast.Node) bool {
		if _, ok := nd.(*ast.FuncLit); ok {
			return false
		}
		rs, ok := nd.(*ast.ReturnStmt)
		if !ok || rs.Pos() > exec.Pos() {
			return true
		}
		nRet++
		if c15DoneBefore(info, st, rs, isPCall) {
			c.OK("R15b", "forEachInnerLoop:return#"+itoa(nRet)+":cancels", rs.Pos(), "return after p.Done()")
			return true
		}
		// the innermost enclosing if whose body holds the return
		var is *ast.IfStmt
		for i := len(st) - 1; i >= 0 && is == nil; i-- {
			if x, ok := st[i].(*ast.IfStmt); ok && rs.Pos() > x.Body.Pos() && rs.End() <= x.Body.End() {
				is = x
			}
		}
		if is == nil {
			c.Viol("R15b", "forEachInnerLoop:return#"+itoa(nRet), rs.Pos(), "unconditional return before fork.Execute: no element runs the foreach body")
			return true
		}
		for _, d := range disjuncts(is.Cond) {
			d = unparen(d)
			okD := false
			if isPCall(d, "HasCancelled") {
				okD = true
			}
			if u, ok := d.(*ast.UnaryExpr); ok && u.Op == token.NOT {
				// !helper(…), or !ok with the single definition ok := helper(…)
				if call, ok := localDefs(info, inner.Body).resolve1(info, u.X).(*ast.CallExpr); ok && cancelsOnFalse[callee(info, call)] {
					okD = true
				}
			}
			key := "forEachInnerLoop:skip:" + strings.ReplaceAll(c.src(d), " ", "")
			if x, op, k, ok := cmpNorm(info, d); ok {
				if lc, isLen := isBuiltinCall(info, x, "len"); isLen && len(lc.Args) == 1 && c15IsPlainIdent(lc.Args[0]) && samePredOnRange(intPred(op, k), func(v int64) bool { return v == 0 }, 0, 4) {
					key = "forEachInnerLoop:skip:empty-element" // semantic key: independent of the local's name and of ==0 / <1 spelling
				}
			}
			if okD {
				c.OK("R15b", key, rs.Pos(), "return only when the process is cancelled (%s)", c.src(d))
			} else {
				c.Viol("R15b", key, rs.Pos(), "forEachInnerLoop returns without running the body when `%s` — neither a cancellation nor an error: such elements are skipped, so foreach does not run its body exactly once per element (e.g. empty elements: `%%[a \"\" b] -> foreach x {…}` runs twice)", c.src(d))
			}
		}
		return true
	})
	c.MinCount("R15b", "returns before Execute in forEachInnerLoop", nRet, 4)
	// verbatim binding
	bound := false
	for _, call := range calls(inner.Body, false) {
		if !callIs(info, call, mx("lang"), "Variables", "Set") || len(call.Args) != 4 {
			continue
		}
		ok := true
		for i, want := range []types.Object{nameObj, valObj, dtObj} {
			id, isID := unparen(call.Args[1+i]).(*ast.Ident)
			if !isID || info.ObjectOf(id) != want {
				ok = false
			}
		}
		bound = true
		// parameters must not be reassigned
		ast.Inspect(inner.Body, func(n ast.Node) bool {
			if as, isA := n.(*ast.AssignStmt); isA {
				for _, l := range as.Lhs {
					if id, isID := l.(*ast.Ident); isID && (info.ObjectOf(id) == valObj || info.ObjectOf(id) == dtObj || info.ObjectOf(id) == nameObj) {
						ok = false
					}
				}
			}
			return true
		})
		c.Check(ok, "R15b", "forEachInnerLoop:bind", call.Pos(), "the loop variable must be set with p.Variables.Set(p, varName, varValue, dataType) using the unmodified parameters (element bound verbatim); got %s", c.src(call))
	}
	if !bound {
		c.Viol("R15b", "forEachInnerLoop:bind", inner.Pos(), "forEachInnerLoop never sets the loop variable")
	}
}

// c15DoneBefore: in the innermost statement list holding rs, a p.Done() call
// statement precedes rs.
func c15DoneBefore(info *types.Info, st []ast.Node, rs *ast.ReturnStmt, isPCall func(ast.Node, string) bool) bool {
	for i := len(st) - 2; i >= 0; i-- {
		var list []ast.Stmt
		switch b := st[i].(type) {
		case *ast.BlockStmt:
			list = b.List
		case *ast.CaseClause:
			list = b.Body
		case *ast.CommClause:
			list = b.Body
		default:
			continue
		}
		for _, s := range list {
			if s.Pos() >= rs.Pos() {
				break
			}
			if es, ok := s.(*ast.ExprStmt); ok && isPCall(es.X, "Done") {
				return true
			}
		}
		return false
	}
	return false
}

// ---------------------------------------------------------------- R15c

// c15FuncDecl finds the declaration of a function object among loaded packages.
func c15FuncDecl(c *Ctx, o types.Object) (*ast.FuncDecl, *packages.Package) {
	if o == nil || o.Pkg() == nil {
		return nil, nil
	}
	pk := c.All[o.Pkg().Path()]
	if pk == nil {
		return nil, nil
	}
	var r *ast.FuncDecl
	eachFunc(pk, func(d *ast.FuncDecl) {
		if pk.TypesInfo.Defs[d.Name] == o {
			r = d
		}
	})
	return r, pk
}

func c15c(c *Ctx, regs []c14Reg) {
	c.Rule("R15c", "in every function reachable (murex code, depth ≤ 3) from the registered ReadArray/ReadArrayWithType functions of str, *, json, jsonl, yaml, each loop that invokes the element callback is `for scanner.Scan()` or `for … := range <whole parameter>`; one iteration calls the callback exactly once on every path that completes the iteration; the loop is left early only in the ctx.Done() arm or by returning a non-nil error")
	seen := map[types.Object]bool{}
	nLoops := 0
	var visit func(o types.Object, depth int)
	visit = func(o types.Object, depth int) {
		if o == nil || seen[o] || depth > 3 {
			return
		}
		if f, ok := o.(*types.Func); ok && f.Origin() != nil {
			o = f.Origin()
		}
		if seen[o] {
			return
		}
		seen[o] = true
		fd, pk := c15FuncDecl(c, o)
		if fd == nil || !strings.HasPrefix(pk.PkgPath, modPath) {
			return
		}
		c.nfuncs++
		info := pk.TypesInfo
		// callback parameters: parameters of function type without results used as element sinks
		cb := map[types.Object]bool{}
		for _, fl := range fd.Type.Params.List {
			for _, nm := range fl.Names {
				if sig, ok := info.Defs[nm].Type().Underlying().(*types.Signature); ok && sig.Results().Len() == 0 {
					cb[info.Defs[nm]] = true
				}
			}
		}
		for _, call := range calls(fd.Body, true) {
			if co := callee(info, call); co != nil && co.Pkg() != nil && strings.HasPrefix(co.Pkg().Path(), modPath) {
				if _, ok := co.(*types.Func); ok {
					visit(co, depth+1)
				}
			}
		}
		if len(cb) == 0 {
			return
		}
		nLoops += c15LoopCheck(c, "R15c", pk, fd, cb, -1)
	}
	for _, r := range regs {
		if r.kind != "ReadArray" && r.kind != "ReadArrayWithType" {
			continue
		}
		for _, n := range c15Named {
			if r.name == n && r.fn != nil {
				visit(r.fn, 0)
			}
		}
	}
	c.MinCount("R15c", "element loops in the registered readers and their templates", nLoops, 15)
}

// c15LoopCheck checks every loop of fd that invokes one of the callback
// parameters cb: header form, exactly one callback per completed iteration,
// early exit only on cancellation or error. from>=0 additionally accepts the
// header `for i := <from>; i < len(<parameter>); i++`. Returns the number of loops.
func c15LoopCheck(c *Ctx, rule string, pk *packages.Package, fd *ast.FuncDecl, cb map[types.Object]bool, from int64) int {
	info := pk.TypesInfo
	nLoops := 0
	isCB := func(n ast.Node) bool {
		call, ok := n.(*ast.CallExpr)
		if !ok {
			return false
		}
		id, ok := unparen(call.Fun).(*ast.Ident)
		return ok && cb[info.ObjectOf(id)]
	}
	fk := funcKey(relPkg(pk.PkgPath), fd)
	li := 0
	walkStack(fd.Body, func(nd ast.Node, st []ast.Node) bool {
		var body *ast.BlockStmt
		header := ""
		switch l := nd.(type) {
		case *ast.ForStmt:
			body = l.Body
			// `for i := <from>; i < len(<parameter>); i++`; where the whole container must be visited
			// (from < 0: the range form is expected) the equivalent counting loop starts at 0
			start := from
			if start < 0 {
				start = 0
			}
			if c15CountedLoop(c, info, fd, l, start) {
				header = "counted"
			}
			if call, rest := c15ScanLoop(info, l); call != nil { // c15x.go: `for s.Scan() {` or `for { if !s.Scan() { break }; …`
				header = "scan"
				if l.Cond == nil {
					body = &ast.BlockStmt{Lbrace: l.Body.Lbrace, List: rest, Rbrace: l.Body.Rbrace}
				}
			}
		case *ast.RangeStmt:
			body = l.Body
			if id, ok := unparen(l.X).(*ast.Ident); ok {
				if v, ok := info.ObjectOf(id).(*types.Var); ok && (isParam(info, fd, id) || v.Parent() != pk.Types.Scope()) {
					// a parameter or a (type-switch-bound / local) variable: the whole container
					header = "range"
					// a local defined as a sub-slice is not the whole container
					for _, d := range localDefs(info, fd.Body)[v] {
						if _, ok := unparen(d).(*ast.SliceExpr); ok {
							header = ""
						}
					}
				}
			}
		default:
			return true
		}
		ev := &c15Eval{info: info, event: isCB}
		if ev.eventsIn(body) == 0 {
			return true
		}
		li++
		nLoops++
		key := fk + ":loop#" + itoa(li)
		if header == "" {
			c.Undecided(rule, key, nd.Pos(), "element loop with an unrecognised header (%s): cannot tell that every element is visited — recognised: `for scanner.Scan()`, `for … := range <parameter>`", c.src(nd)[:c15min(60, len(c.src(nd)))])
			return true
		}
		out := c15New()
		fall := ev.stmts(body.List, map[int]bool{0: true}, out)
		done := map[int]bool{}
		for k := range fall {
			done[k] = true
		}
		for k := range out.cont {
			done[k] = true
		}
		var problems []string
		if out.complex != "" {
			problems = append(problems, "callback reached through a "+out.complex)
		}
		if !c15Only(done, 1) {
			problems = append(problems, "the callback is invoked "+c15Set(done)+" times per iteration depending on the path (must be exactly once): elements are skipped or delivered twice")
		}
		if len(out.brk) > 0 {
			problems = append(problems, "`break` leaves the loop with elements unread")
		}
		for _, rs := range out.rets {
			rst := pathTo(fd.Body, rs)
			if inDoneArm(info, rst) {
				continue
			}
			// error exit: last result is not the nil literal and the return is under err != nil
			last := rs.Results
			isErr := false
			if len(last) > 0 {
				if _, isCall := unparen(last[len(last)-1]).(*ast.CallExpr); isCall {
					isErr = true // constructs an error (fmt.Errorf/errors.New/…)
				}
				if id, ok := unparen(last[len(last)-1]).(*ast.Ident); !ok || id.Name != "nil" {
					for _, f := range factsOf(guardsAt(info, rst)) {
						if b, ok := unparen(f.E).(*ast.BinaryExpr); ok && b.Op == token.NEQ && f.True {
							if id, ok := unparen(b.Y).(*ast.Ident); ok && id.Name == "nil" {
								isErr = true
							}
						}
					}
				}
			}
			if !isErr {
				problems = append(problems, "`"+c.src(rs)+"` leaves the loop silently with elements unread (neither the cancellation arm nor an error)")
			}
		}
		if len(problems) > 0 {
			c.Viol(rule, key, nd.Pos(), "%s: %s", fk, strings.Join(problems, "; "))
		} else {
			c.OK(rule, key, nd.Pos(), "%s loop, callback exactly once per iteration, early exit only on cancel/error", header)
		}
		return true
	})
	return nLoops
}

// c15CountedLoop: `for i := <from>; i < len(<parameter>); i++` (also i <= len(p)-1),
// i not assigned in the body.
func c15CountedLoop(c *Ctx, info *types.Info, fd *ast.FuncDecl, l *ast.ForStmt, from int64) bool {
	as, ok := l.Init.(*ast.AssignStmt)
	if !ok || len(as.Lhs) != 1 || len(as.Rhs) != 1 {
		return false
	}
	iv, ok := as.Lhs[0].(*ast.Ident)
	if !ok {
		return false
	}
	io := info.ObjectOf(iv)
	if v, ok := constInt(info, as.Rhs[0]); !ok || v != from {
		return false
	}
	inc, ok := l.Post.(*ast.IncDecStmt)
	if !ok || inc.Tok != token.INC {
		return false
	}
	if id, ok := inc.X.(*ast.Ident); !ok || info.ObjectOf(id) != io {
		return false
	}
	b, ok := unparen(l.Cond).(*ast.BinaryExpr)
	if !ok {
		return false
	}
	if id, ok := unparen(b.X).(*ast.Ident); !ok || info.ObjectOf(id) != io {
		return false
	}
	bound := unparen(b.Y)
	switch b.Op {
	case token.LSS:
	case token.LEQ:
		sub, ok := bound.(*ast.BinaryExpr)
		if !ok || sub.Op != token.SUB {
			return false
		}
		if k, ok := constInt(info, sub.Y); !ok || k != 1 {
			return false
		}
		bound = unparen(sub.X)
	default:
		return false
	}
	ln, ok := isBuiltinCall(info, bound, "len")
	if !ok || len(ln.Args) != 1 {
		return false
	}
	pid, ok := unparen(ln.Args[0]).(*ast.Ident)
	if !ok || !isParam(info, fd, pid) {
		return false
	}
	assigned := false
	ast.Inspect(l.Body, func(n ast.Node) bool {
		switch x := n.(type) {
		case *ast.AssignStmt:
			for _, lh := range x.Lhs {
				if id, ok := lh.(*ast.Ident); ok && info.ObjectOf(id) == io {
					assigned = true
				}
			}
		case *ast.IncDecStmt:
			if id, ok := x.X.(*ast.Ident); ok && info.ObjectOf(id) == io {
				assigned = true
			}
		}
		return true
	})
	return !assigned
}

func c15min(a, b int) int {
	if a < b {
		return a
	}
	return b
}

// ---------------------------------------------------------------- R15d

func c15d(c *Ctx, regs []c14Reg) {
	c.Rule("R15d", "the ArrayWriter returned by the registered WriteArray constructor of str, *, json, jsonl, yaml: Write and WriteString each emit their parameter exactly once on every path (one call on the underlying stream/tabwriter, one append to the pending array, or one call of the sibling method); a buffering writer's Close marshals that pending array and writes the result, returning the error")
	n := 0
	for _, r := range regs {
		if r.kind != "WriteArray" || r.fn == nil {
			continue
		}
		named := false
		for _, x := range c15Named {
			if x == r.name {
				named = true
			}
		}
		if !named {
			continue
		}
		fd, pk := c15FuncDecl(c, r.fn)
		if fd == nil {
			c.Lost("R15d", "writer:"+r.name, "constructor %s not found", r.fn.Name())
			continue
		}
		info := pk.TypesInfo
		// the concrete type returned: &T{…} or a local initialised so
		var wt *types.Named
		ast.Inspect(fd.Body, func(nd ast.Node) bool {
			if cl, ok := nd.(*ast.CompositeLit); ok {
				if nt, ok := info.TypeOf(cl).(*types.Named); ok && nt.Obj().Pkg() == pk.Types {
					wt = nt
				}
			}
			return true
		})
		if wt == nil {
			c.Undecided("R15d", "writer:"+r.name, fd.Pos(), "constructor %s does not build a local struct type", r.fn.Name())
			continue
		}
		for _, mname := range []string{"Write", "WriteString"} {
			var md *ast.FuncDecl
			eachFunc(pk, func(d *ast.FuncDecl) {
				if d.Name.Name == mname && recvName(d) == wt.Obj().Name() {
					md = d
				}
			})
			key := "writer:" + r.name + ":" + mname
			if md == nil || len(md.Type.Params.List) != 1 || len(md.Type.Params.List[0].Names) != 1 {
				c.Lost("R15d", key, "method %s.%s not found", wt.Obj().Name(), mname)
				continue
			}
			n++
			c.nfuncs++
			param := info.Defs[md.Type.Params.List[0].Names[0]]
			rv := recvVar(md)
			isRecvField := func(e ast.Expr) bool {
				se, ok := unparen(e).(*ast.SelectorExpr)
				if !ok {
					return false
				}
				id, ok := unparen(se.X).(*ast.Ident)
				return ok && id.Name == rv && rv != ""
			}
			// carriers of the element: the parameter and every single-definition local derived from a
			// carrier (`line := b`, `data := []byte(s)`): an emitting call may name any of them
			carriers := map[types.Object]bool{param: true}
			mdefs := localDefs(info, md.Body)
			for grew := true; grew; {
				grew = false
				for o, ds := range mdefs {
					if carriers[o] || len(ds) != 1 || ds[0] == nil {
						continue
					}
					for co := range carriers {
						if mentions(info, ds[0], co) {
							carriers[o] = true
							grew = true
							break
						}
					}
				}
			}
			mentionsElem := func(n ast.Node) bool {
				for co := range carriers {
					if mentions(info, n, co) {
						return true
					}
				}
				return false
			}
			event := func(nd ast.Node) bool {
				call, ok := nd.(*ast.CallExpr)
				if !ok || !mentionsElem(call) {
					return false
				}
				if _, ok := isBuiltinCall(info, call, "append"); ok && len(call.Args) >= 2 && isRecvField(call.Args[0]) {
					return true
				}
				if se, ok := call.Fun.(*ast.SelectorExpr); ok {
					// w.field.Method(…param…)  or  w.Method(…param…)
					if isRecvField(se.X) {
						return true
					}
					if id, ok := unparen(se.X).(*ast.Ident); ok && id.Name == rv {
						return true
					}
				}
				if o := callee(info, call); o != nil && o.Pkg() != nil && o.Pkg().Path() == "fmt" && strings.HasPrefix(o.Name(), "Fprint") && len(call.Args) >= 2 && isRecvField(call.Args[0]) {
					return true
				}
				return false
			}
			ev := &c15Eval{info: info, event: event}
			out := c15New()
			fall := ev.stmts(md.Body.List, map[int]bool{0: true}, out)
			all := map[int]bool{}
			for k := range fall {
				all[k] = true
			}
			for k := range out.ret {
				all[k] = true
			}
			switch {
			case out.complex != "":
				c.Viol("R15d", key, md.Pos(), "%s.%s emits through a %s", wt.Obj().Name(), mname, out.complex)
			case !c15Only(all, 1):
				c.Viol("R15d", key, md.Pos(), "%s array writer: %s emits its argument %s times depending on the path (must be exactly once): elements are lost or duplicated in the written list", r.name, mname, c15Set(all))
			default:
				c.OK("R15d", key, md.Pos(), "emits its parameter exactly once")
			}
		}
		// buffering writer: a slice field appended to by Write must be marshalled and written in Close
		var buf *types.Var
		if st, ok := wt.Underlying().(*types.Struct); ok {
			for i := 0; i < st.NumFields(); i++ {
				if _, ok := st.Field(i).Type().Underlying().(*types.Slice); ok {
					buf = st.Field(i)
				}
			}
		}
		if buf != nil {
			var cd *ast.FuncDecl
			eachFunc(pk, func(d *ast.FuncDecl) {
				if d.Name.Name == "Close" && recvName(d) == wt.Obj().Name() {
					cd = d
				}
			})
			key := "writer:" + r.name + ":Close"
			if cd == nil {
				c.Lost("R15d", key, "Close not found")
				continue
			}
			n++
			usesBuf, writes, retErr := false, false, false
			var marshalled types.Object
			ast.Inspect(cd.Body, func(nd ast.Node) bool {
				switch x := nd.(type) {
				case *ast.AssignStmt:
					if len(x.Rhs) == 1 {
						if call, ok := unparen(x.Rhs[0]).(*ast.CallExpr); ok {
							for _, a := range call.Args {
								if v, _ := fieldOf(info, a); v == buf {
									usesBuf = true
									if id, ok := x.Lhs[0].(*ast.Ident); ok {
										marshalled = info.ObjectOf(id)
									}
								}
							}
						}
					}
				case *ast.CallExpr:
					if se, ok := x.Fun.(*ast.SelectorExpr); ok && (se.Sel.Name == "Write" || se.Sel.Name == "Writeln") && len(x.Args) == 1 {
						if id, ok := unparen(x.Args[0]).(*ast.Ident); ok && marshalled != nil && info.ObjectOf(id) == marshalled {
							writes = true
						}
					}
				case *ast.ReturnStmt:
					if len(x.Results) == 1 {
						if id, ok := unparen(x.Results[0]).(*ast.Ident); ok && id.Name != "nil" {
							retErr = true
						}
					}
				}
				return true
			})
			c.Check(usesBuf && writes && retErr, "R15d", key, cd.Pos(), "%s array writer buffers its elements in field %s; Close must marshal that field, write the result to the stream and return the error (marshals=%v writes=%v returns-error=%v) or the list is never written", r.name, buf.Name(), usesBuf, writes, retErr)
		}
	}
	c.MinCount("R15d", "array writer methods of the five types", n, 11)
}

// c15IsPlainIdent: the skip test of the known finding is on the element's own
// byte slice (a plain local), not on a transformed copy (TrimSpace, …), which
// would skip more elements than the listed finding does.
func c15IsPlainIdent(e ast.Expr) bool {
	_, ok := unparen(e).(*ast.Ident)
	return ok
}
