package main

import (
	"go/ast"
	"go/token"
	"go/types"
)

// R11g — a function call's variable table is NEW. "A variable set inside a
// function call is not visible … to any other call" needs two facts: every store
// of a table into a process is either the parent's table (blocks share) or the
// result of NewVariables for that very process (R11a fixes which arm uses which),
// and NewVariables really hands out a fresh, empty table every time. A pool, a
// cache or a clone in either place lets one call see another call's locals.
func init() {
	extend("C11", func(c *Ctx) {
		c.Rule("R11g", "who-may-store Process.Variables (all loaded murex packages): the stored value is `NewVariables(<the process stored into>)` or `<another process>.Variables`; and NewVariables returns an object it allocated itself (`new`/composite literal) whose table is a `make` of a map in the same function — nothing recycled, cached or copied")
		n := 0
		for _, pk := range c.MurexPkgs() {
			info := pk.TypesInfo
			eachFunc(pk, func(fd *ast.FuncDecl) {
				if fd.Body == nil {
					return
				}
				defs := localDefs(info, fd.Body)
				// procOf: the process an expression names, as text — a local defined once stands for its
				// definition (proc := fork.Process), and the embedded `.Process` of a fork is the fork's process
				procOf := func(e ast.Expr) string {
					s := c.src(resolvePath(defs, info, e))
					if len(s) > 8 && s[len(s)-8:] == ".Process" {
						s = s[:len(s)-8]
					}
					return s
				}
				ast.Inspect(fd.Body, func(nd ast.Node) bool {
					as, ok := nd.(*ast.AssignStmt)
					if !ok || len(as.Lhs) != len(as.Rhs) {
						return true
					}
					for i, l := range as.Lhs {
						se, ok := unparen(l).(*ast.SelectorExpr)
						if !ok || se.Sel.Name != "Variables" {
							continue
						}
						f, ok := info.ObjectOf(se.Sel).(*types.Var)
						if !ok || !f.IsField() || namedName(f.Type()) != "Variables" || f.Pkg() == nil || f.Pkg().Path() != mx("lang") {
							continue
						}
						n++
						key := "store@" + funcKey(relPkg(pk.PkgPath), fd) + "#" + itoa(n)
						r := defs.resolve1(info, as.Rhs[i]) // the table kept in a local defined once
						okStore, why := false, ""
						switch x := r.(type) {
						case *ast.SelectorExpr:
							if x.Sel.Name == "Variables" && info.ObjectOf(x.Sel) == types.Object(f) {
								okStore, why = true, "shares "+c.src(x)
							}
						case *ast.CallExpr:
							if fn, isF := callee(info, x).(*types.Func); isF && fn.Name() == "NewVariables" && fn.Pkg() != nil && fn.Pkg().Path() == mx("lang") && len(x.Args) == 1 {
								// the argument is the process stored into: <base> or <base>.Process
								base := procOf(se.X)
								arg := procOf(x.Args[0])
								if arg == base {
									okStore, why = true, "fresh table for "+arg
								} else {
									why = "NewVariables(" + arg + ") is stored into " + base
								}
							}
						}
						if okStore {
							c.OK("R11g", key, as.Pos(), "%s: %s", c.src(as), why)
						} else {
							c.Viol("R11g", key, as.Pos(), "%s stores %s into a process's variable table — neither NewVariables(<that process>) nor another process's table %s: a recycled, cached or foreign table makes one call's locals visible to another", fd.Name.Name, c.src(r), why)
						}
					}
					return true
				})
			})
		}
		c.MinCount("R11g", "stores to Process.Variables", n, 4) // 8 on the pinned tree; Fork alone may legitimately hoist its three `= p.Variables` stores into one

		// NewVariables is fresh
		fd, pk := c.MustFunc("R11g", "lang", "", "NewVariables")
		if fd == nil {
			return
		}
		info := pk.TypesInfo
		ndefs := localDefs(info, fd.Body)
		isMake := func(e ast.Expr) bool {
			call, ok := isBuiltinCall(info, ndefs.resolve1(info, e), "make")
			if !ok || len(call.Args) < 1 {
				return false
			}
			_, isMap := info.TypeOf(call).Underlying().(*types.Map)
			return isMap
		}
		// litTable: &T{… vars: make(map…) …} — allocated here, and whether its table is made here too
		litTable := func(e ast.Expr) (isLit, made bool) {
			u, ok := unparen(e).(*ast.UnaryExpr)
			if !ok || u.Op != token.AND {
				return false, false
			}
			cl, ok := unparen(u.X).(*ast.CompositeLit)
			if !ok {
				return false, false
			}
			for _, el := range cl.Elts {
				if kv, ok := el.(*ast.KeyValueExpr); ok {
					if k, ok := kv.Key.(*ast.Ident); ok && k.Name == "vars" && isMake(kv.Value) {
						made = true
					}
				}
			}
			return true, made
		}
		fresh := map[types.Object]bool{}
		madeMap := map[types.Object]bool{}
		ast.Inspect(fd.Body, func(nd ast.Node) bool {
			as, ok := nd.(*ast.AssignStmt)
			if !ok || len(as.Lhs) != len(as.Rhs) {
				return true
			}
			for i, l := range as.Lhs {
				r := unparen(as.Rhs[i])
				if id, ok := unparen(l).(*ast.Ident); ok {
					if _, isNew := isBuiltinCall(info, r, "new"); isNew {
						fresh[info.ObjectOf(id)] = true
					}
					if isLit, made := litTable(r); isLit {
						fresh[info.ObjectOf(id)] = true
						if made {
							madeMap[info.ObjectOf(id)] = true
						}
					}
				}
				if se, ok := unparen(l).(*ast.SelectorExpr); ok && se.Sel.Name == "vars" {
					if id, ok := unparen(se.X).(*ast.Ident); ok {
						if isMake(r) {
							madeMap[info.ObjectOf(id)] = true
						} else {
							delete(madeMap, info.ObjectOf(id))
							fresh[info.ObjectOf(id)] = false // a table from elsewhere was put in
						}
					}
				}
			}
			return true
		})
		nRet, bad := 0, ""
		ast.Inspect(fd.Body, func(nd ast.Node) bool {
			rs, ok := nd.(*ast.ReturnStmt)
			if !ok || len(rs.Results) != 1 {
				return true
			}
			nRet++
			if isLit, made := litTable(rs.Results[0]); isLit && made {
				return true // return &Variables{vars: make(…), …}
			}
			id, ok := unparen(rs.Results[0]).(*ast.Ident)
			if !ok || !fresh[info.ObjectOf(id)] || !madeMap[info.ObjectOf(id)] || len(ndefs[info.ObjectOf(id)]) != 1 {
				bad = c.src(rs)
			}
			return true
		})
		c.Check(nRet > 0 && bad == "", "R11g", "NewVariables:fresh", fd.Pos(), "every return of NewVariables hands out an object allocated in this call with a freshly made table (offending return: %q) — otherwise tables are reused between scopes", bad)
	})
}

// resolvePath: like defs.resolve1, but a local is only replaced by its single definition when that
// definition is itself a pure path (identifier / field selection, e.g. `proc := fork.Process`) — a local
// defined by a call (`fork := new(Fork)`) stays what it is: the name of that object.
func resolvePath(defs defMap, info *types.Info, e ast.Expr) ast.Expr {
	e = unparen(e)
	for i := 0; i < 4; i++ {
		id, ok := e.(*ast.Ident)
		if !ok {
			return e
		}
		ds := defs[info.ObjectOf(id)]
		if len(ds) != 1 || ds[0] == nil {
			return e
		}
		d := unparen(ds[0])
		pure := true
		for x := d; ; {
			switch y := x.(type) {
			case *ast.Ident:
			case *ast.SelectorExpr:
				x = unparen(y.X)
				continue
			default:
				pure = false
			}
			break
		}
		if !pure {
			return e
		}
		e = d
	}
	return e
}
