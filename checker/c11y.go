package main

import (
	"go/ast"
	"go/types"
)

// R11g — a function call's variable table is NEW. "A variable set inside a
// function call is not visible … to any other call" needs two facts: every store
// of a table into a process is either the parent's table (blocks share) or the
// result of NewVariables for that very process (R11a fixes which arm uses which),
// and NewVariables really hands out a fresh, empty table every time. A pool, a
// cache or a clone in either place lets one call see another call's locals.
func init() {
	extend("C11", func(c *Ctx) {
		c.Rule("R11g", "who-may-store Process.Variables (all loaded murex packages): the stored value is `NewVariables(<the process stored into>)` or `<another process>.Variables`; and NewVariables returns an object it allocated itself (`new`/composite literal) whose table is a `make` of a map in the same function — nothing recycled, cached or copied")
		n := 0
		for _, pk := range c.MurexPkgs() {
			info := pk.TypesInfo
			eachFunc(pk, func(fd *ast.FuncDecl) {
				if fd.Body == nil {
					return
				}
				ast.Inspect(fd.Body, func(nd ast.Node) bool {
					as, ok := nd.(*ast.AssignStmt)
					if !ok || len(as.Lhs) != len(as.Rhs) {
						return true
					}
					for i, l := range as.Lhs {
						se, ok := unparen(l).(*ast.SelectorExpr)
						if !ok || se.Sel.Name != "Variables" {
							continue
						}
						f, ok := info.ObjectOf(se.Sel).(*types.Var)
						if !ok || !f.IsField() || namedName(f.Type()) != "Variables" || f.Pkg() == nil || f.Pkg().Path() != mx("lang") {
							continue
						}
						n++
						key := "store@" + funcKey(relPkg(pk.PkgPath), fd) + "#" + itoa(n)
						r := unparen(as.Rhs[i])
						okStore, why := false, ""
						switch x := r.(type) {
						case *ast.SelectorExpr:
							if x.Sel.Name == "Variables" && info.ObjectOf(x.Sel) == types.Object(f) {
								okStore, why = true, "shares "+c.src(x)
							}
						case *ast.CallExpr:
							if fn, isF := callee(info, x).(*types.Func); isF && fn.Name() == "NewVariables" && fn.Pkg() != nil && fn.Pkg().Path() == mx("lang") && len(x.Args) == 1 {
								// the argument is the process stored into: <base> or <base>.Process
								base := c.src(se.X)
								arg := c.src(x.Args[0])
								if arg == base || arg == base+".Process" || base == arg+".Process" {
									okStore, why = true, "fresh table for "+arg
								} else {
									why = "NewVariables(" + arg + ") is stored into " + base
								}
							}
						}
						if okStore {
							c.OK("R11g", key, as.Pos(), "%s: %s", c.src(as), why)
						} else {
							c.Viol("R11g", key, as.Pos(), "%s stores %s into a process's variable table — neither NewVariables(<that process>) nor another process's table %s: a recycled, cached or foreign table makes one call's locals visible to another", fd.Name.Name, c.src(r), why)
						}
					}
					return true
				})
			})
		}
		c.MinCount("R11g", "stores to Process.Variables", n, 4)

		// NewVariables is fresh
		fd, pk := c.MustFunc("R11g", "lang", "", "NewVariables")
		if fd == nil {
			return
		}
		info := pk.TypesInfo
		fresh := map[types.Object]bool{}
		madeMap := map[types.Object]bool{}
		ast.Inspect(fd.Body, func(nd ast.Node) bool {
			as, ok := nd.(*ast.AssignStmt)
			if !ok || len(as.Lhs) != len(as.Rhs) {
				return true
			}
			for i, l := range as.Lhs {
				r := unparen(as.Rhs[i])
				if id, ok := unparen(l).(*ast.Ident); ok {
					if _, isNew := isBuiltinCall(info, r, "new"); isNew {
						fresh[info.ObjectOf(id)] = true
					}
					if u, isU := r.(*ast.UnaryExpr); isU {
						if _, isLit := unparen(u.X).(*ast.CompositeLit); isLit {
							fresh[info.ObjectOf(id)] = true
						}
					}
				}
				if se, ok := unparen(l).(*ast.SelectorExpr); ok && se.Sel.Name == "vars" {
					if id, ok := unparen(se.X).(*ast.Ident); ok {
						if call, isMake := isBuiltinCall(info, r, "make"); isMake && len(call.Args) >= 1 {
							madeMap[info.ObjectOf(id)] = true
						}
					}
				}
			}
			return true
		})
		nRet, bad := 0, ""
		ast.Inspect(fd.Body, func(nd ast.Node) bool {
			rs, ok := nd.(*ast.ReturnStmt)
			if !ok || len(rs.Results) != 1 {
				return true
			}
			nRet++
			id, ok := unparen(rs.Results[0]).(*ast.Ident)
			if !ok || !fresh[info.ObjectOf(id)] || !madeMap[info.ObjectOf(id)] {
				bad = c.src(rs)
			}
			return true
		})
		c.Check(nRet > 0 && bad == "", "R11g", "NewVariables:fresh", fd.Pos(), "every return of NewVariables hands out an object allocated in this call with a freshly made table (offending return: %q) — otherwise tables are reused between scopes", bad)
	})
}
