package main

import (
	"go/ast"
	"go/types"
)

// R14k — two cooperating sites. The table⇄map templates of lang/types hand every row to a
// callback; the json/yaml/xml marshallers KEEP what they are handed (`table[i] = m`) and
// marshal the collection afterwards. That is only right while the template hands out a value
// allocated for that row: a template that reuses one map/slice for every row (an obvious
// allocation saving) makes every kept row an alias of the last one — a table with two or
// more data rows comes out as copies of its last row. Neither site is wrong alone, so the
// rule joins them: a callback that retains its argument may only be given to a template
// whose row value is allocated inside the row loop.
func init() {
	extend("C14", func(c *Ctx) {
		c.Rule("R14k", "producer/consumer agreement on row ownership: for every function of lang/types that calls its func-typed parameter inside a loop, the argument is either allocated inside that loop's body (fresh per row) or reused; every function literal passed for that parameter anywhere in the loaded murex packages that stores its parameter outside itself (assignment, append, send, composite literal) must be paired with a fresh-per-row template")
		tpk := c.Pkg("lang/types")
		if tpk == nil {
			c.Lost("R14k", "pkg", "lang/types not loaded")
			return
		}
		tinfo := tpk.TypesInfo
		// template → index of the callback parameter, and whether the row value is fresh
		type tmpl struct {
			param int
			fresh bool
			why   string
		}
		tmpls := map[*types.Func]*tmpl{}
		eachFunc(tpk, func(fd *ast.FuncDecl) {
			if fd.Body == nil || fd.Recv != nil || fd.Type.Params == nil {
				return
			}
			// func-typed parameters with exactly one argument
			idx := 0
			cbs := map[types.Object]int{}
			for _, f := range fd.Type.Params.List {
				for _, nm := range f.Names {
					if sig, ok := tinfo.TypeOf(f.Type).Underlying().(*types.Signature); ok && sig.Params().Len() == 1 {
						cbs[tinfo.ObjectOf(nm)] = idx
					}
					idx++
				}
			}
			if len(cbs) == 0 {
				return
			}
			fn, _ := tinfo.ObjectOf(fd.Name).(*types.Func)
			walkStack(fd.Body, func(nd ast.Node, stack []ast.Node) bool {
				call, ok := nd.(*ast.CallExpr)
				if !ok || len(call.Args) != 1 {
					return true
				}
				id, ok := call.Fun.(*ast.Ident)
				if !ok {
					return true
				}
				pi, isCb := cbs[tinfo.ObjectOf(id)]
				if !isCb {
					return true
				}
				// innermost enclosing loop
				var loopBody *ast.BlockStmt
				for i := len(stack) - 1; i >= 0; i-- {
					switch l := stack[i].(type) {
					case *ast.ForStmt:
						loopBody = l.Body
					case *ast.RangeStmt:
						loopBody = l.Body
					}
					if loopBody != nil {
						break
					}
				}
				if loopBody == nil {
					return true // a single call (the heading row): nothing is reused
				}
				t := tmpls[fn]
				if t == nil {
					t = &tmpl{param: pi, fresh: true}
					tmpls[fn] = t
				}
				arg, ok := unparen(call.Args[0]).(*ast.Ident)
				if !ok {
					// a composite literal / make / call result built in the argument position is fresh
					switch unparen(call.Args[0]).(type) {
					case *ast.CompositeLit, *ast.CallExpr:
					default:
						t.fresh, t.why = false, "argument "+c.src(call.Args[0])+" is not a local allocated in the loop"
					}
					return true
				}
				obj := tinfo.ObjectOf(arg)
				if obj == nil || obj.Pos() < loopBody.Pos() || obj.Pos() > loopBody.End() {
					t.fresh, t.why = false, "`"+arg.Name+"` is declared outside the row loop and reused for every row"
					return true
				}
				// declared inside the loop body: its initialiser must allocate (make / literal / call), not alias an outer value
				alloc := false
				ast.Inspect(loopBody, func(m ast.Node) bool {
					switch s := m.(type) {
					case *ast.AssignStmt:
						for i, l := range s.Lhs {
							if li, ok := l.(*ast.Ident); ok && tinfo.Defs[li] == obj && len(s.Rhs) == len(s.Lhs) {
								switch unparen(s.Rhs[i]).(type) {
								case *ast.CompositeLit, *ast.CallExpr:
									alloc = true
								}
							}
						}
					case *ast.ValueSpec:
						for i, nm := range s.Names {
							if tinfo.Defs[nm] == obj {
								if len(s.Values) == 0 {
									alloc = true // zero value, then filled: per-iteration variable
								} else if i < len(s.Values) {
									switch unparen(s.Values[i]).(type) {
									case *ast.CompositeLit, *ast.CallExpr:
										alloc = true
									}
								}
							}
						}
					}
					return true
				})
				if !alloc {
					t.fresh, t.why = false, "`"+arg.Name+"` is declared in the loop but initialised from an outer value"
				}
				return true
			})
		})
		c.MinCount("R14k", "row templates in lang/types", len(tmpls), 3)
		nRetain := 0
		for _, pk := range c.MurexPkgs() {
			info := pk.TypesInfo
			eachFunc(pk, func(fd *ast.FuncDecl) {
				if fd.Body == nil {
					return
				}
				for _, call := range calls(fd.Body, true) {
					fn, ok := callee(info, call).(*types.Func)
					if !ok {
						continue
					}
					t := tmpls[fn]
					if t == nil || t.param >= len(call.Args) {
						continue
					}
					lit, ok := unparen(call.Args[t.param]).(*ast.FuncLit)
					key := relPkg(pk.PkgPath) + "." + fd.Name.Name + "→" + fn.Name() + ":kept-row-is-fresh"
					if !ok {
						if !t.fresh {
							c.Undecided("R14k", key, call.Pos(), "the callback given to %s is not a function literal; cannot decide whether it keeps the reused row", fn.Name())
						}
						continue
					}
					if lit.Type.Params == nil || len(lit.Type.Params.List) != 1 || len(lit.Type.Params.List[0].Names) != 1 {
						continue
					}
					param := info.ObjectOf(lit.Type.Params.List[0].Names[0])
					isParam := func(e ast.Expr) bool {
						id, ok := unparen(e).(*ast.Ident)
						return ok && info.ObjectOf(id) == param
					}
					retains := false
					ast.Inspect(lit.Body, func(m ast.Node) bool {
						switch s := m.(type) {
						case *ast.AssignStmt:
							for _, r := range s.Rhs {
								if isParam(r) {
									retains = true
								}
								if ac, ok := isBuiltinCall(info, r, "append"); ok {
									for _, a := range ac.Args[1:] {
										if isParam(a) {
											retains = true
										}
									}
								}
							}
						case *ast.SendStmt:
							if isParam(s.Value) {
								retains = true
							}
						case *ast.CompositeLit:
							for _, el := range s.Elts {
								if kv, ok := el.(*ast.KeyValueExpr); ok {
									el = kv.Value
								}
								if isParam(el) {
									retains = true
								}
							}
						}
						return true
					})
					if !retains {
						continue
					}
					nRetain++
					c.Check(t.fresh, "R14k", key, call.Pos(), "%s keeps every row it is handed by types.%s, so each row must be a value of its own (%s)", fd.Name.Name, fn.Name(), t.why)
				}
			})
		}
		c.MinCount("R14k", "marshallers that keep the rows handed to them", nRetain, 3)
	})
}
