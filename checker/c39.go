package main

// C39 — break, continue and return affect only the named block.
//
// Everything here is decided on go/ssa of builtins/core/structs: the two upward
// walks of break.go are read as loops over one φ of type *lang.Process (which
// field starts the walk, which field advances it, which exit tests lie between
// the loop head and the advance, what is done to the visited process before
// each exit), the callers' arguments are traced to their sources, and every
// place where a loop builtin executes its body block is checked for a
// p.HasCancelled() test on every path that reaches it again.

import (
	"fmt"
	"go/ast"
	"go/constant"
	"go/token"
	"go/types"
	"os"
	"sort"
	"strings"

	"golang.org/x/tools/go/packages"
	"golang.org/x/tools/go/ssa"
)

func init() {
	register("C39", "Decides on go/ssa of builtins/core/structs: (R39a) breakUpwards starts at the caller's Parent, and on every trip round its loop marks the visited process (ExitNum = n, KillForks(n), Done()) BEFORE the two exit tests, tests `name matches` before `scope reached` and both before advancing, advances only through .Parent, and returns nil exactly on the name match — so the named block itself is cancelled and nothing above it is touched; (R39b) cmdContinue's walk begins with the statement that follows `continue` (p.Next), tests the name before it calls Done() (the named loop is never cancelled, only what is left of the current iteration), tests the scope boundary before advancing and advances only through .Next; (R39c) `return` targets p.Scope's name with the exit number read from parameter 0, `break` targets parameter 0 with exit number 0; (R39d) every place where a loop builtin registered as foreach/for/while/!while/formap executes a block again (in a Go loop, or in a reader callback) is reached only over the not-cancelled edge of a p.HasCancelled() test, and the cancelled edge leaves the builtin with a nil error (exit number stays what break/return set). Does NOT decide: that Done()/KillForks actually stop goroutines that are already running (context propagation at run time), output that a pipeline had already written before the cancellation, the unnamed `break`/`continue` fallbacks, foreach --parallel (its blocks run in their own function scope), nor which visible output a whole program produces.", runC39)
}

const c39Pkg = "builtins/core/structs"

var c39Dump = os.Getenv("C39_DUMP") != ""

func runC39(c *Ctx) {
	c.Load(c39Pkg)
	pk := c.Pkg(c39Pkg)
	if pk == nil {
		c.Lost("R39a", "pkg:"+c39Pkg, "package not loaded")
		return
	}
	c.Rule("R39a", "breakUpwards: the walk is one loop over proc := p.Parent; each trip sets proc.ExitNum = exitNum, calls proc.KillForks(exitNum) and proc.Done() before either exit; `proc.Name.String() == name` (return nil) is tested before `proc.Id == p.Scope.Id` (return error) and both before `proc = proc.Parent`")
	c.Rule("R39b", "cmdContinue: the walk starts at p.Next (the statements after `continue` in its own block belong to the iteration being skipped); the name test (return nil) precedes proc.Done() so the named loop is not cancelled; Done() precedes the advance; the scope test precedes the advance; the advance is proc = proc.Next")
	c.Rule("R39c", "cmdReturn passes (p, p.Scope.Name.String(), <result 0 of p.Parameters.Int(0)>) to breakUpwards; cmdBreak passes (p, <result 0 of p.Parameters.String(0)>, 0)")
	c.Rule("R39d", "for every builtin registered under foreach/for/while/!while/formap: each (*lang.Fork).Execute of a block that can run more than once (inside a CFG cycle, or inside a reader callback / its helpers) is reachable — from the function entry for callbacks, from its own successors for loops — only through the not-cancelled edge of an `if p.HasCancelled()` test; the cancelled edge returns without executing the block and with a nil error")
	c.c39Walks(pk)
	c.c39Loops(pk)
	c.c39Lang()
}

// ---------------------------------------------------------------- ssa helpers

func c39Reach(from []*ssa.BasicBlock, skip func(from, to *ssa.BasicBlock) bool) map[*ssa.BasicBlock]bool {
	seen := map[*ssa.BasicBlock]bool{}
	var st []*ssa.BasicBlock
	for _, b := range from {
		if !seen[b] {
			seen[b] = true
			st = append(st, b)
		}
	}
	for len(st) > 0 {
		b := st[len(st)-1]
		st = st[:len(st)-1]
		for _, s := range b.Succs {
			if skip != nil && skip(b, s) {
				continue
			}
			if !seen[s] {
				seen[s] = true
				st = append(st, s)
			}
		}
	}
	return seen
}

func c39IsProcPtr(t types.Type) bool {
	return namedPath(t) == mx("lang")+".Process"
}

// c39FieldLoad: v is `*(&x.f)` (or x.f on a struct value) for a field of
// lang.Process; returns x and the field name.
func c39FieldLoad(v ssa.Value) (ssa.Value, string, bool) {
	u, ok := v.(*ssa.UnOp)
	if !ok || u.Op != token.MUL {
		return nil, "", false
	}
	fa, ok := u.X.(*ssa.FieldAddr)
	if !ok {
		return nil, "", false
	}
	st := structOf(fa.X.Type())
	if st == nil || !c39IsProcPtr(fa.X.Type()) {
		return nil, "", false
	}
	return fa.X, st.Field(fa.Field).Name(), true
}

func c39FieldAddr(v ssa.Value) (ssa.Value, string, bool) {
	fa, ok := v.(*ssa.FieldAddr)
	if !ok {
		return nil, "", false
	}
	st := structOf(fa.X.Type())
	if st == nil || !c39IsProcPtr(fa.X.Type()) {
		return nil, "", false
	}
	return fa.X, st.Field(fa.Field).Name(), true
}

func c39StaticCallee(cc *ssa.CallCommon) *ssa.Function {
	if cc.IsInvoke() {
		return nil
	}
	switch v := cc.Value.(type) {
	case *ssa.Function:
		return v
	case *ssa.MakeClosure:
		if f, ok := v.Fn.(*ssa.Function); ok {
			return f
		}
	}
	return nil
}

func c39FnIs(f *ssa.Function, pkgRel, recv, name string) bool {
	if f == nil || f.Object() == nil {
		return false
	}
	return objIs(f.Object(), mx(pkgRel), recv, name)
}

func c39Dumpf(fn *ssa.Function) {
	if c39Dump && fn != nil {
		fn.WriteTo(os.Stderr)
		for _, a := range fn.AnonFuncs {
			c39Dumpf(a)
		}
	}
}

func c39Pos(fn *ssa.Function, in ssa.Instruction) token.Pos {
	if in != nil && in.Pos().IsValid() {
		return in.Pos()
	}
	return fn.Pos()
}

// c39Walk is one `for { … proc = proc.<field> }` loop over a φ of *lang.Process.
type c39Walk struct {
	c     *Ctx
	rule  string
	fname string
	fn    *ssa.Function
	p     ssa.Value
	phi   *ssa.Phi
	head  *ssa.BasicBlock
	init  []ssa.Value
	back  []ssa.Value
	latch []*ssa.BasicBlock
	loop  map[*ssa.BasicBlock]bool
}

type c39Exit struct {
	ifi      *ssa.If
	other    ssa.Value // the value the visited process is compared with
	eqLeaves bool      // the loop is left on the `equal` outcome
	leaveTo  *ssa.BasicBlock
	ok       bool // exactly one successor leaves the loop
}

func (c *Ctx) c39FindWalk(rule, fname string) *c39Walk {
	fd, pk := c.MustFunc(rule, c39Pkg, "", fname)
	if fd == nil {
		return nil
	}
	fn := c.SSAFunc(pk, fd)
	if fn == nil || len(fn.Params) == 0 || !c39IsProcPtr(fn.Params[0].Type()) {
		c.Undecided(rule, fname+":shape", fd.Pos(), "%s: no SSA body / first parameter is not *lang.Process", fname)
		return nil
	}
	c39Dumpf(fn)
	w := &c39Walk{c: c, rule: rule, fname: fname, fn: fn, p: fn.Params[0]}
	var phis []*ssa.Phi
	for _, b := range fn.Blocks {
		for _, in := range b.Instrs {
			ph, ok := in.(*ssa.Phi)
			if !ok || !c39IsProcPtr(ph.Type()) {
				continue
			}
			isLoop := false
			for _, pr := range b.Preds {
				if b.Dominates(pr) {
					isLoop = true
				}
			}
			if isLoop {
				phis = append(phis, ph)
			}
		}
	}
	if len(phis) != 1 {
		c.Undecided(rule, fname+":shape", fd.Pos(), "%s: expected exactly one loop-carried *lang.Process variable (the walk), found %d", fname, len(phis))
		return nil
	}
	w.phi = phis[0]
	w.head = w.phi.Block()
	for i, pr := range w.head.Preds {
		if w.head.Dominates(pr) {
			w.back = append(w.back, w.phi.Edges[i])
			w.latch = append(w.latch, pr)
		} else {
			w.init = append(w.init, w.phi.Edges[i])
		}
	}
	// natural loop: blocks that reach a latch without passing the head
	w.loop = map[*ssa.BasicBlock]bool{w.head: true}
	st := append([]*ssa.BasicBlock{}, w.latch...)
	for len(st) > 0 {
		b := st[len(st)-1]
		st = st[:len(st)-1]
		if w.loop[b] {
			continue
		}
		w.loop[b] = true
		st = append(st, b.Preds...)
	}
	return w
}

// fieldOfProc: v is a load of <x>.<field> of lang.Process; reports the field when x == of.
func (w *c39Walk) loadOf(v ssa.Value, of ssa.Value) (string, bool) {
	x, f, ok := c39FieldLoad(v)
	if !ok || x != of {
		return "", false
	}
	return f, true
}

func (w *c39Walk) describe(v ssa.Value) string {
	if x, f, ok := c39FieldLoad(v); ok {
		switch {
		case x == w.p:
			return "p." + f
		case x == ssa.Value(w.phi):
			return "proc." + f
		default:
			return "<" + x.Name() + ">." + f
		}
	}
	if v == w.p {
		return "p"
	}
	return v.String()
}

// precedes: instruction a is executed before the terminator of block b on
// every path from the loop head (a's block dominates b; same block is fine
// because a terminator is last).
func c39Before(a ssa.Instruction, b *ssa.BasicBlock) bool {
	return a.Block() == b || a.Block().Dominates(b)
}

// events on the visited process
func (w *c39Walk) doneCalls() []ssa.Instruction {
	var out []ssa.Instruction
	for b := range w.loop {
		for _, in := range b.Instrs {
			call, ok := in.(*ssa.Call)
			if !ok {
				continue
			}
			if f, ok := w.loadOf(call.Call.Value, w.phi); ok && f == "Done" {
				out = append(out, in)
			}
		}
	}
	return out
}

func (w *c39Walk) killForks() (out []*ssa.Call) {
	for b := range w.loop {
		for _, in := range b.Instrs {
			call, ok := in.(*ssa.Call)
			if !ok {
				continue
			}
			if c39FnIs(c39StaticCallee(&call.Call), "lang", "Process", "KillForks") && len(call.Call.Args) == 2 && call.Call.Args[0] == ssa.Value(w.phi) {
				out = append(out, call)
			}
		}
	}
	return
}

func (w *c39Walk) exitNumStores() (out []*ssa.Store) {
	for b := range w.loop {
		for _, in := range b.Instrs {
			st, ok := in.(*ssa.Store)
			if !ok {
				continue
			}
			if x, f, ok := c39FieldAddr(st.Addr); ok && x == ssa.Value(w.phi) && f == "ExitNum" {
				out = append(out, st)
			}
		}
	}
	return
}

func c39IsNameString(v ssa.Value, of ssa.Value) bool {
	call, ok := v.(*ssa.Call)
	if !ok || !c39FnIs(c39StaticCallee(&call.Call), "lang/process", "Name", "String") || len(call.Call.Args) != 1 {
		return false
	}
	x, f, ok := c39FieldAddr(call.Call.Args[0])
	return ok && x == of && f == "Name"
}

// exits returns the name test, the scope test and every other edge that leaves the loop.
func (w *c39Walk) exits() (name, scope *c39Exit, others []*ssa.BasicBlock) {
	for b := range w.loop {
		leaves := 0
		var leaveTo *ssa.BasicBlock
		leaveIdx := -1
		for i, s := range b.Succs {
			if !w.loop[s] {
				leaves++
				leaveTo = s
				leaveIdx = i
			}
		}
		if leaves == 0 {
			continue
		}
		ifi, _ := b.Instrs[len(b.Instrs)-1].(*ssa.If)
		var bo *ssa.BinOp
		if ifi != nil {
			bo, _ = ifi.Cond.(*ssa.BinOp)
		}
		if ifi == nil || bo == nil || (bo.Op != token.EQL && bo.Op != token.NEQ) || leaves != 1 {
			others = append(others, b)
			continue
		}
		e := &c39Exit{ifi: ifi, leaveTo: leaveTo, ok: true}
		e.eqLeaves = (bo.Op == token.EQL) == (leaveIdx == 0)
		kind := ""
		for _, side := range [][2]ssa.Value{{bo.X, bo.Y}, {bo.Y, bo.X}} {
			if c39IsNameString(side[0], w.phi) {
				kind, e.other = "name", side[1]
			} else if f, ok := w.loadOf(side[0], w.phi); ok && f == "Id" {
				kind, e.other = "scope", side[1]
			}
		}
		switch {
		case kind == "name" && name == nil:
			name = e
		case kind == "scope" && scope == nil:
			scope = e
		default:
			others = append(others, b)
		}
	}
	return
}

// c39ReturnOf follows unconditional jumps from b to a return.
func c39ReturnOf(b *ssa.BasicBlock) *ssa.Return {
	for i := 0; i < 8 && b != nil; i++ {
		switch t := b.Instrs[len(b.Instrs)-1].(type) {
		case *ssa.Return:
			return t
		case *ssa.Jump:
			b = b.Succs[0]
		default:
			return nil
		}
	}
	return nil
}

func c39NilError(r *ssa.Return) (isNil, hasErr bool) {
	if r == nil || len(r.Results) == 0 {
		return false, false
	}
	last := r.Results[len(r.Results)-1]
	if !types.Identical(last.Type(), types.Universe.Lookup("error").Type()) {
		return false, false
	}
	k, ok := last.(*ssa.Const)
	return ok && k.Value == nil, true
}

func (w *c39Walk) isScopeId(v ssa.Value) bool {
	x, f, ok := c39FieldLoad(v)
	if !ok || f != "Id" {
		return false
	}
	f2, ok := w.loadOf(x, w.p)
	return ok && f2 == "Scope"
}

func (w *c39Walk) dominatesLatches(b *ssa.BasicBlock) bool {
	for _, l := range w.latch {
		if !(b == l || b.Dominates(l)) {
			return false
		}
	}
	return len(w.latch) > 0
}

func (w *c39Walk) checkStartAdvance(wantStart, wantAdv, whyStart, whyAdv string) {
	c, rule := w.c, w.rule
	pos := w.phi.Pos()
	if !pos.IsValid() {
		pos = w.fn.Pos()
	}
	for _, v := range w.init {
		f, ok := w.loadOf(v, w.p)
		switch {
		case ok && f == wantStart:
			c.OK(rule, w.fname+":start", pos, "%s: the walk starts at p.%s", w.fname, f)
		case ok || v == w.p:
			c.Viol(rule, w.fname+":start", pos, "%s: the walk starts at %s, not at p.%s — %s", w.fname, w.describe(v), wantStart, whyStart)
		default:
			c.Undecided(rule, w.fname+":start", pos, "%s: the first visited process is %s, which is not a field of the calling process", w.fname, w.describe(v))
		}
	}
	if len(w.init) != 1 {
		c.Undecided(rule, w.fname+":start", pos, "%s: the walk variable has %d initial values", w.fname, len(w.init))
	}
	for i, v := range w.back {
		p2 := w.latch[i].Instrs[len(w.latch[i].Instrs)-1].Pos()
		if !p2.IsValid() {
			p2 = pos
		}
		f, ok := w.loadOf(v, w.phi)
		switch {
		case ok && f == wantAdv:
			c.OK(rule, w.fname+":advance", p2, "%s: the walk advances with proc = proc.%s", w.fname, f)
		case ok:
			c.Viol(rule, w.fname+":advance", p2, "%s: the walk advances with proc = proc.%s, not proc.%s — %s", w.fname, f, wantAdv, whyAdv)
		default:
			c.Undecided(rule, w.fname+":advance", p2, "%s: the walk advances to %s, which is not a field of the visited process", w.fname, w.describe(v))
		}
	}
}

func (c *Ctx) c39Walks(pk *packages.Package) {
	// ---- R39a breakUpwards
	if w := c.c39FindWalk("R39a", "breakUpwards"); w != nil {
		rule, fn := "R39a", w.fn
		var nameP, exitP ssa.Value
		if len(fn.Params) == 3 {
			nameP, exitP = fn.Params[1], fn.Params[2]
		} else {
			c.Undecided(rule, "breakUpwards:shape", fn.Pos(), "breakUpwards no longer has the parameters (p, name, exitNum)")
		}
		w.checkStartAdvance("Parent", "Parent",
			"`break` must begin with the block that contains it: starting anywhere else either leaves the enclosing block running or cancels a sibling statement",
			"only the chain of enclosing blocks may be cancelled; .Next/.Previous are sibling statements, which would be cancelled instead of the enclosing blocks and the named block is never reached")
		name, scope, others := w.exits()
		for _, b := range others {
			c.Undecided(rule, "breakUpwards:exits", b.Instrs[len(b.Instrs)-1].Pos(), "breakUpwards: the walk has an exit that is neither the name test nor the scope test; cannot tell which blocks stay cancelled")
		}
		if name == nil {
			c.Viol(rule, "breakUpwards:name-exit", fn.Pos(), "breakUpwards: no `proc.Name.String() == name` test leaves the walk — `break name` cancels every enclosing block up to the function scope instead of stopping at the named one")
		} else {
			pos := name.ifi.Cond.Pos()
			ret := c39ReturnOf(name.leaveTo)
			isNil, hasErr := c39NilError(ret)
			switch {
			case name.other != nameP:
				c.Viol(rule, "breakUpwards:name-exit", pos, "breakUpwards: the visited block's name is compared with %s, not with the requested name", name.other.Name())
			case !name.eqLeaves:
				c.Viol(rule, "breakUpwards:name-exit", pos, "breakUpwards: the walk stops when the block name DIFFERS from the requested one: `break foreach` inside `if` stops at `if` and the loop keeps running")
			case !w.dominatesLatches(name.ifi.Block()):
				c.Viol(rule, "breakUpwards:name-exit", pos, "breakUpwards: a path advances to the parent without testing the name — the walk can pass the named block and cancel code outside it")
			case ret == nil || !hasErr:
				c.Undecided(rule, "breakUpwards:name-exit", pos, "breakUpwards: the name match does not lead straight to a return")
			case !isNil:
				c.Viol(rule, "breakUpwards:name-exit", pos, "breakUpwards: finding the named block returns an error: every successful break/return is reported as a failure (exit number 1)")
			default:
				c.OK(rule, "breakUpwards:name-exit", pos, "name match leaves the walk with a nil error; tested on every trip before the advance")
			}
			// marking before the name exit
			var okDone, okKill, okExit bool
			for _, d := range w.doneCalls() {
				okDone = okDone || c39Before(d, name.ifi.Block())
			}
			for _, k := range w.killForks() {
				okKill = okKill || (c39Before(k, name.ifi.Block()) && k.Call.Args[1] == exitP)
			}
			for _, s := range w.exitNumStores() {
				okExit = okExit || (c39Before(s, name.ifi.Block()) && s.Val == exitP)
			}
			c.Check(okDone, rule, "breakUpwards:done-before-exit", pos, "breakUpwards: proc.Done() must run for the visited process before the name test can end the walk; otherwise the named block itself is never cancelled (a `break foreach` ends the body but the loop goes on to the next element)")
			c.Check(okKill, rule, "breakUpwards:killforks-before-exit", pos, "breakUpwards: proc.KillForks(exitNum) must run before the name test can end the walk; otherwise statements already compiled in the named block keep their own live contexts and exit numbers (the rest of the block can still run, `return n` loses n)")
			c.Check(okExit, rule, "breakUpwards:exitnum-before-exit", pos, "breakUpwards: proc.ExitNum = exitNum must be stored before the name test can end the walk; otherwise `return n` leaves the function with the previous exit number")
		}
		if scope == nil {
			c.Viol(rule, "breakUpwards:scope-exit", fn.Pos(), "breakUpwards: no `proc.Id == p.Scope.Id` test leaves the walk — a misspelt block name walks out of the function and cancels the callers")
		} else {
			pos := scope.ifi.Cond.Pos()
			switch {
			case !w.isScopeId(scope.other):
				c.Viol(rule, "breakUpwards:scope-exit", pos, "breakUpwards: the visited process id is compared with %s, not with p.Scope.Id", w.describe(scope.other))
			case !scope.eqLeaves:
				c.Viol(rule, "breakUpwards:scope-exit", pos, "breakUpwards: the walk continues past the function scope and stops everywhere else")
			case !w.dominatesLatches(scope.ifi.Block()):
				c.Viol(rule, "breakUpwards:scope-exit", pos, "breakUpwards: a path advances to the parent without testing the scope boundary — code outside the current function can be cancelled")
			default:
				c.OK(rule, "breakUpwards:scope-exit", pos, "scope boundary tested on every trip before the advance")
			}
		}
		if name != nil && scope != nil {
			nb, sb := name.ifi.Block(), scope.ifi.Block()
			c.Check(nb != sb && nb.Dominates(sb), rule, "breakUpwards:name-before-scope", scope.ifi.Cond.Pos(),
				"breakUpwards: the name test must come before the scope test: `return` targets the scope process itself (its name AND its id match), so testing the id first turns every `return` into the error `no block found`")
		}
	}

	// ---- R39b cmdContinue
	if w := c.c39FindWalk("R39b", "cmdContinue"); w != nil {
		rule, fn := "R39b", w.fn
		w.checkStartAdvance("Next", "Next",
			"the statements that follow `continue` in its own block are part of the iteration being skipped and are only cancelled when the walk visits them; starting at the parent, `cond && continue foreach; out x` still prints x whenever the loop body is the parent",
			"`continue` cancels what is left of the current iteration: the following statements of each enclosing block (.Next; the last statement's Next is the enclosing block). Through .Parent the remaining statements of the enclosing blocks keep running")
		name, scope, others := w.exits()
		for _, b := range others {
			c.Undecided(rule, "cmdContinue:exits", b.Instrs[len(b.Instrs)-1].Pos(), "cmdContinue: the walk has an exit that is neither the name test nor the scope test")
		}
		dones := w.doneCalls()
		if name == nil {
			c.Viol(rule, "cmdContinue:name-exit", fn.Pos(), "cmdContinue: no name test leaves the walk — `continue name` cancels everything up to the function scope")
		} else {
			pos := name.ifi.Cond.Pos()
			ret := c39ReturnOf(name.leaveTo)
			isNil, hasErr := c39NilError(ret)
			switch {
			case !c39FromParam0(name.other, w.p, "String"):
				c.Viol(rule, "cmdContinue:name-exit", pos, "cmdContinue: the visited block's name is not compared with parameter 0")
			case !name.eqLeaves:
				c.Viol(rule, "cmdContinue:name-exit", pos, "cmdContinue: the walk stops when the block name DIFFERS from the requested one")
			case !w.dominatesLatches(name.ifi.Block()):
				c.Viol(rule, "cmdContinue:name-exit", pos, "cmdContinue: a path advances without testing the name — the walk passes the named loop")
			case ret == nil || !hasErr:
				c.Undecided(rule, "cmdContinue:name-exit", pos, "cmdContinue: the name match does not lead straight to a return")
			case !isNil:
				c.Viol(rule, "cmdContinue:name-exit", pos, "cmdContinue: finding the named loop returns an error")
			default:
				c.OK(rule, "cmdContinue:name-exit", pos, "name match leaves the walk with a nil error; tested on every trip before the advance")
			}
			okAfter := len(dones) > 0
			for _, d := range dones {
				nb := name.ifi.Block()
				if !(nb != d.Block() && nb.Dominates(d.Block())) {
					okAfter = false
				}
			}
			c.Check(okAfter, rule, "cmdContinue:target-not-cancelled", pos, "cmdContinue: every proc.Done() of the walk must come after the name test has failed; a Done() reachable before it cancels the named loop itself and `continue` behaves like `break`")
		}
		okDone := false
		for _, d := range dones {
			okDone = okDone || w.dominatesLatches(d.Block())
		}
		c.Check(okDone, rule, "cmdContinue:done-before-advance", fn.Pos(), "cmdContinue: each visited process must be Done() before the walk advances; otherwise the rest of the current iteration keeps running")
		if scope == nil {
			c.Viol(rule, "cmdContinue:scope-exit", fn.Pos(), "cmdContinue: no `proc.Id == p.Scope.Id` test leaves the walk — a misspelt loop name cancels the callers of the function")
		} else {
			pos := scope.ifi.Cond.Pos()
			switch {
			case !w.isScopeId(scope.other):
				c.Viol(rule, "cmdContinue:scope-exit", pos, "cmdContinue: the visited process id is compared with %s, not with p.Scope.Id", w.describe(scope.other))
			case !scope.eqLeaves:
				c.Viol(rule, "cmdContinue:scope-exit", pos, "cmdContinue: the walk continues past the function scope and stops everywhere else")
			case !w.dominatesLatches(scope.ifi.Block()):
				c.Viol(rule, "cmdContinue:scope-exit", pos, "cmdContinue: a path advances without testing the scope boundary")
			default:
				c.OK(rule, "cmdContinue:scope-exit", pos, "scope boundary tested on every trip before the advance")
			}
		}
	}

	// ---- R39c callers
	c.c39Callers()
}

// c39FromParam0: v is result 0 of p.Parameters.<meth>(0), possibly merged by a φ
// with a fallback value.
func c39FromParam0(v ssa.Value, p ssa.Value, meth string) bool {
	if ph, ok := v.(*ssa.Phi); ok {
		for _, e := range ph.Edges {
			if c39FromParam0(e, p, meth) {
				return true
			}
		}
		return false
	}
	ex, ok := v.(*ssa.Extract)
	if !ok || ex.Index != 0 {
		return false
	}
	call, ok := ex.Tuple.(*ssa.Call)
	if !ok || !c39FnIs(c39StaticCallee(&call.Call), "lang/parameters", "Parameters", meth) || len(call.Call.Args) != 2 {
		return false
	}
	x, f, ok := c39FieldAddr(call.Call.Args[0])
	if !ok || x != p || f != "Parameters" {
		return false
	}
	k, ok := call.Call.Args[1].(*ssa.Const)
	return ok && k.Value != nil && k.Int64() == 0
}

// c39ThroughField: when v is a load of p.<f>, return the single value stored to
// p.<f> before it in the function (nil when there is not exactly one such store
// that precedes the load).
func c39ThroughField(fn *ssa.Function, v ssa.Value, p ssa.Value) ssa.Value {
	x, f, ok := c39FieldLoad(v)
	if !ok || x != p {
		return v
	}
	load := v.(*ssa.UnOp)
	var stores []*ssa.Store
	for _, b := range fn.Blocks {
		for _, in := range b.Instrs {
			if st, ok := in.(*ssa.Store); ok {
				if x2, f2, ok := c39FieldAddr(st.Addr); ok && x2 == p && f2 == f {
					stores = append(stores, st)
				}
			}
		}
	}
	if len(stores) != 1 {
		return nil
	}
	st := stores[0]
	if st.Block() == load.Block() {
		for _, in := range st.Block().Instrs {
			if in == ssa.Instruction(st) {
				return st.Val
			}
			if in == ssa.Instruction(load) {
				return nil
			}
		}
	}
	if st.Block().Dominates(load.Block()) {
		return st.Val
	}
	return nil
}

func (c *Ctx) c39Callers() {
	rule := "R39c"
	n := 0
	for _, fname := range []string{"cmdReturn", "cmdBreak"} {
		fd, pk := c.MustFunc(rule, c39Pkg, "", fname)
		if fd == nil {
			continue
		}
		fn := c.SSAFunc(pk, fd)
		if fn == nil || len(fn.Params) != 1 {
			c.Undecided(rule, fname+":shape", fd.Pos(), "%s: no SSA body", fname)
			continue
		}
		c39Dumpf(fn)
		p := ssa.Value(fn.Params[0])
		var sites []*ssa.Call
		for _, b := range fn.Blocks {
			for _, in := range b.Instrs {
				if call, ok := in.(*ssa.Call); ok && c39FnIs(c39StaticCallee(&call.Call), c39Pkg, "", "breakUpwards") {
					sites = append(sites, call)
				}
			}
		}
		if len(sites) != 1 || len(sites[0].Call.Args) != 3 {
			c.Undecided(rule, fname+":call", fd.Pos(), "%s: expected exactly one call of breakUpwards(p, name, exitNum), found %d", fname, len(sites))
			continue
		}
		n++
		call := sites[0]
		a := call.Call.Args
		pos := call.Pos()
		c.Check(a[0] == p, rule, fname+":from", pos, "%s: the walk must start from the process that executes the builtin (first argument of breakUpwards)", fname)
		switch fname {
		case "cmdReturn":
			okName := false
			if cl, ok := a[1].(*ssa.Call); ok && c39FnIs(c39StaticCallee(&cl.Call), "lang/process", "Name", "String") && len(cl.Call.Args) == 1 {
				if x, f, ok := c39FieldAddr(cl.Call.Args[0]); ok && f == "Name" {
					if x2, f2, ok := c39FieldLoad(x); ok && x2 == p && f2 == "Scope" {
						okName = true
					}
				}
			}
			c.Check(okName, rule, "cmdReturn:target", pos, "cmdReturn: the target of `return` must be p.Scope.Name.String() (the current function); any other target ends a different block")
			v := c39ThroughField(fn, a[2], p)
			c.Check(v != nil && c39FromParam0(v, p, "Int"), rule, "cmdReturn:exitnum", pos, "cmdReturn: the exit number handed to the walk must be result 0 of p.Parameters.Int(0); otherwise `return n` does not leave the function with exit number n")
		case "cmdBreak":
			c.Check(c39FromParam0(a[1], p, "String"), rule, "cmdBreak:target", pos, "cmdBreak: the target of `break` must be result 0 of p.Parameters.String(0)")
			k, ok := a[2].(*ssa.Const)
			c.Check(ok && k.Value != nil && k.Int64() == 0, rule, "cmdBreak:exitnum", pos, "cmdBreak: `break` must hand exit number 0 to the walk; a non-zero number makes the ended block count as failed, so code after it is skipped under try/&&")
		}
	}
	c.MinCount(rule, "callers of breakUpwards", n, 2)
}

// ---------------------------------------------------------------- R39d

var c39LoopNames = []string{"foreach", "for", "while", "!while", "formap"}

type c39Site struct {
	fn   *ssa.Function
	in   ssa.Instruction
	call *ssa.CallCommon
}

type c39Impl struct {
	c         *Ctx
	pk        *packages.Package
	sp        *ssa.Package
	fns       map[*ssa.Function]bool
	order     []*ssa.Function
	callSites map[*ssa.Function][]c39Site // static calls / go / defer of a package function
	callbacks map[*ssa.Function][]c39Site // closure handed to a call as an argument
	iterated  map[*ssa.Function]bool
	lparen    map[token.Pos]*ast.CallExpr
}

// c39Registered resolves lang.DefineFunction/DefineMethod(<const name>, <func>, …) in the package.
func (c *Ctx) c39Registered(pk *packages.Package) map[string]*types.Func {
	out := map[string]*types.Func{}
	for _, f := range pk.Syntax {
		ast.Inspect(f, func(n ast.Node) bool {
			call, ok := n.(*ast.CallExpr)
			if !ok || len(call.Args) < 2 {
				return true
			}
			if !callIs(pk.TypesInfo, call, mx("lang"), "", "DefineFunction") && !callIs(pk.TypesInfo, call, mx("lang"), "", "DefineMethod") {
				return true
			}
			name, ok := constString(pk.TypesInfo, call.Args[0])
			if !ok {
				return true
			}
			if id, ok := unparen(call.Args[1]).(*ast.Ident); ok {
				if fn, ok := pk.TypesInfo.ObjectOf(id).(*types.Func); ok {
					out[name] = fn
				}
			}
			return true
		})
	}
	return out
}

func (im *c39Impl) add(fn *ssa.Function) {
	if fn == nil || im.fns[fn] || fn.Blocks == nil {
		return
	}
	if fn.Pkg != im.sp && (fn.Parent() == nil || !im.fns[fn.Parent()]) {
		return
	}
	im.fns[fn] = true
	im.order = append(im.order, fn)
	for _, b := range fn.Blocks {
		for _, in := range b.Instrs {
			var cc *ssa.CallCommon
			switch t := in.(type) {
			case *ssa.Call:
				cc = &t.Call
			case *ssa.Go:
				cc = &t.Call
			case *ssa.Defer:
				cc = &t.Call
			}
			if cc != nil {
				if g := c39StaticCallee(cc); g != nil && (g.Pkg == im.sp || g.Parent() != nil) {
					im.add(g)
					if im.fns[g] {
						im.callSites[g] = append(im.callSites[g], c39Site{fn, in, cc})
					}
				}
				for _, a := range cc.Args {
					if mc, ok := a.(*ssa.MakeClosure); ok {
						if g, ok := mc.Fn.(*ssa.Function); ok {
							im.add(g)
							im.callbacks[g] = append(im.callbacks[g], c39Site{fn, in, cc})
						}
					} else if g, ok := a.(*ssa.Function); ok && g.Pkg == im.sp {
						im.add(g)
						im.callbacks[g] = append(im.callbacks[g], c39Site{fn, in, cc})
					}
				}
			}
			// closures stored in a variable and used later are still part of the implementation
			if mc, ok := in.(*ssa.MakeClosure); ok {
				if g, ok := mc.Fn.(*ssa.Function); ok {
					im.add(g)
				}
			}
		}
	}
}

type c39Test struct {
	blk       *ssa.BasicBlock
	ifi       *ssa.If
	cancelled int // successor index taken when the process has been cancelled
}

// c39Tests: blocks that end in `if [!]p.HasCancelled()`.
func c39Tests(fn *ssa.Function) (tests map[*ssa.BasicBlock]*c39Test, odd []ssa.Instruction) {
	tests = map[*ssa.BasicBlock]*c39Test{}
	for _, b := range fn.Blocks {
		if len(b.Instrs) == 0 {
			continue
		}
		ifi, ok := b.Instrs[len(b.Instrs)-1].(*ssa.If)
		if !ok {
			continue
		}
		cond, neg := ifi.Cond, false
		for {
			if u, ok := cond.(*ssa.UnOp); ok && u.Op == token.NOT {
				cond, neg = u.X, !neg
				continue
			}
			// `x == true`, `x != false`, `false == x` …: the same test spelled with a boolean constant
			if bo, ok := cond.(*ssa.BinOp); ok && (bo.Op == token.EQL || bo.Op == token.NEQ) {
				x, k := bo.X, bo.Y
				if _, isK := x.(*ssa.Const); isK {
					x, k = k, x
				}
				if kc, isK := k.(*ssa.Const); isK && kc.Value != nil && kc.Value.Kind() == constant.Bool {
					if constant.BoolVal(kc.Value) != (bo.Op == token.EQL) {
						neg = !neg
					}
					cond = x
					continue
				}
			}
			break
		}
		call, ok := cond.(*ssa.Call)
		if !ok || !c39FnIs(c39StaticCallee(&call.Call), "lang", "Process", "HasCancelled") {
			continue
		}
		if !c39OwnProc(call.Call.Args[0]) {
			odd = append(odd, call)
			continue
		}
		t := &c39Test{blk: b, ifi: ifi}
		if neg {
			t.cancelled = 1
		}
		tests[b] = t
	}
	return
}

// c39OwnProc: the receiver is the builtin's own process: a *lang.Process
// parameter, or a captured one (free variable / its heap cell).
func c39OwnProc(v ssa.Value) bool {
	if !c39IsProcPtr(v.Type()) {
		return false
	}
	switch t := v.(type) {
	case *ssa.Parameter, *ssa.FreeVar:
		return true
	case *ssa.UnOp:
		if t.Op != token.MUL {
			return false
		}
		switch x := t.X.(type) {
		case *ssa.FreeVar:
			return true
		case *ssa.Alloc:
			// heap cell of a captured parameter: every store into it is a parameter
			for _, r := range *x.Referrers() {
				if st, ok := r.(*ssa.Store); ok && st.Addr == ssa.Value(x) {
					if _, ok := st.Val.(*ssa.Parameter); !ok {
						return false
					}
				}
			}
			return true
		}
	}
	return false
}

// guarded: in the graph where a test block can only be left over its
// `cancelled` edge, is `target` reachable from `from`?
func c39ReachUntested(from []*ssa.BasicBlock, target *ssa.BasicBlock, tests map[*ssa.BasicBlock]*c39Test) bool {
	seen := c39Reach(from, func(a, b *ssa.BasicBlock) bool {
		if t, ok := tests[a]; ok {
			return a.Succs[t.cancelled] != b || a.Succs[0] == a.Succs[1]
		}
		return false
	})
	return seen[target]
}

func (im *c39Impl) inCycle(b *ssa.BasicBlock) bool {
	return c39Reach(b.Succs, nil)[b]
}

func (im *c39Impl) siteKey(s c39Site) string {
	name := s.fn.Name()
	arg := ""
	if ce := im.lparen[s.in.Pos()]; ce != nil {
		var as []string
		for _, a := range ce.Args {
			as = append(as, im.c.src(a))
		}
		arg = strings.Join(as, ", ")
	}
	callee := "call"
	if g := c39StaticCallee(s.call); g != nil {
		callee = g.Name()
	}
	return fmt.Sprintf("%s:%s(%s)", name, callee, arg)
}

// decide reports "" when every execution of site s that is not the first of
// the builtin's invocation is preceded by a not-cancelled HasCancelled test;
// otherwise a description of the unguarded way in. once=true: the site is not
// iterated at all.
func (im *c39Impl) decide(s c39Site, depth int) (why string, once bool) {
	fn := s.fn
	tests, _ := c39Tests(fn)
	blk := s.in.Block()
	// within a test block the test comes last, so a site in a test block is before it
	if im.inCycle(blk) {
		var from []*ssa.BasicBlock
		if t, ok := tests[blk]; ok {
			from = []*ssa.BasicBlock{blk.Succs[t.cancelled]}
		} else {
			from = blk.Succs
		}
		if c39ReachUntested(from, blk, tests) {
			return fmt.Sprintf("in %s the loop comes round to it again on a path with no `p.HasCancelled()` test taken on its not-cancelled edge", fn.Name()), false
		}
		return "", false
	}
	if !im.iterated[fn] {
		return "", true
	}
	if fn.Blocks[0] != blk && !c39ReachUntested([]*ssa.BasicBlock{fn.Blocks[0]}, blk, tests) {
		return "", false
	}
	// not guarded inside fn: every way into fn must be guarded
	if depth >= 3 {
		return fmt.Sprintf("%s reaches it without a `p.HasCancelled()` test (call depth limit)", fn.Name()), false
	}
	if len(im.callbacks[fn]) > 0 {
		return fmt.Sprintf("%s is run once per element by %s and reaches it without a `p.HasCancelled()` test taken on its not-cancelled edge", fn.Name(), im.calleeDesc(im.callbacks[fn][0])), false
	}
	if len(im.callSites[fn]) == 0 {
		return fmt.Sprintf("%s reaches it without a `p.HasCancelled()` test and its callers are not visible", fn.Name()), false
	}
	for _, cs := range im.callSites[fn] {
		w, o := im.decide(cs, depth+1)
		if w != "" {
			return fmt.Sprintf("%s reaches it without a test, and %s", fn.Name(), w), false
		}
		_ = o
	}
	return "", false
}

func (im *c39Impl) calleeDesc(s c39Site) string {
	if s.call.IsInvoke() {
		return s.call.Method.Name()
	}
	if g := c39StaticCallee(s.call); g != nil {
		return g.Name()
	}
	return "its caller"
}

func (c *Ctx) c39Loops(pk *packages.Package) {
	rule := "R39d"
	reg := c.c39Registered(pk)
	roots := map[*types.Func][]string{}
	var rootOrder []*types.Func
	for _, n := range c39LoopNames {
		f := reg[n]
		if f == nil {
			c.Lost(rule, "builtin:"+n, "no lang.DefineFunction/DefineMethod(%q, <func>) in %s — the loop builtin moved", n, c39Pkg)
			continue
		}
		if _, ok := roots[f]; !ok {
			rootOrder = append(rootOrder, f)
		}
		roots[f] = append(roots[f], n)
	}
	c.SSA()
	sp := c.SSAPkg(c39Pkg)
	if sp == nil {
		c.Lost(rule, "ssa:"+c39Pkg, "no SSA package")
		return
	}
	lparen := map[token.Pos]*ast.CallExpr{}
	for _, f := range pk.Syntax {
		ast.Inspect(f, func(n ast.Node) bool {
			if ce, ok := n.(*ast.CallExpr); ok {
				lparen[ce.Lparen] = ce
			}
			return true
		})
	}
	nIter, nOnce, nTests := 0, 0, 0
	seenKey := map[string]bool{}
	for _, rf := range rootOrder {
		root := c.prog.FuncValue(rf)
		if root == nil {
			c.Lost(rule, "ssa:"+rf.Name(), "no SSA function for %s", rf.Name())
			continue
		}
		names := strings.Join(roots[rf], "/")
		im := &c39Impl{c: c, pk: pk, sp: sp, fns: map[*ssa.Function]bool{}, callSites: map[*ssa.Function][]c39Site{}, callbacks: map[*ssa.Function][]c39Site{}, iterated: map[*ssa.Function]bool{}, lparen: lparen}
		im.add(root)
		// iterated functions: reader callbacks, and everything called from an
		// iterated function or from inside a cycle
		for g, cbs := range im.callbacks {
			for _, cb := range cbs {
				if cb.call.IsInvoke() && strings.HasPrefix(cb.call.Method.Name(), "Read") && namedPath(cb.call.Value.Type()) == mx("lang/stdio")+".Io" {
					im.iterated[g] = true
				} else {
					c.Undecided(rule, names+":callback:"+g.Name(), g.Pos(), "%s: the closure %s is handed to %s; cannot tell whether it is run once per element", names, g.Name(), im.calleeDesc(cb))
				}
			}
		}
		for changed := true; changed; {
			changed = false
			for _, g := range im.order {
				if im.iterated[g] {
					continue
				}
				for _, cs := range im.callSites[g] {
					if im.iterated[cs.fn] || im.inCycle(cs.in.Block()) {
						im.iterated[g] = true
						changed = true
					}
				}
			}
		}
		for _, g := range im.order {
			c39Dumpf(g)
			tests, odd := c39Tests(g)
			for _, o := range odd {
				c.Undecided(rule, names+":"+g.Name()+":HasCancelled-receiver", o.Pos(), "%s: HasCancelled() is asked of a process that is not the builtin's own", g.Name())
			}
			// the cancelled edge: leaves quietly
			var tl []*c39Test
			for _, t := range tests {
				tl = append(tl, t)
			}
			sort.Slice(tl, func(i, j int) bool { return tl[i].ifi.Cond.Pos() < tl[j].ifi.Cond.Pos() })
			for i, t := range tl {
				if !im.iterated[g] && !im.inCycle(t.blk) {
					continue
				}
				key := fmt.Sprintf("%s:HasCancelled#%d:exit", g.Name(), i+1)
				if seenKey[key] {
					continue
				}
				seenKey[key] = true
				nTests++
				pos := t.ifi.Cond.Pos()
				ret := c39ReturnOf(t.blk.Succs[t.cancelled])
				if ret == nil {
					c.Undecided(rule, key, pos, "%s (%s): the cancelled edge of the test does not lead straight to a return", g.Name(), names)
					continue
				}
				isNil, hasErr := c39NilError(ret)
				if hasErr && !isNil {
					c.Viol(rule, key, pos, "%s (%s): when break/return has cancelled the loop it leaves with an error (%s): the builtin prints an error and ends with exit number 1 instead of the number break/return set, so a loop ended by `break` counts as failed (code after it is skipped under try / &&)", g.Name(), names, c39ValDesc(ret.Results[len(ret.Results)-1]))
				} else {
					c.OK(rule, key, pos, "%s (%s): the cancelled edge returns quietly", g.Name(), names)
				}
			}
			// the executions
			for _, b := range g.Blocks {
				for _, in := range b.Instrs {
					call, ok := in.(*ssa.Call)
					if !ok || !c39FnIs(c39StaticCallee(&call.Call), "lang", "Fork", "Execute") {
						continue
					}
					s := c39Site{g, in, &call.Call}
					key := im.siteKey(s)
					if seenKey[key] {
						continue
					}
					seenKey[key] = true
					why, once := im.decide(s, 0)
					switch {
					case once:
						nOnce++
						c.OK(rule, key, in.Pos(), "%s: executed once per invocation of %s (not iterated)", g.Name(), names)
					case why == "":
						nIter++
						c.OK(rule, key, in.Pos(), "%s (%s): every repeated execution follows a p.HasCancelled() test on its not-cancelled edge", g.Name(), names)
					default:
						nIter++
						c.Viol(rule, key, in.Pos(), "%s: this block of `%s` is executed again although break/return has cancelled the loop: %s. `break %s` / `return` from inside cannot stop the loop (at best the cancelled condition block happens to read as false)", g.Name(), names, why, roots[rf][0])
					}
				}
			}
		}
	}
	c.MinCount(rule, "loop builtins registered", len(rootOrder), 4)
	c.MinCount(rule, "repeated block executions", nIter, 11)
	c.MinCount(rule, "HasCancelled tests on iteration paths", nTests, 7)
	c.Info("R39d: %d repeated block executions, %d executed once, %d cancellation tests", nIter, nOnce, nTests)
}

func c39ValDesc(v ssa.Value) string {
	if call, ok := v.(*ssa.Call); ok {
		if g := c39StaticCallee(&call.Call); g != nil {
			if len(call.Call.Args) > 0 {
				if k, ok := call.Call.Args[0].(*ssa.Const); ok && k.Value != nil && k.Value.Kind() == constant.String {
					s := constant.StringVal(k.Value)
					if len(s) > 40 {
						s = s[:40] + "…"
					}
					return fmt.Sprintf("%s(%q)", g.Name(), s)
				}
			}
			return g.Name() + "(…)"
		}
	}
	return v.Name()
}
