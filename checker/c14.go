package main

import (
	"go/ast"
	"go/parser"
	"go/token"
	"go/types"
	"os"
	"path/filepath"
	"sort"
	"strings"

	"golang.org/x/tools/go/packages"
)

func init() {
	register("C14", "Decides (structurally): (R14a) json, yaml, toml, jsonl and csv each have a marshaller and an unmarshaller registered under one constant name in a package linked into the shell; `format` is UnmarshalData(stdin's type) → MarshalData(requested type, that value) → Stdout with the requested type, every error returned; Marshal/UnmarshalData dispatch on their dataType parameter; (R14b) every parsing option the csv unmarshaller sets on encoding/csv.Reader has a matching csv.Writer setting from the same config key in the marshaller, and no reader behaviour that drops records the writer can emit (Comment, blank-line skipping, ReuseRecord) is left un-neutralised; (R14c) the table→map promotion (make(len(t)-1), types.Table2Map's v[0]) is reached only for non-empty tables; (R14d) no registered unmarshaller of the five formats pushes decoded values through a lossy stringifier. Does NOT decide what the yaml/toml/json libraries themselves do with keyword-like strings, numbers or nesting.", runC14)
}

var c14Formats = []string{"json", "yaml", "toml", "jsonl", "csv"}

// c14Reg is one registration `RegisterX(name, fn)` found in an init function.
type c14Reg struct {
	kind string // Marshaller, Unmarshaller, WriteArray, ReadArray, ReadArrayWithType
	name string
	fn   types.Object // nil for function literals
	lit  *ast.FuncLit
	pk   *packages.Package
	call *ast.CallExpr
}

// c14Registry extracts all registrations of the given functions (pkgRel → names)
// from init functions of loaded murex packages.
func c14Registry(c *Ctx, rule string, fnPkgRel string, fns []string) []c14Reg {
	var out []c14Reg
	for _, pk := range c.MurexPkgs() {
		info := pk.TypesInfo
		eachFunc(pk, func(fd *ast.FuncDecl) {
			for _, call := range calls(fd.Body, true) {
				for _, fn := range fns {
					if !callIs(info, call, mx(fnPkgRel), "", fn) || len(call.Args) != 2 {
						continue
					}
					kind := strings.TrimPrefix(fn, "Register")
					name, ok := constString(info, call.Args[0])
					if fd.Name.Name != "init" || fd.Recv != nil {
						c.Undecided(rule, "registry:"+kind+"@"+funcKey(relPkg(pk.PkgPath), fd), call.Pos(), "%s called outside an init function: the registry is not a static table", fn)
						continue
					}
					if !ok {
						c.Undecided(rule, "registry:"+kind+"@"+relPkg(pk.PkgPath), call.Pos(), "%s with a non-constant type name %s", fn, c.src(call.Args[0]))
						continue
					}
					r := c14Reg{kind: kind, name: name, pk: pk, call: call}
					switch a := unparen(call.Args[1]).(type) {
					case *ast.Ident:
						r.fn = info.ObjectOf(a)
					case *ast.SelectorExpr:
						r.fn = info.ObjectOf(a.Sel)
					case *ast.FuncLit:
						r.lit = a
					}
					out = append(out, r)
				}
			}
		})
	}
	return out
}

// c14Linked: the packages imported (directly) by the builtins package — the
// list that links data types and builtins into the shell. Parsed from the
// package's non-test files (overlay honoured); cheap, no type checking.
func c14Linked(c *Ctx) map[string]bool {
	seen := map[string]bool{}
	dir := filepath.Join(c.Repo, "builtins")
	ents, err := os.ReadDir(dir)
	if err != nil {
		fatal("read %s: %v", dir, err)
	}
	n := 0
	for _, e := range ents {
		name := e.Name()
		if e.IsDir() || !strings.HasSuffix(name, ".go") || strings.HasSuffix(name, "_test.go") {
			continue
		}
		path := filepath.Join(dir, name)
		var src any
		if b, ok := c.Overlay[path]; ok {
			src = b
		}
		f, err := parser.ParseFile(token.NewFileSet(), path, src, parser.ImportsOnly|parser.ParseComments)
		if err != nil {
			fatal("parse %s: %v", path, err)
		}
		ignored := false
		for _, cg := range f.Comments {
			if cg.Pos() < f.Package && strings.Contains(cg.Text(), "go:build ignore") {
				ignored = true
			}
		}
		if ignored {
			continue
		}
		for _, im := range f.Imports {
			seen[strings.Trim(im.Path.Value, `"`)] = true
			n++
		}
	}
	if n == 0 {
		fatal("builtins imports nothing — cannot establish which type packages are linked")
	}
	return seen
}

func runC14(c *Ctx) {
	c.Load("builtins/core/typemgmt", "builtins/types/json", "builtins/types/yaml", "builtins/types/toml", "builtins/types/jsonlines", "builtins/types/csv", "builtins/types/xml")
	c14a(c)
	c14b(c)
	c14cRule(c)
	c14d(c)
	c14e(c)
}

// ---------------------------------------------------------------- R14a

func c14a(c *Ctx) {
	c.Rule("R14a", "registry: for each of json, yaml, toml, jsonl, csv lang.RegisterMarshaller and lang.RegisterUnmarshaller are each called once, in an init function of one and the same package linked into `builtins`, with that constant name; cmdFormat = UnmarshalData(p, p.Stdin.GetDataType()) → MarshalData(p, <parameter 0>, <that value>) → p.Stdout.SetDataType(<parameter 0>) + Write(<those bytes>), each error returned; lang.MarshalData/UnmarshalData/Register* index the registry with their dataType parameter and pass their arguments through")
	regs := c14Registry(c, "R14a", "lang", []string{"RegisterMarshaller", "RegisterUnmarshaller"})
	linked := c14Linked(c)
	by := map[string]map[string][]c14Reg{}
	for _, r := range regs {
		if by[r.name] == nil {
			by[r.name] = map[string][]c14Reg{}
		}
		by[r.name][r.kind] = append(by[r.name][r.kind], r)
	}
	c.MinCount("R14a", "marshaller/unmarshaller registrations", len(regs), 12)
	for _, f := range c14Formats {
		key := "registry:" + f
		m, u := by[f]["Marshaller"], by[f]["Unmarshaller"]
		switch {
		case len(m) == 0 || len(u) == 0:
			c.Viol("R14a", key, token.NoPos, "type %q has %d marshaller and %d unmarshaller registrations: `format %s` (or formatting back from it) fails with \"I don't know how to (un)marshal\", so data cannot round-trip through %s", f, len(m), len(u), f, f)
		case len(m) > 1 || len(u) > 1:
			c.Viol("R14a", key, m[0].call.Pos(), "type %q is registered %d/%d times (Register* panics on a duplicate at start-up)", f, len(m), len(u))
		case m[0].pk != u[0].pk:
			c.Viol("R14a", key, m[0].call.Pos(), "marshaller of %q lives in %s but its unmarshaller in %s: two different codecs for one format", f, relPkg(m[0].pk.PkgPath), relPkg(u[0].pk.PkgPath))
		case !linked[m[0].pk.PkgPath]:
			c.Viol("R14a", key, m[0].call.Pos(), "package %s registering %q is not imported by builtins: the type does not exist in the shell", relPkg(m[0].pk.PkgPath), f)
		case m[0].fn == nil || u[0].fn == nil:
			c.Undecided("R14a", key, m[0].call.Pos(), "(un)marshaller of %q is not a named function", f)
		default:
			c.OK("R14a", key, m[0].call.Pos(), "%s: marshal=%s unmarshal=%s", relPkg(m[0].pk.PkgPath), m[0].fn.Name(), u[0].fn.Name())
		}
	}
	var other []string
	for n, k := range by {
		if len(k["Marshaller"]) == 0 || len(k["Unmarshaller"]) == 0 {
			other = append(other, n)
		}
	}
	sort.Strings(other)
	c.Info("R14a: types with only one of marshaller/unmarshaller (outside the property): %v", other)

	// --- dispatch in lang
	for _, d := range []struct{ fn, reg, dataArg string }{{"MarshalData", "_marshallers", "data"}, {"UnmarshalData", "_unmarshallers", ""}} {
		fd, pk := c.MustFunc("R14a", "lang", "", d.fn)
		if fd == nil {
			continue
		}
		info := pk.TypesInfo
		var ps []types.Object
		for _, fl := range fd.Type.Params.List {
			for _, n := range fl.Names {
				ps = append(ps, info.Defs[n])
			}
		}
		// every index of the registry uses the dataType parameter (the string one)
		var dtParam types.Object
		for _, p := range ps {
			if b, ok := p.Type().Underlying().(*types.Basic); ok && b.Kind() == types.String {
				dtParam = p
			}
		}
		nIdx, bad := 0, ""
		var disp *ast.CallExpr
		ddefs := localDefs(info, fd.Body)
		ast.Inspect(fd.Body, func(n ast.Node) bool {
			if call, ok := n.(*ast.CallExpr); ok {
				// _reg[dataType](…), or f(…) with the single definition f := _reg[dataType]
				if ix, ok := ddefs.resolve1(info, call.Fun).(*ast.IndexExpr); ok && isPkgObj(info, ix.X, mx("lang"), d.reg) {
					disp = call
				}
			}
			ix, ok := n.(*ast.IndexExpr)
			if !ok || !isPkgObj(info, ix.X, mx("lang"), d.reg) {
				return true
			}
			nIdx++
			if id, ok := unparen(ix.Index).(*ast.Ident); !ok || info.ObjectOf(id) != dtParam {
				bad = "registry indexed with " + c.src(ix.Index)
			}
			return true
		})
		if disp == nil {
			c.Undecided("R14a", d.fn+":dispatch", fd.Pos(), "%s does not call %s[…](…)", d.fn, d.reg)
			continue
		}
		// all non-string params are forwarded
		for _, p := range ps {
			if p == dtParam {
				continue
			}
			fwd := false
			for _, a := range disp.Args {
				if id, ok := unparen(a).(*ast.Ident); ok && info.ObjectOf(id) == p {
					fwd = true
				}
			}
			if !fwd {
				bad = "parameter " + p.Name() + " is not passed to the registered function"
			}
		}
		// the error of the dispatched call is returned
		errRet := false
		walkStack(fd.Body, func(n ast.Node, st []ast.Node) bool {
			if rs, ok := n.(*ast.ReturnStmt); ok && len(rs.Results) == 2 {
				if id, ok := unparen(rs.Results[1]).(*ast.Ident); !ok || id.Name != "nil" {
					for _, f := range factsOf(guardsAt(info, st)) {
						if b, ok := unparen(f.E).(*ast.BinaryExpr); ok && b.Op == token.NEQ && f.True && rs.Pos() > disp.Pos() {
							errRet = true
						}
					}
				}
			}
			return true
		})
		if !errRet {
			bad = "the error of the registered function is not returned"
		}
		c.Check(bad == "" && nIdx >= 1, "R14a", d.fn+":dispatch", fd.Pos(), "lang.%s must look up %s[dataType], call it with its own arguments and return its error (%s)", d.fn, d.reg, bad)
	}
	for _, d := range []struct{ fn, reg string }{{"RegisterMarshaller", "_marshallers"}, {"RegisterUnmarshaller", "_unmarshallers"}} {
		fd, pk := c.MustFunc("R14a", "lang", "", d.fn)
		if fd == nil {
			continue
		}
		info := pk.TypesInfo
		ok := false
		ast.Inspect(fd.Body, func(n ast.Node) bool {
			as, isA := n.(*ast.AssignStmt)
			if !isA || len(as.Lhs) != 1 || len(as.Rhs) != 1 {
				return true
			}
			ix, isI := unparen(as.Lhs[0]).(*ast.IndexExpr)
			if !isI || !isPkgObj(info, ix.X, mx("lang"), d.reg) {
				return true
			}
			k, ok1 := unparen(ix.Index).(*ast.Ident)
			v, ok2 := unparen(as.Rhs[0]).(*ast.Ident)
			if ok1 && ok2 && isParam(info, fd, k) && isParam(info, fd, v) && info.ObjectOf(k) != info.ObjectOf(v) {
				ok = true
			}
			return true
		})
		c.Check(ok, "R14a", d.fn+":store", fd.Pos(), "lang.%s must store %s[<name parameter>] = <function parameter>", d.fn, d.reg)
	}

	// --- cmdFormat
	fd, pk := c.MustFunc("R14a", "builtins/core/typemgmt", "", "cmdFormat")
	if fd == nil {
		return
	}
	info := pk.TypesInfo
	defs := localDefs(info, fd.Body)
	var pObj types.Object
	if len(fd.Type.Params.List) == 1 && len(fd.Type.Params.List[0].Names) == 1 {
		pObj = info.Defs[fd.Type.Params.List[0].Names[0]]
	}
	isP := func(e ast.Expr) bool {
		id, ok := unparen(e).(*ast.Ident)
		return ok && info.ObjectOf(id) == pObj
	}
	// binding of a 2-result call: returns (value object, error object, the statement)
	bind := func(call *ast.CallExpr) (types.Object, types.Object, *ast.AssignStmt) {
		st := pathTo(fd.Body, call)
		as := c12AssignOf(st, call)
		if as == nil || len(as.Lhs) != 2 {
			return nil, nil, nil
		}
		a, _ := as.Lhs[0].(*ast.Ident)
		b, _ := as.Lhs[1].(*ast.Ident)
		var ao, bo types.Object
		if a != nil && a.Name != "_" {
			ao = info.ObjectOf(a)
		}
		if b != nil && b.Name != "_" {
			bo = info.ObjectOf(b)
		}
		return ao, bo, as
	}
	// errChecked: the statement following `as` in the function's top-level list is
	// `if err != nil { … return <non-nil> }`
	errChecked := func(as *ast.AssignStmt, errObj types.Object) bool {
		if as == nil || errObj == nil {
			return false
		}
		i := topLevelIndex(fd.Body.List, as)
		if i < 0 || !isTopLevel(fd.Body.List, as) || i+1 >= len(fd.Body.List) {
			return false
		}
		is, ok := fd.Body.List[i+1].(*ast.IfStmt)
		if !ok || !terminates(info, is.Body.List) {
			return false
		}
		x, op, ok := c08NilCmp(info, is.Cond) // err != nil | nil != err
		if !ok || op != token.NEQ {
			return false
		}
		id, ok := x.(*ast.Ident)
		if !ok || info.ObjectOf(id) != errObj {
			return false
		}
		rs, ok := is.Body.List[len(is.Body.List)-1].(*ast.ReturnStmt)
		if !ok || len(rs.Results) != 1 {
			return false
		}
		if rid, ok := unparen(rs.Results[0]).(*ast.Ident); ok && rid.Name == "nil" {
			return false
		}
		return true
	}
	var uCall, mCall, pCall, wCall *ast.CallExpr
	var sdt []*ast.CallExpr
	for _, call := range calls(fd.Body, false) {
		switch {
		case callIs(info, call, mx("lang"), "", "UnmarshalData"):
			uCall = call
		case callIs(info, call, mx("lang"), "", "MarshalData"):
			mCall = call
		case callIs(info, call, mx("lang/parameters"), "Parameters", "String"):
			pCall = call
		}
		if se, ok := call.Fun.(*ast.SelectorExpr); ok {
			// p.Stdout.<method>, or <local>.<method> with the single definition local := p.Stdout
			if inner, ok := defs.resolve1(info, se.X).(*ast.SelectorExpr); ok && isP(inner.X) && inner.Sel.Name == "Stdout" {
				switch se.Sel.Name {
				case "Write", "Writeln":
					wCall = call
				case "SetDataType":
					sdt = append(sdt, call)
				}
			}
		}
	}
	if uCall == nil || mCall == nil || pCall == nil || wCall == nil || len(uCall.Args) != 2 || len(mCall.Args) != 3 || len(wCall.Args) != 1 {
		c.Viol("R14a", "format:shape", fd.Pos(), "cmdFormat must call p.Parameters.String, lang.UnmarshalData, lang.MarshalData and p.Stdout.Write (found: %v %v %v %v): `format` does not convert its input", pCall != nil, uCall != nil, mCall != nil, wCall != nil)
		return
	}
	fObj, fErr, fAs := bind(pCall)
	vObj, uErr, uAs := bind(uCall)
	bObj, mErr, mAs := bind(mCall)
	idx0, _ := constInt(info, pCall.Args[0])
	c.Check(fObj != nil && idx0 == 0 && errChecked(fAs, fErr), "R14a", "format:target", pCall.Pos(), "the target type must be parameter 0 and a missing parameter must be returned as an error")
	// source type: p.Stdin.GetDataType()
	srcOK := false
	if r, ok := defs.resolve1(info, uCall.Args[1]).(*ast.CallExpr); ok {
		if se, ok := r.Fun.(*ast.SelectorExpr); ok && se.Sel.Name == "GetDataType" {
			if inner, ok := unparen(se.X).(*ast.SelectorExpr); ok && isP(inner.X) && inner.Sel.Name == "Stdin" {
				srcOK = true
			}
		}
	}
	c.Check(srcOK && isP(uCall.Args[0]), "R14a", "format:source-type", uCall.Pos(), "cmdFormat must unmarshal p's stdin with the stream's own data type p.Stdin.GetDataType() (got %s): any other type decodes the input with the wrong codec", c.src(uCall.Args[1]))
	c.Check(vObj != nil && errChecked(uAs, uErr), "R14a", "format:unmarshal-error", uCall.Pos(), "a failed unmarshal must make `format` return the error (not continue with a nil/partial value)")
	isObj := func(e ast.Expr, o types.Object) bool {
		id, ok := unparen(e).(*ast.Ident)
		return ok && o != nil && info.ObjectOf(id) == o
	}
	c.Check(isObj(mCall.Args[1], fObj), "R14a", "format:target-type", mCall.Pos(), "lang.MarshalData must be given the requested format (parameter 0); it is given %s", c.src(mCall.Args[1]))
	c.Check(isObj(mCall.Args[2], vObj), "R14a", "format:value", mCall.Pos(), "lang.MarshalData must be given the value returned by lang.UnmarshalData; it is given %s", c.src(mCall.Args[2]))
	c.Check(bObj != nil && errChecked(mAs, mErr), "R14a", "format:marshal-error", mCall.Pos(), "a failed marshal must make `format` return the error")
	c.Check(isObj(wCall.Args[0], bObj), "R14a", "format:write", wCall.Pos(), "p.Stdout.Write must be given the bytes returned by lang.MarshalData; it is given %s", c.src(wCall.Args[0]))
	// the write's error is returned
	wErr := false
	ast.Inspect(fd.Body, func(n ast.Node) bool {
		if rs, ok := n.(*ast.ReturnStmt); ok && len(rs.Results) == 1 && rs.Pos() > wCall.Pos() {
			if id, ok := unparen(rs.Results[0]).(*ast.Ident); ok && id.Name != "nil" {
				wErr = true
			}
		}
		if rs, ok := n.(*ast.ReturnStmt); ok && len(rs.Results) == 1 && unparen(rs.Results[0]) == ast.Expr(wCall) {
			wErr = true
		}
		return true
	})
	c.Check(wErr, "R14a", "format:write-error", wCall.Pos(), "the error of p.Stdout.Write must be returned")
	// the success-path SetDataType (the one not inside an error arm) names the target format
	okSdt := false
	for _, s := range sdt {
		st := pathTo(fd.Body, s)
		inIf := false
		for _, n := range st {
			if _, ok := n.(*ast.IfStmt); ok {
				inIf = true
			}
		}
		if !inIf && len(s.Args) == 1 {
			okSdt = isObj(s.Args[0], fObj) && s.Pos() < wCall.Pos() && s.Pos() > mCall.Pos()
		}
	}
	c.Check(okSdt, "R14a", "format:stdout-type", fd.Pos(), "after a successful marshal cmdFormat must label stdout with the requested format before writing (else the next `format` decodes the bytes with the wrong codec)")
}

// ---------------------------------------------------------------- R14b

type c14Opt struct {
	field string
	owner string // Reader | Writer
	rhs   ast.Expr
	keys  []string // config keys (app.key) the value derives from
	at    ast.Node
}

// c14Options walks fd linearly, tracking which locals hold which config value,
// and returns every assignment to a field of encoding/csv.Reader / Writer plus
// the set of config keys read.
func c14Options(c *Ctx, info *types.Info, fd *ast.FuncDecl) ([]c14Opt, map[string]bool) {
	var out []c14Opt
	read := map[string]bool{}
	env := map[types.Object]string{}
	var walk func(n ast.Node)
	handleAssign := func(as *ast.AssignStmt) {
		// config reads
		if len(as.Rhs) == 1 {
			if call, ok := unparen(as.Rhs[0]).(*ast.CallExpr); ok && callIs(info, call, mx("config"), "Config", "Get") && len(call.Args) == 3 {
				a, ok1 := constString(info, call.Args[0])
				b, ok2 := constString(info, call.Args[1])
				if id, ok := as.Lhs[0].(*ast.Ident); ok && id.Name != "_" {
					if ok1 && ok2 {
						env[info.ObjectOf(id)] = a + "." + b
						read[a+"."+b] = true
					} else {
						env[info.ObjectOf(id)] = "?"
					}
				}
				return
			}
		}
		for i, l := range as.Lhs {
			if id, ok := l.(*ast.Ident); ok {
				// plain re-definition: propagate keys through simple expressions
				if len(as.Rhs) == len(as.Lhs) {
					ks := c14KeysOf(info, env, as.Rhs[i])
					if len(ks) == 1 {
						env[info.ObjectOf(id)] = ks[0]
					} else {
						delete(env, info.ObjectOf(id))
					}
				} else {
					delete(env, info.ObjectOf(id))
				}
				continue
			}
			v, owner := fieldOf(info, l)
			if v == nil || !strings.HasPrefix(owner, "encoding/csv.") {
				continue
			}
			var rhs ast.Expr
			if len(as.Rhs) == len(as.Lhs) {
				rhs = as.Rhs[i]
			}
			o := c14Opt{field: v.Name(), owner: strings.TrimPrefix(owner, "encoding/csv."), rhs: rhs, at: as}
			if rhs != nil {
				o.keys = c14KeysOf(info, env, rhs)
			}
			out = append(out, o)
		}
	}
	walk = func(n ast.Node) {
		ast.Inspect(n, func(x ast.Node) bool {
			switch s := x.(type) {
			case *ast.FuncLit:
				return false
			case *ast.AssignStmt:
				handleAssign(s)
			}
			return true
		})
	}
	walk(fd.Body)
	return out, read
}

func c14KeysOf(info *types.Info, env map[types.Object]string, e ast.Expr) []string {
	set := map[string]bool{}
	ast.Inspect(e, func(n ast.Node) bool {
		if id, ok := n.(*ast.Ident); ok {
			if k, ok := env[info.ObjectOf(id)]; ok {
				set[k] = true
			}
		}
		return true
	})
	var out []string
	for k := range set {
		out = append(out, k)
	}
	sort.Strings(out)
	return out
}

func c14b(c *Ctx) {
	c.Rule("R14b", "reader/writer agreement in builtins/types/csv (frozen table of encoding/csv facts): Reader.Comma ⇔ Writer.Comma from the same config key; Reader.Comment ≠ 0 drops every record whose first field starts with that rune and csv.Writer never quotes such a field ⇒ violation unless the marshaller neutralises it; the Reader always skips blank lines and csv.Writer emits a blank line for a record of one empty field ⇒ the marshaller must special-case that record; Reader.ReuseRecord aliases rows; TrimLeadingSpace and LazyQuotes are accepted (the Writer quotes fields with leading space / always emits well-formed quotes); Writer.UseCRLF is accepted (the Reader strips \\r\\n); any other option is UNDECIDED")
	regs := c14Registry(c, "R14b", "lang", []string{"RegisterMarshaller", "RegisterUnmarshaller"})
	var mfd, ufd *ast.FuncDecl
	var pk *packages.Package
	for _, r := range regs {
		if r.name != "csv" || r.fn == nil {
			continue
		}
		eachFunc(r.pk, func(d *ast.FuncDecl) {
			if r.pk.TypesInfo.Defs[d.Name] == r.fn {
				if r.kind == "Marshaller" {
					mfd = d
				} else {
					ufd = d
				}
				pk = r.pk
			}
		})
	}
	if mfd == nil || ufd == nil {
		c.Lost("R14b", "csv:funcs", "csv marshaller/unmarshaller declarations not found through the registry")
		return
	}
	c.nfuncs += 2
	info := pk.TypesInfo
	ropts, rread := c14Options(c, info, ufd)
	wopts, wread := c14Options(c, info, mfd)
	find := func(opts []c14Opt, owner, field string) *c14Opt {
		for i := range opts {
			if opts[i].owner == owner && opts[i].field == field {
				return &opts[i]
			}
		}
		return nil
	}
	n := 0
	for _, o := range ropts {
		if o.owner != "Reader" {
			continue
		}
		n++
		key := "csv.Reader." + o.field
		cv := constOf(info, o.rhs)
		switch o.field {
		case "Comma":
			w := find(wopts, "Writer", "Comma")
			switch {
			case w == nil:
				c.Viol("R14b", key, o.at.Pos(), "the csv unmarshaller takes its delimiter from %v but the marshaller never sets csv.Writer.Comma: with a non-default `csv separator` rows are written with ',' and read back as one cell", o.keys)
			case len(o.keys) == 0 && len(w.keys) == 0:
				a, b := constOf(info, o.rhs), constOf(info, w.rhs)
				c.Check(a != nil && b != nil && a.ExactString() == b.ExactString(), "R14b", key, o.at.Pos(), "hard-coded reader delimiter %s vs writer delimiter %s", c.src(o.rhs), c.src(w.rhs))
			case strings.Join(o.keys, ",") != strings.Join(w.keys, ","):
				c.Viol("R14b", key, w.at.Pos(), "the csv unmarshaller takes its delimiter from config %v but the marshaller takes csv.Writer.Comma from %v (%s): with a non-default `csv separator` rows written by `format csv` are not split into the same cells when read back", o.keys, w.keys, c.src(w.rhs))
			default:
				c.OK("R14b", key, o.at.Pos(), "Reader.Comma and Writer.Comma both from config %v", o.keys)
				if c.src(o.rhs) != strings.Replace(c.src(w.rhs), "separator", "v", -1) {
					c.Info("R14b: reader derives the delimiter as %s, writer as %s (first byte vs first rune: they differ for a non-ASCII `csv separator`; outside the property's default configuration)", c.src(o.rhs), c.src(w.rhs))
				}
			}
		case "Comment":
			if cv != nil && cv.ExactString() == "0" {
				c.OK("R14b", key, o.at.Pos(), "comments disabled")
				break
			}
			if wread["csv.comment"] {
				c.Undecided("R14b", key, o.at.Pos(), "the marshaller reads csv.comment too; cannot tell whether it neutralises records starting with the comment rune")
				break
			}
			c.Viol("R14b", key, o.at.Pos(), "the csv unmarshaller sets Reader.Comment from config %v (default '#'): every line starting with that rune is dropped, but the marshaller has no counterpart (csv.Writer does not quote such a field) — a row whose first cell starts with '#' is written by `format csv` and silently lost when formatted back", o.keys)
		case "TrimLeadingSpace":
			c.OK("R14b", key, o.at.Pos(), "accepted: csv.Writer quotes every field that begins with a space, and quoted fields are not trimmed")
		case "LazyQuotes":
			c.OK("R14b", key, o.at.Pos(), "accepted: only changes how malformed quotes are read; csv.Writer emits well-formed quotes")
		case "FieldsPerRecord":
			if v, ok := constInt(info, o.rhs); ok && v <= 0 {
				c.OK("R14b", key, o.at.Pos(), "FieldsPerRecord=%d does not reject rectangular tables", v)
			} else {
				c.Undecided("R14b", key, o.at.Pos(), "FieldsPerRecord set to %s", c.src(o.rhs))
			}
		case "ReuseRecord":
			if b, ok := constBool(info, o.rhs); ok && !b {
				c.OK("R14b", key, o.at.Pos(), "records are not reused")
			} else {
				c.Viol("R14b", key, o.at.Pos(), "Reader.ReuseRecord makes every Read return the same backing slice; the unmarshaller keeps the rows it is given, so all rows of the table end up equal to the last one")
			}
		default:
			c.Undecided("R14b", key, o.at.Pos(), "csv.Reader option %s is not in the reviewed table", o.field)
		}
	}
	for _, o := range wopts {
		if o.owner != "Writer" {
			continue
		}
		n++
		key := "csv.Writer." + o.field
		switch o.field {
		case "Comma":
			r := find(ropts, "Reader", "Comma")
			if r == nil {
				if len(o.keys) > 0 {
					c.Viol("R14b", key, o.at.Pos(), "the marshaller takes the delimiter from %v but the unmarshaller never sets Reader.Comma", o.keys)
				} else if v := constOf(info, o.rhs); v != nil && v.ExactString() == "44" {
					c.OK("R14b", key, o.at.Pos(), "default delimiter on both sides")
				} else {
					c.Viol("R14b", key, o.at.Pos(), "writer delimiter %s but the reader uses the default ','", c.src(o.rhs))
				}
			} else if len(o.keys) == 0 && len(r.keys) > 0 {
				c.Viol("R14b", key, o.at.Pos(), "the marshaller hard-codes csv.Writer.Comma = %s while the unmarshaller takes Reader.Comma from config %v: with a non-default `csv separator` a table written by `format csv` is read back as one column", c.src(o.rhs), r.keys)
			} else {
				c.OK("R14b", key, o.at.Pos(), "see csv.Reader.Comma")
			}
		case "UseCRLF":
			c.OK("R14b", key, o.at.Pos(), "accepted: the Reader strips \\r\\n")
		default:
			c.Undecided("R14b", key, o.at.Pos(), "csv.Writer option %s is not in the reviewed table", o.field)
		}
	}
	// the reader's separator key must be read by the writer at all
	for k := range rread {
		if k == "csv.separator" && !wread[k] {
			if find(wopts, "Writer", "Comma") == nil || len(find(wopts, "Writer", "Comma").keys) == 0 {
				// already reported through the Comma entries above when a Writer.Comma exists
				if find(wopts, "Writer", "Comma") == nil && find(ropts, "Reader", "Comma") == nil {
					c.Viol("R14b", "csv:separator-unused", mfd.Pos(), "csv.separator is read but never applied")
				}
			}
		}
	}
	c.MinCount("R14b", "csv.Reader/Writer options set by the csv (un)marshaller", n, 4)

	// blank-line asymmetry: always present in encoding/csv
	usesReader, usesWriter := false, false
	var firstWrite *ast.CallExpr
	for _, call := range calls(ufd.Body, true) {
		if o := callee(info, call); o != nil && o.Pkg() != nil && o.Pkg().Path() == "encoding/csv" && o.Name() == "NewReader" {
			usesReader = true
		}
	}
	for _, call := range calls(mfd.Body, true) {
		if o := callee(info, call); o != nil && o.Pkg() != nil && o.Pkg().Path() == "encoding/csv" && o.Name() == "Write" {
			usesWriter = true
			if firstWrite == nil {
				firstWrite = call
			}
		}
	}
	if !usesReader || !usesWriter {
		c.Undecided("R14b", "csv.Reader:blank-lines", ufd.Pos(), "the csv (un)marshaller no longer uses encoding/csv Reader+Writer; the frozen asymmetry table does not apply")
		return
	}
	// recognised neutraliser: a test `len(<record>) == 1` in the marshaller
	neutral := false
	ast.Inspect(mfd.Body, func(n ast.Node) bool {
		if x, op, k, ok := cmpNorm(info, exprOf(n)); ok && op == token.EQL && k == 1 {
			if call, ok := isBuiltinCall(info, x, "len"); ok && len(call.Args) == 1 {
				if s, ok := info.TypeOf(call.Args[0]).Underlying().(*types.Slice); ok {
					if b, ok := s.Elem().Underlying().(*types.Basic); ok && b.Kind() == types.String {
						neutral = true
					}
				}
			}
		}
		return true
	})
	if neutral {
		c.Undecided("R14b", "csv.Reader:blank-lines", firstWrite.Pos(), "the marshaller tests for one-field records; cannot tell whether it keeps a single empty cell from being written as a blank line")
	} else {
		c.Viol("R14b", "csv.Reader:blank-lines", firstWrite.Pos(), "encoding/csv.Reader skips blank lines and csv.Writer.Write([]string{\"\"}) emits a blank line; the csv marshaller passes records to Write without special-casing a record of one empty field — in a one-column table every row whose cell is \"\" is silently lost when formatted back")
	}
}

// ---------------------------------------------------------------- R14c

// c14LenAtLeast: do the structural facts at the node on top of stack imply
// len(x) >= k ?  (facts of the form len(x) OP const, evaluated on 0..k+3)
func c14LenAtLeast(c *Ctx, info *types.Info, stack []ast.Node, x ast.Expr, k int64) bool {
	type pred func(int64) bool
	var preds []pred
	// `n := len(x)` (single definition) stands for len(x) in the guards
	var defs defMap
	if len(stack) > 0 {
		defs = localDefs(info, stack[0])
	}
	for _, f := range factsOf(guardsAt(info, stack)) {
		e, op, kk, ok := cmpNorm(info, f.E)
		if !ok {
			continue
		}
		if defs != nil {
			e = defs.resolve1(info, e)
		}
		call, ok := isBuiltinCall(info, e, "len")
		if !ok || len(call.Args) != 1 || !c.sameExpr(call.Args[0], x) {
			continue
		}
		p := intPred(op, kk)
		truth := f.True
		preds = append(preds, func(v int64) bool { return p(v) == truth })
	}
	for v := int64(0); v < k; v++ {
		all := true
		for _, p := range preds {
			if !p(v) {
				all = false
			}
		}
		if all {
			return false // length v < k is consistent with everything known
		}
	}
	return true
}

func c14cRule(c *Ctx) {
	c.Rule("R14c", "in the (un)marshallers under builtins/types every `make(T, len(x)-k)` (k>0) and every call of a function that indexes its slice parameter at a constant position without a length test (types.Table2Map: v[0]) is dominated by a guard that implies len(x) ≥ k / ≥ 1: an empty table (`[]` → csv → …) must not crash the conversion")
	// summary: which parameters of types.Table2Map are indexed at [0] unguarded
	need := map[types.Object]int64{} // function -> required length of arg 0
	if fd, pk := c.MustFunc("R14c", "lang/types", "", "Table2Map"); fd != nil {
		info := pk.TypesInfo
		var p0 types.Object
		if len(fd.Type.Params.List) > 0 && len(fd.Type.Params.List[0].Names) > 0 {
			p0 = info.Defs[fd.Type.Params.List[0].Names[0]]
		}
		req := int64(0)
		walkStack(fd.Body, func(n ast.Node, st []ast.Node) bool {
			ix, ok := n.(*ast.IndexExpr)
			if !ok {
				return true
			}
			id, ok := unparen(ix.X).(*ast.Ident)
			if !ok || info.ObjectOf(id) != p0 {
				return true
			}
			k, ok := constInt(info, ix.Index)
			if !ok {
				return true
			}
			// inside `for i := 1; i < len(v)` v[0] is safe (len(v) > 1)
			for _, a := range st {
				if fs, ok := a.(*ast.ForStmt); ok && fs.Cond != nil && ix.Pos() > fs.Body.Pos() && ix.End() < fs.Body.End() {
					if b, ok := unparen(fs.Cond).(*ast.BinaryExpr); ok && b.Op == token.LSS {
						if call, ok := isBuiltinCall(info, b.Y, "len"); ok && c.sameExpr(call.Args[0], id) {
							return true
						}
					}
				}
			}
			if !c14LenAtLeast(c, info, st, id, k+1) && k+1 > req {
				req = k + 1
			}
			return true
		})
		if req > 0 {
			need[info.Defs[fd.Name]] = req
			c.Info("R14c: types.Table2Map indexes its table parameter at [%d] without a length test ⇒ callers must guarantee len ≥ %d", req-1, req)
		} else {
			c.Info("R14c: types.Table2Map guards its own indexing; no caller obligation")
		}
	}
	n := 0
	for _, pk := range c.MurexPkgs() {
		rel := relPkg(pk.PkgPath)
		if !strings.HasPrefix(rel, "builtins/types/") {
			continue
		}
		info := pk.TypesInfo
		eachFunc(pk, func(fd *ast.FuncDecl) {
			cnt := map[string]int{}
			walkStack(fd.Body, func(nd ast.Node, st []ast.Node) bool {
				call, ok := nd.(*ast.CallExpr)
				if !ok {
					return true
				}
				if mk, ok := isBuiltinCall(info, call, "make"); ok && len(mk.Args) >= 2 {
					b, ok := unparen(mk.Args[1]).(*ast.BinaryExpr)
					if !ok || b.Op != token.SUB {
						return true
					}
					k, ok := constInt(info, b.Y)
					ln, ok2 := isBuiltinCall(info, localDefs(info, fd.Body).resolve1(info, b.X), "len")
					if !ok || !ok2 || k <= 0 || len(ln.Args) != 1 {
						return true
					}
					n++
					cnt["make"]++
					key := funcKey(rel, fd) + ":make(len-" + itoa(int(k)) + ")#" + itoa(cnt["make"])
					c.Check(c14LenAtLeast(c, info, st, ln.Args[0], k), "R14c", key, call.Pos(), "%s with no dominating guard that len(%s) ≥ %d: for an empty table the size is negative and the (un)marshaller panics (\"makeslice: len out of range\") — e.g. `tout json ([]) -> format csv -> format json` crashes instead of giving `[]`", c.src(call), c.src(ln.Args[0]), k)
					return true
				}
				if o := callee(info, call); o != nil {
					if req, ok := need[o]; ok && len(call.Args) > 0 {
						n++
						cnt[o.Name()]++
						key := funcKey(rel, fd) + ":" + o.Name() + "#" + itoa(cnt[o.Name()])
						c.Check(c14LenAtLeast(c, info, st, call.Args[0], req), "R14c", key, call.Pos(), "%s is called with no dominating guard that len(%s) ≥ %d, and it indexes element [%d] unconditionally: an empty table panics", objName(o), c.src(call.Args[0]), req, req-1)
					}
				}
				return true
			})
		})
	}
	c.MinCount("R14c", "len-dependent allocations / Table2Map calls in builtins/types", n, 3)
}

// ---------------------------------------------------------------- R14d

func c14d(c *Ctx) {
	c.Rule("R14d", "no function reachable (same package, depth ≤ 3) from the registered unmarshaller of json, yaml, toml, jsonl or csv passes a decoded value of interface type through fmt.Sprint*/types.ConvertGoType(_, str): that turns numbers, booleans, null and nested values into strings, so the document read back differs from the one written")
	regs := c14Registry(c, "R14d", "lang", []string{"RegisterUnmarshaller"})
	n := 0
	for _, r := range regs {
		isFmt := false
		for _, f := range c14Formats {
			if r.name == f {
				isFmt = true
			}
		}
		if !isFmt || r.fn == nil {
			continue
		}
		pk := r.pk
		info := pk.TypesInfo
		seen := map[types.Object]bool{}
		var visit func(o types.Object, depth int)
		visit = func(o types.Object, depth int) {
			if seen[o] || depth > 3 {
				return
			}
			seen[o] = true
			var fd *ast.FuncDecl
			eachFunc(pk, func(d *ast.FuncDecl) {
				if info.Defs[d.Name] == o {
					fd = d
				}
			})
			if fd == nil {
				return
			}
			n++
			c.nfuncs++
			bad := 0
			for _, call := range calls(fd.Body, true) {
				co := callee(info, call)
				if co == nil || co.Pkg() == nil {
					continue
				}
				if co.Pkg() == pk.Types {
					visit(co, depth+1)
					continue
				}
				lossy := false
				if co.Pkg().Path() == "fmt" && (co.Name() == "Sprint" || co.Name() == "Sprintln" || co.Name() == "Sprintf") {
					for _, a := range call.Args {
						if t := info.TypeOf(a); t != nil {
							if _, ok := t.Underlying().(*types.Interface); ok && !types.Identical(t, types.Universe.Lookup("error").Type()) {
								lossy = true
							}
						}
					}
				}
				if objIs(co, mx("lang/types"), "", "ConvertGoType") && len(call.Args) == 2 {
					if s, ok := constString(info, call.Args[1]); ok && s == "str" {
						if _, ok := info.TypeOf(call.Args[0]).Underlying().(*types.Interface); ok {
							lossy = true
						}
					}
				}
				if lossy {
					bad++
					c.Viol("R14d", relPkg(pk.PkgPath)+"."+fd.Name.Name+":"+co.Name(), call.Pos(), "the %s unmarshaller reaches %s, which turns every decoded cell into a string: numbers, booleans, null and nested values of an array of arrays come back as strings — `tout json ([[1,2],[3,4]]) -> format %s -> format json` gives [[\"1\",\"2\"],[\"3\",\"4\"]], null becomes \"<nil>\"", r.name, c.src(call), r.name)
				}
			}
			if bad == 0 {
				c.OK("R14d", relPkg(pk.PkgPath)+"."+fd.Name.Name, fd.Pos(), "no lossy stringification of decoded values")
			}
		}
		visit(r.fn, 0)
	}
	c.MinCount("R14d", "functions reachable from the five unmarshallers", n, 6)
}

// ---------------------------------------------------------------- R14e

func c14e(c *Ctx) {
	c.Rule("R14e", "the table⇄map templates used by the json/yaml/csv marshallers visit every row: types.Table2Map loops `for i := 1; i < len(v); i++` (row 0 is the heading) and types.MapToTable_Any/_MapStringAny loop `for i := range v`; each completed iteration hands exactly one row to the callback and the loop is left early only by returning an error")
	n := 0
	for _, f := range []struct {
		name string
		from int64
	}{{"Table2Map", 1}, {"MapToTable_Any", -1}, {"MapToTable_MapStringAny", -1}} {
		fd, pk := c.MustFunc("R14e", "lang/types", "", f.name)
		if fd == nil {
			continue
		}
		info := pk.TypesInfo
		cb := map[types.Object]bool{}
		for _, fl := range fd.Type.Params.List {
			for _, nm := range fl.Names {
				if _, ok := info.Defs[nm].Type().Underlying().(*types.Signature); ok {
					cb[info.Defs[nm]] = true
				}
			}
		}
		k := c15LoopCheck(c, "R14e", pk, fd, cb, f.from)
		if k == 0 {
			c.Lost("R14e", "loop:"+f.name, "no row loop calling the callback found in types.%s", f.name)
		}
		n += k
	}
	c.MinCount("R14e", "row loops of the table/map templates", n, 3)
}
