package main

// AST / types helpers shared by the rules.

import (
	"bytes"
	"go/ast"
	"go/constant"
	"go/printer"
	"go/token"
	"go/types"
	"strings"

	"golang.org/x/tools/go/packages"
	"golang.org/x/tools/go/types/typeutil"
)

func src(fset *token.FileSet, n ast.Node) string {
	if n == nil {
		return "<nil>"
	}
	var b bytes.Buffer
	printer.Fprint(&b, fset, n)
	s := b.String()
	s = strings.Join(strings.Fields(s), " ")
	if len(s) > 160 {
		s = s[:157] + "..."
	}
	return s
}

func (c *Ctx) src(n ast.Node) string { return src(c.Fset, n) }

// callee resolves the static callee of a call (function, method, or nil).
func callee(info *types.Info, call *ast.CallExpr) types.Object {
	return typeutil.Callee(info, call)
}

// objIs reports whether obj is the function/method pkgPath.[recv.]name.
// recv is the bare named type ("" for package-level functions).
func objIs(obj types.Object, pkgPath, recv, name string) bool {
	if obj == nil || obj.Name() != name {
		return false
	}
	if obj.Pkg() == nil {
		return pkgPath == ""
	}
	if obj.Pkg().Path() != pkgPath {
		return false
	}
	fn, ok := obj.(*types.Func)
	if !ok {
		return recv == ""
	}
	sig := fn.Type().(*types.Signature)
	if sig.Recv() == nil {
		return recv == ""
	}
	return namedName(sig.Recv().Type()) == recv
}

func namedName(t types.Type) string {
	for {
		switch x := t.(type) {
		case *types.Pointer:
			t = x.Elem()
			continue
		case *types.Named:
			return x.Obj().Name()
		case *types.Alias:
			t = types.Unalias(x)
			continue
		}
		return ""
	}
}

func namedPath(t types.Type) string {
	for {
		switch x := t.(type) {
		case *types.Pointer:
			t = x.Elem()
			continue
		case *types.Named:
			if x.Obj().Pkg() == nil {
				return x.Obj().Name()
			}
			return x.Obj().Pkg().Path() + "." + x.Obj().Name()
		case *types.Alias:
			t = types.Unalias(x)
			continue
		}
		return ""
	}
}

func mx(rel string) string {
	if rel == "" {
		return modPath
	}
	return modPath + "/" + rel
}

// callIs: call resolves to mx(pkgRel).[recv.]name
func callIs(info *types.Info, call *ast.CallExpr, pkgPath, recv, name string) bool {
	return objIs(callee(info, call), pkgPath, recv, name)
}

// calleeName gives a printable name of the callee ("pkg.(T).M").
func calleeName(info *types.Info, call *ast.CallExpr) string {
	o := callee(info, call)
	if o == nil {
		return ""
	}
	return objName(o)
}

func objName(o types.Object) string {
	p := ""
	if o.Pkg() != nil {
		p = relPkg(o.Pkg().Path()) + "."
	}
	if fn, ok := o.(*types.Func); ok {
		if sig, ok := fn.Type().(*types.Signature); ok && sig.Recv() != nil {
			return p + "(" + namedName(sig.Recv().Type()) + ")." + o.Name()
		}
	}
	return p + o.Name()
}

func constOf(info *types.Info, e ast.Expr) constant.Value {
	if tv, ok := info.Types[e]; ok && tv.Value != nil {
		return tv.Value
	}
	return nil
}

func constString(info *types.Info, e ast.Expr) (string, bool) {
	v := constOf(info, e)
	if v == nil || v.Kind() != constant.String {
		return "", false
	}
	return constant.StringVal(v), true
}

func constInt(info *types.Info, e ast.Expr) (int64, bool) {
	v := constOf(info, e)
	if v == nil {
		return 0, false
	}
	if v.Kind() != constant.Int {
		v = constant.ToInt(v)
		if v.Kind() != constant.Int {
			return 0, false
		}
	}
	i, ok := constant.Int64Val(v)
	return i, ok
}

func constBool(info *types.Info, e ast.Expr) (bool, bool) {
	v := constOf(info, e)
	if v == nil || v.Kind() != constant.Bool {
		return false, false
	}
	return constant.BoolVal(v), true
}

func unparen(e ast.Expr) ast.Expr {
	for {
		p, ok := e.(*ast.ParenExpr)
		if !ok {
			return e
		}
		e = p.X
	}
}

// walkStack walks n calling f with the ancestor stack (stack[len-1] == node).
func walkStack(n ast.Node, f func(n ast.Node, stack []ast.Node) bool) {
	var stack []ast.Node
	ast.Inspect(n, func(x ast.Node) bool {
		if x == nil {
			stack = stack[:len(stack)-1]
			return true
		}
		stack = append(stack, x)
		if !f(x, stack) {
			stack = stack[:len(stack)-1]
			return false
		}
		return true
	})
}

// calls returns every call expression under n (not descending into FuncLits
// unless intoLits).
func calls(n ast.Node, intoLits bool) []*ast.CallExpr {
	var out []*ast.CallExpr
	ast.Inspect(n, func(x ast.Node) bool {
		if _, ok := x.(*ast.FuncLit); ok && !intoLits && x != n {
			return false
		}
		if c, ok := x.(*ast.CallExpr); ok {
			out = append(out, c)
		}
		return true
	})
	return out
}

// terminates: the statement list always leaves the enclosing block
// (return / continue / break / goto / panic / os.Exit as last statement).
func terminates(info *types.Info, list []ast.Stmt) bool {
	if len(list) == 0 {
		return false
	}
	switch s := list[len(list)-1].(type) {
	case *ast.ReturnStmt:
		return true
	case *ast.BranchStmt:
		return s.Tok != token.FALLTHROUGH
	case *ast.ExprStmt:
		if call, ok := s.X.(*ast.CallExpr); ok {
			if id, ok := call.Fun.(*ast.Ident); ok && id.Name == "panic" {
				return true
			}
			if info != nil {
				if o := callee(info, call); o != nil && o.Pkg() != nil && o.Pkg().Path() == "os" && o.Name() == "Exit" {
					return true
				}
			}
		}
	case *ast.BlockStmt:
		return terminates(info, s.List)
	case *ast.IfStmt:
		if s.Else == nil {
			return false
		}
		var el []ast.Stmt
		switch e := s.Else.(type) {
		case *ast.BlockStmt:
			el = e.List
		case *ast.IfStmt:
			el = []ast.Stmt{e}
		}
		return terminates(info, s.Body.List) && terminates(info, el)
	}
	return false
}

// Guard is a condition known to hold (or not hold) at a program point, from
// the enclosing structured control flow.
type Guard struct {
	Cond  ast.Expr   // boolean condition (nil for tagged switch guards)
	Neg   bool       // condition is known false
	Tag   ast.Expr   // tagged switch: tag expression
	Cases []ast.Expr // tagged switch: tag equals one of these (Neg: none of these)
	Dflt  bool       // default arm of a tagged switch
}

// guardsAt computes the structural guards of the node at the top of stack,
// within function body. Recognised idioms: if/else arms, `if c { …terminating }`
// earlier in an enclosing block, tagged and tagless switch arms (incl. the
// negation of earlier tagless cases), `for cond {` bodies are NOT taken as guards.
// The caller is responsible for checking that the variables of the guard are
// not reassigned in between where that matters.
func guardsAt(info *types.Info, stack []ast.Node) []Guard {
	var gs []Guard
	for i := 0; i+1 < len(stack); i++ {
		parent, child := stack[i], stack[i+1]
		switch p := parent.(type) {
		case *ast.IfStmt:
			if child == ast.Node(p.Body) {
				gs = append(gs, Guard{Cond: p.Cond})
			} else if p.Else != nil && child == ast.Node(p.Else) {
				gs = append(gs, Guard{Cond: p.Cond, Neg: true})
			}
		case *ast.BlockStmt:
			gs = append(gs, priorExits(info, p.List, child)...)
		case *ast.CaseClause:
			isBody := false
			for _, s := range p.Body {
				if ast.Node(s) == child {
					isBody = true
				}
			}
			if isBody {
				gs = append(gs, priorExits(info, p.Body, child)...)
			}
		case *ast.CommClause:
			gs = append(gs, priorExits(info, p.Body, child)...)
		case *ast.SwitchStmt:
			// child is the body block; handled at the BlockStmt→CaseClause level below
		}
		// switch arms: parent is the switch body block, child a CaseClause
		if cc, ok := child.(*ast.CaseClause); ok && i >= 1 {
			if sw, ok := stack[i-1].(*ast.SwitchStmt); ok {
				inBody := false
				if i+2 < len(stack) {
					for _, s := range cc.Body {
						if ast.Node(s) == stack[i+2] {
							inBody = true
						}
					}
				}
				if inBody {
					if sw.Tag != nil {
						if cc.List == nil {
							var all []ast.Expr
							for _, s := range sw.Body.List {
								all = append(all, s.(*ast.CaseClause).List...)
							}
							gs = append(gs, Guard{Tag: sw.Tag, Cases: all, Neg: true, Dflt: true})
						} else {
							gs = append(gs, Guard{Tag: sw.Tag, Cases: cc.List})
						}
					} else {
						// earlier cases are false (no fallthrough handling: a
						// fallthrough into this arm voids the guard)
						ft := false
						for _, s := range sw.Body.List {
							o := s.(*ast.CaseClause)
							if o == cc {
								break
							}
							if n := len(o.Body); n > 0 {
								if b, ok := o.Body[n-1].(*ast.BranchStmt); ok && b.Tok == token.FALLTHROUGH {
									ft = true
								}
							}
						}
						if !ft {
							for _, s := range sw.Body.List {
								o := s.(*ast.CaseClause)
								if o == cc {
									break
								}
								for _, e := range o.List {
									gs = append(gs, Guard{Cond: e, Neg: true})
								}
							}
							if len(cc.List) == 1 {
								gs = append(gs, Guard{Cond: cc.List[0]})
							}
						}
					}
				}
			}
		}
	}
	return gs
}

func priorExits(info *types.Info, list []ast.Stmt, child ast.Node) []Guard {
	var gs []Guard
	for _, s := range list {
		if ast.Node(s) == child {
			break
		}
		if is, ok := s.(*ast.IfStmt); ok && is.Else == nil && terminates(info, is.Body.List) {
			gs = append(gs, Guard{Cond: is.Cond, Neg: true})
		}
	}
	return gs
}

// conjuncts splits a && b && c (through parens); with neg, splits !(a || b).
func conjuncts(e ast.Expr) []ast.Expr {
	e = unparen(e)
	if b, ok := e.(*ast.BinaryExpr); ok && b.Op == token.LAND {
		return append(conjuncts(b.X), conjuncts(b.Y)...)
	}
	return []ast.Expr{e}
}
func disjuncts(e ast.Expr) []ast.Expr {
	e = unparen(e)
	if b, ok := e.(*ast.BinaryExpr); ok && b.Op == token.LOR {
		return append(disjuncts(b.X), disjuncts(b.Y)...)
	}
	return []ast.Expr{e}
}

// facts flattens guards into atomic (expr, truth) facts: a true conjunction
// gives each conjunct true; a false disjunction gives each disjunct false;
// !x flips.
type Fact struct {
	E    ast.Expr
	True bool
}

func factsOf(gs []Guard) []Fact {
	var out []Fact
	var add func(e ast.Expr, truth bool)
	add = func(e ast.Expr, truth bool) {
		e = unparen(e)
		if u, ok := e.(*ast.UnaryExpr); ok && u.Op == token.NOT {
			add(u.X, !truth)
			return
		}
		if b, ok := e.(*ast.BinaryExpr); ok {
			// x == true / x != false / true == x …
			if b.Op == token.EQL || b.Op == token.NEQ {
				for _, pair := range [][2]ast.Expr{{b.X, b.Y}, {b.Y, b.X}} {
					if id, isId := unparen(pair[1]).(*ast.Ident); isId && (id.Name == "true" || id.Name == "false") {
						t := truth
						if (id.Name == "false") != (b.Op == token.NEQ) {
							t = !t
						}
						add(pair[0], t)
						return
					}
				}
			}
			if b.Op == token.LAND && truth {
				add(b.X, true)
				add(b.Y, true)
				return
			}
			if b.Op == token.LOR && !truth {
				add(b.X, false)
				add(b.Y, false)
				return
			}
		}
		out = append(out, Fact{e, truth})
	}
	for _, g := range gs {
		if g.Cond != nil {
			add(g.Cond, !g.Neg)
		}
	}
	return out
}

// findFuncs iterates over all function declarations of a package.
func eachFunc(pk *packages.Package, f func(fd *ast.FuncDecl)) {
	for _, file := range pk.Syntax {
		for _, d := range file.Decls {
			if fd, ok := d.(*ast.FuncDecl); ok && fd.Body != nil {
				f(fd)
			}
		}
	}
}

// selPath renders a selector chain rooted at an identifier ("stdin.mutex"),
// or "" when the expression is not such a chain.
func selPath(e ast.Expr) string {
	switch x := unparen(e).(type) {
	case *ast.Ident:
		return x.Name
	case *ast.SelectorExpr:
		p := selPath(x.X)
		if p == "" {
			return ""
		}
		return p + "." + x.Sel.Name
	case *ast.StarExpr:
		return selPath(x.X)
	}
	return ""
}

// fieldOf: if e is a selector denoting a struct field, returns the field var
// and the named struct type (path "pkg.T") it belongs to.
func fieldOf(info *types.Info, e ast.Expr) (*types.Var, string) {
	se, ok := unparen(e).(*ast.SelectorExpr)
	if !ok {
		return nil, ""
	}
	sel := info.Selections[se]
	if sel == nil || sel.Kind() != types.FieldVal {
		return nil, ""
	}
	v, ok := sel.Obj().(*types.Var)
	if !ok {
		return nil, ""
	}
	// owner: walk the receiver type through the selection index path
	t := sel.Recv()
	idx := sel.Index()
	for i := 0; i < len(idx)-1; i++ {
		st := structOf(t)
		if st == nil {
			return v, ""
		}
		t = st.Field(idx[i]).Type()
	}
	return v, namedPath(t)
}

func structOf(t types.Type) *types.Struct {
	for {
		switch x := t.(type) {
		case *types.Pointer:
			t = x.Elem()
			continue
		case *types.Named:
			t = x.Underlying()
			continue
		case *types.Alias:
			t = types.Unalias(x)
			continue
		case *types.Struct:
			return x
		}
		return nil
	}
}

// sameExpr: structural equality of two expressions by printed form.
func (c *Ctx) sameExpr(a, b ast.Expr) bool {
	return c.src(unparen(a)) == c.src(unparen(b))
}

// enumConsts lists the package-level constants of the named type, with values.
func enumConsts(pk *types.Package, typeName string) map[string]constant.Value {
	out := map[string]constant.Value{}
	sc := pk.Scope()
	for _, n := range sc.Names() {
		if k, ok := sc.Lookup(n).(*types.Const); ok {
			if nt, ok := k.Type().(*types.Named); ok && nt.Obj().Name() == typeName && nt.Obj().Pkg() == pk {
				out[n] = k.Val()
			}
		}
	}
	return out
}
