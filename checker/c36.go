package main

// C36 — %[ ] and %{ } literals build the same value as JSON.
//
// The two literal parsers are rune loops around one `switch r`. Nothing is
// executed: for every rune that can start or separate a JSON token the arm the
// switch selects is looked up by constant value, its statements are reduced to
// a sequence of events over resolved callees (which sub-parser is called with
// which arguments, what is stored, how the cursor moves, where control goes),
// every stored expression is classified by following its single definition
// back to the call that produced it, and that summary is compared with what
// JSON requires for the token. The helpers the arms rely on (bareword scanner,
// true/false/null table, number conversion, key/value assembly, the mkarray
// pre-scan) are checked the same way.

import (
	"fmt"
	"go/ast"
	"go/token"
	"go/types"
	"sort"
	"strings"

	"golang.org/x/tools/go/packages"
)

func init() {
	register("C36", "Decides, for lang/expressions.parseArray and parseObject (the %[ ] / %{ } parsers) by table extraction over resolved callees and constants: (R36a) token dispatch — `\"` stores string(<parseString result>), `[` / `{` recurse into parseArray / parseObject with the caller's exec flag and store the nested VALUE (dt.GetValue().Value, not its text), `]` / `}` leave for the label that returns NewPrimitive(Array, <the slice appended to>) / NewPrimitive(Object, o.obj), `,` separates (object: writes the pair), `:` moves key→value only from the key stage, JSON whitespace stores nothing and cannot fail, and every rune that can start a JSON number/true/false/null reaches the default arm, which stores ConvertGoType(bareword, Number) when that succeeds and the true/false/null mapping otherwise; after each sub-parser call the cursor is advanced once; the array starts as a non-nil empty slice; (R36b) the bareword scanner stops at every JSON delimiter and at no rune of the JSON scalar alphabet; (R36c) both parsers map exactly true→true, false→false, null→nil; (R36d) Number conversion of a []rune is strconv.ParseFloat(s, 64) returned unchanged — the parser encoding/json uses; (R36e) key/value assembly: the pair is stored as obj[<key as string>] = <value>, null is kept as a defined value, the stage indexes the slot written, the slots and the stage are reset after each pair; (R36f) the mkarray pre-scan gives way (nil, start position) at the first quote or brace and can only claim the literal after seeing `..`. Double-quoted string contents are decided by C09 (R09c/R09d). Does NOT decide: cursor arithmetic inside the sub-parsers beyond the single advance, murex-only syntax (barewords, comments, $var, @array, ~, %( )), duplicate keys, or number formatting on output; equality over all documents remains a differential question.", runC36)
}

const c36Pkg = "lang/expressions"

var (
	c36ParserT = mx(c36Pkg) + ".ParserT"
	c36ObjT    = mx(c36Pkg) + ".parseObjectT"
	c36KvT     = mx(c36Pkg) + ".parseObjectKvT"
	c36Prim    = mx(c36Pkg + "/primitives")
)

// ---------------------------------------------------------------- definitions

type c36Def struct {
	call *ast.CallExpr // defined as result idx of this call
	idx  int
	expr ast.Expr // defined as this expression
}

type c36Fn struct {
	c    *Ctx
	name string
	fd   *ast.FuncDecl
	pk   *packages.Package
	info *types.Info
	defs map[types.Object][]c36Def
	exec types.Object

	loop  *ast.ForStmt
	sw    *ast.SwitchStmt
	rObj  types.Object
	arms  map[rune]*ast.CaseClause
	dflt  *ast.CaseClause
	label map[string][]ast.Stmt // label -> statements from the label to the end of the function body

	slice types.Object // parseArray: the []any being built
	oObj  types.Object // parseObject: o
}

func (f *c36Fn) addDef(lhs ast.Expr, d c36Def) {
	id, ok := unparen(lhs).(*ast.Ident)
	if !ok || id.Name == "_" {
		return
	}
	o := f.info.ObjectOf(id)
	if o == nil {
		return
	}
	f.defs[o] = append(f.defs[o], d)
}

func (f *c36Fn) collectDefs() {
	f.defs = map[types.Object][]c36Def{}
	ast.Inspect(f.fd.Body, func(n ast.Node) bool {
		switch s := n.(type) {
		case *ast.AssignStmt:
			if len(s.Rhs) == 1 && len(s.Lhs) > 1 {
				call, _ := unparen(s.Rhs[0]).(*ast.CallExpr)
				for i, l := range s.Lhs {
					f.addDef(l, c36Def{call: call, idx: i})
				}
			} else if len(s.Rhs) == len(s.Lhs) {
				for i, l := range s.Lhs {
					d := c36Def{expr: s.Rhs[i]}
					if call, ok := unparen(s.Rhs[i]).(*ast.CallExpr); ok {
						d.call = call
					}
					f.addDef(l, d)
				}
			}
		case *ast.ValueSpec:
			if len(s.Values) == len(s.Names) {
				for i, nm := range s.Names {
					d := c36Def{expr: s.Values[i]}
					if call, ok := unparen(s.Values[i]).(*ast.CallExpr); ok {
						d.call = call
					}
					f.addDef(nm, d)
				}
			} else if len(s.Values) == 0 {
				for _, nm := range s.Names {
					f.addDef(nm, c36Def{})
				}
			}
		case *ast.IncDecStmt:
			f.addDef(s.X, c36Def{})
		}
		return true
	})
}

// def1 is the single definition of the object an identifier denotes.
func (f *c36Fn) def1(e ast.Expr) (c36Def, bool) {
	id, ok := unparen(e).(*ast.Ident)
	if !ok {
		return c36Def{}, false
	}
	ds := f.defs[f.info.ObjectOf(id)]
	if len(ds) != 1 {
		return c36Def{}, false
	}
	return ds[0], true
}

func (f *c36Fn) isTreeMethod(call *ast.CallExpr, name string) bool {
	return call != nil && callIs(f.info, call, mx(c36Pkg), "ParserT", name)
}

func (f *c36Fn) isCharPos(e ast.Expr) bool { return isField(f.info, e, c36ParserT, "charPos") }

// fromCall: e is an identifier whose single definition is result idx of a call to tree.<name>.
func (f *c36Fn) fromTree(e ast.Expr, name string, idx int) bool {
	d, ok := f.def1(e)
	return ok && d.call != nil && d.idx == idx && f.isTreeMethod(d.call, name)
}

// class names what a stored expression is, by provenance.
func (f *c36Fn) class(e ast.Expr) string {
	e = unparen(e)
	info := f.info
	if tv, ok := info.Types[e]; ok && tv.IsNil() {
		return "nil"
	}
	if b, ok := constBool(info, e); ok {
		return fmt.Sprint(b)
	}
	if call, ok := e.(*ast.CallExpr); ok {
		if tv, ok := info.Types[call.Fun]; ok && tv.IsType() && len(call.Args) == 1 {
			if b, ok := tv.Type.Underlying().(*types.Basic); ok && b.Kind() == types.String {
				switch {
				case f.fromTree(call.Args[0], "parseString", 0):
					return "string(parseString)"
				case f.fromTree(call.Args[0], "parseArrayBareword", 0):
					return "string(bareword)"
				case f.fromTree(call.Args[0], "parseParenthesis", 0):
					return "string(parseParenthesis)"
				}
				if id, ok := unparen(call.Args[0]).(*ast.Ident); ok && isParam(info, f.fd, id) {
					return "string(param)"
				}
			}
			return "?" + f.c.src(e)
		}
		if callIs(info, call, mx(c36Pkg), "", "formatArrayValue") && len(call.Args) == 1 && f.fromTree(call.Args[0], "parseArrayBareword", 0) {
			return "format(bareword)"
		}
		return "?" + f.c.src(e)
	}
	if se, ok := e.(*ast.SelectorExpr); ok {
		if isField(info, se, c36Prim+".Value", "Value") {
			if d, ok := f.def1(se.X); ok && d.call != nil && d.idx == 0 && callIs(info, d.call, c36Prim, "DataType", "GetValue") {
				if rs, ok := unparen(d.call.Fun).(*ast.SelectorExpr); ok {
					switch {
					case f.fromTree(rs.X, "parseArray", 1):
						return "value(parseArray)"
					case f.fromTree(rs.X, "parseObject", 1):
						return "value(parseObject)"
					}
				}
			}
		}
		return "?" + f.c.src(e)
	}
	if d, ok := f.def1(e); ok {
		if d.call != nil && d.idx == 0 && callIs(info, d.call, mx("lang/types"), "", "ConvertGoType") && len(d.call.Args) == 2 {
			if f.fromTree(d.call.Args[0], "parseArrayBareword", 0) && isPkgObj(info, d.call.Args[1], mx("lang/types"), "Number") {
				return "number(bareword)"
			}
			return "?" + f.c.src(d.call)
		}
		if d.expr != nil && d.call == nil {
			return f.class(d.expr)
		}
		if d.expr != nil {
			if call, ok := unparen(d.expr).(*ast.CallExpr); ok {
				if tv, ok := info.Types[call.Fun]; ok && tv.IsType() {
					return f.class(d.expr)
				}
			}
		}
	}
	return "?" + f.c.src(e)
}

// ---------------------------------------------------------------- events

type c36Ev struct {
	kind string // call:<name> store advance retreat goto:<label> continue stage++ return complex
	call *ast.CallExpr
	expr ast.Expr // stored expression
	node ast.Node
	neg  bool // guard: the arm goes on where the condition holds (`if c { … } else { return err }`)
}

func (f *c36Fn) callName(call *ast.CallExpr) string {
	info := f.info
	for _, n := range []string{"parseString", "parseArray", "parseObject", "parseArrayBareword", "parseParenthesis", "parseArrayMaker", "parseSubExpression", "parseSubShell", "parseVarScalar", "parseVarArray", "parseVarTilde"} {
		if f.isTreeMethod(call, n) {
			return n
		}
	}
	for _, n := range []string{"UpdateInterface", "AppendRune", "WriteKeyValuePair", "IsValueUndefined", "IsKeyUndefined"} {
		if callIs(info, call, mx(c36Pkg), "parseObjectT", n) {
			return n
		}
	}
	if callIs(info, call, c36Prim, "DataType", "GetValue") {
		return "GetValue"
	}
	if callIs(info, call, mx("lang/types"), "", "ConvertGoType") {
		return "ConvertGoType"
	}
	return ""
}

// errGuard: `if [init;] cond { return …, <non-nil error> }` without else.
func (f *c36Fn) errGuard(s *ast.IfStmt) bool {
	if s.Else != nil || len(s.Body.List) != 1 {
		return false
	}
	rs, ok := s.Body.List[0].(*ast.ReturnStmt)
	if !ok || len(rs.Results) == 0 {
		return false
	}
	last := rs.Results[len(rs.Results)-1]
	if tv, ok := f.info.Types[last]; ok && tv.IsNil() {
		return false
	}
	return true
}

func (f *c36Fn) exprEvents(e ast.Expr, node ast.Node, out *[]c36Ev) {
	for _, call := range calls(e, false) {
		if n := f.callName(call); n != "" {
			*out = append(*out, c36Ev{kind: "call:" + n, call: call, node: node})
			if n == "UpdateInterface" && len(call.Args) == 1 {
				*out = append(*out, c36Ev{kind: "store", expr: call.Args[0], call: call, node: node})
			}
			if n == "AppendRune" {
				*out = append(*out, c36Ev{kind: "store-runes", call: call, node: node})
			}
		}
	}
}

// unitStep: `x += 1`, `x -= 1`, `x = x + 1`, `x = 1 + x`, `x = x - 1` → +1 / -1.
func (f *c36Fn) unitStep(v *ast.AssignStmt) (int, bool) {
	if len(v.Lhs) != 1 || len(v.Rhs) != 1 {
		return 0, false
	}
	one := func(e ast.Expr) bool { k, ok := constInt(f.info, e); return ok && k == 1 }
	switch v.Tok {
	case token.ADD_ASSIGN:
		if one(v.Rhs[0]) {
			return 1, true
		}
	case token.SUB_ASSIGN:
		if one(v.Rhs[0]) {
			return -1, true
		}
	case token.ASSIGN:
		if b, ok := unparen(v.Rhs[0]).(*ast.BinaryExpr); ok {
			switch {
			case b.Op == token.ADD && f.c.sameExpr(b.X, v.Lhs[0]) && one(b.Y), b.Op == token.ADD && f.c.sameExpr(b.Y, v.Lhs[0]) && one(b.X):
				return 1, true
			case b.Op == token.SUB && f.c.sameExpr(b.X, v.Lhs[0]) && one(b.Y):
				return -1, true
			}
		}
	}
	return 0, false
}

// errReturn: the list is exactly `return …, <non-nil error>`.
func (f *c36Fn) errReturn(list []ast.Stmt) bool {
	if len(list) != 1 {
		return false
	}
	rs, ok := list[0].(*ast.ReturnStmt)
	if !ok || len(rs.Results) == 0 {
		return false
	}
	last := rs.Results[len(rs.Results)-1]
	if tv, ok := f.info.Types[last]; ok && tv.IsNil() {
		return false
	}
	return true
}

func (f *c36Fn) events(list []ast.Stmt) []c36Ev {
	var out []c36Ev
	for _, s := range list {
		switch v := s.(type) {
		case *ast.AssignStmt:
			// the cursor / the stage moved by an assignment instead of ++ / --
			if len(v.Lhs) == 1 && len(v.Rhs) == 1 && (f.isCharPos(v.Lhs[0]) || isField(f.info, v.Lhs[0], c36ObjT, "stage")) {
				isStage := !f.isCharPos(v.Lhs[0])
				if d, ok := f.unitStep(v); ok {
					switch {
					case isStage && d == 1:
						out = append(out, c36Ev{kind: "stage++", node: s})
					case isStage:
						out = append(out, c36Ev{kind: "complex", node: s})
					case d == 1:
						out = append(out, c36Ev{kind: "advance", node: s})
					default:
						out = append(out, c36Ev{kind: "retreat", node: s})
					}
					continue
				}
				if k, ok := constInt(f.info, v.Rhs[0]); ok && isStage && v.Tok == token.ASSIGN {
					out = append(out, c36Ev{kind: fmt.Sprintf("stage=%d", k), node: s})
					continue
				}
			}
			// slice = append(slice, x…)
			if f.slice != nil && len(v.Lhs) == 1 && len(v.Rhs) == 1 {
				if id, ok := unparen(v.Lhs[0]).(*ast.Ident); ok && f.info.ObjectOf(id) == f.slice {
					if call, ok := isBuiltinCall(f.info, v.Rhs[0], "append"); ok && len(call.Args) >= 1 {
						if a0, ok := unparen(call.Args[0]).(*ast.Ident); ok && f.info.ObjectOf(a0) == f.slice {
							for _, a := range call.Args[1:] {
								f.exprEvents(a, s, &out)
								k := "store"
								if call.Ellipsis.IsValid() {
									k = "store-spread"
								}
								out = append(out, c36Ev{kind: k, expr: a, call: call, node: s})
							}
							continue
						}
					}
					out = append(out, c36Ev{kind: "complex", node: s})
					continue
				}
			}
			for _, r := range v.Rhs {
				f.exprEvents(r, s, &out)
			}
		case *ast.ExprStmt:
			f.exprEvents(v.X, s, &out)
		case *ast.IncDecStmt:
			switch {
			case f.isCharPos(v.X) && v.Tok == token.INC:
				out = append(out, c36Ev{kind: "advance", node: s})
			case f.isCharPos(v.X):
				out = append(out, c36Ev{kind: "retreat", node: s})
			case isField(f.info, v.X, c36ObjT, "stage") && v.Tok == token.INC:
				out = append(out, c36Ev{kind: "stage++", node: s})
			default:
				out = append(out, c36Ev{kind: "complex", node: s})
			}
		case *ast.BranchStmt:
			switch v.Tok {
			case token.GOTO:
				out = append(out, c36Ev{kind: "goto:" + v.Label.Name, node: s})
			case token.CONTINUE:
				out = append(out, c36Ev{kind: "continue", node: s})
			default:
				out = append(out, c36Ev{kind: "complex", node: s})
			}
		case *ast.IfStmt:
			if f.errGuard(v) {
				if v.Init != nil {
					out = append(out, f.events([]ast.Stmt{v.Init})...)
				}
				f.exprEvents(v.Cond, s, &out)
				out = append(out, c36Ev{kind: "guard", node: s})
				continue
			}
			// `if c { <arm> } else { return …, err }` and `if c { return …, err } else { <arm> }`:
			// the same guard with the rest of the arm inside the other branch
			if eb, ok := v.Else.(*ast.BlockStmt); ok && v.Init == nil {
				var rest []ast.Stmt
				neg := false
				switch {
				case f.errReturn(eb.List) && !f.errReturn(v.Body.List):
					rest, neg = v.Body.List, true
				case f.errReturn(v.Body.List) && !f.errReturn(eb.List):
					rest = eb.List
				}
				if rest != nil {
					f.exprEvents(v.Cond, s, &out)
					out = append(out, c36Ev{kind: "guard", node: s, neg: neg})
					out = append(out, f.events(rest)...)
					continue
				}
			}
			out = append(out, c36Ev{kind: "complex", node: s})
		case *ast.ReturnStmt:
			out = append(out, c36Ev{kind: "return", node: s})
		case *ast.EmptyStmt:
		default:
			out = append(out, c36Ev{kind: "complex", node: s})
		}
	}
	return out
}

func c36Kinds(evs []c36Ev) string {
	var ks []string
	for _, e := range evs {
		if e.kind == "guard" {
			continue
		}
		ks = append(ks, e.kind)
	}
	return strings.Join(ks, " ")
}

// ---------------------------------------------------------------- locating the parser loop

func (c *Ctx) c36Find(rule, name string) *c36Fn {
	fd, pk := c.MustFunc(rule, c36Pkg, "ParserT", name)
	if fd == nil {
		return nil
	}
	f := &c36Fn{c: c, name: name, fd: fd, pk: pk, info: pk.TypesInfo, arms: map[rune]*ast.CaseClause{}, label: map[string][]ast.Stmt{}}
	f.collectDefs()
	for _, fl := range fd.Type.Params.List {
		for _, n := range fl.Names {
			o := f.info.Defs[n]
			if b, ok := o.Type().Underlying().(*types.Basic); ok && b.Kind() == types.Bool {
				f.exec = o
			}
		}
	}
	for i, s := range fd.Body.List {
		switch v := s.(type) {
		case *ast.ForStmt:
			if f.loop == nil {
				f.loop = v
			}
		case *ast.LabeledStmt:
			f.label[v.Label.Name] = append([]ast.Stmt{v.Stmt}, fd.Body.List[i+1:]...)
		}
	}
	if f.loop == nil {
		c.Undecided(rule, name+":shape", fd.Pos(), "%s: no rune loop at the top level of the function", name)
		return nil
	}
	// runeDef: `r := tree.expression[tree.charPos]`
	runeDef := func(s ast.Stmt) types.Object {
		v, ok := s.(*ast.AssignStmt)
		if ok && v.Tok == token.DEFINE && len(v.Lhs) == 1 && len(v.Rhs) == 1 {
			if ix, ok := unparen(v.Rhs[0]).(*ast.IndexExpr); ok && isField(f.info, ix.X, c36ParserT, "expression") && f.isCharPos(ix.Index) {
				if id, ok := v.Lhs[0].(*ast.Ident); ok {
					return f.info.ObjectOf(id)
				}
			}
		}
		return nil
	}
	for _, s := range f.loop.Body.List {
		switch v := s.(type) {
		case *ast.AssignStmt:
			if o := runeDef(v); o != nil {
				f.rObj = o
				continue
			}
			c.Undecided(rule, name+":shape", s.Pos(), "%s: unrecognised statement in the rune loop: %s", name, c.src(s))
			return nil
		case *ast.SwitchStmt:
			if v.Init != nil {
				// `switch r := tree.expression[tree.charPos]; r {`
				o := runeDef(v.Init)
				if o == nil || f.rObj != nil {
					c.Undecided(rule, name+":shape", s.Pos(), "%s: the rune loop is not one `switch r`", name)
					return nil
				}
				f.rObj = o
			}
			if f.sw != nil || v.Tag == nil {
				c.Undecided(rule, name+":shape", s.Pos(), "%s: the rune loop is not one `switch r`", name)
				return nil
			}
			f.sw = v
		default:
			c.Undecided(rule, name+":shape", s.Pos(), "%s: unrecognised statement in the rune loop: %s", name, c.src(s))
			return nil
		}
	}
	if f.sw == nil || f.rObj == nil {
		c.Undecided(rule, name+":shape", f.loop.Pos(), "%s: no `r := tree.expression[tree.charPos]; switch r`", name)
		return nil
	}
	if id, ok := unparen(f.sw.Tag).(*ast.Ident); !ok || f.info.ObjectOf(id) != f.rObj {
		c.Undecided(rule, name+":shape", f.sw.Pos(), "%s: the switch is not over the current rune", name)
		return nil
	}
	for _, st := range f.sw.Body.List {
		cc := st.(*ast.CaseClause)
		if cc.List == nil {
			f.dflt = cc
			continue
		}
		for _, x := range cc.List {
			v, ok := constInt(f.info, x)
			if !ok {
				c.Undecided(rule, name+":shape", x.Pos(), "%s: non-constant case %s", name, c.src(x))
				return nil
			}
			if _, dup := f.arms[rune(v)]; !dup {
				f.arms[rune(v)] = cc
			}
		}
	}
	return f
}

func (f *c36Fn) arm(r rune) (cc *ast.CaseClause, explicit bool) {
	if cc, ok := f.arms[r]; ok {
		return cc, true
	}
	return f.dflt, false
}

func c36Rune(r rune) string {
	switch r {
	case '\n':
		return `'\n'`
	case '\t':
		return `'\t'`
	case '\r':
		return `'\r'`
	case '\'':
		return `'\''`
	}
	return "'" + string(r) + "'"
}

// onlyArg: the call has exactly the function's own exec flag as (last) argument.
func (f *c36Fn) passesExec(call *ast.CallExpr) bool {
	if len(call.Args) == 0 || f.exec == nil {
		return false
	}
	id, ok := unparen(call.Args[len(call.Args)-1]).(*ast.Ident)
	return ok && f.info.ObjectOf(id) == f.exec
}

// ---------------------------------------------------------------- R36a

// nested checks one of the `"`, `[`, `{` arms.
func (f *c36Fn) checkSub(rule, which string, r rune, callee string, wantKinds string, wantClass string, why string) {
	c := f.c
	key := fmt.Sprintf("%s:%s", which, c36Rune(r))
	cc, explicit := f.arm(r)
	if !explicit || cc == nil {
		c.Viol(rule, key, f.sw.Pos(), "%s: no case for %s — %s", f.name, c36Rune(r), why)
		return
	}
	evs := f.events(cc.Body)
	kinds := c36Kinds(evs)
	if strings.Contains(kinds, "complex") || strings.Contains(kinds, "return") {
		c.Undecided(rule, key, cc.Pos(), "%s: the %s arm contains control flow outside the recognised forms (%s)", f.name, c36Rune(r), kinds)
		return
	}
	if kinds != wantKinds {
		c.Viol(rule, key, cc.Pos(), "%s: the %s arm does [%s], JSON needs [%s] — %s", f.name, c36Rune(r), kinds, wantKinds, why)
		return
	}
	for _, e := range evs {
		switch e.kind {
		case "call:" + callee:
			if !f.passesExec(e.call) {
				c.Viol(rule, key, e.call.Pos(), "%s: the %s arm calls %s without handing on its own exec flag: the nested element is parsed in the other mode (parse-only keeps quotes and builds no values)", f.name, c36Rune(r), callee)
				return
			}
		case "store":
			if got := f.class(e.expr); got != wantClass {
				c.Viol(rule, key, e.expr.Pos(), "%s: the %s arm stores %s, JSON needs %s — %s", f.name, c36Rune(r), strings.TrimPrefix(got, "?"), wantClass, why)
				return
			}
		}
	}
	c.OK(rule, key, cc.Pos(), "%s: %s → [%s] storing %s", f.name, c36Rune(r), kinds, wantClass)
}

// scalarArm checks the default arm: number first, then true/false/null.
func (f *c36Fn) checkScalar(rule, which string, wantMap string) {
	c := f.c
	key := which + ":scalar"
	cc := f.dflt
	if cc == nil {
		c.Viol(rule, key, f.sw.Pos(), "%s: the switch has no default arm — numbers, true, false and null are dropped", f.name)
		return
	}
	// locate: B := tree.parseArrayBareword(); V, E := ConvertGoType(B, Number); if E == nil {…} else {…}
	var ifs *ast.IfStmt
	var errObj, numObj types.Object
	for i, s := range cc.Body {
		as, ok := s.(*ast.AssignStmt)
		if !ok || len(as.Rhs) != 1 || len(as.Lhs) != 2 {
			continue
		}
		call, ok := unparen(as.Rhs[0]).(*ast.CallExpr)
		if !ok || !callIs(f.info, call, mx("lang/types"), "", "ConvertGoType") {
			continue
		}
		if f.class(as.Lhs[0]) != "number(bareword)" {
			c.Viol(rule, key, call.Pos(), "%s: the default arm converts %s — a JSON number must be converted with ConvertGoType(<bareword>, types.Number)", f.name, c.src(call))
			return
		}
		numObj = f.info.ObjectOf(as.Lhs[0].(*ast.Ident))
		if id, ok := as.Lhs[1].(*ast.Ident); ok {
			errObj = f.info.ObjectOf(id)
		}
		if i+1 < len(cc.Body) {
			ifs, _ = cc.Body[i+1].(*ast.IfStmt)
		}
		break
	}
	if numObj == nil || errObj == nil || ifs == nil || ifs.Init != nil || ifs.Else == nil {
		c.Undecided(rule, key, cc.Pos(), "%s: the default arm is not `v, err := ConvertGoType(bareword, Number); if err == nil {…} else {…}`", f.name)
		return
	}
	be, ok := unparen(ifs.Cond).(*ast.BinaryExpr)
	var numBranch, strBranch []ast.Stmt
	if ok && (be.Op == token.EQL || be.Op == token.NEQ) {
		var other ast.Expr
		if id, ok := unparen(be.X).(*ast.Ident); ok && f.info.ObjectOf(id) == errObj {
			other = be.Y
		} else if id, ok := unparen(be.Y).(*ast.Ident); ok && f.info.ObjectOf(id) == errObj {
			other = be.X
		}
		if other != nil {
			if tv, ok := f.info.Types[other]; ok && tv.IsNil() {
				eb, ok := ifs.Else.(*ast.BlockStmt)
				if ok {
					if be.Op == token.EQL {
						numBranch, strBranch = ifs.Body.List, eb.List
					} else {
						numBranch, strBranch = eb.List, ifs.Body.List
					}
				}
			}
		}
	}
	if numBranch == nil {
		c.Undecided(rule, key, ifs.Pos(), "%s: the default arm does not branch on the conversion error being nil", f.name)
		return
	}
	nev := f.events(numBranch)
	var stores []c36Ev
	for _, e := range nev {
		if e.kind == "store" {
			stores = append(stores, e)
		}
	}
	if len(stores) != 1 || f.class(stores[0].expr) != "number(bareword)" {
		c.Viol(rule, key, ifs.Pos(), "%s: when the bareword converts to a number the arm does [%s]; it must store the converted float64 once — otherwise JSON numbers come out as strings (or not at all)", f.name, c36Kinds(nev))
		return
	}
	c.OK(rule, key, ifs.Pos(), "%s: default arm stores ConvertGoType(bareword, Number) when it succeeds", f.name)

	// the other branch: true/false/null mapping
	key = which + ":literals"
	sev := f.events(strBranch)
	switch wantMap {
	case "format":
		var st []c36Ev
		for _, e := range sev {
			if e.kind == "store" {
				st = append(st, e)
			}
		}
		if len(st) != 1 || f.class(st[0].expr) != "format(bareword)" {
			c.Viol(rule, key, ifs.Else.Pos(), "%s: a bareword that is not a number must be stored through formatArrayValue(<bareword>) (true/false/null mapping); the arm does [%s]", f.name, c36Kinds(sev))
			return
		}
		c.OK(rule, key, ifs.Else.Pos(), "%s: non-numeric barewords go through formatArrayValue", f.name)
	case "switch":
		tab, pos, ok := f.literalTableOf(strBranch, "string(bareword)", func(list []ast.Stmt) (string, bool) {
			var st []c36Ev
			for _, e := range f.events(list) {
				if e.kind == "store" {
					st = append(st, e)
				}
			}
			if len(st) != 1 {
				return "", false
			}
			return f.class(st[0].expr), true
		})
		if !ok {
			c.Undecided(rule, key, ifs.Else.Pos(), "%s: the non-numeric branch is neither a switch over string(<bareword>) nor a chain of `string(<bareword>) == \"…\"` tests", f.name)
			return
		}
		f.checkLiteralTable("R36c", which, pos, tab, "string(bareword)")
		c.OK(rule, key, pos, "%s: non-numeric barewords go through a true/false/null table (checked by R36c)", f.name)
	}
}

// literalTableOf extracts the literal table from a statement list: one switch
// over the tag, or if / else-if tests `tag == "lit"` (either operand order),
// the statements after the last test being the default.
func (f *c36Fn) literalTableOf(list []ast.Stmt, tagClass string, produced func([]ast.Stmt) (string, bool)) (map[string]string, token.Pos, bool) {
	for _, s := range list {
		if sw, ok := s.(*ast.SwitchStmt); ok && sw.Tag != nil && sw.Init == nil && f.class(sw.Tag) == tagClass {
			return f.literalTable(sw, produced), sw.Pos(), true
		}
	}
	tagEq := func(cond ast.Expr) (string, bool) {
		be, ok := unparen(cond).(*ast.BinaryExpr)
		if !ok || be.Op != token.EQL {
			return "", false
		}
		for _, pr := range [][2]ast.Expr{{be.X, be.Y}, {be.Y, be.X}} {
			if lit, ok := constString(f.info, pr[1]); ok && f.class(pr[0]) == tagClass {
				return lit, true
			}
		}
		return "", false
	}
	tab := map[string]string{}
	var pos token.Pos
	found := false
	var rest []ast.Stmt
	for _, s := range list {
		ifs, ok := s.(*ast.IfStmt)
		if !ok || ifs.Init != nil {
			if found {
				rest = append(rest, s)
			}
			continue
		}
		if _, ok := tagEq(ifs.Cond); !ok {
			if found {
				rest = append(rest, s)
			}
			continue
		}
		if !found {
			pos = ifs.Pos()
		}
		found = true
		rest = nil
		for cur := ifs; cur != nil; {
			lit, ok := tagEq(cur.Cond)
			if !ok {
				return nil, 0, false
			}
			cls, ok := produced(cur.Body.List)
			if !ok {
				cls = "?"
			}
			tab[lit] = cls
			switch e := cur.Else.(type) {
			case *ast.IfStmt:
				cur = e
			case *ast.BlockStmt:
				if cls, ok := produced(e.List); ok {
					tab["<default>"] = cls
				}
				cur = nil
			default:
				cur = nil
			}
		}
	}
	if !found {
		return nil, 0, false
	}
	if len(rest) > 0 {
		if cls, ok := produced(rest); ok {
			tab["<default>"] = cls
		}
	}
	return tab, pos, true
}

// literalTable: const string case -> class of the value produced.
func (f *c36Fn) literalTable(sw *ast.SwitchStmt, produced func([]ast.Stmt) (string, bool)) map[string]string {
	tab := map[string]string{}
	for _, st := range sw.Body.List {
		cc := st.(*ast.CaseClause)
		cls, ok := produced(cc.Body)
		if !ok {
			cls = "?"
		}
		if cc.List == nil {
			tab["<default>"] = cls
			continue
		}
		for _, x := range cc.List {
			if s, ok := constString(f.info, x); ok {
				tab[s] = cls
			} else {
				tab["?"+f.c.src(x)] = cls
			}
		}
	}
	return tab
}

func (f *c36Fn) checkLiteralTable(rule, which string, pos token.Pos, tab map[string]string, wantDefault string) {
	c := f.c
	want := map[string]string{"true": "true", "false": "false", "null": "nil"}
	for _, lit := range []string{"true", "false", "null"} {
		key := which + ":literal:" + lit
		got, ok := tab[lit]
		switch {
		case !ok:
			c.Viol(rule, key, pos, "%s: the bareword %s has no entry in the literal table: it is stored as the string %q, JSON gives %s", which, lit, lit, want[lit])
		case got != want[lit]:
			c.Viol(rule, key, pos, "%s: the bareword %s is mapped to %s, JSON gives %s", which, lit, strings.TrimPrefix(got, "?"), want[lit])
		default:
			c.OK(rule, key, pos, "%s → %s", lit, got)
		}
	}
	var extra []string
	for k, v := range tab {
		if k == "true" || k == "false" || k == "null" {
			continue
		}
		if k == "<default>" {
			continue
		}
		extra = append(extra, k+"→"+v)
	}
	sort.Strings(extra)
	if len(extra) > 0 {
		c.Info("%s %s: further bareword literals beyond JSON: %s", rule, which, strings.Join(extra, ", "))
	}
}

func (c *Ctx) c36Array(f *c36Fn) {
	rule := "R36a"
	// the slice under construction: the []any local handed to NewPrimitive(Array, …) in the end section
	var endLabel string
	for lbl, list := range f.label {
		for _, s := range list {
			ast.Inspect(s, func(n ast.Node) bool {
				call, ok := n.(*ast.CallExpr)
				if ok && callIs(f.info, call, c36Prim, "", "NewPrimitive") && len(call.Args) == 2 && isPkgObj(f.info, call.Args[0], c36Prim, "Array") {
					if id, ok := unparen(call.Args[1]).(*ast.Ident); ok {
						f.slice = f.info.ObjectOf(id)
						endLabel = lbl
					}
				}
				return true
			})
		}
	}
	if f.slice == nil {
		c.Undecided(rule, "array:result", f.fd.Pos(), "parseArray: no labelled exit returns primitives.NewPrimitive(primitives.Array, <slice>); cannot identify the slice the arms must append to")
		return
	}
	c.checkEnd(f, rule, "array", endLabel)
	// non-nil start
	ds := f.defs[f.slice]
	okInit := false
	for _, d := range ds {
		if d.expr != nil {
			switch x := unparen(d.expr).(type) {
			case *ast.CompositeLit:
				okInit = true
			case *ast.CallExpr:
				if _, ok := isBuiltinCall(f.info, x, "make"); ok {
					okInit = true
				}
			}
			break
		}
	}
	c.Check(okInit, rule, "array:init", f.fd.Pos(), "parseArray: the slice must start as a non-nil empty slice ([]any{} / make): declared nil, `%%[]` becomes JSON null instead of []")

	f.checkSub(rule, "array", '"', "parseString", "call:parseString store advance", "string(parseString)", "a JSON string element must be appended as the Go string returned by parseString and the cursor moved past the closing quote")
	f.checkSub(rule, "array", '[', "parseArray", "call:parseArray call:GetValue store advance", "value(parseArray)", "a nested array must be appended as the value the nested parse built (one element), and the cursor moved past its `]`")
	f.checkSub(rule, "array", '{', "parseObject", "call:parseObject call:GetValue store advance", "value(parseObject)", "a nested object must be appended as the value the nested parse built, and the cursor moved past its `}`")

	// ] ends
	if cc, explicit := f.arm(']'); !explicit {
		c.Viol(rule, "array:']'", f.sw.Pos(), "parseArray: no case for ']' — the array never ends")
	} else {
		k := c36Kinds(f.events(cc.Body))
		c.Check(k == "goto:"+endLabel, rule, "array:']'", cc.Pos(), "parseArray: ']' must do nothing but leave for the exit that returns the array (does [%s])", k)
	}
	// separators and whitespace store nothing
	for _, r := range []rune{',', ' ', '\t', '\r', '\n'} {
		key := "array:sep:" + c36Rune(r)
		cc, explicit := f.arm(r)
		if !explicit {
			c.Viol(rule, key, f.sw.Pos(), "parseArray: %s has no case of its own and falls into the bareword arm: `[1, 2]` / pretty-printed JSON gets elements glued to separators", c36Rune(r))
			continue
		}
		bad := c36StoresIn(f, cc.Body)
		c.Check(bad == "", rule, key, cc.Pos(), "parseArray: %s is a JSON separator/whitespace and must not append, end or fail; the arm does %s", c36Rune(r), bad)
	}
	c.c36ScalarStarts(f, rule, "array")
	f.checkScalar(rule, "array", "format")
}

// c36StoresIn: anything in the arm that stores, ends the value or returns.
func c36StoresIn(f *c36Fn, list []ast.Stmt) string {
	var bad []string
	for _, s := range list {
		ast.Inspect(s, func(n ast.Node) bool {
			switch v := n.(type) {
			case *ast.CallExpr:
				switch nm := f.callName(v); nm {
				case "UpdateInterface", "AppendRune", "WriteKeyValuePair", "parseArrayBareword", "parseString", "parseArray", "parseObject":
					bad = append(bad, nm)
				}
				if f.slice != nil {
					if call, ok := isBuiltinCall(f.info, v, "append"); ok && len(call.Args) > 0 {
						if id, ok := unparen(call.Args[0]).(*ast.Ident); ok && f.info.ObjectOf(id) == f.slice {
							bad = append(bad, "append")
						}
					}
				}
			case *ast.BranchStmt:
				if v.Tok == token.GOTO {
					bad = append(bad, "goto "+v.Label.Name)
				}
			case *ast.ReturnStmt:
				bad = append(bad, "return")
			case *ast.IncDecStmt:
				if isField(f.info, v.X, c36ObjT, "stage") {
					bad = append(bad, "stage"+v.Tok.String())
				}
			case *ast.AssignStmt:
				for _, l := range v.Lhs {
					if isField(f.info, l, c36ObjT, "stage") {
						bad = append(bad, "stage"+v.Tok.String())
					}
				}
			}
			return true
		})
	}
	return strings.Join(bad, ", ")
}

// every rune that can begin a JSON number / true / false / null reaches the default arm
func (c *Ctx) c36ScalarStarts(f *c36Fn, rule, which string) {
	for _, r := range "-0123456789tfn" {
		key := which + ":start:" + c36Rune(r)
		cc, explicit := f.arm(r)
		if explicit {
			c.Viol(rule, key, cc.Pos(), "%s: %s has a case of its own (%s); a JSON scalar beginning with it no longer reaches the number/true/false/null arm", f.name, c36Rune(r), c36Kinds(f.events(cc.Body)))
		} else {
			c.OK(rule, key, f.sw.Pos(), "%s: %s reaches the default (scalar) arm", f.name, c36Rune(r))
		}
	}
}

// checkEnd: the labelled exit returns (…, NewPrimitive(kind, built), nil).
func (c *Ctx) checkEnd(f *c36Fn, rule, which, label string) {
	list := f.label[label]
	var ret *ast.ReturnStmt
	for _, s := range list {
		if r, ok := s.(*ast.ReturnStmt); ok {
			ret = r
		}
	}
	key := which + ":result"
	if ret == nil || len(ret.Results) != 3 {
		c.Undecided(rule, key, f.fd.Pos(), "%s: the exit %s does not end in a three-value return", f.name, label)
		return
	}
	tv, ok := f.info.Types[ret.Results[2]]
	if !ok || !tv.IsNil() {
		c.Viol(rule, key, ret.Pos(), "%s: the normal exit returns a non-nil error", f.name)
		return
	}
	// result 1: the NewPrimitive call itself or a variable last assigned from it in the exit section
	res := unparen(ret.Results[1])
	var call *ast.CallExpr
	if cl, ok := res.(*ast.CallExpr); ok {
		call = cl
	} else if id, ok := res.(*ast.Ident); ok {
		o := f.info.ObjectOf(id)
		for _, s := range list {
			if as, ok := s.(*ast.AssignStmt); ok && len(as.Lhs) == 1 && len(as.Rhs) == 1 {
				if l, ok := unparen(as.Lhs[0]).(*ast.Ident); ok && f.info.ObjectOf(l) == o {
					call, _ = unparen(as.Rhs[0]).(*ast.CallExpr)
				}
			}
		}
	}
	if call == nil || !callIs(f.info, call, c36Prim, "", "NewPrimitive") {
		c.Viol(rule, key, ret.Pos(), "%s: the normal exit does not return the primitive built from the parsed elements (returns %s)", f.name, c.src(ret.Results[1]))
		return
	}
	c.OK(rule, key, ret.Pos(), "%s: exit %s returns %s with a nil error", f.name, label, c.src(call))
}

func (c *Ctx) c36Object(f *c36Fn) {
	rule := "R36a"
	// o := newParseObjectT(tree)
	for o, ds := range f.defs {
		if len(ds) == 1 && ds[0].call != nil && callIs(f.info, ds[0].call, mx(c36Pkg), "", "newParseObjectT") {
			f.oObj = o
		}
	}
	var endLabel string
	for lbl, list := range f.label {
		for _, s := range list {
			ast.Inspect(s, func(n ast.Node) bool {
				call, ok := n.(*ast.CallExpr)
				if ok && callIs(f.info, call, c36Prim, "", "NewPrimitive") && len(call.Args) == 2 && isPkgObj(f.info, call.Args[0], c36Prim, "Object") {
					if isField(f.info, call.Args[1], c36ObjT, "obj") {
						if se, ok := unparen(call.Args[1]).(*ast.SelectorExpr); ok {
							if id, ok := unparen(se.X).(*ast.Ident); ok && f.info.ObjectOf(id) == f.oObj {
								endLabel = lbl
							}
						}
					}
				}
				return true
			})
		}
	}
	if f.oObj == nil || endLabel == "" {
		c.Undecided(rule, "object:result", f.fd.Pos(), "parseObject: no labelled exit returns primitives.NewPrimitive(primitives.Object, o.obj) for the o := newParseObjectT(tree) the arms write to; cannot identify what the arms must fill")
		return
	}
	c.checkEnd(f, rule, "object", endLabel)

	f.checkSub(rule, "object", '"', "parseString", "call:parseString call:UpdateInterface store advance", "string(parseString)", "a JSON string (key or value) must be stored as the Go string returned by parseString and the cursor moved past the closing quote")
	f.checkSub(rule, "object", '[', "parseArray", "call:parseArray call:GetValue call:UpdateInterface store advance", "value(parseArray)", "a nested array must be stored as the value the nested parse built, and the cursor moved past its `]`")
	f.checkSub(rule, "object", '{', "parseObject", "call:parseObject call:GetValue call:UpdateInterface store advance", "value(parseObject)", "a nested object must be stored as the value the nested parse built, and the cursor moved past its `}`")

	if cc, explicit := f.arm('}'); !explicit {
		c.Viol(rule, "object:'}'", f.sw.Pos(), "parseObject: no case for '}' — the object never ends")
	} else {
		k := c36Kinds(f.events(cc.Body))
		c.Check(k == "call:WriteKeyValuePair goto:"+endLabel, rule, "object:'}'", cc.Pos(), "parseObject: '}' must write the pending pair and leave for the exit that returns the object (does [%s]); without the write the last pair of every object is lost", k)
	}
	if cc, explicit := f.arm(','); !explicit {
		c.Viol(rule, "object:','", f.sw.Pos(), "parseObject: no case for ',' — pairs are never separated")
	} else {
		k := c36Kinds(f.events(cc.Body))
		c.Check(k == "call:WriteKeyValuePair", rule, "object:','", cc.Pos(), "parseObject: ',' must write the pending pair and nothing else (does [%s])", k)
	}
	// ':' key -> value, only from the key stage
	if cc, explicit := f.arm(':'); !explicit {
		c.Viol(rule, "object:':'", f.sw.Pos(), "parseObject: no case for ':' — it becomes part of a bareword and no value is ever attached to a key")
	} else {
		evs := f.events(cc.Body)
		k := c36Kinds(evs)
		guardOK := false
		for _, e := range evs {
			if e.kind != "guard" {
				continue
			}
			ifs := e.node.(*ast.IfStmt)
			if x, op, kk, ok := cmpNorm(f.info, ifs.Cond); ok && isField(f.info, x, c36ObjT, "stage") {
				p := intPred(op, kk)
				// rejected(stage): the arm fails at this stage
				neg := e.neg
				rejected := func(st int64) bool { return p(st) != neg }
				if !rejected(0) && rejected(1) {
					guardOK = true
				}
			}
		}
		if k == "stage=1" {
			k = "stage++" // from the key stage (guard below) `o.stage = OBJ_STAGE_VALUE` is the same move
		}
		switch {
		case k != "stage++":
			c.Viol(rule, "object:':'", cc.Pos(), "parseObject: ':' must move from the key slot to the value slot (o.stage++) and nothing else; the arm does [%s]", k)
		case !guardOK:
			c.Viol(rule, "object:':'", cc.Pos(), "parseObject: ':' must be rejected unless the parser is in the key stage; unguarded, a second ':' pushes the stage past the value slot (index out of range)")
		default:
			c.OK(rule, "object:':'", cc.Pos(), "':' moves key→value, only from the key stage")
		}
	}
	// whitespace
	for _, r := range []rune{' ', '\t', '\r'} {
		key := "object:ws:" + c36Rune(r)
		cc, explicit := f.arm(r)
		if !explicit {
			c.Viol(rule, key, f.sw.Pos(), "parseObject: %s has no case of its own and falls into the bareword arm", c36Rune(r))
			continue
		}
		bad := c36StoresIn(f, cc.Body)
		c.Check(bad == "", rule, key, cc.Pos(), "parseObject: %s is JSON whitespace and must not store, end a pair or fail; the arm does %s", c36Rune(r), bad)
	}
	// '\n': murex lets a newline end a pair; JSON allows it anywhere between tokens
	{
		key := "object:ws:'\\n'"
		cc, explicit := f.arm('\n')
		if !explicit {
			c.Viol(rule, key, f.sw.Pos(), "parseObject: '\\n' has no case of its own and falls into the bareword arm")
		} else {
			c.c36Newline(f, rule, key, cc)
		}
	}
	c.c36ScalarStarts(f, rule, "object")
	f.checkScalar(rule, "object", "switch")
}

// c36Newline: a newline may end a pair (murex) but JSON also allows it between
// a key, its colon and its value, where WriteKeyValuePair fails ("values
// cannot be undefined"). Every WriteKeyValuePair in the arm must therefore be
// guarded by `!o.IsValueUndefined()`.
func (c *Ctx) c36Newline(f *c36Fn, rule, key string, cc *ast.CaseClause) {
	var bad []string
	nWrites, nGuarded, nOther := 0, 0, 0
	for _, s := range cc.Body {
		walkStack(s, func(n ast.Node, stack []ast.Node) bool {
			switch v := n.(type) {
			case *ast.CallExpr:
				switch nm := f.callName(v); nm {
				case "UpdateInterface", "AppendRune", "parseArrayBareword", "parseString", "parseArray", "parseObject":
					bad = append(bad, nm)
				case "WriteKeyValuePair":
					nWrites++
					guarded, other := false, false
					for i := len(stack) - 2; i >= 0; i-- {
						ifs, ok := stack[i].(*ast.IfStmt)
						if !ok {
							continue
						}
						// only the then-branch counts
						inThen := i+1 < len(stack) && stack[i+1] == ast.Node(ifs.Body)
						if !inThen {
							other = true
							continue
						}
						hit := false
						for _, cj := range conjuncts(ifs.Cond) {
							if u, ok := unparen(cj).(*ast.UnaryExpr); ok && u.Op == token.NOT {
								if call, ok := unparen(u.X).(*ast.CallExpr); ok && f.callName(call) == "IsValueUndefined" {
									hit = true
								}
							}
						}
						if hit {
							guarded = true
						} else {
							other = true
						}
					}
					if guarded {
						nGuarded++
					} else if other {
						nOther++
					}
				}
			case *ast.BranchStmt:
				if v.Tok == token.GOTO {
					bad = append(bad, "goto "+v.Label.Name)
				}
			}
			return true
		})
	}
	switch {
	case len(bad) > 0:
		c.Viol(rule, key, cc.Pos(), "parseObject: '\\n' is JSON whitespace and must not store or end the object; the arm does %s", strings.Join(bad, ", "))
	case nWrites > nGuarded && nOther > 0:
		c.Undecided(rule, key, cc.Pos(), "parseObject: the '\\n' arm writes the pair under a condition that is not `!o.IsValueUndefined()`; cannot tell whether a newline between a key and its value is accepted")
	case nWrites > nGuarded:
		c.Viol(rule, key, cc.Pos(), "parseObject: the '\\n' arm calls WriteKeyValuePair unconditionally; when only the key (or key and ':') has been read it fails with `object values cannot be undefined`, so JSON with a line break between a key, its ':' and its value (`{\"a\":\\n1}`) is rejected although JSON allows whitespace there. The write must be conditional on a value being present (`!o.IsValueUndefined()`)")
	default:
		c.OK(rule, key, cc.Pos(), "'\\n' ends a pair only when a value is present (%d guarded writes)", nGuarded)
	}
}

// ---------------------------------------------------------------- R36b bareword scanner

func (c *Ctx) c36Bareword() {
	rule := "R36b"
	fd, pk := c.MustFunc(rule, c36Pkg, "ParserT", "parseArrayBareword")
	if fd == nil {
		return
	}
	info := pk.TypesInfo
	var loop *ast.ForStmt
	labels := map[string]bool{}
	for _, s := range fd.Body.List {
		switch v := s.(type) {
		case *ast.ForStmt:
			loop = v
		case *ast.LabeledStmt:
			labels[v.Label.Name] = true
		}
	}
	var sw *ast.SwitchStmt
	if loop != nil {
		for _, s := range loop.Body.List {
			if v, ok := s.(*ast.SwitchStmt); ok && v.Tag != nil {
				sw = v
			}
		}
	}
	if sw == nil {
		c.Undecided(rule, "bareword:shape", fd.Pos(), "parseArrayBareword: no rune loop with a `switch r`")
		return
	}
	// stop(r): the clause for r unconditionally leaves for a label outside the loop
	stops := map[rune]string{} // "always" / "sometimes"
	for _, st := range sw.Body.List {
		cc := st.(*ast.CaseClause)
		mode := ""
		if len(cc.Body) > 0 {
			if br, ok := cc.Body[0].(*ast.BranchStmt); ok && (br.Tok == token.GOTO && labels[br.Label.Name]) {
				mode = "always"
			}
		}
		if mode == "" {
			ast.Inspect(cc, func(n ast.Node) bool {
				if br, ok := n.(*ast.BranchStmt); ok && (br.Tok == token.GOTO || br.Tok == token.BREAK) {
					mode = "sometimes"
				}
				if _, ok := n.(*ast.ReturnStmt); ok {
					mode = "sometimes"
				}
				return true
			})
		}
		if cc.List == nil {
			if mode != "" {
				stops[-1] = mode
			}
			continue
		}
		for _, x := range cc.List {
			if v, ok := constInt(info, x); ok {
				if mode != "" {
					stops[rune(v)] = mode
				}
			} else {
				c.Undecided(rule, "bareword:shape", x.Pos(), "parseArrayBareword: non-constant case %s", c.src(x))
				return
			}
		}
	}
	n := 0
	mode := func(r rune) string {
		if m, ok := stops[r]; ok {
			return m
		}
		return stops[-1]
	}
	for _, r := range []rune{',', ' ', '\t', '\r', '\n', ']', '}', ':'} {
		n++
		key := "bareword:stop:" + c36Rune(r)
		switch mode(r) {
		case "always":
			c.OK(rule, key, sw.Pos(), "parseArrayBareword stops at %s", c36Rune(r))
		case "sometimes":
			c.Undecided(rule, key, sw.Pos(), "parseArrayBareword stops at %s only under a condition; cannot tell whether a JSON scalar followed by it ends there", c36Rune(r))
		default:
			c.Viol(rule, key, sw.Pos(), "parseArrayBareword does not stop at %s: the JSON delimiter is swallowed into the scalar before it (`1%s…` is read as one bareword, which is neither a number nor true/false/null)", c36Rune(r), string(r))
		}
	}
	for _, r := range "0123456789-+.eEtrufalsn" {
		n++
		key := "bareword:keep:" + c36Rune(r)
		switch mode(r) {
		case "":
			c.OK(rule, key, sw.Pos(), "parseArrayBareword runs through %s", c36Rune(r))
		case "sometimes":
			c.Undecided(rule, key, sw.Pos(), "parseArrayBareword may stop at %s under a condition; cannot tell whether JSON numbers / true / false / null stay whole", c36Rune(r))
		default:
			c.Viol(rule, key, sw.Pos(), "parseArrayBareword stops at %s, which occurs inside JSON numbers / true / false / null: the scalar is cut in two (e.g. 1e-5, 2.5, false)", c36Rune(r))
		}
	}
	c.MinCount(rule, "bareword scanner runes", n, 30)
}

// ---------------------------------------------------------------- R36c formatArrayValue

func (c *Ctx) c36Format() {
	rule := "R36c"
	fd, pk := c.MustFunc(rule, c36Pkg, "", "formatArrayValue")
	if fd == nil {
		return
	}
	f := &c36Fn{c: c, name: "formatArrayValue", fd: fd, pk: pk, info: pk.TypesInfo}
	f.collectDefs()
	tab, pos, ok := f.literalTableOf(fd.Body.List, "string(param)", func(list []ast.Stmt) (string, bool) {
		if len(list) != 1 {
			return "", false
		}
		rs, ok := list[0].(*ast.ReturnStmt)
		if !ok || len(rs.Results) != 1 {
			return "", false
		}
		return f.class(rs.Results[0]), true
	})
	if !ok {
		c.Undecided(rule, "array:literal:shape", fd.Pos(), "formatArrayValue: neither a switch over string(<parameter>) nor a chain of `string(<parameter>) == \"…\"` tests")
		return
	}
	f.checkLiteralTable(rule, "array", pos, tab, "string(param)")
}

// ---------------------------------------------------------------- R36d number conversion

func (c *Ctx) c36Number() {
	rule := "R36d"
	fd, pk := c.MustFunc(rule, "lang/types", "", "ConvertGoType")
	if fd == nil {
		return
	}
	info := pk.TypesInfo
	// type switch: case []rune -> return goStringRecast(string(t), dataType)
	var ts *ast.TypeSwitchStmt
	for _, s := range fd.Body.List {
		if v, ok := s.(*ast.TypeSwitchStmt); ok {
			ts = v
		}
	}
	var dtParam types.Object
	if ps := fd.Type.Params.List; len(ps) > 0 {
		last := ps[len(ps)-1]
		if len(last.Names) > 0 {
			dtParam = info.Defs[last.Names[len(last.Names)-1]]
		}
	}
	okRune := false
	var pos token.Pos = fd.Pos()
	if ts != nil {
		for _, st := range ts.Body.List {
			cc := st.(*ast.CaseClause)
			for _, x := range cc.List {
				t := info.TypeOf(x)
				sl, ok := t.(*types.Slice)
				if !ok {
					continue
				}
				if b, ok := sl.Elem().Underlying().(*types.Basic); !ok || b.Kind() != types.Int32 {
					continue
				}
				pos = cc.Pos()
				// the arm is `return goStringRecast(string(t), dataType)`, possibly after defining locals
				// (`s := string(t)`) that the call uses
				onlyDefs := len(cc.Body) >= 1
				for _, st := range cc.Body[:max(len(cc.Body)-1, 0)] {
					if as, ok := st.(*ast.AssignStmt); !ok || as.Tok != token.DEFINE {
						onlyDefs = false
					}
				}
				if onlyDefs {
					armDefs := localDefs(info, cc)
					if rs, ok := cc.Body[len(cc.Body)-1].(*ast.ReturnStmt); ok && len(rs.Results) == 1 {
						if call, ok := unparen(rs.Results[0]).(*ast.CallExpr); ok && callIs(info, call, mx("lang/types"), "", "goStringRecast") && len(call.Args) == 2 {
							conv, isConv := armDefs.resolve1(info, call.Args[0]).(*ast.CallExpr)
							id, isID := unparen(call.Args[1]).(*ast.Ident)
							if isConv && isID && info.ObjectOf(id) == dtParam {
								if tv, ok := info.Types[conv.Fun]; ok && tv.IsType() {
									okRune = true
								}
							}
						}
					}
				}
			}
		}
	}
	c.Check(okRune, rule, "ConvertGoType:[]rune", pos, "ConvertGoType must hand a []rune (the bareword the literal parsers pass) to goStringRecast(string(t), dataType); in any other arm a JSON number is not parsed as text")

	fd2, pk2 := c.MustFunc(rule, "lang/types", "", "goStringRecast")
	if fd2 == nil {
		return
	}
	info = pk2.TypesInfo
	var sw *ast.SwitchStmt
	for _, s := range fd2.Body.List {
		if v, ok := s.(*ast.SwitchStmt); ok && v.Tag != nil {
			sw = v
		}
	}
	var arm *ast.CaseClause
	if sw != nil {
		for _, st := range sw.Body.List {
			cc := st.(*ast.CaseClause)
			for _, x := range cc.List {
				if isPkgObj(info, x, mx("lang/types"), "Number") {
					arm = cc
				}
			}
		}
	}
	if arm == nil {
		c.Viol(rule, "goStringRecast:Number", fd2.Pos(), "goStringRecast has no case for types.Number: the literal parsers' numbers fall into the default arm and stay strings")
		return
	}
	// exactly one strconv.ParseFloat(x, 64); the nil-error return gives its result unchanged
	var pf *ast.CallExpr
	npf := 0
	for _, call := range calls(arm, false) {
		if callIs(info, call, "strconv", "", "ParseFloat") {
			pf = call
			npf++
		}
	}
	if npf != 1 || len(pf.Args) != 2 {
		c.Viol(rule, "goStringRecast:Number", arm.Pos(), "goStringRecast's Number arm does not parse with one strconv.ParseFloat call (%d found): the value can differ from what encoding/json builds (float64 via ParseFloat(s, 64))", npf)
		return
	}
	bits, ok := constInt(info, pf.Args[1])
	if !ok || bits != 64 {
		c.Viol(rule, "goStringRecast:Number", pf.Pos(), "goStringRecast's Number arm parses with bitSize %s, encoding/json uses 64: numbers are rounded to float32 precision", c.src(pf.Args[1]))
		return
	}
	// f, err := ParseFloat(...); the last return of the arm returns f, nil
	var fObj types.Object
	ast.Inspect(arm, func(n ast.Node) bool {
		if as, ok := n.(*ast.AssignStmt); ok && len(as.Rhs) == 1 && unparen(as.Rhs[0]) == ast.Expr(pf) && len(as.Lhs) == 2 {
			if id, ok := as.Lhs[0].(*ast.Ident); ok {
				fObj = info.ObjectOf(id)
			}
		}
		return true
	})
	// every return of the arm that reports success (nil error) returns that float64 itself, and there is one
	okRet := false
	if fObj != nil {
		nGood, nBad := 0, 0
		ast.Inspect(arm, func(n ast.Node) bool {
			if _, ok := n.(*ast.FuncLit); ok {
				return false
			}
			rs, ok := n.(*ast.ReturnStmt)
			if !ok {
				return true
			}
			if len(rs.Results) != 2 {
				nBad++
				return true
			}
			if tv, okT := info.Types[rs.Results[1]]; !okT || !tv.IsNil() {
				return true // failure return
			}
			if id, isID := unparen(rs.Results[0]).(*ast.Ident); isID && info.ObjectOf(id) == fObj {
				nGood++
			} else {
				nBad++
			}
			return true
		})
		okRet = nGood > 0 && nBad == 0
	}
	c.Check(okRet, rule, "goStringRecast:Number", pf.Pos(), "goStringRecast's Number arm must return the float64 from strconv.ParseFloat(s, 64) unchanged with a nil error (as encoding/json does); anything else (int truncation, rounding, a different variable) changes JSON numbers")
}

// ---------------------------------------------------------------- R36e key/value assembly

func (c *Ctx) c36Assembly() {
	rule := "R36e"
	pk := c.Pkg(c36Pkg)
	info := pk.TypesInfo
	stageConst := func(e ast.Expr) (int64, bool) { return constInt(info, e) }
	// slot(e): e is o.keyValue[<k>] -> k const or "stage"
	// defs/allowCopy: e may be a local defined once as `&o.keyValue[k]` (or, for reads only, as the
	// copy `o.keyValue[k]`)
	var defs defMap
	allowCopy := false
	slot := func(e ast.Expr) string {
		e = unparen(e)
		if st, ok := e.(*ast.StarExpr); ok {
			e = unparen(st.X)
		}
		if id, ok := e.(*ast.Ident); ok && defs != nil {
			if r := defs.resolve1(info, id); r != ast.Expr(id) {
				if u, ok := r.(*ast.UnaryExpr); ok && u.Op == token.AND {
					e = unparen(u.X)
				} else if allowCopy {
					e = r
				}
			}
		}
		ix, ok := e.(*ast.IndexExpr)
		if !ok || !isField(info, ix.X, c36ObjT, "keyValue") {
			return ""
		}
		if k, ok := stageConst(ix.Index); ok {
			return fmt.Sprint(k)
		}
		if isField(info, ix.Index, c36ObjT, "stage") {
			return "stage"
		}
		return "?"
	}
	// kvField(e): e is o.keyValue[<k>].<field> -> (slot, field)
	kvField := func(e ast.Expr) (string, string) {
		se, ok := unparen(e).(*ast.SelectorExpr)
		if !ok {
			return "", ""
		}
		if v, owner := fieldOf(info, se); v != nil && owner == c36KvT {
			return slot(se.X), v.Name()
		}
		return "", ""
	}

	// --- WriteKeyValuePair
	if fd, _ := c.MustFunc(rule, c36Pkg, "parseObjectT", "WriteKeyValuePair"); fd != nil {
		f := &c36Fn{c: c, name: "WriteKeyValuePair", fd: fd, pk: pk, info: info}
		f.collectDefs()
		var store *ast.AssignStmt
		var resetKV, resetStage bool
		storeIdx, resetIdx := -1, -1
		for i, s := range fd.Body.List {
			as, ok := s.(*ast.AssignStmt)
			if !ok || len(as.Lhs) != 1 || len(as.Rhs) != 1 {
				continue
			}
			if ix, ok := unparen(as.Lhs[0]).(*ast.IndexExpr); ok && isField(info, ix.X, c36ObjT, "obj") {
				store, storeIdx = as, i
			}
			if isField(info, as.Lhs[0], c36ObjT, "keyValue") {
				if cl, ok := unparen(as.Rhs[0]).(*ast.CompositeLit); ok && len(cl.Elts) == 0 {
					resetKV = true
					resetIdx = i
				}
			}
			if isField(info, as.Lhs[0], c36ObjT, "stage") {
				if k, ok := constInt(info, as.Rhs[0]); ok && k == 0 {
					resetStage = true
				}
			}
		}
		if store == nil {
			c.Viol(rule, "WriteKeyValuePair:store", fd.Pos(), "WriteKeyValuePair never assigns o.obj[key] = value at its top level: completed pairs are dropped")
		} else {
			ix := unparen(store.Lhs[0]).(*ast.IndexExpr)
			// key: <k>.(string) with k := result 0 of ConvertGoType(o.keyValue[KEY].Value(), types.String)
			okKey, okVal := false, false
			keySlot, valSlot := "", ""
			keyE := unparen(ix.Index)
			for hop := 0; hop < 4; hop++ {
				// <k>.(string), possibly held in a local defined once
				if ta, ok := keyE.(*ast.TypeAssertExpr); ok {
					keyE = unparen(ta.X)
					continue
				}
				if d, ok := f.def1(keyE); ok && d.call == nil && d.expr != nil {
					keyE = unparen(d.expr)
					continue
				}
				break
			}
			if d, ok := f.def1(keyE); ok && d.call != nil && d.idx == 0 && callIs(info, d.call, mx("lang/types"), "", "ConvertGoType") && len(d.call.Args) == 2 {
				if vc, ok := unparen(d.call.Args[0]).(*ast.CallExpr); ok && callIs(info, vc, mx(c36Pkg), "parseObjectKvT", "Value") {
					if se, ok := unparen(vc.Fun).(*ast.SelectorExpr); ok {
						keySlot = slot(se.X)
						if keySlot == "0" && isPkgObj(info, d.call.Args[1], mx("lang/types"), "String") {
							okKey = true
						}
					}
				}
			}
			valE := unparen(store.Rhs[0])
			if d, ok := f.def1(valE); ok && d.expr != nil {
				valE = unparen(d.expr)
			}
			if vc, ok := valE.(*ast.CallExpr); ok && callIs(info, vc, mx(c36Pkg), "parseObjectKvT", "Value") {
				if se, ok := unparen(vc.Fun).(*ast.SelectorExpr); ok {
					valSlot = slot(se.X)
					okVal = valSlot == "1"
				}
			}
			three := func(ok bool, slotSeen, key, okMsg, badMsg string) {
				switch {
				case ok:
					c.OK(rule, key, store.Pos(), "%s", okMsg)
				case slotSeen == "0" || slotSeen == "1" || slotSeen == "stage":
					c.Viol(rule, key, store.Pos(), "%s", badMsg)
				default:
					c.Undecided(rule, key, store.Pos(), "WriteKeyValuePair: `%s` does not take its operand from a keyValue slot's Value(); cannot tell what is stored", c.src(store))
				}
			}
			three(okKey, keySlot, "WriteKeyValuePair:key", "o.obj is indexed with the KEY slot's Value() converted to a string",
				"WriteKeyValuePair must index o.obj with the KEY slot's Value() converted to a string (ConvertGoType(o.keyValue[OBJ_STAGE_KEY].Value(), types.String)); it uses slot "+keySlot+" / another conversion, so JSON members are filed under the wrong key")
			three(okVal, valSlot, "WriteKeyValuePair:value", "the VALUE slot's Value() is stored",
				"WriteKeyValuePair must store the VALUE slot's Value() (o.keyValue[OBJ_STAGE_VALUE].Value()); it stores slot "+valSlot+", so JSON members get the wrong value")
			c.Check(resetKV && resetStage && resetIdx > storeIdx, rule, "WriteKeyValuePair:reset", store.Pos(), "after storing a pair WriteKeyValuePair must clear both slots (o.keyValue = [2]parseObjectKvT{}) and return to the key stage (o.stage = 0); otherwise the next pair of a JSON object is rejected or inherits the previous value")
		}
	}

	// --- (kv).Value
	if fd, _ := c.MustFunc(rule, c36Pkg, "parseObjectKvT", "Value"); fd != nil {
		// Value returns kv.Interface exactly where (kv.Interface != nil || kv.IsNull) — decided by truth table
		// over the two atoms, for `if C { return A }; return B` and `if C { return A } else { return B }`
		ok1 := false
		var pos token.Pos = fd.Pos()
		isIface := func(e ast.Expr) bool {
			v, owner := fieldOf(info, e)
			return v != nil && owner == c36KvT && v.Name() == "Interface"
		}
		atom := func(e ast.Expr) (string, bool, bool) {
			e = unparen(e)
			if be, ok := e.(*ast.BinaryExpr); ok && (be.Op == token.NEQ || be.Op == token.EQL) {
				for _, pr := range [][2]ast.Expr{{be.X, be.Y}, {be.Y, be.X}} {
					if tv, ok := info.Types[pr[1]]; ok && tv.IsNil() && isIface(pr[0]) {
						return "nn", be.Op == token.EQL, true
					}
				}
			}
			if v, owner := fieldOf(info, e); v != nil && owner == c36KvT && v.Name() == "IsNull" {
				return "null", false, true
			}
			return "", false, false
		}
		single := func(list []ast.Stmt) ast.Expr {
			if len(list) == 1 {
				if rs, ok := list[0].(*ast.ReturnStmt); ok && len(rs.Results) == 1 {
					return rs.Results[0]
				}
			}
			return nil
		}
		if len(fd.Body.List) >= 1 {
			if ifs, ok := fd.Body.List[0].(*ast.IfStmt); ok && ifs.Init == nil {
				pos = ifs.Pos()
				thenE := single(ifs.Body.List)
				var elseE ast.Expr
				if eb, ok := ifs.Else.(*ast.BlockStmt); ok && len(fd.Body.List) == 1 {
					elseE = single(eb.List)
				} else if ifs.Else == nil && len(fd.Body.List) == 2 {
					elseE = single(fd.Body.List[1:])
				}
				if thenE != nil && elseE != nil && isIface(thenE) != isIface(elseE) {
					tab, unk := truthTable(ifs.Cond, []string{"nn", "null"}, atom)
					ok1 = len(unk) == 0
					for m, v := range tab {
						want := m != 0 // nn || null
						if !isIface(thenE) {
							want = !want
						}
						if v != want {
							ok1 = false
						}
					}
				}
			}
		}
		c.Check(ok1, rule, "kv.Value:interface-or-null", pos, "(parseObjectKvT).Value must return kv.Interface whenever it is non-nil OR kv.IsNull is set; without the IsNull alternative a JSON null comes out as the empty string \"\"")
	}

	// --- UpdateInterface
	if fd, _ := c.MustFunc(rule, c36Pkg, "parseObjectT", "UpdateInterface"); fd != nil {
		var vParam types.Object
		if ps := fd.Type.Params.List; len(ps) == 1 && len(ps[0].Names) == 1 {
			vParam = info.Defs[ps[0].Names[0]]
		}
		var setNull, setIface, setFlag bool
		var pos token.Pos = fd.Pos()
		defs, allowCopy = localDefs(info, fd.Body), false
		walkStack(fd.Body, func(n ast.Node, stack []ast.Node) bool {
			as, ok := n.(*ast.AssignStmt)
			if !ok || len(as.Lhs) != 1 || len(as.Rhs) != 1 {
				return true
			}
			sl, fld := kvField(as.Lhs[0])
			if sl != "stage" {
				if sl != "" {
					c.Viol(rule, "UpdateInterface:slot", as.Pos(), "UpdateInterface writes slot %s instead of the slot of the current stage (o.keyValue[o.stage]): keys and values end up in each other's place", sl)
				}
				return true
			}
			// which branch of `if v == nil`?
			branch := ""
			for i := len(stack) - 2; i >= 0; i-- {
				ifs, ok := stack[i].(*ast.IfStmt)
				if !ok {
					continue
				}
				be, ok := unparen(ifs.Cond).(*ast.BinaryExpr)
				if !ok || (be.Op != token.EQL && be.Op != token.NEQ) {
					continue
				}
				isV := false
				for _, pr := range [][2]ast.Expr{{be.X, be.Y}, {be.Y, be.X}} {
					id, ok := unparen(pr[0]).(*ast.Ident)
					tv, okT := info.Types[pr[1]]
					if ok && info.ObjectOf(id) == vParam && okT && tv.IsNil() {
						isV = true
					}
				}
				if !isV {
					continue
				}
				inThen := stack[i+1] == ast.Node(ifs.Body)
				if (be.Op == token.EQL) == inThen {
					branch = "nil"
				} else {
					branch = "non-nil"
				}
				pos = ifs.Pos()
			}
			switch fld {
			case "IsNull":
				if b, ok := constBool(info, as.Rhs[0]); ok && b && branch == "nil" {
					setNull = true
				}
			case "Interface":
				if id, ok := unparen(as.Rhs[0]).(*ast.Ident); ok && info.ObjectOf(id) == vParam && branch != "nil" {
					setIface = true
				}
			case "ValueSet":
				if b, ok := constBool(info, as.Rhs[0]); ok && b && branch == "" {
					setFlag = true
				}
			}
			return true
		})
		c.Check(setNull, rule, "UpdateInterface:null", pos, "UpdateInterface(nil) must record o.keyValue[o.stage].IsNull = true: a nil interface alone is indistinguishable from `no value yet`, so a JSON null is rejected as an undefined value")
		c.Check(setIface, rule, "UpdateInterface:value", pos, "UpdateInterface(v) must store v in o.keyValue[o.stage].Interface")
		defs = nil
		c.Check(setFlag, rule, "UpdateInterface:valueset", pos, "UpdateInterface must mark the slot as set (ValueSet = true) on every path, so that a second token in the same slot is rejected instead of silently replacing the first")
	}

	// --- IsValueUndefined: must count IsNull as defined
	if fd, _ := c.MustFunc(rule, c36Pkg, "parseObjectT", "IsValueUndefined"); fd != nil {
		okNull, okIface := false, false
		var pos token.Pos = fd.Pos()
		// one return of a conjunction, possibly after defining locals for the slot (`val := &o.keyValue[VALUE]`)
		onlyDefs := len(fd.Body.List) >= 1
		for _, st := range fd.Body.List[:max(len(fd.Body.List)-1, 0)] {
			if as, ok := st.(*ast.AssignStmt); !ok || as.Tok != token.DEFINE {
				onlyDefs = false
			}
		}
		if onlyDefs {
			defs, allowCopy = localDefs(info, fd.Body), true
			if rs, ok := fd.Body.List[len(fd.Body.List)-1].(*ast.ReturnStmt); ok && len(rs.Results) == 1 {
				pos = rs.Pos()
				for _, cj := range conjuncts(rs.Results[0]) {
					cj = unparen(cj)
					if u, ok := cj.(*ast.UnaryExpr); ok && u.Op == token.NOT {
						if sl, fld := kvField(u.X); sl == "1" && fld == "IsNull" {
							okNull = true
						}
					}
					if be, ok := cj.(*ast.BinaryExpr); ok && be.Op == token.EQL {
						for _, pr := range [][2]ast.Expr{{be.X, be.Y}, {be.Y, be.X}} {
							if tv, ok := info.Types[pr[1]]; !ok || !tv.IsNil() {
								continue
							}
							if sl, fld := kvField(pr[0]); sl == "1" && fld == "Interface" {
								okIface = true
							}
						}
					}
				}
			}
			defs, allowCopy = nil, false
		}
		c.Check(okNull && okIface, rule, "IsValueUndefined", pos, "IsValueUndefined must be a conjunction over the VALUE slot that includes `Interface == nil` and `!IsNull`; without `!IsNull` every `\"k\": null` is rejected as an undefined value")
	}
}

// ---------------------------------------------------------------- R36f mkarray pre-scan

func (c *Ctx) c36Maker(arr *c36Fn) {
	rule := "R36f"
	f := c.c36Find(rule, "parseArrayMaker")
	if f == nil {
		return
	}
	info := f.info
	// start := tree.charPos (single definition)
	var startObj types.Object
	for o, ds := range f.defs {
		if len(ds) == 1 && ds[0].expr != nil && f.isCharPos(ds[0].expr) {
			if v, ok := o.(*types.Var); ok && !v.IsField() {
				startObj = o
			}
		}
	}
	isStart := func(e ast.Expr) bool {
		id, ok := unparen(e).(*ast.Ident)
		return ok && startObj != nil && info.ObjectOf(id) == startObj
	}
	givesWay := func(rs *ast.ReturnStmt) bool {
		if len(rs.Results) != 3 {
			return false
		}
		tv0, ok0 := info.Types[rs.Results[0]]
		tv2, ok2 := info.Types[rs.Results[2]]
		return ok0 && tv0.IsNil() && ok2 && tv2.IsNil() && isStart(rs.Results[1])
	}
	for _, r := range []rune{'"', '{'} {
		key := "maker:gives-way:" + c36Rune(r)
		cc, explicit := f.arm(r)
		ok := false
		if explicit && len(cc.Body) == 1 {
			if rs, isRet := cc.Body[0].(*ast.ReturnStmt); isRet && givesWay(rs) {
				ok = true
			}
		}
		pos := f.sw.Pos()
		if cc != nil {
			pos = cc.Pos()
		}
		c.Check(ok, rule, key, pos, "parseArrayMaker must return (nil, start, nil) as soon as it meets %s: a JSON string/object element may contain `..`, brackets or anything else, which the pre-scan would otherwise take for mkarray syntax or unbalanced brackets", c36Rune(r))
	}
	// the flag that claims the literal: the bool local tested by `if !flag { return nil, start, nil }` in the exit section
	var flag types.Object
	var claimPos token.Pos = f.fd.Pos()
	for _, list := range f.label {
		for _, s := range list {
			ifs, ok := s.(*ast.IfStmt)
			if !ok || ifs.Else != nil || len(ifs.Body.List) != 1 {
				continue
			}
			rs, ok := ifs.Body.List[0].(*ast.ReturnStmt)
			if !ok || !givesWay(rs) {
				continue
			}
			if u, ok := unparen(ifs.Cond).(*ast.UnaryExpr); ok && u.Op == token.NOT {
				if id, ok := unparen(u.X).(*ast.Ident); ok && flag == nil {
					flag = info.ObjectOf(id)
					claimPos = ifs.Pos()
				}
			}
		}
	}
	if flag == nil {
		c.Undecided(rule, "maker:claim", f.fd.Pos(), "parseArrayMaker: the exit section does not begin with `if !<flag> { return nil, start, nil }`; cannot tell when the pre-scan claims the literal")
	} else {
		// every non-nil-dt return lies after that test (in the same exit section) — by construction of the section order
		okOrder := true
		for _, list := range f.label {
			seenTest := false
			for _, s := range list {
				if ifs, ok := s.(*ast.IfStmt); ok && ifs.Pos() == claimPos {
					seenTest = true
				}
				ast.Inspect(s, func(n ast.Node) bool {
					if rs, ok := n.(*ast.ReturnStmt); ok && len(rs.Results) == 3 {
						if tv, ok := info.Types[rs.Results[0]]; ok && !tv.IsNil() && !seenTest {
							okOrder = false
						}
					}
					return true
				})
			}
		}
		// inside the loop no return has a non-nil dt
		ast.Inspect(f.loop, func(n ast.Node) bool {
			if rs, ok := n.(*ast.ReturnStmt); ok && len(rs.Results) == 3 {
				if tv, ok := info.Types[rs.Results[0]]; ok && !tv.IsNil() {
					okOrder = false
				}
			}
			return true
		})
		c.Check(okOrder, rule, "maker:claim", claimPos, "parseArrayMaker may only return a non-nil array after the `no .. seen` test has let it through; otherwise plain JSON arrays are taken over by mkarray")
		// the flag is set only in the '.' arm under nextChar() == '.'
		okSet := true
		nSet := 0
		walkStack(f.fd.Body, func(n ast.Node, stack []ast.Node) bool {
			as, ok := n.(*ast.AssignStmt)
			if !ok {
				return true
			}
			for i, l := range as.Lhs {
				id, ok := unparen(l).(*ast.Ident)
				if !ok || info.ObjectOf(id) != flag || i >= len(as.Rhs) {
					continue
				}
				if b, isConst := constBool(info, as.Rhs[i]); isConst && !b {
					continue
				}
				nSet++
				inDot, underNext := false, false
				for j := len(stack) - 1; j >= 0; j-- {
					switch v := stack[j].(type) {
					case *ast.CaseClause:
						if f.arms['.'] == v {
							inDot = true
						}
					case *ast.IfStmt:
						if j+1 < len(stack) && stack[j+1] == ast.Node(v.Body) {
							for _, cj := range conjuncts(v.Cond) {
								if be, ok := unparen(cj).(*ast.BinaryExpr); ok && be.Op == token.EQL {
									for _, pr := range [][2]ast.Expr{{be.X, be.Y}, {be.Y, be.X}} {
										call, isCall := unparen(pr[0]).(*ast.CallExpr)
										k, isK := constInt(info, pr[1])
										if isCall && isK && k == '.' && callIs(info, call, mx(c36Pkg), "ParserT", "nextChar") {
											underNext = true
										}
									}
								}
							}
						}
					}
				}
				if !inDot || !underNext {
					okSet = false
				}
			}
			return true
		})
		c.Check(okSet && nSet > 0, rule, "maker:dotdot", claimPos, "parseArrayMaker may set its mkarray flag only on `.` followed by `.`; a single `.` (as in 2.5) or any other rune must not turn a JSON array into a range expression")
	}
	// parseArray: dt != nil → mkarray result; otherwise the scan restarts at the returned position
	if arr != nil {
		okRestart := false
		var pos token.Pos = arr.fd.Pos()
		var posObj types.Object
		for o, ds := range arr.defs {
			if len(ds) == 1 && ds[0].call != nil && ds[0].idx == 1 && arr.isTreeMethod(ds[0].call, "parseArrayMaker") {
				posObj = o
				pos = ds[0].call.Pos()
			}
		}
		for _, s := range arr.fd.Body.List {
			if as, ok := s.(*ast.AssignStmt); ok && len(as.Lhs) == 1 && len(as.Rhs) == 1 && arr.isCharPos(as.Lhs[0]) {
				if id, ok := unparen(as.Rhs[0]).(*ast.Ident); ok && posObj != nil && arr.info.ObjectOf(id) == posObj {
					okRestart = true
				}
			}
			if _, ok := s.(*ast.ForStmt); ok {
				break
			}
		}
		c.Check(okRestart, rule, "parseArray:restart", pos, "after a pre-scan that gave way parseArray must rewind the cursor to the position parseArrayMaker returned (tree.charPos = pos) before its own loop; otherwise the elements the pre-scan walked over are skipped")
	}
}

func runC36(c *Ctx) {
	c.Load(c36Pkg)
	if c.Pkg(c36Pkg) == nil {
		c.Lost("R36a", "pkg:"+c36Pkg, "package not loaded")
		return
	}
	c.Rule("R36a", "token dispatch of parseArray / parseObject: for each JSON token rune the selected arm, reduced to events over resolved callees, is the one JSON needs (string → string(parseString result); [ { → recursion with the same exec flag, nested value stored; ] } → the exit returning NewPrimitive(Array|Object, built); , → separator / pair write; : → o.stage++ from the key stage only; whitespace → nothing stored, cannot fail; runes that start a number/true/false/null → default arm storing ConvertGoType(bareword, Number) on success, the literal mapping otherwise); one cursor advance after each sub-parser; array slice starts non-nil")
	c.Rule("R36b", "parseArrayBareword stops unconditionally at , space TAB CR LF ] } : and at none of 0-9 - + . e E and the letters of true/false/null")
	c.Rule("R36c", "literal tables: formatArrayValue (arrays) and the default arm's switch (objects) both map \"true\"→true, \"false\"→false, \"null\"→nil")
	c.Rule("R36d", "types.ConvertGoType([]rune, Number) = goStringRecast(string(t), dataType) whose Number arm returns strconv.ParseFloat(s, 64) unchanged on success")
	c.Rule("R36e", "object assembly: WriteKeyValuePair stores obj[ConvertGoType(keyValue[KEY].Value(), String)] = keyValue[VALUE].Value() then clears the slots and the stage; Value() returns Interface when non-nil or IsNull; UpdateInterface writes the slot of the current stage, records nil as IsNull, marks ValueSet; IsValueUndefined counts IsNull as defined")
	c.Rule("R36f", "parseArrayMaker returns (nil, start, nil) at the first \" or {, claims the literal only after `..`, and parseArray rewinds to the returned position")
	arr := c.c36Find("R36a", "parseArray")
	if arr != nil {
		c.c36Array(arr)
	}
	obj := c.c36Find("R36a", "parseObject")
	if obj != nil {
		c.c36Object(obj)
	}
	n := 0
	for _, o := range c.Obls {
		if o.Rule == "R36a" {
			n++
		}
	}
	c.MinCount("R36a", "token-dispatch obligations", n, 50)
	c.c36Bareword()
	c.c36Format()
	c.c36Number()
	c.c36Assembly()
	c.c36Maker(arr)
}
