package main

// C39, second half: the structure in package lang that the walks of break.go
// rely on (R39e). All facts are read off go/ssa as stores into fields of
// lang.Process and calls with resolved callees.

import (
	"go/constant"
	"go/token"
	"go/types"

	"golang.org/x/tools/go/ssa"
)

// c39Stores: every store into field `field` of a lang.Process reached through base(x).
func c39Stores(fn *ssa.Function, field string, base func(ssa.Value) bool) (out []*ssa.Store) {
	for _, b := range fn.Blocks {
		for _, in := range b.Instrs {
			st, ok := in.(*ssa.Store)
			if !ok {
				continue
			}
			x, f, ok := c39FieldAddr(st.Addr)
			if ok && f == field && base(x) {
				out = append(out, st)
			}
		}
	}
	return
}

func c39IsLoadOfField(v ssa.Value, of ssa.Value, field string) bool {
	x, f, ok := c39FieldLoad(v)
	return ok && x == of && f == field
}

func c39IsWithCancelResult(v ssa.Value, idx int) bool {
	if ct, ok := v.(*ssa.ChangeType); ok { // context.CancelFunc -> func()
		v = ct.X
	}
	ex, ok := v.(*ssa.Extract)
	if !ok || ex.Index != idx {
		return false
	}
	call, ok := ex.Tuple.(*ssa.Call)
	if !ok {
		return false
	}
	g := c39StaticCallee(&call.Call)
	return g != nil && g.Object() != nil && g.Object().Pkg() != nil && g.Object().Pkg().Path() == "context" && g.Name() == "WithCancel"
}

func (c *Ctx) c39Lang() {
	rule := "R39e"
	c.Rule(rule, "package lang keeps the links the walks follow: (*Process).Fork sets fork.Parent = p and fork.Next = p.Next on every path; a fork without F_FUNCTION shares p.Context and p.Done (cancelling the block cancels the builtin that runs it, which is what its loop tests) and p.Scope; a fork with F_FUNCTION is its own Scope with a fresh cancellable context (break/return stop at the function); compile gives every statement Parent = parent, Scope = parent.Scope, its own cancellable context, and Next = parent for the last statement; executeProcess refuses to start a statement when it or its parent block has been cancelled; KillForks stores the exit number in, and calls Done() on, every process of every fork")
	pk := c.Pkg("lang")
	if pk == nil {
		c.Lost(rule, "pkg:lang", "package lang not loaded")
		return
	}

	// ---- Fork
	if fd, p2 := c.MustFunc(rule, "lang", "Process", "Fork"); fd != nil {
		fn := c.SSAFunc(p2, fd)
		if fn == nil || len(fn.Params) != 2 {
			c.Undecided(rule, "Fork:shape", fd.Pos(), "(*Process).Fork: no SSA body / unexpected parameters")
		} else {
			c39Dumpf(fn)
			p, flags := ssa.Value(fn.Params[0]), ssa.Value(fn.Params[1])
			// the new process: *Fork.Process of a Fork allocated here, or the Process allocated here
			isForkProc := func(v ssa.Value) bool {
				if !c39IsProcPtr(v.Type()) {
					return false
				}
				switch t := v.(type) {
				case *ssa.Alloc:
					return true
				case *ssa.UnOp:
					if fa, ok := t.X.(*ssa.FieldAddr); ok && t.Op == token.MUL {
						if st := structOf(fa.X.Type()); st != nil && namedPath(fa.X.Type()) == mx("lang")+".Fork" && st.Field(fa.Field).Name() == "Process" {
							return true
						}
					}
				}
				return false
			}
			var rets []*ssa.BasicBlock
			for _, b := range fn.Blocks {
				if _, ok := b.Instrs[len(b.Instrs)-1].(*ssa.Return); ok {
					rets = append(rets, b)
				}
			}
			onEveryPath := func(st *ssa.Store) bool {
				for _, r := range rets {
					if !(st.Block() == r || st.Block().Dominates(r)) {
						return false
					}
				}
				return len(rets) > 0
			}
			check1 := func(key, field string, val func(ssa.Value) bool, why string) {
				ok := false
				var pos token.Pos = fd.Pos()
				for _, st := range c39Stores(fn, field, isForkProc) {
					pos = st.Pos()
					if val(st.Val) && onEveryPath(st) {
						ok = true
					}
				}
				c.Check(ok, rule, key, pos, "(*Process).Fork: %s", why)
			}
			check1("Fork:Parent", "Parent", func(v ssa.Value) bool { return v == p },
				"fork.Parent must be the forking process on every path; break/return climb through it, so any other value makes the walk skip or never reach the enclosing block")
			check1("Fork:Next", "Next", func(v ssa.Value) bool { return c39IsLoadOfField(v, p, "Next") },
				"fork.Next must be p.Next on every path; `continue` leaves a nested block through it to cancel the statements that follow the enclosing builtin")
			// the F_FUNCTION split
			var fconst int64 = -1
			if k, ok := pk.Types.Scope().Lookup("F_FUNCTION").(*types.Const); ok {
				if v, ok := constant.Int64Val(constant.ToInt(k.Val())); ok {
					fconst = v
				}
			}
			var split *ssa.If
			funcIdx := 0
			for _, b := range fn.Blocks {
				ifi, ok := b.Instrs[len(b.Instrs)-1].(*ssa.If)
				if !ok {
					continue
				}
				bo, ok := ifi.Cond.(*ssa.BinOp)
				if !ok || (bo.Op != token.NEQ && bo.Op != token.EQL) {
					continue
				}
				and, ok := bo.X.(*ssa.BinOp)
				zero, okz := bo.Y.(*ssa.Const)
				if !ok || !okz || and.Op != token.AND || zero.Value == nil || zero.Int64() != 0 {
					continue
				}
				k, okk := and.Y.(*ssa.Const)
				if and.X != flags || !okk || k.Value == nil || k.Int64() != fconst {
					continue
				}
				// the first such test that owns stores to Scope
				if split == nil {
					split = ifi
					if bo.Op == token.EQL {
						funcIdx = 1
					}
				}
			}
			if split == nil || fconst < 0 {
				c.Undecided(rule, "Fork:split", fd.Pos(), "(*Process).Fork: no `flags&F_FUNCTION != 0` branch found")
			} else {
				fArm, nArm := split.Block().Succs[funcIdx], split.Block().Succs[1-funcIdx]
				inArm := func(st *ssa.Store, arm *ssa.BasicBlock) bool {
					return st.Block() == arm || arm.Dominates(st.Block())
				}
				armCheck := func(key, field string, arm *ssa.BasicBlock, val func(ssa.Value) bool, why string) {
					n, good := 0, 0
					var pos token.Pos = split.Cond.Pos()
					for _, st := range c39Stores(fn, field, isForkProc) {
						if !inArm(st, arm) {
							continue
						}
						n++
						pos = st.Pos()
						if val(st.Val) {
							good++
						}
					}
					c.Check(n > 0 && n == good, rule, key, pos, "(*Process).Fork: %s", why)
				}
				armCheck("Fork:block:Done", "Done", nArm, func(v ssa.Value) bool { return c39IsLoadOfField(v, p, "Done") },
					"a block fork (no F_FUNCTION) must share p.Done: `break` stops at the fork of the named builtin, and only a shared cancel function cancels the builtin whose loop tests p.HasCancelled()")
				armCheck("Fork:block:Context", "Context", nArm, func(v ssa.Value) bool { return c39IsLoadOfField(v, p, "Context") },
					"a block fork (no F_FUNCTION) must share p.Context: statements of the block look at their parent fork's context to know the block was ended")
				armCheck("Fork:block:Scope", "Scope", nArm, func(v ssa.Value) bool { return c39IsLoadOfField(v, p, "Scope") },
					"a block fork (no F_FUNCTION) must keep p.Scope: `return` and the walks' boundary test use p.Scope, which must stay the enclosing function")
				armCheck("Fork:function:Scope", "Scope", fArm, isForkProc,
					"a function fork must be its own Scope: `return` targets p.Scope and the walks stop there; with the caller's scope a `return` ends the calling function")
				armCheck("Fork:function:Context", "Context", fArm, func(v ssa.Value) bool { return c39IsWithCancelResult(v, 0) },
					"a function fork must get a fresh cancellable context: sharing the caller's context lets `return` cancel the caller")
				armCheck("Fork:function:Done", "Done", fArm, func(v ssa.Value) bool { return c39IsWithCancelResult(v, 1) },
					"a function fork must get the cancel function of its own context as Done")
			}
		}
	}

	// ---- compile
	if fd, p2 := c.MustFunc(rule, "lang", "", "compile"); fd != nil {
		fn := c.SSAFunc(p2, fd)
		var parent ssa.Value
		if fn != nil {
			for _, pa := range fn.Params {
				if c39IsProcPtr(pa.Type()) {
					parent = pa
				}
			}
		}
		if fn == nil || parent == nil {
			c.Undecided(rule, "compile:shape", fd.Pos(), "compile: no SSA body / no *Process parameter")
		} else {
			c39Dumpf(fn)
			isElem := func(v ssa.Value) bool {
				_, ok := v.(*ssa.IndexAddr)
				return ok && c39IsProcPtr(v.Type())
			}
			all := func(key, field string, val func(ssa.Value) bool, why string) {
				sts := c39Stores(fn, field, isElem)
				good := 0
				var pos token.Pos = fd.Pos()
				for _, st := range sts {
					pos = st.Pos()
					if val(st.Val) {
						good++
					}
				}
				c.Check(len(sts) > 0 && good == len(sts), rule, key, pos, "compile: %s", why)
			}
			all("compile:Parent", "Parent", func(v ssa.Value) bool { return v == parent },
				"every statement's Parent must be the block that compiles it; break/return/continue start their walk at p.Parent")
			all("compile:Scope", "Scope", func(v ssa.Value) bool { return c39IsLoadOfField(v, parent, "Scope") },
				"every statement's Scope must be parent.Scope; `return` targets p.Scope and the walks stop at its id")
			all("compile:Context", "Context", func(v ssa.Value) bool { return c39IsWithCancelResult(v, 0) },
				"every statement needs its own cancellable context, otherwise cancelling one statement (continue/KillForks) cancels others")
			all("compile:Done", "Done", func(v ssa.Value) bool { return c39IsWithCancelResult(v, 1) },
				"every statement's Done must cancel its own context")
			// Next: at least one store gives the parent (last statement → enclosing block); the others give a sibling element
			sts := c39Stores(fn, "Next", isElem)
			nParent, nSibling, nOther := 0, 0, 0
			var pos token.Pos = fd.Pos()
			for _, st := range sts {
				pos = st.Pos()
				switch {
				case st.Val == parent:
					nParent++
				case isElem(st.Val):
					nSibling++
				default:
					nOther++
				}
			}
			c.Check(nParent > 0 && nSibling > 0 && nOther == 0, rule, "compile:Next", pos, "compile: a statement's Next must be the following statement, and the enclosing block for the last one (found %d×parent, %d×sibling, %d×other); `continue` follows Next to cancel the rest of the iteration and to climb out of nested blocks", nParent, nSibling, nOther)
		}
	}

	// ---- executeProcess: never start a cancelled statement
	if fd, p2 := c.MustFunc(rule, "lang", "", "executeProcess"); fd != nil {
		fn := c.SSAFunc(p2, fd)
		if fn == nil || len(fn.Params) != 1 {
			c.Undecided(rule, "executeProcess:shape", fd.Pos(), "executeProcess: no SSA body")
		} else {
			p := ssa.Value(fn.Params[0])
			// p may live in a heap cell when closures capture it
			isP := func(v ssa.Value) bool {
				if v == p {
					return true
				}
				if u, ok := v.(*ssa.UnOp); ok && u.Op == token.MUL {
					if a, ok := u.X.(*ssa.Alloc); ok {
						for _, r := range *a.Referrers() {
							if st, ok := r.(*ssa.Store); ok && st.Addr == ssa.Value(a) && st.Val != p {
								return false
							}
						}
						return true
					}
				}
				return false
			}
			isParentOfP := func(v ssa.Value) bool {
				x, f, ok := c39FieldLoad(v)
				return ok && f == "Parent" && isP(x)
			}
			// the first real work: ParseStatementParameters
			var work *ssa.BasicBlock
			for _, b := range fn.Blocks {
				for _, in := range b.Instrs {
					// ParseStatementParameters is a package-level func variable
					if call, ok := in.(*ssa.Call); ok && work == nil {
						if u, ok := call.Call.Value.(*ssa.UnOp); ok && u.Op == token.MUL {
							if g, ok := u.X.(*ssa.Global); ok && g.Name() == "ParseStatementParameters" && g.Pkg.Pkg.Path() == mx("lang") {
								work = b
							}
						}
					}
				}
			}
			refuses := func(recv func(ssa.Value) bool) (bool, token.Pos) {
				for _, b := range fn.Blocks {
					ifi, ok := b.Instrs[len(b.Instrs)-1].(*ssa.If)
					if !ok {
						continue
					}
					call, ok := ifi.Cond.(*ssa.Call)
					if !ok || !c39FnIs(c39StaticCallee(&call.Call), "lang", "Process", "HasCancelled") || !recv(call.Call.Args[0]) {
						continue
					}
					// cancelled edge: destroyProcess then return, never the work
					tgt := b.Succs[0]
					destroys := false
					for _, in := range tgt.Instrs {
						if c2, ok := in.(*ssa.Call); ok && c39FnIs(c39StaticCallee(&c2.Call), "lang", "", "destroyProcess") {
							destroys = true
						}
					}
					reach := c39Reach([]*ssa.BasicBlock{tgt}, nil)
					if destroys && work != nil && !reach[work] && (b == work || b.Dominates(work)) {
						return true, call.Pos()
					}
				}
				return false, fd.Pos()
			}
			if work == nil {
				c.Undecided(rule, "executeProcess:shape", fd.Pos(), "executeProcess: no call of ParseStatementParameters found")
			} else {
				ok1, pos1 := refuses(isP)
				c.Check(ok1, rule, "executeProcess:own-cancel", pos1, "executeProcess must destroy, not start, a statement whose own context has been cancelled (p.HasCancelled()) before it parses its parameters: break/KillForks and continue mark the remaining statements this way, so without the test everything after `break` in the block still runs")
				ok2, pos2 := refuses(isParentOfP)
				c.Check(ok2, rule, "executeProcess:parent-cancel", pos2, "executeProcess must destroy, not start, a statement whose parent block has been cancelled (p.Parent.HasCancelled()): loop builtins execute their condition/body again after break and rely on the statements refusing to start")
			}
		}
	}

	// ---- KillForks
	if fd, p2 := c.MustFunc(rule, "lang", "Process", "KillForks"); fd != nil {
		fn := c.SSAFunc(p2, fd)
		if fn == nil || len(fn.Params) != 2 {
			c.Undecided(rule, "KillForks:shape", fd.Pos(), "KillForks: no SSA body")
		} else {
			exitP := ssa.Value(fn.Params[1])
			isElem := func(v ssa.Value) bool {
				_, ok := v.(*ssa.IndexAddr)
				return ok && c39IsProcPtr(v.Type())
			}
			okExit, okDone := false, false
			var pos token.Pos = fd.Pos()
			for _, st := range c39Stores(fn, "ExitNum", isElem) {
				if st.Val == exitP && c39Reach(st.Block().Succs, nil)[st.Block()] {
					okExit = true
					pos = st.Pos()
				}
			}
			for _, b := range fn.Blocks {
				for _, in := range b.Instrs {
					call, ok := in.(*ssa.Call)
					if !ok {
						continue
					}
					if x, f, ok := c39FieldLoad(call.Call.Value); ok && f == "Done" && isElem(x) && c39Reach(b.Succs, nil)[b] {
						okDone = true
					}
				}
			}
			// no way out of the loops other than exhausting them: every return is reached only from range-exhausted edges.
			// (decided weakly: the function has exactly one return)
			nret := 0
			for _, b := range fn.Blocks {
				if _, ok := b.Instrs[len(b.Instrs)-1].(*ssa.Return); ok {
					nret++
				}
			}
			c.Check(okExit, rule, "KillForks:exitnum", pos, "KillForks must store the given exit number in every process of every fork (inside the loops); the last statement's number becomes the block's, which is how `return n` reaches the caller")
			c.Check(okDone, rule, "KillForks:done", pos, "KillForks must call Done() on every process of every fork (inside the loops); otherwise the statements after `break` in the named block keep live contexts")
			c.Check(nret == 1, rule, "KillForks:all", pos, "KillForks must run its loops to the end (single return); an early exit leaves some statements of the block alive")
		}
	}
}
