package main

// C22 — command resolution order; aliases expand once. Anchor: lang.executeProcess.
// Works on go/ssa: the resolution `switch` is a chain of If instructions whose
// conditions are (φ-merged `&&` chains of) the four membership tests; the rule
// is phrased over which test's *false* edge dominates the next test and which
// test's *true* edge dominates each arm — not over case positions in the source.

import (
	"fmt"
	"go/token"

	"golang.org/x/tools/go/ssa"
)

func init() {
	register("C22", "Decides, on the SSA control-flow graph of lang.executeProcess: the four membership tests (PrivateFunctions.Exists, GlobalAliases.Exists, MxFunctions.Exists, GoFunctions[name] != nil) are evaluated on one and the same name value, each is reachable only through the false edge of the previous one in the order private → alias → function → builtin, each arm (private get+Execute, alias Get, function get+Execute, builtin call, external exec) is reachable only through the true edge of its own test (external: false edge of the builtin test); the alias arm is additionally guarded by a loop-carried boolean that is false only on entry, is set true on the alias arm's back edge and is never reset on a path from the alias arm (so one command expands at most one alias); the alias arm re-resolves with name = alias[0] and prepends alias[1:]. Does NOT decide PATH lookup, module visibility of privates, nor what the tables contain.", runC22)
}

// c22Implied lists the branch facts implied by boolean value v being true:
// go/ssa compiles a value-context `a && b && c` into a φ whose edges are the
// constant false from every short-circuit exit and the last operand otherwise.
func c22Implied(v ssa.Value, depth int) []c21Fact {
	if depth > 6 {
		return []c21Fact{{v, true}}
	}
	if w, flip := c21StripNot(v); w != v {
		// !x, x == false, x != true …
		if flip {
			return c22ImpliedFalse(w, depth+1)
		}
		return c22Implied(w, depth+1)
	}
	switch x := v.(type) {
	case *ssa.Phi:
		blk := x.Block()
		var facts []c21Fact
		var rest []ssa.Value
		for i, e := range x.Edges {
			if cb, ok := c21ConstBool(e); ok {
				if cb {
					return []c21Fact{{v, true}} // an `||` shape: not a conjunction
				}
				pred := blk.Preds[i]
				iff, ok := pred.Instrs[len(pred.Instrs)-1].(*ssa.If)
				if !ok {
					return []c21Fact{{v, true}}
				}
				cond, flip := c21StripNot(iff.Cond)
				// the edge pred→blk carries `false`; v true ⇒ the other edge was taken
				takenTrue := pred.Succs[0] != blk
				facts = append(facts, c22ImpliedIf(cond, takenTrue != flip, depth+1)...)
				continue
			}
			rest = append(rest, e)
		}
		if len(rest) != 1 {
			return []c21Fact{{v, true}}
		}
		return append(facts, c22Implied(rest[0], depth+1)...)
	}
	return []c21Fact{{v, true}}
}

func c22ImpliedIf(cond ssa.Value, truth bool, depth int) []c21Fact {
	if truth {
		return c22Implied(cond, depth)
	}
	return c22ImpliedFalse(cond, depth)
}

// c22ImpliedFalse lists the branch facts implied by boolean value v being
// false. A value-context `a || b || c` is a φ whose edges are the constant true
// from every short-circuit exit and the last operand otherwise: it is false only
// when every operand is false (De Morgan: `!(a || b)` ≡ `!a && !b`).
func c22ImpliedFalse(v ssa.Value, depth int) []c21Fact {
	if depth > 6 {
		return []c21Fact{{v, false}}
	}
	if w, flip := c21StripNot(v); w != v {
		if flip {
			return c22Implied(w, depth+1)
		}
		return c22ImpliedFalse(w, depth+1)
	}
	x, ok := v.(*ssa.Phi)
	if !ok {
		return []c21Fact{{v, false}}
	}
	blk := x.Block()
	var facts []c21Fact
	var rest []ssa.Value
	for i, e := range x.Edges {
		if cb, ok := c21ConstBool(e); ok {
			if !cb {
				return []c21Fact{{v, false}} // an `&&` shape: not a disjunction
			}
			pred := blk.Preds[i]
			iff, ok := pred.Instrs[len(pred.Instrs)-1].(*ssa.If)
			if !ok {
				return []c21Fact{{v, false}}
			}
			cond, flip := c21StripNot(iff.Cond)
			// the edge pred→blk carries `true`; v false ⇒ the other edge was taken
			takenTrue := pred.Succs[0] != blk
			facts = append(facts, c22ImpliedIf(cond, takenTrue != flip, depth+1)...)
			continue
		}
		rest = append(rest, e)
	}
	if len(rest) != 1 {
		return []c21Fact{{v, false}}
	}
	return append(facts, c22ImpliedFalse(rest[0], depth+1)...)
}

// c22CaseIf finds the If instruction whose true edge implies `test` == true.
func c22CaseIf(fn *ssa.Function, test ssa.Value) (iff *ssa.If, implied []c21Fact, n int) {
	for _, b := range fn.Blocks {
		if len(b.Instrs) == 0 {
			continue
		}
		i, ok := b.Instrs[len(b.Instrs)-1].(*ssa.If)
		if !ok {
			continue
		}
		cond, flip := c21StripNot(i.Cond)
		if flip {
			continue
		}
		if cond == test {
			// the test is itself a conjunct evaluated in control context; the
			// case's own If is the one whose φ-condition implies it. Only count
			// it when no such φ exists (single-conjunct case).
			continue
		}
		fs := c22Implied(cond, 0)
		for _, f := range fs {
			if f.Cond == test && f.True {
				iff, implied = i, fs
				n++
			}
		}
	}
	if n == 0 {
		// single-conjunct case: the test is the If condition
		for _, b := range fn.Blocks {
			if len(b.Instrs) == 0 {
				continue
			}
			if i, ok := b.Instrs[len(b.Instrs)-1].(*ssa.If); ok && i.Cond == test {
				iff, implied = i, []c21Fact{{test, true}}
				n++
			}
		}
	}
	return
}

type c22Test struct {
	kind string
	val  ssa.Value // the boolean test value
	name ssa.Value // the name operand
	pos  token.Pos
	iff  *ssa.If
	impl []c21Fact
	// accept: the edges on which the case's whole guard holds; reject: the
	// edges on which some conjunct of the guard failed
	accept, reject [][2]*ssa.BasicBlock
}

// c22CaseEdges derives the accepting and rejecting CFG edges of a case from
// the If found by c22CaseIf. Two compilations of `a && b && c` are recognised:
// value context (tagless switch: one If on a φ) and control context (if / else
// if: a chain of Ifs that share their false target).
func c22CaseEdges(t *c22Test, armBlocks map[*ssa.BasicBlock]bool) {
	blk := t.iff.Block()
	cond, flip := c21StripNot(t.iff.Cond)
	ti, fi := 0, 1
	if flip {
		ti, fi = 1, 0
	}
	if cond != t.val {
		// value context: the φ carries the whole conjunction
		t.accept = [][2]*ssa.BasicBlock{{blk, blk.Succs[ti]}}
		t.reject = [][2]*ssa.BasicBlock{{blk, blk.Succs[fi]}}
		return
	}
	// control context
	E := blk.Succs[fi]
	t.reject = append(t.reject, [2]*ssa.BasicBlock{blk, E})
	last := func(b *ssa.BasicBlock) *ssa.If {
		if len(b.Instrs) == 0 {
			return nil
		}
		i, _ := b.Instrs[len(b.Instrs)-1].(*ssa.If)
		return i
	}
	// earlier conjuncts
	for up := blk; len(up.Preds) == 1; {
		P := up.Preds[0]
		iff := last(P)
		if iff == nil {
			break
		}
		cnd, fl := c21StripNot(iff.Cond)
		switch {
		case P.Succs[0] == up && P.Succs[1] == E:
			t.impl = append(t.impl, c22ImpliedIf(cnd, !fl, 0)...)
		case P.Succs[1] == up && P.Succs[0] == E:
			t.impl = append(t.impl, c22ImpliedIf(cnd, fl, 0)...)
		default:
			iff = nil
		}
		if iff == nil {
			break
		}
		t.reject = append(t.reject, [2]*ssa.BasicBlock{P, E})
		up = P
	}
	// later conjuncts
	prev, cur := blk, blk.Succs[ti]
	for len(cur.Preds) == 1 && !armBlocks[cur] {
		iff := last(cur)
		if iff == nil {
			break
		}
		cnd, fl := c21StripNot(iff.Cond)
		var next *ssa.BasicBlock
		switch {
		case cur.Succs[1] == E:
			t.impl = append(t.impl, c22ImpliedIf(cnd, !fl, 0)...)
			next = cur.Succs[0]
		case cur.Succs[0] == E:
			t.impl = append(t.impl, c22ImpliedIf(cnd, fl, 0)...)
			next = cur.Succs[1]
		}
		if next == nil {
			break
		}
		t.reject = append(t.reject, [2]*ssa.BasicBlock{cur, E})
		prev, cur = cur, next
	}
	t.accept = [][2]*ssa.BasicBlock{{prev, cur}}
}

// c22ReachableWithout: target is reachable from the function entry when the
// given CFG edges are removed.
func c22ReachableWithout(fn *ssa.Function, target *ssa.BasicBlock, removed [][2]*ssa.BasicBlock) bool {
	rm := map[[2]*ssa.BasicBlock]bool{}
	for _, e := range removed {
		rm[e] = true
	}
	seen := map[*ssa.BasicBlock]bool{}
	var dfs func(b *ssa.BasicBlock) bool
	dfs = func(b *ssa.BasicBlock) bool {
		if b == target {
			return true
		}
		if seen[b] {
			return false
		}
		seen[b] = true
		for _, s := range b.Succs {
			if rm[[2]*ssa.BasicBlock{b, s}] {
				continue
			}
			if dfs(s) {
				return true
			}
		}
		return false
	}
	return dfs(fn.Blocks[0])
}

func runC22(c *Ctx) {
	c.Load("lang")
	pk := c.Pkg("lang")
	if pk == nil {
		c.Lost("R22a", "pkg:lang", "package lang not loaded")
		return
	}
	c.SSAPkg("lang")
	c.Rule("R22a", "executeProcess: the tests PrivateFunctions.Exists(name,…), GlobalAliases.Exists(name), MxFunctions.Exists(name), GoFunctions[name] != nil read the same name value; test k+1 is reachable only through the false edge of the case guarded by test k (private → alias → function → builtin); every arm is reachable only through the true edge of its own test; the external `exec` call is reachable only through the false edge of the builtin test")
	c.Rule("R22b", "alias guard: the alias case is additionally guarded by `B == false` for a loop-carried boolean B (φ at the re-resolution label) whose incoming values are: false only from blocks the alias arm cannot reach, true on the alias arm's back edge, and B itself (or true) on every other edge reachable from the alias arm")
	c.Rule("R22c", "alias expansion: the alias arm reads alias := GlobalAliases.Get(name) with the tested name, jumps back to the re-resolution label with name = alias[0], sets p.Name to alias[0] and prepends exactly alias[1:] to the parameters")
	fd, _ := c.MustFunc("R22a", "lang", "", "executeProcess")
	if fd == nil {
		return
	}
	fn := c.SSAFunc(pk, fd)
	if fn == nil {
		c.Lost("R22a", "ssa:executeProcess", "no SSA for executeProcess")
		return
	}
	c21Dump(fn)
	proc := c21ParamOfType(fn, c21ProcessT)

	isGlobal := func(v ssa.Value, name string) bool {
		if g, ok := v.(*ssa.Global); ok {
			return g.Name() == name
		}
		if a, ok := c21Load(v); ok {
			if g, ok := a.(*ssa.Global); ok {
				return g.Name() == name
			}
		}
		return false
	}

	// ---- collect tests and arm anchors
	tests := map[string]*c22Test{}
	type armSite struct {
		in   ssa.Instruction
		name ssa.Value
	}
	arms := map[string][]armSite{}
	dup := map[string]int{}
	for _, b := range fn.Blocks {
		for _, in := range b.Instrs {
			switch x := in.(type) {
			case *ssa.Call:
				args := c21CallArgs(x)
				switch {
				case c21IsCallTo(x, mx("lang"), "privateFunctions", "Exists") && isGlobal(args[0], "PrivateFunctions"):
					tests["private"] = &c22Test{kind: "private", val: x, name: args[1], pos: x.Pos()}
					dup["private"]++
				case c21IsCallTo(x, mx("lang"), "Aliases", "Exists") && isGlobal(args[0], "GlobalAliases"):
					tests["alias"] = &c22Test{kind: "alias", val: x, name: args[1], pos: x.Pos()}
					dup["alias"]++
				case c21IsCallTo(x, mx("lang"), "MurexFuncs", "Exists") && isGlobal(args[0], "MxFunctions"):
					tests["function"] = &c22Test{kind: "function", val: x, name: args[1], pos: x.Pos()}
					dup["function"]++
				case c21IsCallTo(x, mx("lang"), "privateFunctions", "get") && isGlobal(args[0], "PrivateFunctions"):
					arms["private"] = append(arms["private"], armSite{x, args[1]})
				case c21IsCallTo(x, mx("lang"), "Aliases", "Get") && isGlobal(args[0], "GlobalAliases"):
					arms["alias"] = append(arms["alias"], armSite{x, args[1]})
				case c21IsCallTo(x, mx("lang"), "MurexFuncs", "get") && isGlobal(args[0], "MxFunctions"):
					arms["function"] = append(arms["function"], armSite{x, args[1]})
				default:
					// dynamic call through GoFunctions[...]
					cc := x.Common()
					if cc.IsInvoke() || cc.StaticCallee() != nil {
						continue
					}
					if lk, ok := cc.Value.(*ssa.Lookup); ok && isGlobal(lk.X, "GoFunctions") {
						if s, isC := c21ConstString(lk.Index); isC {
							if s == "exec" {
								arms["external"] = append(arms["external"], armSite{x, nil})
							}
						} else {
							arms["builtin"] = append(arms["builtin"], armSite{x, lk.Index})
						}
					}
				}
			case *ssa.BinOp:
				// GoFunctions[name] != nil, either operand order
				if x.Op != token.NEQ {
					continue
				}
				tested := x.X
				switch {
				case c21IsNilConst(x.Y):
				case c21IsNilConst(x.X):
					tested = x.Y
				default:
					continue
				}
				if lk, ok := tested.(*ssa.Lookup); ok && isGlobal(lk.X, "GoFunctions") && !lk.CommaOk {
					if _, isC := c21ConstString(lk.Index); !isC {
						tests["builtin"] = &c22Test{kind: "builtin", val: x, name: lk.Index, pos: x.Pos()}
						dup["builtin"]++
					}
				}
			}
		}
	}
	order := []string{"private", "alias", "function", "builtin"}
	complete := true
	for _, k := range order {
		t := tests[k]
		if t == nil {
			c.Lost("R22a", "test:"+k, "executeProcess no longer contains the %s membership test in a recognised form (PrivateFunctions.Exists / GlobalAliases.Exists / MxFunctions.Exists / GoFunctions[name] != nil) — the resolution order cannot be read", k)
			complete = false
			continue
		}
		if dup[k] != 1 {
			c.Undecided("R22a", "test:"+k, t.pos, "executeProcess evaluates the %s membership test %d times — the single-switch shape this rule reads is gone", k, dup[k])
			complete = false
			continue
		}
		var n int
		t.iff, t.impl, n = c22CaseIf(fn, t.val)
		if n != 1 {
			c.Undecided("R22a", "test:"+k, t.pos, "the %s membership test guards %d branch instructions (expected exactly one case of the resolution switch) — shape not recognised", k, n)
			complete = false
			continue
		}
		c.OK("R22a", "test:"+k, t.pos, "%s test %s guards one case", k, c21Desc(t.val))
	}
	if !complete {
		return
	}

	// ---- same name value
	nameV := tests["private"].name
	same := true
	for _, k := range order {
		if tests[k].name != nameV {
			same = false
		}
	}
	_, isPhi := nameV.(*ssa.Phi)
	c.Check(same, "R22a", "name:tests-same-value", tests["alias"].pos, "all four membership tests read one and the same name value (a stale copy in one test would resolve a re-written alias target against the wrong table)")

	// ---- accept / reject edges of every case
	armBlocks := map[*ssa.BasicBlock]bool{}
	for _, ss := range arms {
		for _, s := range ss {
			armBlocks[s.in.Block()] = true
		}
	}
	for _, k := range order {
		c22CaseEdges(tests[k], armBlocks)
	}

	// ---- order: T(k+1) is reachable only through a rejecting edge of case k
	for i := 0; i+1 < len(order); i++ {
		a, b := tests[order[i]], tests[order[i+1]]
		bBlock := b.val.(ssa.Instruction).Block()
		ok := !c22ReachableWithout(fn, bBlock, a.reject)
		c.Check(ok, "R22a", "order:"+a.kind+"<"+b.kind, b.pos, "the %s test is evaluated only after the %s case was rejected (reachable only through the false outcome of the %s guard) — otherwise a %s shadows a %s of the same name, against the documented precedence private → alias → function → builtin → external", b.kind, a.kind, a.kind, b.kind, a.kind)
	}

	// ---- arms: only through the accepting edge of the own test
	armNames := []string{"private", "alias", "function", "builtin", "external"}
	for _, k := range armNames {
		sites := arms[k]
		if len(sites) == 0 {
			c.Lost("R22a", "arm:"+k, "executeProcess has no recognisable %s arm (get/Get call, GoFunctions[name](p), GoFunctions[\"exec\"](p))", k)
			continue
		}
		for i, s := range sites {
			key := "arm:" + k
			if i > 0 {
				key += fmt.Sprintf("#%d", i+1)
			}
			var t *c22Test
			var edges [][2]*ssa.BasicBlock
			edge := "true"
			if k == "external" {
				t, edge = tests["builtin"], "false"
				edges = t.reject
			} else {
				t = tests[k]
				edges = t.accept
			}
			ok := !c22ReachableWithout(fn, s.in.Block(), edges)
			c.Check(ok, "R22a", key, s.in.Pos(), "the %s arm (%s) runs only on the %s outcome of the %s guard", k, c21Desc(s.in.(ssa.Value)), edge, t.kind)
			if s.name != nil {
				c.Check(s.name == nameV, "R22a", key+":name", s.in.Pos(), "the %s arm looks up the very name value that was tested", k)
			}
		}
	}
	// private: the module is the caller's (p.FileRef of the process parameter) in both test and arm
	fileRefOfP := func(v ssa.Value) bool {
		a, ok := c21Load(v)
		if !ok {
			return false
		}
		b, ow, f, ok := c21Field(a)
		return ok && ow == c21ProcessT && f == "FileRef" && c21Origin(b) == ssa.Value(proc)
	}
	if call, ok := tests["private"].val.(*ssa.Call); ok {
		args := c21CallArgs(call)
		c.Check(len(args) == 3 && fileRefOfP(args[2]), "R22a", "private:module-of-caller", call.Pos(), "PrivateFunctions.Exists is asked with the calling process's own FileRef (the caller's module)")
	}
	for _, s := range arms["private"] {
		args := c21CallArgs(s.in.(ssa.CallInstruction))
		c.Check(len(args) == 3 && fileRefOfP(args[2]), "R22a", "private:get-module-of-caller", s.in.Pos(), "PrivateFunctions.get is asked with the calling process's own FileRef")
	}

	// ------------------------------------------------------------ R22b
	at := tests["alias"]
	var guard *ssa.Phi
	var nonPhiGuard ssa.Value
	for _, f := range at.impl {
		if f.Cond == at.val {
			continue
		}
		if !f.True {
			if ph, ok := f.Cond.(*ssa.Phi); ok && ph.Type().Underlying().String() == "bool" {
				guard = ph
			} else if f.Cond.Type().Underlying().String() == "bool" {
				nonPhiGuard = f.Cond
			}
		}
	}
	aliasArm := arms["alias"]
	switch {
	case len(aliasArm) == 0:
		// reported above
	case guard == nil && nonPhiGuard != nil:
		if _, isConst := nonPhiGuard.(*ssa.Const); isConst {
			c.Viol("R22b", "alias-guard", at.pos, "the alias case's once-only guard is the constant %s at the test (never set on the alias arm, or reset at the re-resolution label) — an alias that names itself (`alias ls=ls -l`) expands for ever", c21Desc(nonPhiGuard))
		} else {
			c.Undecided("R22b", "alias-guard", at.pos, "the alias case is guarded by !(%s), which is not a loop-carried local boolean — once-only expansion cannot be read off this shape", c21Desc(nonPhiGuard))
		}
	case guard == nil:
		c.Viol("R22b", "alias-guard", at.pos, "the alias case has no negated boolean conjunct: nothing stops `goto executeProcess` from expanding the alias again — an alias that names its own target (`alias ls=ls -l`) loops for ever")
	default:
		armBlk := aliasArm[0].in.Block()
		hdr := guard.Block()
		if !isPhi || nameV.(*ssa.Phi).Block() != hdr {
			c.Undecided("R22b", "alias-guard:label", at.pos, "the guard and the resolved name are not φ-nodes of the same re-resolution label")
		}
		c.Check(hdr.Dominates(at.val.(ssa.Instruction).Block()), "R22b", "alias-guard:dominates", at.pos, "the guard φ sits at a label that dominates the alias test")
		nBack := 0
		for i, e := range guard.Edges {
			pred := hdr.Preds[i]
			fromArm := armBlk.Dominates(pred)
			reach := c21Reaches(armBlk, pred, nil)
			key := fmt.Sprintf("alias-guard:edge[%s]", c22EdgeRole(fromArm, reach))
			cb, isConst := c21ConstBool(e)
			switch {
			case fromArm:
				nBack++
				c.Check(isConst && cb, "R22b", key, c.c21Pos(pred.Instrs[len(pred.Instrs)-1]), "on the alias arm's jump back to the re-resolution label the guard is %s; it must be the constant true — otherwise the rewritten name is matched against the alias table again (self-referencing aliases never terminate, chained aliases expand twice)", c21Desc(e))
			case reach:
				c.Check(e == ssa.Value(guard) || (isConst && cb), "R22b", c21KeySetGlobal.uniq(key), c.c21Pos(pred.Instrs[len(pred.Instrs)-1]), "on a jump back that the alias arm can reach the guard is %s; it must be preserved (or true) — a reset to false re-enables alias expansion", c21Desc(e))
			default:
				c.Check(isConst && !cb, "R22b", c21KeySetGlobal.uniq(key), c.c21Pos(pred.Instrs[len(pred.Instrs)-1]), "on entry to the re-resolution label the guard is %s; it must be the constant false — otherwise aliases are never expanded and a function/builtin/external of the same name wins over the alias", c21Desc(e))
			}
		}
		c.Check(nBack >= 1, "R22b", "alias-guard:back-edge", at.pos, "the alias arm jumps back to the re-resolution label (%d back edges) so that the alias target is itself resolved (private/function/builtin/external)", nBack)
	}

	// ------------------------------------------------------------ R22c
	for i, s := range aliasArm {
		sfx := ""
		if i > 0 {
			sfx = fmt.Sprintf("#%d", i+1)
		}
		get := s.in.(*ssa.Call)
		isElem0 := func(v ssa.Value) bool {
			a, ok := c21Load(v)
			if !ok {
				return false
			}
			ia, ok := a.(*ssa.IndexAddr)
			if !ok || ia.X != ssa.Value(get) {
				return false
			}
			k, ok := c21ConstInt(ia.Index)
			return ok && k == 0
		}
		// new name on the back edge
		if ph, ok := nameV.(*ssa.Phi); ok {
			found := false
			for j, e := range ph.Edges {
				if get.Block().Dominates(ph.Block().Preds[j]) {
					found = true
					c.Check(isElem0(e), "R22c", "alias:name=alias[0]"+sfx, get.Pos(), "after alias expansion the name that is re-resolved is %s; it must be element 0 of GlobalAliases.Get(name)", c21Desc(e))
				}
			}
			if !found {
				c.Viol("R22c", "alias:name=alias[0]"+sfx, get.Pos(), "the alias arm does not jump back to the re-resolution label — the alias target is never resolved")
			}
		} else {
			c.Undecided("R22c", "alias:name=alias[0]"+sfx, get.Pos(), "the resolved name is not a φ at a re-resolution label")
		}
		// p.Name.Set(alias[0]) and p.Parameters.Prepend(alias[1:]) in the arm
		okSet, okPre, nPre := false, false, 0
		for _, b := range fn.Blocks {
			if !get.Block().Dominates(b) {
				continue
			}
			for _, in := range b.Instrs {
				call, ok := in.(*ssa.Call)
				if !ok {
					continue
				}
				args := c21CallArgs(call)
				if c21IsCallTo(call, mx("lang/process"), "Name", "Set") && len(args) == 2 && isElem0(args[1]) {
					if bse, ow, f, ok := c21Field(args[0]); ok && ow == c21ProcessT && f == "Name" && c21Origin(bse) == ssa.Value(proc) {
						okSet = true
					}
				}
				if c21IsCallTo(call, mx("lang/parameters"), "Parameters", "Prepend") && len(args) == 2 {
					if bse, ow, f, ok := c21Field(args[0]); ok && ow == c21ProcessT && f == "Parameters" && c21Origin(bse) == ssa.Value(proc) {
						nPre++
						if sl, ok := args[1].(*ssa.Slice); ok && sl.X == ssa.Value(get) && (sl.High == nil || c22IsLenOf(sl.High, get)) && sl.Max == nil && sl.Low != nil {
							if k, ok := c21ConstInt(sl.Low); ok && k == 1 {
								okPre = true
							}
						}
					}
				}
			}
		}
		c.Check(okSet, "R22c", "alias:p.Name=alias[0]"+sfx, get.Pos(), "the alias arm renames the process to alias[0]")
		c.Check(okPre && nPre == 1, "R22c", "alias:prepend=alias[1:]"+sfx, get.Pos(), "the alias arm prepends exactly alias[1:] to the parameters, once (%d Prepend calls) — alias[0:] would pass the command name to itself as an argument, alias[2:] would drop one", nPre)
	}
	c.MinCount("R22a", "membership tests in executeProcess", len(tests), 4)
	c.MinCount("R22c", "alias arms", len(aliasArm), 1)
}

// c22IsLenOf: v is len(x).
func c22IsLenOf(v, x ssa.Value) bool {
	call, ok := v.(*ssa.Call)
	if !ok {
		return false
	}
	bi, ok := call.Common().Value.(*ssa.Builtin)
	return ok && bi.Name() == "len" && len(call.Common().Args) == 1 && call.Common().Args[0] == x
}

var c21KeySetGlobal = c21KeySet{}

func c22EdgeRole(fromArm, reach bool) string {
	switch {
	case fromArm:
		return "alias-arm"
	case reach:
		return "other-loop"
	}
	return "entry"
}
